(* C17 — proofs *)
From Coq Require Import ZArith List Bool Lia.
Import ListNotations.
From Cffi Require Import C17.Model.
Open Scope Z_scope.

Lemma zcmp_swap o a b : zcmp (swap o) b a = zcmp o a b.
Proof. destruct o; cbn; auto; rewrite Z.eqb_sym; reflexivity. Qed.

(* the regenerated pointer branch compares the two addresses as unsigned numbers, operator by operator *)
Lemma ptr_cmp_zcmp op a b : ptr_cmp ptr_branch op a b = zcmp op a b.
Proof. destruct op; reflexivity. Qed.

Lemma swap_invol o : swap (swap o) = o.
Proof. destruct o; reflexivity. Qed.

Section Proofs.
Variable pyval : Type.
Variable py_cmp : cmpop -> pyval -> pyval -> res.
Variable py_hash : pyval -> hres.

(* CPython's own contract on the non-cdata values involved *)
Hypothesis py_eq_hash : forall x y, py_cmp OEq x y = RBool true -> py_hash x = py_hash y.

Notation obj := (obj pyval).
Notation value := (value pyval).
Notation richcompare := (richcompare pyval py_cmp).
Notation hash := (hash pyval py_hash).

(* objects with the same identity are the same object *)
Definition wf_pair (a b : obj) : Prop := oid a = oid b -> oval a = oval b.

Ltac brk :=
  repeat match goal with
  | |- context [match ?x with _ => _ end] => destruct x eqn:?
  | H : context [match ?x with _ => _ end] |- _ => destruct x eqn:?
  end.

(* ---- pointer-like cdata: all six operators are the comparison of the addresses, whatever the
        Python types of the two objects (hence whichever slot CPython tries first) *)
Lemma ptr_compare ia ib ta tb a b op :
  richcompare (Build_obj ia (VPtr ta a)) (Build_obj ib (VPtr tb b)) op = RBool (zcmp op a b).
Proof.
  unfold Model.richcompare, reflected_first; cbn.
  destruct (proper_subtype tb ta); cbn; rewrite !ptr_cmp_zcmp, ?zcmp_swap; reflexivity.
Qed.

Lemma ptr_hash ia t a : hash (Build_obj ia (VPtr t a)) = HOk (hash_pointer a).
Proof. reflexivity. Qed.

(* ---- primitive cdata: compare and hash as the Python value they convert to *)
Lemma prim_py_compare ia ib sa x y op :
  richcompare (Build_obj ia (VPrim sa (CvVal x))) (Build_obj ib (VPy y)) op = py_cmp op x y.
Proof.
  unfold Model.richcompare, reflected_first; cbn. destruct (py_cmp op x y); reflexivity.
Qed.

Lemma prim_prim_compare ia ib sa sb x y op :
  richcompare (Build_obj ia (VPrim sa (CvVal x))) (Build_obj ib (VPrim sb (CvVal y))) op = py_cmp op x y.
Proof.
  unfold Model.richcompare, reflected_first; cbn. destruct (py_cmp op x y); reflexivity.
Qed.

(* a Python value on the left: CPython ends up in the cdata's slot with the swapped operator *)
Lemma py_prim_compare ia ib sb x y op :
  richcompare (Build_obj ia (VPy y)) (Build_obj ib (VPrim sb (CvVal x))) op = py_cmp (swap op) x y.
Proof.
  unfold Model.richcompare, reflected_first; cbn. destruct (py_cmp (swap op) x y); reflexivity.
Qed.

Lemma prim_hash ia sa x : hash (Build_obj ia (VPrim sa (CvVal x))) = py_hash x.
Proof. reflexivity. Qed.


(* ---- primitive cdata that do not convert to an ordinary Python value *)
(* long double (convert_to_object gives a cdata again): every comparison with a non-pointer-like
   operand raises NotImplementedError, whichever side it is on; the hash is that of its own storage *)
Lemma prim_cdata_compare_l ia ib sa (w : value) op :
  is_ptr w = false ->
  richcompare (Build_obj ia (VPrim sa CvCData)) (Build_obj ib w) op = RErr NotImplementedError.
Proof.
  intros Hw. unfold Model.richcompare, reflected_first; cbn.
  destruct w as [t b|sb cb|y]; cbn in *; try discriminate; reflexivity.
Qed.
Lemma prim_cdata_compare_r ia ib sa x op :
  richcompare (Build_obj ia (VPy x)) (Build_obj ib (VPrim sa CvCData)) op = RErr NotImplementedError.
Proof. unfold Model.richcompare, reflected_first; cbn. reflexivity. Qed.
Lemma prim_cdata_hash ia sa : hash (Build_obj ia (VPrim sa CvCData)) = HOk (hash_pointer sa).
Proof. reflexivity. Qed.

(* a primitive whose conversion raises (e.g. a char32_t beyond 0x10FFFF): comparisons with it on the
   left and hash() raise that error; nothing is ever equal to it, so the implication holds vacuously *)
Lemma prim_converr_compare_l ia ib sa (w : value) op :
  is_ptr w = false ->
  richcompare (Build_obj ia (VPrim sa CvErr)) (Build_obj ib w) op = RErr ConvError.
Proof.
  intros Hw. unfold Model.richcompare, reflected_first; cbn.
  destruct w as [t b|sb cb|y]; cbn in *; try discriminate; reflexivity.
Qed.
Lemma prim_converr_hash ia sa : hash (Build_obj ia (VPrim sa CvErr)) = HErr ConvError.
Proof. reflexivity. Qed.


(* ---- mixed pointer-like / anything else: NotImplemented on both sides, i.e. identity *)
Lemma mixed_compare (a b : obj) op :
  is_ptr (oval a) <> is_ptr (oval b) -> is_cdata (oval a) = true \/ is_cdata (oval b) = true ->
  richcompare a b op =
  match op with
  | OEq => RBool (N.eqb (oid a) (oid b))
  | ONe => RBool (negb (N.eqb (oid a) (oid b)))
  | _ => RErr TypeError
  end.
Proof.
  destruct a as [ia va], b as [ib vb]; cbn [oval oid]. intros Hm Hc.
  unfold Model.richcompare, reflected_first; cbn [oval oid].
  destruct va as [ta a|sa ca|xa], vb as [tb b|sb cb|xb]; cbn in *; try congruence;
    try (destruct Hc; discriminate);
    repeat match goal with |- context [proper_subtype ?x ?y] => destruct (proper_subtype x y) end;
    cbn; try reflexivity;
    try (destruct ca; reflexivity); try (destruct cb; reflexivity).
Qed.

(* ---- the central statement: equality implies equal hashes *)
Theorem eq_implies_hash (a b : obj) :
  wf_pair a b -> is_cdata (oval a) = true \/ is_cdata (oval b) = true ->
  richcompare a b OEq = RBool true -> hash a = hash b.
Proof.
  destruct a as [ia va], b as [ib vb]; unfold wf_pair; cbn [oval oid]. intros Hwf Hc H.
  destruct va as [ta a|sa ca|xa], vb as [tb b|sb cb|xb].
  - (* ptr / ptr *)
    rewrite ptr_compare in H. inversion H as [E]. cbn in E. apply Z.eqb_eq in E. subst. reflexivity.
  - (* ptr / prim *)
    rewrite mixed_compare in H by (cbn; auto; discriminate).
    cbn in H. inversion H as [E]. apply N.eqb_eq in E. specialize (Hwf E). discriminate.
  - rewrite mixed_compare in H by (cbn; auto; discriminate).
    cbn in H. inversion H as [E]. apply N.eqb_eq in E. specialize (Hwf E). discriminate.
  - rewrite mixed_compare in H by (cbn; auto; discriminate).
    cbn in H. inversion H as [E]. apply N.eqb_eq in E. specialize (Hwf E). discriminate.
  - (* prim / prim *)
    destruct ca as [x| |], cb as [y| |];
      try (unfold Model.richcompare, reflected_first in H; cbn in H; discriminate).
    rewrite prim_prim_compare in H. cbn. auto.
  - (* prim / py *)
    destruct ca as [x| |];
      try (unfold Model.richcompare, reflected_first in H; cbn in H; discriminate).
    rewrite prim_py_compare in H. cbn. auto.
  - rewrite mixed_compare in H by (cbn; auto; discriminate).
    cbn in H. inversion H as [E]. apply N.eqb_eq in E. specialize (Hwf E). discriminate.
  - (* py / prim *)
    destruct cb as [x| |];
      try (unfold Model.richcompare, reflected_first in H; cbn in H; discriminate).
    rewrite py_prim_compare in H. cbn in *. symmetry. auto.
  - destruct Hc; discriminate.
Qed.

(* with Python's own reflection law the left-hand Python value case reads naturally *)
Hypothesis py_swap : forall op x y, py_cmp (swap op) x y = py_cmp op y x.

Lemma py_prim_compare' ia ib sb x y op :
  richcompare (Build_obj ia (VPy y)) (Build_obj ib (VPrim sb (CvVal x))) op = py_cmp op y x.
Proof. rewrite py_prim_compare. apply py_swap. Qed.

(* the result never depends on which operand comes first, up to swapping the operator *)
Theorem compare_swap (a b : obj) op :
  is_cdata (oval a) = true \/ is_cdata (oval b) = true ->
  (forall e, richcompare a b op <> RErr e) -> (forall e, richcompare b a (swap op) <> RErr e) ->
  richcompare b a (swap op) = richcompare a b op.
Proof.
  destruct a as [ia va], b as [ib vb]; cbn [oval oid]. intros Hc H1 H2.
  destruct va as [ta a|sa ca|xa], vb as [tb b|sb cb|xb];
    try (destruct Hc; discriminate).
  - rewrite !ptr_compare. rewrite zcmp_swap. reflexivity.
  - rewrite !mixed_compare by (cbn; auto; discriminate). cbn [oid]. rewrite N.eqb_sym. destruct op; reflexivity.
  - rewrite !mixed_compare by (cbn; auto; discriminate). cbn [oid]. rewrite N.eqb_sym. destruct op; reflexivity.
  - rewrite !mixed_compare by (cbn; auto; discriminate). cbn [oid]. rewrite N.eqb_sym. destruct op; reflexivity.
  - destruct ca as [x| |], cb as [y| |];
      try (exfalso; eapply H1; unfold Model.richcompare, reflected_first; cbn; reflexivity);
      try (exfalso; eapply H2; unfold Model.richcompare, reflected_first; cbn; reflexivity).
    rewrite !prim_prim_compare. apply py_swap.
  - destruct ca as [x| |];
      try (exfalso; eapply H1; unfold Model.richcompare, reflected_first; cbn; reflexivity).
    rewrite py_prim_compare, prim_py_compare. rewrite swap_invol. reflexivity.
  - rewrite !mixed_compare by (cbn; auto; discriminate). cbn [oid]. rewrite N.eqb_sym. destruct op; reflexivity.
  - destruct cb as [x| |];
      try (exfalso; eapply H2; unfold Model.richcompare, reflected_first; cbn; reflexivity).
    rewrite py_prim_compare, prim_py_compare. reflexivity.
Qed.

End Proofs.

(* ---- hash_pointer: the value range of a Py_hash_t and never -1 *)
Lemma hash_pointer_range p : 0 <= p < 2 ^ 64 -> - 2 ^ 63 <= hash_pointer p < 2 ^ 63 /\ hash_pointer p <> -1.
Proof.
  intros Hp. unfold hash_pointer.
  set (y := Z.lor (Z.shiftr p 4) (Z.shiftl p 60 mod 2 ^ 64)).
  assert (Hy : 0 <= y < 2 ^ 64).
  { subst y. assert (0 <= Z.shiftr p 4 < 2 ^ 64).
    { rewrite Z.shiftr_div_pow2 by lia. split. apply Z.div_pos; lia.
      apply Z.div_lt_upper_bound; lia. }
    assert (0 <= Z.shiftl p 60 mod 2 ^ 64 < 2 ^ 64) by (apply Z.mod_pos_bound; lia).
    split. apply Z.lor_nonneg; lia.
    destruct (Z.eq_dec (Z.lor (Z.shiftr p 4) (Z.shiftl p 60 mod 2 ^ 64)) 0) as [->|Hne]; [lia|].
    apply Z.log2_lt_pow2. assert (0 <= Z.lor (Z.shiftr p 4) (Z.shiftl p 60 mod 2 ^ 64)) by (apply Z.lor_nonneg; lia). lia.
    rewrite Z.log2_lor by lia.
    apply Z.max_lub_lt.
    - destruct (Z.eq_dec (Z.shiftr p 4) 0) as [->|]; [cbn; lia|]. apply Z.log2_lt_pow2; lia.
    - destruct (Z.eq_dec (Z.shiftl p 60 mod 2 ^ 64) 0) as [->|]; [cbn; lia|]. apply Z.log2_lt_pow2; lia. }
  destruct (2 ^ 63 <=? y) eqn:E; [apply Z.leb_le in E|apply Z.leb_gt in E].
  - destruct (y - 2 ^ 64 =? -1) eqn:E2; [lia|]. apply Z.eqb_neq in E2. lia.
  - destruct (y =? -1) eqn:E2; [lia|]. apply Z.eqb_neq in E2. lia.
Qed.
