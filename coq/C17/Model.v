(* C17 — cdata equality, ordering and hashing.

   Model of  cdata_richcompare (src/c/_cffi_backend.c:2394)  and  cdata_hash (:2472), embedded in
   CPython's comparison protocol do_richcompare (Objects/object.c): reflected slot first when
   type(w) is a proper subtype of type(v), then v's slot, then w's slot with the swapped
   operator, then the identity fallback for == / != and TypeError for the orderings.

   Python's own  ==,<,...  and hash() on NON-cdata values are parameters (py_cmp, py_hash);
   what a primitive cdata converts to (convert_to_object, :1085) is part of the value:
     CvVal x   an ordinary Python value (int, bool, float, bytes, str, complex)
     CvCData   convert_to_object returns a cdata again (long double)
     CvErr     convert_to_object raises (e.g. char32_t beyond 0x10FFFF, a _Bool byte > 1). *)
From Coq Require Import ZArith List Bool Lia.
Import ListNotations.
From Cffi Require Export C17.Cmp C17.Gen.
Open Scope Z_scope.

Inductive exn := TypeError | NotImplementedError | ConvError.
Inductive res := RBool (b : bool) | RErr (e : exn).           (* outcome of  a <op> b  *)
Inductive slotres := SBool (b : bool) | SNotImpl | SErr (e : exn).  (* outcome of one tp_richcompare *)
Inductive hres := HOk (h : Z) | HErr (e : exn).

(* _Py_HashPointer (CPython < 3.13, 64-bit): rotate right by 4, read as signed, -1 -> -2 *)
Definition hash_pointer (p : Z) : Z :=
  let y := Z.lor (Z.shiftr p 4) (Z.shiftl p 60 mod 2 ^ 64) in
  let x := if 2 ^ 63 <=? y then y - 2 ^ 64 else y in
  if x =? -1 then -2 else x.

(* the Python types of cdata objects: _CDataBase, __CDataOwn, __CDataOwnGC, __CDataFromBuf, __CDataGCP *)
Inductive pytype := TBase | TOwn | TOwnGC | TFromBuf | TGCP.
Definition proper_subtype (tw tv : pytype) : bool :=
  match tw, tv with
  | TOwn, TBase | TOwnGC, TBase | TFromBuf, TBase | TGCP, TBase | TOwnGC, TOwn => true
  | _, _ => false
  end.

Section CmpHash.
Variable pyval : Type.
Variable py_cmp : cmpop -> pyval -> pyval -> res.   (* PyObject_RichCompare on two non-cdata values *)
Variable py_hash : pyval -> hres.                   (* hash() of a non-cdata value *)

Inductive conv := CvVal (x : pyval) | CvCData | CvErr.

Inductive value :=
| VPtr (t : pytype) (addr : Z)      (* pointer / array / struct / union / function cdata: c_data *)
| VPrim (self : Z) (c : conv)       (* primitive cdata (always _CDataBase): own storage, conversion *)
| VPy (x : pyval).                  (* not a cdata *)

Record obj := { oid : N; oval : value }.   (* oid: object identity *)

Definition is_cdata (v : value) : bool := match v with VPy _ => false | _ => true end.
Definition is_ptr (v : value) : bool := match v with VPtr _ _ => true | _ => false end.

Definition slot_of_res (r : res) : slotres := match r with RBool b => SBool b | RErr e => SErr e end.

(* cdata_richcompare(v, w, op); v is a cdata *)
Definition cdata_richcompare (v w : value) (op : cmpop) : slotres :=
  match v, w with
  | VPtr _ a, VPtr _ b => SBool (ptr_cmp ptr_branch op a b)   (* v_is_ptr && w_is_ptr: the block as it is
                                                                  in the source now (C17/Gen.v) *)
  | VPtr _ _, _ => SNotImpl                                   (* v_is_ptr || w_is_ptr *)
  | _, VPtr _ _ => SNotImpl
  | VPrim _ cv, _ =>
      (* for (i = 0; i < 2; i++): convert the cdata operand(s), v first *)
      match cv with
      | CvErr => SErr ConvError
      | CvCData => SErr NotImplementedError
      | CvVal x =>
          match w with
          | VPy y => slot_of_res (py_cmp op x y)
          | VPrim _ CvErr => SErr ConvError
          | VPrim _ CvCData => SErr NotImplementedError
          | VPrim _ (CvVal y) => slot_of_res (py_cmp op x y)
          | VPtr _ _ => SNotImpl
          end
      end
  | VPy _, _ => SNotImpl                                      (* not reachable: v is a cdata *)
  end.

(* tp_richcompare of a value; a non-cdata builtin answers NotImplemented to a cdata operand *)
Definition slot (v w : value) (op : cmpop) : slotres :=
  match v with
  | VPy x => match w with VPy y => slot_of_res (py_cmp op x y) | _ => SNotImpl end
  | _ => cdata_richcompare v w op
  end.

Definition ptype (v : value) : option pytype :=
  match v with VPtr t _ => Some t | VPrim _ _ => Some TBase | VPy _ => None end.

Definition reflected_first (v w : value) : bool :=
  match ptype v, ptype w with
  | Some tv, Some tw => proper_subtype tw tv
  | _, _ => false
  end.

Definition res_of_slot (s : slotres) (dflt : res) : res :=
  match s with SBool b => RBool b | SErr e => RErr e | SNotImpl => dflt end.

(* do_richcompare *)
Definition richcompare (a b : obj) (op : cmpop) : res :=
  let v := oval a in let w := oval b in
  let fallback :=
    match op with
    | OEq => RBool (N.eqb (oid a) (oid b))
    | ONe => RBool (negb (N.eqb (oid a) (oid b)))
    | _ => RErr TypeError
    end in
  if reflected_first v w then
    match slot w v (swap op) with
    | SNotImpl => res_of_slot (slot v w op) fallback
    | s => res_of_slot s fallback
    end
  else
    match slot v w op with
    | SNotImpl => res_of_slot (slot w v (swap op)) fallback
    | s => res_of_slot s fallback
    end.

(* cdata_hash / hash(): the interpreter of the regenerated program C17/Gen.v hash_prog (arms of
   cdata_hash in source order, then `return _Py_HashPointer(c_data)`).
   raw = Some n  iff the ctype has CT_PRIMITIVE_SIGNED and CT_PRIMITIVE_FITS_LONG, n the value that
   read_raw_signed_data gives; only shortcut arms look at it (the current source has none). *)
Definition hash_arm (arm : harm) (c : conv) (raw : option Z) : option hres :=   (* None: fall through *)
  match arm with
  | HConvert =>
      match c with
      | CvVal x => Some (py_hash x)          (* !CData_Check(vv): PyObject_Hash(vv) *)
      | CvErr => Some (HErr ConvError)       (* vv == NULL: return -1 *)
      | CvCData => None                      (* vv is a cdata again (long double) *)
      end
  | HNonnegSelf =>
      match raw with
      | Some n => if 0 <=? n then Some (HOk n) else None
      | None => None
      end
  end.
Fixpoint hash_prim (p : list harm) (self : Z) (c : conv) (raw : option Z) : hres :=
  match p with
  | [] => HOk (hash_pointer self)
  | arm :: t => match hash_arm arm c raw with Some r => r | None => hash_prim t self c raw end
  end.

(* hash() of an object.  Every arm is guarded by a CT_PRIMITIVE_* flag test, so pointer-like cdata go to the
   final _Py_HashPointer.  The abstract VPrim does not carry the raw integer (raw = None here); the
   statements that a primitive INTEGER cdata hashes as its value for every value are made on hash_prim /
   int_cdata_hash below with the raw value given (C17_prim_hash_every_value, C17_int_cdata_hash_every_value). *)
Definition hash (a : obj) : hres :=
  match oval a with
  | VPtr _ addr => HOk (hash_pointer addr)
  | VPrim self c => hash_prim hash_prog self c None
  | VPy x => py_hash x
  end.

End CmpHash.

Arguments CvVal {pyval}. Arguments CvCData {pyval}. Arguments CvErr {pyval}.
Arguments VPtr {pyval}. Arguments VPrim {pyval}. Arguments VPy {pyval}.
Arguments Build_obj {pyval}. Arguments oid {pyval}. Arguments oval {pyval}.
Arguments is_cdata {pyval}. Arguments is_ptr {pyval}.

(* ---- primitive integer cdata concretely: the converted value is the Python int of the same value, and
   CPython's long_hash (Objects/longobject.c, 64-bit: _PyHASH_MODULUS = 2^61-1) is
   sign(v) * (|v| mod (2^61-1)), with -1 replaced by -2 *)
Definition pyint_hash (v : Z) : Z :=
  let h := Z.sgn v * (Z.abs v mod (2 ^ 61 - 1)) in
  if h =? -1 then -2 else h.
(* hash() of an integer cdata holding v, under program p; signed / fits_long are the ctype's flags *)
Definition int_cdata_hash (p : list harm) (signed fits_long : bool) (self v : Z) : hres :=
  hash_prim Z (fun x => HOk (pyint_hash x)) p self (CvVal v) (if signed && fits_long then Some v else None).

(* ---- executable instance for the correspondence check: Python values are indices 0/1 (the
        value of operand a / of operand b), CPython's answers on them are given as tables *)
Definition op_index (o : cmpop) : nat :=
  match o with OLt => 0 | OLe => 1 | OEq => 2 | ONe => 3 | OGt => 4 | OGe => 5 end%nat.
Definition all_ops := [OLt; OLe; OEq; ONe; OGt; OGe].

Definition tbl_cmp (t : list (list res)) (o : cmpop) (i j : nat) : res :=
  nth (op_index o) (nth (2 * i + j) t []) (RErr TypeError).
Definition tbl_hash (h : list hres) (i : nat) : hres := nth i h (HErr TypeError).

Definition exn_eqb (a b : exn) : bool :=
  match a, b with
  | TypeError, TypeError | NotImplementedError, NotImplementedError | ConvError, ConvError => true
  | _, _ => false
  end.
Definition res_eqb (a b : res) : bool :=
  match a, b with RBool x, RBool y => Bool.eqb x y | RErr x, RErr y => exn_eqb x y | _, _ => false end.
Definition hres_eqb (a b : hres) : bool :=
  match a, b with HOk x, HOk y => Z.eqb x y | HErr x, HErr y => exn_eqb x y | _, _ => false end.

(* case: (cmp tables, hash table, a, b)  ->  (a op b for the six operators, b op a for the six, hash a, hash b) *)
Definition run_case (c : list (list res) * list hres * obj nat * obj nat)
  : list res * list res * hres * hres :=
  let '(t, h, a, b) := c in
  (map (richcompare nat (tbl_cmp t) a b) all_ops, map (richcompare nat (tbl_cmp t) b a) all_ops,
   hash nat (tbl_hash h) a, hash nat (tbl_hash h) b).
