(* C17 — cdata equality, ordering and hashing are mutually consistent.  Statements only.
   pyval / py_cmp / py_hash stand for CPython's non-cdata values, PyObject_RichCompare and hash()
   on them; the only thing assumed about them is CPython's own contract (x == y -> hash x = hash y),
   and for the last theorem the reflection law (x op' y = y op x). *)
From Coq Require Import ZArith List Bool.
Import ListNotations.
From Cffi Require Import C17.Model C17.Proofs C17.Proofs2.
Open Scope Z_scope.

(* for any two objects at least one of which is a cdata:  a == b  ->  hash(a) == hash(b) *)
Theorem C17_eq_implies_hash :
  forall (pyval : Type) (py_cmp : cmpop -> pyval -> pyval -> res) (py_hash : pyval -> hres),
  (forall x y, py_cmp OEq x y = RBool true -> py_hash x = py_hash y) ->
  forall a b : obj pyval,
  (oid a = oid b -> oval a = oval b) ->
  is_cdata (oval a) = true \/ is_cdata (oval b) = true ->
  richcompare pyval py_cmp a b OEq = RBool true -> hash pyval py_hash a = hash pyval py_hash b.
Proof. exact eq_implies_hash. Qed.
Print Assumptions C17_eq_implies_hash.

(* pointer, array, struct, union and function cdata compare under all six operators exactly as
   their addresses, whatever their Python types (owning, gc'd, from_buffer, plain).
   The pointer branch of the model is the block `if (v_is_ptr && w_is_ptr) {...}` AS IT IS IN THE
   SOURCE NOW (C17/Gen.v, regenerated on every run: which operands each `case Py_XX` compares, with
   which relation, as char* i.e. unsigned, or after a signed cast / as a signed difference); this
   theorem is re-proved on it, so an edit that changes the comparison of some operator breaks it. *)
Theorem C17_ptr_compare :
  forall pyval py_cmp ia ib ta tb a b op,
  richcompare pyval py_cmp (Build_obj ia (VPtr ta a)) (Build_obj ib (VPtr tb b)) op = RBool (zcmp op a b).
Proof. exact ptr_compare. Qed.
Print Assumptions C17_ptr_compare.

Theorem C17_ptr_hash :
  forall pyval py_hash ia t a, hash pyval py_hash (Build_obj ia (VPtr t a)) = HOk (hash_pointer a).
Proof. exact ptr_hash. Qed.
Print Assumptions C17_ptr_hash.

(* primitive cdata compare and hash exactly as the Python value they convert to *)
Theorem C17_prim_py_compare :
  forall pyval py_cmp ia ib sa x y op,
  richcompare pyval py_cmp (Build_obj ia (VPrim sa (CvVal x))) (Build_obj ib (VPy y)) op = py_cmp op x y.
Proof. exact prim_py_compare. Qed.
Print Assumptions C17_prim_py_compare.

Theorem C17_prim_prim_compare :
  forall pyval py_cmp ia ib sa sb x y op,
  richcompare pyval py_cmp (Build_obj ia (VPrim sa (CvVal x))) (Build_obj ib (VPrim sb (CvVal y))) op
  = py_cmp op x y.
Proof. exact prim_prim_compare. Qed.
Print Assumptions C17_prim_prim_compare.

Theorem C17_py_prim_compare :
  forall pyval py_cmp, (forall op x y, py_cmp (swap op) x y = py_cmp op y x) ->
  forall ia ib sb x y op,
  richcompare pyval py_cmp (Build_obj ia (VPy y)) (Build_obj ib (VPrim sb (CvVal x))) op = py_cmp op y x.
Proof. exact py_prim_compare'. Qed.
Print Assumptions C17_py_prim_compare.

Theorem C17_prim_hash :
  forall pyval py_hash ia sa x, hash pyval py_hash (Build_obj ia (VPrim sa (CvVal x))) = py_hash x.
Proof. exact prim_hash. Qed.
Print Assumptions C17_prim_hash.

(* primitive cdata that do NOT convert to an ordinary Python value: long double (conversion gives
   a cdata: comparisons raise NotImplementedError, hash is that of its own storage) and values
   whose conversion raises (comparisons and hash raise): nothing compares equal to them, so
   C17_eq_implies_hash covers them vacuously — these theorems say what happens instead *)
Theorem C17_longdouble_compare : forall pyval py_cmp ia ib sa (w : value pyval) op,
  is_ptr w = false ->
  richcompare pyval py_cmp (Build_obj ia (VPrim sa CvCData)) (Build_obj ib w) op = RErr NotImplementedError.
Proof. exact prim_cdata_compare_l. Qed.
Print Assumptions C17_longdouble_compare.
Theorem C17_longdouble_compare_reflected : forall pyval py_cmp ia ib sa x op,
  richcompare pyval py_cmp (Build_obj ia (VPy x)) (Build_obj ib (VPrim sa CvCData)) op = RErr NotImplementedError.
Proof. exact prim_cdata_compare_r. Qed.
Print Assumptions C17_longdouble_compare_reflected.
Theorem C17_longdouble_hash : forall pyval py_hash ia sa,
  hash pyval py_hash (Build_obj ia (VPrim sa CvCData)) = HOk (hash_pointer sa).
Proof. exact prim_cdata_hash. Qed.
Print Assumptions C17_longdouble_hash.
Theorem C17_unconvertible_compare : forall pyval py_cmp ia ib sa (w : value pyval) op,
  is_ptr w = false ->
  richcompare pyval py_cmp (Build_obj ia (VPrim sa CvErr)) (Build_obj ib w) op = RErr ConvError.
Proof. exact prim_converr_compare_l. Qed.
Print Assumptions C17_unconvertible_compare.
Theorem C17_unconvertible_hash : forall pyval py_hash ia sa,
  hash pyval py_hash (Build_obj ia (VPrim sa CvErr)) = HErr ConvError.
Proof. exact prim_converr_hash. Qed.
Print Assumptions C17_unconvertible_hash.

(* pointer-like against primitive cdata or against a non-cdata: NotImplemented on both sides,
   so == / != are object identity and the orderings raise TypeError *)
Theorem C17_mixed_compare :
  forall pyval py_cmp (a b : obj pyval) op,
  is_ptr (oval a) <> is_ptr (oval b) -> is_cdata (oval a) = true \/ is_cdata (oval b) = true ->
  richcompare pyval py_cmp a b op =
  match op with
  | OEq => RBool (N.eqb (oid a) (oid b))
  | ONe => RBool (negb (N.eqb (oid a) (oid b)))
  | _ => RErr TypeError
  end.
Proof. exact mixed_compare. Qed.
Print Assumptions C17_mixed_compare.

(* a op b and b op' a agree whenever neither raises *)
Theorem C17_compare_swap :
  forall pyval py_cmp, (forall op x y, py_cmp (swap op) x y = py_cmp op y x) ->
  forall (a b : obj pyval) op,
  is_cdata (oval a) = true \/ is_cdata (oval b) = true ->
  (forall e, richcompare pyval py_cmp a b op <> RErr e) ->
  (forall e, richcompare pyval py_cmp b a (swap op) <> RErr e) ->
  richcompare pyval py_cmp b a (swap op) = richcompare pyval py_cmp a b op.
Proof. exact compare_swap. Qed.
Print Assumptions C17_compare_swap.

Theorem C17_hash_pointer_range : forall p, 0 <= p < 2 ^ 64 ->
  - 2 ^ 63 <= hash_pointer p < 2 ^ 63 /\ hash_pointer p <> -1.
Proof. exact hash_pointer_range. Qed.
Print Assumptions C17_hash_pointer_range.

(* ---- cdata_hash AS IT IS IN THE SOURCE NOW: C17/Gen.v hash_prog is regenerated on every run from the whole
   body of cdata_hash (the arms tried before `return _Py_HashPointer(c_data)`); Model.hash / hash_prim
   interpret it.  raw is the value read_raw_signed_data gives for a signed fits-long ctype (what an
   integer shortcut arm would look at).  A primitive cdata hashes as the Python value it converts to,
   for EVERY raw value: an inserted shortcut such as "a non-negative C integer is its own hash"
   (seed C17-c; translated to HNonnegSelf) makes these proofs fail, see C17_nonneg_shortcut_refuted. *)
Theorem C17_prim_hash_every_value :
  forall (pyval : Type) (py_hash : pyval -> hres) self (x : pyval) (raw : option Z),
  hash_prim pyval py_hash hash_prog self (CvVal x) raw = py_hash x.
Proof. exact prim_hash_every_value. Qed.
Print Assumptions C17_prim_hash_every_value.

Theorem C17_longdouble_hash_every_value :
  forall (pyval : Type) (py_hash : pyval -> hres) self (raw : option Z),
  hash_prim pyval py_hash hash_prog self CvCData raw = HOk (hash_pointer self).
Proof. exact prim_cdata_hash_every_value. Qed.
Print Assumptions C17_longdouble_hash_every_value.

(* integer cdata, Python's int hash modelled concretely (pyint_hash: sign * (|v| mod (2^61-1)), -1 -> -2):
   hash(cd) = hash(int(cd)) for every 64-bit value, signed or unsigned ctype, fits-long or not *)
Theorem C17_int_cdata_hash_every_value :
  forall signed fits_long self v, - 2 ^ 63 <= v < 2 ^ 64 ->
  int_cdata_hash hash_prog signed fits_long self v = HOk (pyint_hash v).
Proof. exact int_cdata_hash_every_value. Qed.
Print Assumptions C17_int_cdata_hash_every_value.

Theorem C17_pyint_hash_small : forall v, 0 <= v < 2 ^ 61 - 1 -> pyint_hash v = v.
Proof. exact pyint_hash_small. Qed.
Print Assumptions C17_pyint_hash_small.
Theorem C17_pyint_hash_not_identity : forall v, 2 ^ 61 - 1 <= v -> pyint_hash v <> v.
Proof. exact pyint_hash_not_identity. Qed.
Print Assumptions C17_pyint_hash_not_identity.
Theorem C17_pyint_hash_range : forall v, - 2 ^ 63 <= v < 2 ^ 64 ->
  - (2 ^ 61 - 1) < pyint_hash v < 2 ^ 61 - 1 /\ pyint_hash v <> -1.
Proof. exact pyint_hash_range. Qed.
Print Assumptions C17_pyint_hash_range.

(* the program with the shortcut arm in front violates C17_int_cdata_hash_every_value at every value
   from 2^61-1 on (non-vacuity of the theorem above with respect to the program) *)
Theorem C17_nonneg_shortcut_refuted : forall self v, 2 ^ 61 - 1 <= v < 2 ^ 63 ->
  int_cdata_hash [HNonnegSelf; HConvert] true true self v <> HOk (pyint_hash v).
Proof. exact nonneg_shortcut_refuted. Qed.
Print Assumptions C17_nonneg_shortcut_refuted.

Example C17_pyint_hash_examples :
  pyint_hash (-1) = -2 /\ pyint_hash (2 ^ 61 - 1) = 0 /\ pyint_hash (2 ^ 61) = 1 /\
  pyint_hash (- 2 ^ 63) = -4 /\ pyint_hash (2 ^ 64 - 1) = 7 /\ pyint_hash (- (2 ^ 61)) = -2.
Proof. vm_compute. repeat split; reflexivity. Qed.

(* non-vacuity: Python values 0,1 with 0 == 1 true and equal hashes (think 5 and 5.0);
   an int cdata against a float, a struct against a pointer to it, a pointer against an int cdata *)
Example C17_example :
  let eqt := [RBool false; RBool true; RBool true; RBool false; RBool false; RBool true] in
  let t := [eqt; eqt; eqt; eqt] in
  let h := [HOk 5; HOk 5] in
  run_case (t, h, Build_obj 1%N (VPrim 1000 (CvVal 0%nat)), Build_obj 2%N (VPy 1%nat))
  = (eqt, eqt, HOk 5, HOk 5) /\
  run_case (t, h, Build_obj 1%N (VPtr TOwn 4096), Build_obj 2%N (VPtr TBase 4096))
  = (eqt, eqt, HOk 256, HOk 256) /\
  run_case (t, h, Build_obj 1%N (VPtr TOwn 4096), Build_obj 2%N (VPrim 1000 (CvVal 0%nat)))
  = ([RErr TypeError; RErr TypeError; RBool false; RBool true; RErr TypeError; RErr TypeError],
     [RErr TypeError; RErr TypeError; RBool false; RBool true; RErr TypeError; RErr TypeError], HOk 256, HOk 5) /\
  hash_pointer (2 ^ 64 - 1) = -2.
Proof. vm_compute. repeat split; reflexivity. Qed.
