(* C17 — comparison vocabulary and a tiny language for the pointer branch of cdata_richcompare
   (the `if (v_is_ptr && w_is_ptr)` block), whose current text is regenerated into C17/Gen.v. *)
From Coq Require Import ZArith List Bool.
Import ListNotations.
Open Scope Z_scope.

Inductive cmpop := OLt | OLe | OEq | ONe | OGt | OGe.
Definition swap (o : cmpop) : cmpop :=
  match o with OLt => OGt | OLe => OGe | OEq => OEq | ONe => ONe | OGt => OLt | OGe => OLe end.
Definition cmpop_eqb (a b : cmpop) : bool :=
  match a, b with
  | OLt, OLt | OLe, OLe | OEq, OEq | ONe, ONe | OGt, OGt | OGe, OGe => true
  | _, _ => false
  end.

(* comparison of two addresses as numbers *)
Definition zcmp (o : cmpop) (a b : Z) : bool :=
  match o with
  | OLt => a <? b | OLe => a <=? b | OEq => a =? b
  | ONe => negb (a =? b) | OGt => b <? a | OGe => b <=? a
  end.

Inductive side := SV | SW.                         (* v_cdata, w_cdata *)
Record pcase := { pc_signed : bool;                 (* operands cast to a signed integer type first *)
                  pc_l : side; pc_rel : cmpop; pc_r : side }.
Inductive pbranch :=
| PSwitch (cases : list (cmpop * pcase))            (* switch (op) { case Py_XX: res = (l REL r); break; ... default: res = -1; } *)
| PSignedDiff.                                      (* Py_ssize_t diff = v_cdata - w_cdata; Py_RETURN_RICHCOMPARE(diff, 0, op); *)

Definition wrapS64 (z : Z) : Z := let y := z mod 2 ^ 64 in if 2 ^ 63 <=? y then y - 2 ^ 64 else y.

Fixpoint find_case (op : cmpop) (cs : list (cmpop * pcase)) : option pcase :=
  match cs with
  | [] => None
  | (o, c) :: t => if cmpop_eqb op o then Some c else find_case op t
  end.

(* what the block answers for operator op on the addresses a (of v) and b (of w);
   char* operands compare as unsigned addresses; a missing case falls to `default: res = -1`, i.e. True *)
Definition ptr_cmp (p : pbranch) (op : cmpop) (a b : Z) : bool :=
  match p with
  | PSwitch cs =>
      match find_case op cs with
      | Some c =>
          let pick s := match s with SV => a | SW => b end in
          let conv z := if pc_signed c then wrapS64 z else z in
          zcmp (pc_rel c) (conv (pick (pc_l c))) (conv (pick (pc_r c)))
      | None => true
      end
  | PSignedDiff => zcmp op (wrapS64 (a - b)) 0
  end.
Arguments ptr_cmp : simpl never.

(* ---- cdata_hash (src/c/_cffi_backend.c, `static Py_hash_t cdata_hash(PyObject *v)`) as a program: the list of
   arms tried in source order before the final `return _Py_HashPointer(c_data)`; its current text is
   regenerated into C17/Gen.v (hash_prog).  Arms the translator knows:
     HConvert      if (ct_flags & CT_PRIMITIVE_ANY) { vv = convert_to_object(c_data, c_type);
                       if (vv == NULL) return -1;
                       if (!CData_Check(vv)) { hash = PyObject_Hash(vv); Py_DECREF(vv); return hash; }
                       Py_DECREF(vv); }                       -- falls through when vv is again a cdata
     HNonnegSelf   (inside the CT_PRIMITIVE_ANY block, before the conversion)
                   if ((ct_flags & (CT_PRIMITIVE_SIGNED|CT_PRIMITIVE_FITS_LONG)) == (both)) {
                       value = (long)read_raw_signed_data(c_data, ct_size);
                       if (value >= 0) return (Py_hash_t)value; }
   Any other text is outside the translated subset (the run reports a fallback, fail closed). *)
Inductive harm := HConvert | HNonnegSelf.
