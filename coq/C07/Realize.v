(* C07 — from opcodes to C types.

   `mty` is the *unbuilt* structural type: what the opcode graph written by parse_c_type.c
   describes (`decode`, following the switch of realize_c_type_or_func_now,
   realize_c_type.c:465) and, on the Python side, what cffi/model.py objects describe before
   build_backend_type().  `build` applies the backend's type constructors with their validity
   checks (new_pointer_type 4917, new_array_type 4951, new_function_type 5988 of
   _cffi_backend.c) — the same C functions are reached from both parsers:
       C parser:      realize_c_type_or_func_now   ->  new_*_type
       Python parser: model.*Type.build_backend_type -> ffi._backend.new_*_type
   so `realize = build . decode` and (PyModel.v) `denote = build . denote_mty`. *)
From Coq Require Import List Arith NArith ZArith Lia Bool String.
Import ListNotations.
From Cffi Require Import C07.Model.
Local Open Scope Z_scope.

Inductive aggkind := AStruct | AUnion | AEnum.

(* unbuilt types.  MFun is a (raw) function type, MPtr (MFun ..) the function pointer type.
   MAgg carries the ctype name (ct_name) and the size (None: opaque / unknown) *)
Inductive mty :=
| MVoid
| MPrim (p : Z)                  (* _CFFI_PRIM_xxx, 1..51 *)
| MPtr (t : mty)
| MArr (t : mty) (len : option Z)
| MFun (ret : mty) (args : list mty) (ell : bool)
| MAgg (k : aggkind) (cname : str) (size : option Z).

(* built ctypes (CTypeDescrObject); CFunc is the CT_FUNCTIONPTR type *)
Inductive ctype :=
| CVoid
| CPrim (p : Z)
| CPtr (t : ctype)
| CArr (t : ctype) (len : option Z)
| CFunc (ret : ctype) (args : list ctype) (ell : bool)
| CAgg (k : aggkind) (cname : str) (size : option Z).

(* realize_c_type_or_func returns a ctype or, for a function type, a 1-tuple hiding the
   function pointer type (667) *)
Inductive rres := RT (t : ctype) | RF (fnptr : ctype).

(* ---------------------------------------------------------------- declared names *)
(* one consistent view of a declaration context; the tables are sorted by name *)
Record genv := mkGenv {
  g_typedefs : list (str * mty);             (* typedef name -> its (unbuilt) type *)
  g_structs : list (str * bool * mty);       (* tag, is_union, the MAgg leaf *)
  g_enums : list (str * mty);
  g_globals : list (str * gkind)
}.

Definition ctx_of (g : genv) : ctx :=
  mkCtx (map fst (g_typedefs g)) (map (fun x => (fst (fst x), snd (fst x))) (g_structs g))
        (map fst (g_enums g)) (g_globals g).

Definition file_mty : mty := MAgg AStruct (s2l "FILE"%string) None.

(* ---------------------------------------------------------------- sizes (x86-64 Linux) *)
Definition prim_sizes : list Z :=
  [ 0; 1; 1; 1; 1; 2; 2; 4; 4; 8; 8; 8; 8; 4; 8; 16;       (* void.._Bool..long double *)
    4; 1; 1; 2; 2; 4; 4; 8; 8; 8; 8; 8; 8; 8;               (* wchar_t .. ssize_t *)
    1; 1; 2; 2; 4; 4; 8; 8;                                 (* least *)
    1; 1; 8; 8; 8; 8; 8; 8;                                 (* fast *)
    8; 8; 8; 16; 2; 4 ].                                    (* intmax uintmax fcomplex dcomplex char16 char32 *)

(* ct_size, None = -1 *)
Fixpoint size_ct (c : ctype) : option Z :=
  match c with
  | CVoid => None
  | CPrim p => Some (nth (Z.to_nat p) prim_sizes 0)
  | CPtr _ => Some 8
  | CFunc _ _ _ => Some 8
  | CArr t None => None
  | CArr t (Some n) => match size_ct t with Some s => Some (n * s) | None => None end
  | CAgg _ _ sz => sz
  end.

(* new_array_type (4951) after b_new_array_type's checks (4926) *)
Definition mk_array (item : ctype) (len : option Z) : option ctype :=
  match size_ct item with
  | None => None                                      (* "array item of unknown size" *)
  | Some s =>
    match len with
    | None => Some (CArr item None)
    | Some n =>
      if n <? 0 then None                             (* "negative array length" *)
      else if n >? MAX_SSIZE_T then None              (* OverflowError *)
      else if n * s >? MAX_SSIZE_T then None          (* "array size would overflow a Py_ssize_t" *)
      else Some (CArr item (Some n))
    end
  end.

(* fb_fill_type (5594): what happens for one argument / the result *)
Inductive cif_class := CifOk | CifReject | CifGiveUp.   (* GiveUp: NotImplementedError, cleared at 6030 *)
Definition is_complex (p : Z) : bool := (p =? 48) || (p =? 49).
Definition cif_class_of (is_result : bool) (c : ctype) : cif_class :=
  match c with
  | CPrim p => if is_complex p then CifGiveUp else CifOk
  | CPtr _ | CFunc _ _ _ => CifOk
  | CVoid => if is_result then CifOk else CifReject
  | CArr _ _ => CifOk                                  (* arguments only: converted to pointers (5785) *)
  | CAgg k _ sz =>
    match sz with
    | None => CifReject                               (* "has incomplete type" *)
    | Some s => if s <=? 0 then CifReject
                else match k with
                     | AStruct => CifOk               (* assumption: fields are plain ints/char arrays *)
                     | AUnion => CifGiveUp
                     | AEnum => CifOk
                     end
    end
  end.

Fixpoint cif_check (l : list (bool * ctype)) : bool :=
  match l with
  | [] => true
  | (r, c) :: l' =>
    match cif_class_of r c with
    | CifOk => cif_check l'
    | CifReject => false
    | CifGiveUp => true
    end
  end.

Definition decay_array_arg (c : ctype) : ctype :=
  match c with CArr t _ => CPtr t | _ => c end.

(* new_function_type (5988) *)
Definition mk_func (ret : ctype) (args : list ctype) (ell : bool) : option ctype :=
  let bad_result :=
    match ret with
    | CArr _ _ => true
    | CVoid => false
    | _ => match size_ct ret with None => true | Some _ => false end
    end in
  if bad_result then None
  (* a parameter of type void is refused for every signature (loop before fb_prepare_ctype, commit
     ce8c84e), also when fb_prepare_cif is skipped (variadic) or gives up (complex/union result) *)
  else if existsb (fun a => match a with CVoid => true | _ => false end) args then None
  else if negb ell && negb (cif_check ((true, ret) :: map (fun a => (false, a)) args)) then None
  else Some (CFunc ret (map decay_array_arg args) ell).

Definition prim_ok (p : Z) : bool := (1 <=? p) && (p <=? 51).

(* realize_c_type(): a function type where a type is required is an error (308) *)
Fixpoint build (m : mty) : option rres :=
  match m with
  | MVoid => Some (RT CVoid)
  | MPrim p => if prim_ok p then Some (RT (CPrim p)) else None
  | MPtr t =>
    match build t with
    | Some (RT c) => Some (RT (CPtr c))               (* new_pointer_type *)
    | Some (RF f) => Some (RT f)                      (* 486: the OP_POINTER reveals the CT_FUNCTIONPTR *)
    | None => None
    end
  | MArr t len =>
    match build t with
    | Some (RT c) => option_map RT (mk_array c len)
    | _ => None
    end
  | MFun ret args ell =>
    match build ret with
    | Some (RT r) =>
      match (fix ba (l : list mty) : option (list ctype) :=
               match l with
               | [] => Some []
               | a :: l' =>
                 match build a with
                 | Some (RT c) => option_map (cons c) (ba l')
                 | _ => None
                 end
               end) args with
      | Some cargs => option_map RF (mk_func r cargs ell)
      | None => None
      end
    | _ => None
    end
  | MAgg k n sz => Some (RT (CAgg k n sz))
  end.

(* ---------------------------------------------------------------- decode *)
Section Decode.
Variable g : genv.

Definition nthZ {A} (l : list A) (i : Z) : option A :=
  if i <? 0 then None else nth_error l (Z.to_nat i).

(* realize_c_type_or_func_now (465), structure only *)
Fixpoint decode (fuel : nat) (out : list Z) (idx : Z) : option mty :=
  match fuel with
  | O => None                                          (* recursion too deep (721) *)
  | S f =>
    match nthZ out idx with
    | None => None
    | Some op =>
      let c := GETOP op in
      let arg := GETARG op in
      if c =? OP_PRIMITIVE then (if arg =? PRIM_VOID then Some MVoid else Some (MPrim arg))
      else if c =? OP_POINTER then option_map MPtr (decode f out arg)
      else if c =? OP_ARRAY then
        match nthZ out (idx + 1), decode f out arg with
        | Some len, Some m => Some (MArr m (Some len))
        | _, _ => None
        end
      else if c =? OP_OPEN_ARRAY then option_map (fun m => MArr m None) (decode f out arg)
      else if c =? OP_STRUCT_UNION then
        if arg =? IO_FILE_STRUCT then Some file_mty
        else option_map snd (nthZ (g_structs g) arg)
      else if c =? OP_ENUM then option_map snd (nthZ (g_enums g) arg)
      else if c =? OP_FUNCTION then
        match decode f out arg with
        | None => None
        | Some ret =>
          (* while (GETOP(opcodes[base_index + num_args]) != OP_FUNCTION_END) num_args++ (622) *)
          match (fix args (l : list Z) (i : Z) : option (list mty * Z) :=
                   match l with
                   | [] => None
                   | o :: l' =>
                     if GETOP o =? OP_FUNCTION_END then Some ([], GETARG o)
                     else match decode f out i, args l' (i + 1) with
                          | Some a, Some (rest, e) => Some (a :: rest, e)
                          | _, _ => None
                          end
                   end) (skipn (Z.to_nat (idx + 1)) out) (idx + 1) with
          | None => None
          | Some (margs, e) =>
            let abi := Z.land e 254 in
            if (abi =? 0) || (abi =? 2) then Some (MFun ret margs (Z.odd e)) else None
          end
        end
      else if c =? OP_NOOP then decode f out arg
      else if c =? OP_TYPENAME then option_map snd (nthZ (g_typedefs g) arg)
      else None
    end
  end.

Definition realize_fuel : nat := 10 * 100.             (* _realize_recursion_level >= 1000 (721) *)

(* ffi.typeof(string) on the C side: parse_c_type, realize, and a function type is refused
   (_ffi_type, ffi_obj.c:182 with accept = ACCEPT_STRING|ACCEPT_CDATA) *)
Definition realize (out : list Z) (idx : Z) : option ctype :=
  match decode realize_fuel out idx with
  | Some m => match build m with Some (RT c) => Some c | _ => None end
  | None => None
  end.

End Decode.

Definition c_typeof (osz : nat) (g : genv) (input : str) : option ctype :=
  match parse_c_type osz (ctx_of g) input with
  | Ok (out, idx) => realize g out idx
  | _ => None
  end.

(* ---------------------------------------------------------------- boolean equality *)
Definition aggkind_eqb (a b : aggkind) : bool :=
  match a, b with AStruct, AStruct | AUnion, AUnion | AEnum, AEnum => true | _, _ => false end.
Definition optZ_eqb (a b : option Z) : bool :=
  match a, b with Some x, Some y => x =? y | None, None => true | _, _ => false end.

Fixpoint ctype_eqb (a b : ctype) : bool :=
  match a, b with
  | CVoid, CVoid => true
  | CPrim p, CPrim q => p =? q
  | CPtr x, CPtr y => ctype_eqb x y
  | CArr x n, CArr y m => ctype_eqb x y && optZ_eqb n m
  | CFunc r l e, CFunc r' l' e' =>
    ctype_eqb r r' && Bool.eqb e e' &&
    (fix eqs (l l' : list ctype) : bool :=
       match l, l' with
       | [], [] => true
       | x :: l1, y :: l2 => ctype_eqb x y && eqs l1 l2
       | _, _ => false
       end) l l'
  | CAgg k n s, CAgg k' n' s' => aggkind_eqb k k' && str_eqb n n' && optZ_eqb s s'
  | _, _ => false
  end.

Definition opt_ctype_eqb (a b : option ctype) : bool :=
  match a, b with Some x, Some y => ctype_eqb x y | None, None => true | _, _ => false end.
