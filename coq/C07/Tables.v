(* C07 — identifiers, and name-sorted association tables searched with search_sorted (C25). *)
From Coq Require Import List Arith NArith ZArith Lia Bool String.
Import ListNotations.
From Cffi Require Import C25.Model C25.Proofs C07.Model C07.Realize C07.PyModel C07.Lexer C07.Tokens.

Local Open Scope nat_scope.

(* ---------------------------------------------------------------- identifiers *)
Definition ident_ok (n : str) : Prop :=
  match n with
  | c :: tl => is_ident_first c = true /\ forallb is_ident_next tl = true
  | [] => False
  end /\ kw_of n = None.

Lemma ident_ok_lexeme n : ident_ok n -> lexeme n KIdent.
Proof.
  intros [H Hk]. destruct n as [|c tl]; [contradiction|]. destruct H as [A B].
  pose proof (ident_lexeme c tl A B) as Hl. unfold word_kind in Hl. rewrite Hk in Hl. exact Hl.
Qed.

Lemma ident_next_nonzero c : is_ident_next c = true -> c <> 0%N.
Proof. intros H E. subst. discriminate. Qed.

Lemma ident_ok_nulfree n : ident_ok n -> C25.Model.nulfree n.
Proof.
  intros [H _]. destruct n as [|c tl]; [contradiction|]. destruct H as [A B].
  constructor.
  - apply ident_next_nonzero. unfold is_ident_next. rewrite A. reflexivity.
  - unfold C25.Model.nulfree. rewrite Forall_forall. rewrite forallb_forall in B.
    intros x Hx. apply ident_next_nonzero. apply B. exact Hx.
Qed.

Lemma str_eqb_eq : forall a b, str_eqb a b = true <-> a = b.
Proof.
  induction a as [|x a IH]; intros [|y b]; cbn; split; intros H; try congruence; try discriminate.
  - apply andb_true_iff in H as [H1 H2]. apply N.eqb_eq in H1. apply IH in H2. congruence.
  - inversion H; subst. rewrite N.eqb_refl. apply IH. reflexivity.
Qed.

(* ---------------------------------------------------------------- sorted association tables *)
Definition table_ok (names : list str) : Prop := Forall C25.Model.nulfree names /\ sorted names.

Lemma sorted_tail x l : sorted (x :: l) -> sorted l.
Proof. intros H i j Hij. apply (H (S i) (S j)). cbn. lia. Qed.

Lemma assoc_nth {A} : forall (l : list (str * A)) i n v,
  sorted (map fst l) -> nth_error l i = Some (n, v) -> assoc_str l n = Some v.
Proof.
  induction l as [|[k0 v0] l IH]; intros i n v Hs Hn; [destruct i; discriminate|].
  destruct i as [|i]; cbn in Hn.
  - inversion Hn; subst. cbn. replace (str_eqb n n) with true by (symmetry; apply str_eqb_eq; reflexivity).
    reflexivity.
  - cbn [assoc_str].
    assert (Hne : str_eqb k0 n = false).
    { destruct (str_eqb k0 n) eqn:E; [|reflexivity]. apply str_eqb_eq in E. subst k0.
      assert (Hil : i < List.length l) by (apply nth_error_Some; congruence).
      assert (Hpre : 0 < S i < List.length (map fst ((n, v0) :: l))).
      { cbn [map List.length]. rewrite map_length. lia. }
      specialize (Hs 0 (S i) Hpre). change (lex n (nth i (map fst l) []) = Lt) in Hs.
      assert (E2 : nth i (map fst l) [] = n).
      { erewrite nth_indep by (rewrite map_length; apply nth_error_Some; congruence).
        rewrite (map_nth fst l (n, v) i). rewrite (nth_error_nth _ _ _ Hn). reflexivity. }
      rewrite E2 in Hs. rewrite (proj2 (lex_eq n n) eq_refl) in Hs. discriminate. }
    rewrite Hne. eapply IH; [eapply sorted_tail; exact Hs | exact Hn].
Qed.

Lemma assoc_none {A} : forall (l : list (str * A)) n, ~ In n (map fst l) -> assoc_str l n = None.
Proof.
  induction l as [|[k0 v0] l IH]; intros n H; [reflexivity|]. cbn [assoc_str].
  destruct (str_eqb k0 n) eqn:E.
  - apply str_eqb_eq in E. subst. exfalso. apply H. left. reflexivity.
  - apply IH. intros Hi. apply H. right. exact Hi.
Qed.

Lemma search_member (names : list str) i n : table_ok names -> nth_error names i = Some n ->
  search_sorted names n = Some i.
Proof.
  intros [Hn Hs] H.
  assert (Hi : i < List.length names) by (apply nth_error_Some; congruence).
  rewrite <- (nth_error_nth names i [] H). apply search_finds_member; assumption.
Qed.

Lemma search_absent (names : list str) n : table_ok names -> C25.Model.nulfree n -> ~ In n names ->
  search_sorted names n = None.
Proof.
  intros [Hn Hs] Hk Hni. pose proof (search_sorted_correct names n Hn Hk Hs) as H.
  destruct (search_sorted names n) as [m|]; [|reflexivity].
  destruct H as [Hm E]. exfalso. apply Hni. rewrite <- E. apply nth_In. exact Hm.
Qed.


Definition ident_okb (n : str) : bool :=
  match n with
  | c :: tl => is_ident_first c && forallb is_ident_next tl
  | [] => false
  end && match kw_of n with None => true | Some _ => false end.

Lemma ident_okb_ok n : ident_okb n = true -> ident_ok n.
Proof.
  unfold ident_okb, ident_ok. intros H. apply andb_true_iff in H as [H1 H2].
  split; [|destruct (kw_of n); [discriminate | reflexivity]].
  destruct n as [|c tl]; [discriminate|]. apply andb_true_iff in H1. exact H1.
Qed.

Lemma assoc_some_nth {A} : forall (l : list (str * A)) n v, assoc_str l n = Some v ->
  exists i, nth_error l i = Some (n, v).
Proof.
  induction l as [|[k0 v0] l IH]; intros n v H; [discriminate|]. cbn [assoc_str] in H.
  destruct (str_eqb k0 n) eqn:E.
  - apply str_eqb_eq in E. inversion H; subst. exists 0. reflexivity.
  - destruct (IH n v H) as [i Hi]. exists (S i). exact Hi.
Qed.
