(* C07 — base types named through the declaration context: typedef names, the standard *_t names,
   struct / union / enum tags.  What parse_complete does with them, what cparser does with them,
   and the agreement theorem for such a base type followed by a simple declarator. *)
From Coq Require Import List Arith NArith ZArith Lia Bool String.
Import ListNotations.
From Cffi Require Import C25.Model C25.Proofs C07.Model C07.Realize C07.PyModel C07.Lexer C07.Tokens C07.Specs
     C07.Tables C07.Parse C07.Sequel C07.Sequel2 C07.Agree.

Local Open Scope nat_scope.

(* ---------------------------------------------------------------- well-formed contexts *)
Definition wf_genv (g : genv) : Prop :=
  table_ok (map fst (g_typedefs g)) /\
  table_ok (map (fun x => fst (fst x)) (g_structs g)) /\
  table_ok (map fst (g_enums g)) /\
  table_ok (map fst (g_globals g)).


(* ---------------------------------------------------------------- named base types *)
Inductive nbase := NTypedef (n : str) | NStd (n : str) | NTag (k : tagkind) (n : str).

Definition kw_of_tag (k : tagkind) : kw :=
  match k with TKstruct => K_struct | TKunion => K_union | TKenum => K_enum end.

Definition nbase_stoks (b : nbase) : list stok :=
  match b with NTypedef n | NStd n => [SName n] | NTag k n => [STag k n] end.
Definition nbase_name (b : nbase) : str := match b with NTypedef n | NStd n | NTag _ n => n end.
Definition nbase_toks (b : nbase) : kinds_texts :=
  match b with
  | NTypedef n | NStd n => [(KIdent, n)]
  | NTag k n => [(KKw (kw_of_tag k), sp_tag k); (KIdent, n)]
  end.

(* what the base type is in the context g: the opcode the C parser writes and the type it stands
   for; None: rejected *)
Inductive base_ok (g : genv) : nbase -> option (Z * mty) -> Prop :=
| BO_typedef : forall n i m, nth_error (g_typedefs g) i = Some (n, m) ->
    base_ok g (NTypedef n) (Some (OP OP_TYPENAME (Z.of_nat i), m))
| BO_std : forall n p, ~ In n (map fst (g_typedefs g)) -> search_standard_typename n = Some p ->
    base_ok g (NStd n) (Some (OP OP_PRIMITIVE p, MPrim p))
| BO_su : forall k n i u m, k <> TKenum -> nth_error (g_structs g) i = Some (n, u, m) ->
    base_ok g (NTag k n) (if Bool.eqb u (tagkind_eqb k TKunion)
                          then Some (OP OP_STRUCT_UNION (Z.of_nat i), m) else None)
| BO_enum : forall n i m, nth_error (g_enums g) i = Some (n, m) ->
    base_ok g (NTag TKenum n) (Some (OP OP_ENUM (Z.of_nat i), m))
| BO_enum_none : forall n, ~ In n (map fst (g_enums g)) -> base_ok g (NTag TKenum n) None.

Lemma std_nonzero n p : search_standard_typename n = Some p -> (16 <= p <= 51)%Z.
Proof.
  unfold search_standard_typename. intros H.
  assert (G : forall tbl, forallb (fun kv => (16 <=? snd kv)%Z && (snd kv <=? 51)%Z) tbl = true ->
                          assoc_str tbl n = Some p -> (16 <= p <= 51)%Z).
  { induction tbl as [|[k v] tbl IH]; cbn; intros Hf Ha; [discriminate|].
    apply andb_true_iff in Hf as [Hv Hf]. destruct (str_eqb k n).
    - inversion Ha; subst. apply andb_true_iff in Hv as [A B].
      apply Z.leb_le in A. apply Z.leb_le in B. cbn in *. lia.
    - apply IH; assumption. }
  apply (G standard_typenames); [vm_compute; reflexivity | exact H].
Qed.

(* ---------------------------------------------------------------- the Python side *)
Lemma denote_base_named g b r : wf_genv g -> base_ok g b r ->
  denote_base g (nbase_stoks b) = option_map snd r.
Proof.
  intros (Wt & Ws & We & Wgl) H. destruct H as [n i m Hn | n p Hni Hp | k n i u m Hk Hn | n i m Hn | n Hni];
    cbn [nbase_stoks denote_base option_map snd].
  - rewrite (assoc_nth _ i n m (proj2 Wt) Hn). reflexivity.
  - rewrite (assoc_none _ n Hni), Hp. reflexivity.
  - unfold lookup_tag.
    assert (Ha : assoc_str (map (fun x => (fst (fst x), (snd (fst x), snd x))) (g_structs g)) n = Some (u, m)).
    { apply (assoc_nth _ i).
      - rewrite map_map. cbn [fst]. exact (proj2 Ws).
      - rewrite nth_error_map, Hn. reflexivity. }
    destruct k; try congruence; rewrite Ha; destruct (Bool.eqb u _); reflexivity.
  - unfold lookup_tag. rewrite (assoc_nth _ i n m (proj2 We) Hn). reflexivity.
  - unfold lookup_tag. rewrite (assoc_none _ n Hni). reflexivity.
Qed.

(* ---------------------------------------------------------------- the C side *)
Section CSide.
Variable osz : nat.
Variable g : genv.
Variable input : str.
Variable toks : kinds_texts.
Hypothesis L : lexed input toks.
Hypothesis Wg : wf_genv g.

Notation T := (T input).
Notation K := (K toks).
Notation At := (At toks).
Notation cx := (ctx_of g).

Lemma parse_complete_S' f t :
  parse_complete osz cx (S f) t =
  bind (qualifiers f t) (fun t1 =>
  bind (modifiers f t1 0%Z 0%Z) (fun '(t2, mlen, msign) =>
  bind (if (negb (mlen =? 0)%Z || negb (msign =? 0)%Z)%bool then
          bind (base_with_modifiers t2 mlen msign) (fun '(t3, op) => Ok (t3, op, 0%Z))
        else
          bind (base_plain cx (parse_from osz cx f) t2) (fun '(t3, op, cplx) => Ok (next_token t3, op, cplx)))
       (fun '(t5, t1op, t1complex) =>
  bind (if is_kw t5 K_Complex then
          if (t1complex =? 0)%Z then parse_error t5 E_complex
          else Ok (next_token t5, t1complex)
        else Ok (t5, t1op)) (fun '(t6, t1op6) =>
  bind (write_ds osz t6 t1op6) (fun '(t7, idx) => parse_sequel osz cx f t7 idx))))).
Proof. reflexivity. Qed.

Lemma At_Kat i l : At i l -> Kat toks i (map fst l).
Proof.
  intros H j Hj. rewrite map_length in Hj. specialize (H j Hj).
  assert (E : nth_error toks (i + j) = Some (nth j l (KEnd, []))) by (rewrite H; apply nth_error_nth'; exact Hj).
  rewrite (At_K toks _ _ E). rewrite (nth_indep _ KEnd (fst (KEnd, @nil N))) by (rewrite map_length; exact Hj).
  rewrite map_nth. reflexivity.
Qed.

Lemma parse_complete_named : forall (q1 : list qual) b r f i o,
  Kat toks i (map qkind q1) -> At (i + List.length q1) (nbase_toks b) ->
  follower (K (i + List.length q1 + List.length (nbase_toks b))) ->
  ident_ok (nbase_name b) -> base_ok g b r -> List.length q1 + 4 < f ->
  match r with
  | Some (op, _) =>
    parse_complete osz cx (S f) (T i o) =
    bind (write_ds osz (T (i + List.length q1 + List.length (nbase_toks b)) o) op)
         (fun '(t7, idx) => parse_sequel osz cx f t7 idx)
  | None => is_err (parse_complete osz cx (S f) (T i o))
  end.
Proof.
  intros q1 b r f i o Hq Hb Hfol Hid Hok Hf.
  destruct Wg as (Wt & Ws & We & Wgl).
  set (p := i + List.length q1) in *.
  pose proof (ident_ok_nulfree _ Hid) as Hnul.
  (* the first token of the base *)
  assert (Hk0 : K p = KIdent \/ exists k, K p = KKw (kw_of_tag k)).
  { destruct b; cbn [nbase_toks] in Hb; apply (At_cons toks) in Hb as [H0 _];
      rewrite (At_K toks _ _ H0); cbn; eauto. }
  assert (Hq1 : qualifiers f (T i o) = Ok (T p o)).
  { apply (qualifiers_run input toks L); auto; try lia; fold p;
      destruct Hk0 as [-> | [k ->]]; try discriminate; destruct k; discriminate. }
  assert (Hm : modifiers f (T p o) 0%Z 0%Z = Ok (T p o, 0%Z, 0%Z)).
  { destruct f as [|f']; [lia|]. cbn [modifiers]. rewrite (kind_T input toks L).
    destruct Hk0 as [-> | [k ->]]; [reflexivity | destruct k; reflexivity]. }
  rewrite parse_complete_S', Hq1. cbn [bind]. rewrite Hm. cbn [bind Z.eqb negb orb].
  assert (HnoC : forall j o', j = p + List.length (nbase_toks b) ->
            kind_eqb (t_kind (T j o')) (KKw K_Complex) = false).
  { intros j o' ->. rewrite (kind_T input toks L). apply follower_is_kw; [|discriminate|discriminate].
    unfold p. exact Hfol. }
  unfold base_plain. rewrite (kind_T input toks L).
  destruct Hok as [n i0 m Hn | n pp Hni Hp | k n i0 u m Hk Hn | n i0 m Hn | n Hni];
    cbn [nbase_toks nbase_name List.length] in *.
  - (* typedef name *)
    apply (At_cons toks) in Hb as [H0 _]. rewrite (At_K toks _ _ H0). cbn [fst].
    destruct (At_text input toks L _ _ o H0) as [Htx _]. cbn [snd] in Htx. rewrite Htx.
    cbn [ctx_of c_typenames].
    rewrite (search_member _ i0 n Wt) by (rewrite nth_error_map, Hn; reflexivity).
    cbn [bind]. cbv beta iota. unfold is_kw. rewrite T_next, HnoC by lia. cbn [bind].
    replace (p + 1) with (S p) by lia. reflexivity.
  - (* standard name *)
    apply (At_cons toks) in Hb as [H0 _]. rewrite (At_K toks _ _ H0). cbn [fst].
    destruct (At_text input toks L _ _ o H0) as [Htx _]. cbn [snd] in Htx. rewrite Htx.
    cbn [ctx_of c_typenames]. rewrite (search_absent _ n Wt Hnul Hni), Hp.
    cbn [bind]. cbv beta iota. unfold is_kw. rewrite T_next, HnoC by lia. cbn [bind].
    replace (p + 1) with (S p) by lia. reflexivity.
  - (* struct / union tag *)
    apply (At_cons toks) in Hb as [H0 Hb]. apply (At_cons toks) in Hb as [H1 _].
    rewrite (At_K toks _ _ H0). cbn [fst].
    assert (Hsu : search_sorted (map fst (c_structs cx)) n = Some i0).
    { cbn [ctx_of c_structs]. rewrite map_map. cbn [fst].
      apply (search_member _ i0 n Ws). rewrite nth_error_map, Hn. reflexivity. }
    assert (Hflag : snd (nth i0 (c_structs cx) ([], false)) = u).
    { cbn [ctx_of c_structs].
      erewrite nth_indep by (rewrite map_length; apply nth_error_Some; congruence).
      rewrite (map_nth (fun x => (fst (fst x), snd (fst x))) (g_structs g) (n, u, m) i0).
      rewrite (nth_error_nth _ _ _ Hn). reflexivity. }
    destruct (At_text input toks L _ _ o H1) as [Htx _]. cbn [snd] in Htx.
    assert (Hstep : forall isu : bool,
      (do pat <-
       (do pat <-
        (if xorb u isu then parse_error (T (S p) o) E_wrong_kind
         else Ok (T (S p) o, OP OP_STRUCT_UNION (Z.of_nat i0), 0%Z));
        let '(t3, op, cplx) := pat in Ok (next_token t3, op, cplx));
       let '(t5, t1op, t1complex) := pat in
       do pat0 <-
       (if is_kw t5 K_Complex
        then if (t1complex =? 0)%Z then parse_error t5 E_complex else Ok (next_token t5, t1complex)
        else Ok (t5, t1op));
       let '(t6, t1op6) := pat0 in
       do pat1 <- write_ds osz t6 t1op6;
       let '(t7, idx) := pat1 in parse_sequel osz cx f t7 idx) =
      if xorb u isu then Err E_wrong_kind (t_pos (T (S p) o))
      else (do pat <- write_ds osz (T (p + 2) o) (OP OP_STRUCT_UNION (Z.of_nat i0));
            let '(t7, idx) := pat in parse_sequel osz cx f t7 idx)).
    { intros isu. destruct (xorb u isu); [reflexivity|].
      cbn [bind]. cbv beta iota. unfold is_kw. rewrite T_next, HnoC by lia. cbn [bind].
      replace (p + 2) with (S (S p)) by lia. reflexivity. }
    assert (Hu : is_kw (T p o) K_union = tagkind_eqb k TKunion).
    { unfold is_kw. rewrite (kind_T input toks L), (At_K toks _ _ H0). destruct k; try congruence; reflexivity. }
    assert (Hkk : match k with TKstruct | TKunion => True | TKenum => False end) by (destruct k; auto).
    destruct k; [| |contradiction]; cbn [kw_of_tag]; cbv zeta; rewrite T_next, (kind_T input toks L), (At_K toks _ _ H1);
      cbn [fst kind_eqb negb]; rewrite Htx, Hsu, Hflag, !Hu; cbn [tagkind_eqb].
    + rewrite (Hstep false). destruct u; cbn [xorb Bool.eqb]; first [reflexivity | exact I].
    + rewrite (Hstep true). destruct u; cbn [xorb Bool.eqb]; first [reflexivity | exact I].
  - (* enum tag *)
    apply (At_cons toks) in Hb as [H0 Hb]. apply (At_cons toks) in Hb as [H1 _].
    rewrite (At_K toks _ _ H0). cbn [fst kw_of_tag]. cbv zeta.
    destruct (At_text input toks L _ _ o H1) as [Htx _]. cbn [snd] in Htx.
    rewrite T_next, (kind_T input toks L), (At_K toks _ _ H1). cbn [fst kind_eqb negb]. rewrite Htx.
    cbn [ctx_of c_enums]. rewrite (search_member _ i0 n We) by (rewrite nth_error_map, Hn; reflexivity).
    cbn [bind]. cbv beta iota. unfold is_kw. rewrite T_next, HnoC by lia. cbn [bind]. replace (p + 2) with (S (S p)) by lia. reflexivity.
  - apply (At_cons toks) in Hb as [H0 Hb]. apply (At_cons toks) in Hb as [H1 _].
    rewrite (At_K toks _ _ H0). cbn [fst kw_of_tag]. cbv zeta.
    destruct (At_text input toks L _ _ o H1) as [Htx _]. cbn [snd] in Htx.
    rewrite T_next, (kind_T input toks L), (At_K toks _ _ H1). cbn [fst kind_eqb negb]. rewrite Htx.
    cbn [ctx_of c_enums]. rewrite (search_absent _ n We Hnul Hni). exact I.
Qed.

End CSide.
