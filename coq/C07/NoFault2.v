(* C07 — no access to tok->output outside [0, output_index): the mutual induction. *)
From Coq Require Import List Arith NArith ZArith Lia Bool String.
Import ListNotations.
From Cffi Require Import C25.Model C07.Model C07.Lexer C07.NoFault.

Local Open Scope nat_scope.

Definition okres {A} (P : A -> Prop) (r : res A) : Prop :=
  match r with Ok a => P a | Err _ _ => True | Fault => False end.

Lemma okres_bind {A B} (P : A -> Prop) (Q : B -> Prop) (r : res A) (f : A -> res B) :
  okres P r -> (forall a, P a -> okres Q (f a)) -> okres Q (bind r f).
Proof. destruct r; cbn; auto. Qed.

Lemma okres_impl {A} (P Q : A -> Prop) (r : res A) : okres P r -> (forall a, P a -> Q a) -> okres Q r.
Proof. destruct r; cbn; auto. Qed.

Definition len (t : tok) : Z := Z.of_nat (List.length (t_out t)).

(* t' continues t: well-formed token window, the text consumed is comma neutral, output only grew *)
Definition step_ok (t t' : tok) : Prop := wf t' /\ neutral_step t t' /\ (len t <= len t')%Z.

Lemma step_refl t : wf t -> step_ok t t.
Proof. intros H. repeat split; auto; try apply neutral_refl; lia. Qed.

Lemma step_trans a b c : step_ok a b -> step_ok b c -> step_ok a c.
Proof.
  intros (A1 & A2 & A3) (B1 & B2 & B3). repeat split; auto; [eapply neutral_trans; eauto | lia].
Qed.

Lemma step_with_out t o : wf t -> (len t <= Z.of_nat (List.length o))%Z -> step_ok t (with_out t o).
Proof. intros H Hl. repeat split; auto; try apply neutral_refl. Qed.

Definition plain_kind (k : kind) : Prop :=
  k <> KEnd /\ forall c, k = KChar c -> c <> c_comma /\ c <> c_lpar /\ c <> c_rpar.

Lemma step_next t : wf t -> plain_kind (t_kind t) -> step_ok t (next_token t).
Proof.
  intros H [He Hc]. repeat split.
  - apply wf_next.
  - apply next_neutral; auto.
  - unfold len. rewrite t_out_next. lia.
Qed.

Lemma plain_kw k : plain_kind (KKw k).
Proof. split; [discriminate | intros c H; discriminate]. Qed.
Lemma plain_ident : plain_kind KIdent.
Proof. split; [discriminate | intros c H; discriminate]. Qed.
Lemma plain_int : plain_kind KInteger.
Proof. split; [discriminate | intros c H; discriminate]. Qed.
Lemma plain_dots : plain_kind KDots.
Proof. split; [discriminate | intros c H; discriminate]. Qed.
Lemma plain_char c : c <> c_comma -> c <> c_lpar -> c <> c_rpar -> plain_kind (KChar c).
Proof. intros A B C. split; [discriminate | intros c' H; inversion H; subst; auto]. Qed.

Lemma is_ch_true t c : is_ch t c = true -> t_kind t = KChar c.
Proof.
  unfold is_ch. destruct (t_kind t) as [| | | | |c'|k]; cbn; try discriminate.
  intros H. apply N.eqb_eq in H. subst. reflexivity.
Qed.
Lemma is_kw_true t k : is_kw t k = true -> exists k', t_kind t = KKw k'.
Proof. unfold is_kw. destruct (t_kind t) as [| | | | |c'|k']; cbn; try discriminate. eauto. Qed.

Lemma GETARG_OP_any x a : GETARG (OP (GETOP x) a) = a.
Proof.
  unfold GETARG, OP, GETOP.
  pose proof (Z.mod_pos_bound x 256 ltac:(lia)) as H.
  rewrite Z.div_add by lia. rewrite Z.div_small by lia. lia.
Qed.

Section NF.
Variable osz : nat.
Variable cx : ctx.

(* ---- primitives *)
Lemma write_ds_ok' t ds : wf t ->
  okres (fun '(t', idx) => step_ok t t' /\ len t' = (len t + 1)%Z /\ idx = len t /\
                           t_kind t' = t_kind t) (write_ds osz t ds).
Proof.
  intros H. unfold write_ds. destruct (List.length (t_out t) <? osz); cbn; [|exact I].
  split; [|split; [|split]].
  - split; [exact H|]. split; [intros d acc; reflexivity|].
    unfold len. cbn [t_out with_out]. rewrite app_length. cbn [List.length]. lia.
  - unfold len. cbn [t_out with_out]. rewrite app_length. cbn [List.length]. lia.
  - reflexivity.
  - reflexivity.
Qed.

Lemma get_out_ok t i : (0 <= i < len t)%Z -> exists v, get_out t i = Ok v.
Proof.
  intros H. unfold get_out, len in *.
  replace ((0 <=? i)%Z && (i <? Z.of_nat (List.length (t_out t)))%Z)%bool with true; [eauto|].
  symmetry. apply andb_true_iff. split; [apply Z.leb_le | apply Z.ltb_lt]; lia.
Qed.

Lemma set_nth_len : forall l i v, List.length (set_nth l i v) = List.length l.
Proof. induction l; intros [|i] v; cbn; auto. Qed.

Lemma set_out_ok t i v : wf t -> (0 <= i < len t)%Z ->
  exists t', set_out t i v = Ok t' /\ step_ok t t' /\ len t' = len t /\ t_kind t' = t_kind t.
Proof.
  intros Hw H. unfold set_out, len in *.
  replace ((0 <=? i)%Z && (i <? Z.of_nat (List.length (t_out t)))%Z)%bool with true.
  - eexists. split; [reflexivity|].
    assert (Hl : Z.of_nat (List.length (t_out (with_out t (set_nth (t_out t) (Z.to_nat i) v)))) =
                 Z.of_nat (List.length (t_out t))) by (cbn [t_out with_out]; rewrite set_nth_len; reflexivity).
    split; [|split; [exact Hl | reflexivity]].
    split; [exact Hw|]. split; [intros d acc; reflexivity | unfold len; lia].
  - symmetry. apply andb_true_iff. split; [apply Z.leb_le | apply Z.ltb_lt]; lia.
Qed.

(* the hole *p_current and `result` *)
Definition res_ok (t : tok) (pc : pcur) (result : Z) : Prop :=
  match pc with
  | PRes => True
  | POut x => (0 <= x < len t)%Z /\ (0 <= GETARG result < len t)%Z
  end.

Lemma res_ok_mono t t' pc r : res_ok t pc r -> (len t <= len t')%Z -> res_ok t' pc r.
Proof. destruct pc; cbn; auto. intros [A B] H. lia. Qed.

Lemma retarget_ok' t pc result target : wf t -> res_ok t pc result ->
  okres (fun '(t', r') => step_ok t t' /\ len t' = len t /\ t_kind t' = t_kind t /\
                          match pc with
                          | PRes => GETARG r' = target
                          | POut _ => r' = result
                          end) (retarget t pc result target).
Proof.
  intros Hw Hr. unfold retarget, get_cur, set_cur. destruct pc as [|x]; cbn [bind].
  - cbn. split; [apply step_refl; exact Hw|]. split; [reflexivity|]. split; [reflexivity | apply GETARG_OP_any].
  - destruct Hr as [Hx _]. destruct (get_out_ok t x Hx) as [v Hv]. rewrite Hv. cbn [bind].
    destruct (set_out_ok t x (OP (GETOP v) target) Hw Hx) as (t' & E & S1 & S2 & S3).
    rewrite E. cbn. auto.
Qed.

(* ---- loops without recursion into the mutual block *)
Lemma header_nf : forall f t outer abi, wf t -> (0 <= outer < len t)%Z ->
  okres (fun '(t', outer', abi') => step_ok t t' /\ (0 <= outer' < len t')%Z) (header osz f t outer abi).
Proof.
  induction f as [|f IH]; intros t outer abi Hw Ho; cbn [header]; [exact I|].
  assert (Hkw : forall k, t_kind t = KKw k -> forall o a,
            okres (fun '(t', outer', abi') => step_ok t t' /\ (0 <= outer' < len t')%Z)
                  (header osz f (next_token t) o a) \/ True) by (intros; right; exact I).
  clear Hkw.
  assert (Hgo : forall a, plain_kind (t_kind t) ->
            okres (fun '(t', outer', abi') => step_ok t t' /\ (0 <= outer' < len t')%Z)
                  (header osz f (next_token t) outer a)).
  { intros a Hp. pose proof (step_next t Hw Hp) as Hs.
    eapply okres_impl; [apply IH; [apply Hs | destruct Hs as (_ & _ & Hl); lia]|].
    intros [[t' o'] a'] [S1 S2]. split; [eapply step_trans; eauto | exact S2]. }
  destruct (t_kind t) as [| | | | |c|k] eqn:Ek; try (cbn; split; [apply step_refl; auto | exact Ho]).
  - destruct (N.eqb c c_star) eqn:Ec; [|cbn; split; [apply step_refl; auto | exact Ho]].
    apply N.eqb_eq in Ec. subst c.
    eapply okres_bind; [apply write_ds_ok'; exact Hw|].
    intros [t1 idx] (S1 & L1 & I1 & K1).
    assert (Hp : plain_kind (t_kind t1)) by (rewrite K1, Ek; apply plain_char; discriminate).
    destruct S1 as (W1 & N1 & M1).
    pose proof (step_next t1 W1 Hp) as Hs.
    eapply okres_impl; [apply IH; [apply Hs | destruct Hs as (_ & _ & Hl); lia]|].
    intros [[t' o'] a'] [S2 S3]. split; [|exact S3].
    eapply step_trans; [exact (conj W1 (conj N1 M1))|]. eapply step_trans; [exact Hs | exact S2].
  - destruct k; try (cbn; split; [apply step_refl; auto | exact Ho]);
      apply Hgo; rewrite <- Ek; rewrite Ek; apply plain_kw.
Qed.

Lemma qualifiers_nf : forall f t, wf t ->
  okres (fun t' => step_ok t t' /\ t_out t' = t_out t) (qualifiers f t).
Proof.
  induction f as [|f IH]; intros t Hw; cbn [qualifiers]; [exact I|].
  assert (Hgo : plain_kind (t_kind t) ->
            okres (fun t' => step_ok t t' /\ t_out t' = t_out t) (qualifiers f (next_token t))).
  { intros Hp. pose proof (step_next t Hw Hp) as Hs.
    eapply okres_impl; [apply IH; apply Hs|].
    intros t' [S1 S2]. split; [eapply step_trans; eauto | rewrite S2; apply t_out_next]. }
  destruct (t_kind t) as [| | | | |c|k] eqn:Ek; try (cbn; split; [apply step_refl; auto | reflexivity]).
  destruct k; try (cbn; split; [apply step_refl; auto | reflexivity]); apply Hgo; apply plain_kw.
Qed.

Lemma modifiers_nf : forall f t a b, wf t ->
  okres (fun '(t', _, _) => step_ok t t' /\ t_out t' = t_out t) (modifiers f t a b).
Proof.
  induction f as [|f IH]; intros t a b Hw; cbn [modifiers]; [exact I|].
  assert (Hgo : forall a' b', plain_kind (t_kind t) ->
            okres (fun '(t', _, _) => step_ok t t' /\ t_out t' = t_out t) (modifiers f (next_token t) a' b')).
  { intros a' b' Hp. pose proof (step_next t Hw Hp) as Hs.
    eapply okres_impl; [apply IH; apply Hs|].
    intros [[t' x] y] [S1 S2]. split; [eapply step_trans; eauto | rewrite S2; apply t_out_next]. }
  destruct (t_kind t) as [| | | | |c|k] eqn:Ek; try (cbn; split; [apply step_refl; auto | reflexivity]).
  destruct k; try (cbn; split; [apply step_refl; auto | reflexivity]).
  - destruct (a <? 0)%Z; [exact I|]. destruct (a >=? 2)%Z; [exact I | apply Hgo; apply plain_kw].
  - destruct (negb (a =? 0)%Z); [exact I | apply Hgo; apply plain_kw].
  - destruct (negb (b =? 0)%Z); [exact I | apply Hgo; apply plain_kw].
  - destruct (negb (b =? 0)%Z); [exact I | apply Hgo; apply plain_kw].
Qed.

Lemma base_mod_nf t a b : wf t ->
  okres (fun '(t', _) => step_ok t t' /\ t_out t' = t_out t) (base_with_modifiers t a b).
Proof.
  intros Hw. unfold base_with_modifiers.
  assert (Hn : plain_kind (t_kind t) -> step_ok t (next_token t) /\ t_out (next_token t) = t_out t).
  { intros Hp. split; [apply step_next; auto | apply t_out_next]. }
  destruct (t_kind t) as [| | | | |c|k] eqn:Ek; try (cbn; split; [apply step_refl; auto | reflexivity]).
  destruct k; try exact I; try (cbn; split; [apply step_refl; auto | reflexivity]).
  - destruct (negb (a =? 0)%Z); [exact I|]. cbn. apply Hn. apply plain_kw.
  - destruct (negb (b =? 0)%Z || negb (a =? 1)%Z)%bool; [exact I|]. cbn. apply Hn. apply plain_kw.
  - cbn. apply Hn. apply plain_kw.
Qed.

Lemma array_length_nf t : okres (fun _ => t_kind t = KInteger \/ t_kind t = KIdent) (array_length cx t).
Proof.
  unfold array_length. destruct (t_kind t); try exact I.
  - destruct (search_sorted _ _); [|exact I]. destruct (snd _); [|exact I].
    repeat match goal with |- context [if ?c then _ else _] => destruct c end; cbn; auto.
  - destruct (strtoull0 _). repeat match goal with |- context [if ?c then _ else _] => destruct c end; cbn; auto.
Qed.

Lemma brackets_nf : forall f t pc result, wf t -> res_ok t pc result ->
  okres (fun '(t', pc', r') => step_ok t t' /\ res_ok t' pc' r') (brackets osz cx f t pc result).
Proof.
  induction f as [|f IH]; intros t pc result Hw Hr; cbn [brackets]; [exact I|].
  destruct (is_ch t c_lbr) eqn:Eb; [|cbn; split; [apply step_refl; auto | exact Hr]].
  apply is_ch_true in Eb.
  eapply okres_bind; [apply retarget_ok'; eauto|].
  intros [t1 r1] (S1 & L1 & K1 & R1).
  assert (Hp1 : plain_kind (t_kind t1)) by (rewrite K1, Eb; apply plain_char; discriminate).
  pose proof S1 as (W1 & N1 & M1).
  pose proof (step_next t1 W1 Hp1) as S2.
  pose proof S2 as (W2 & N2 & M2).
  set (oi := Z.of_nat (List.length (t_out t))) in *.
  assert (Hoi : oi = len t) by reflexivity.
  eapply okres_bind with (P := fun t5 => step_ok (next_token t1) t5 /\ (len t1 < len t5)%Z).
  - destruct (negb (is_ch (next_token t1) c_rbr)) eqn:Er.
    + eapply okres_bind; [apply array_length_nf|]. intros lenv Hk.
      assert (Hk2 : plain_kind (t_kind (next_token t1)))
        by (destruct Hk as [-> | ->]; [apply plain_int | apply plain_ident]).
      pose proof (step_next _ W2 Hk2) as S3. pose proof S3 as (W3 & N3 & M3).
      eapply okres_bind; [apply write_ds_ok'; exact W3|].
      intros [t4 i4] (S4 & L4 & _ & _). pose proof S4 as (W4 & _ & _).
      eapply okres_bind; [apply write_ds_ok'; exact W4|].
      intros [t5 i5] (S5 & L5 & _ & _). cbn.
      split; [eapply step_trans; [exact S3 | eapply step_trans; eauto] | lia].
    + eapply okres_bind; [apply write_ds_ok'; exact W2|].
      intros [t3 i3] (S3 & L3 & _ & _). cbn. split; [exact S3 | lia].
  - intros t5 [S5 L5]. pose proof S5 as (W5 & N5 & M5).
    destruct (negb (is_ch t5 c_rbr)) eqn:Er; [exact I|].
    apply negb_false_iff in Er. apply is_ch_true in Er.
    assert (Hp5 : plain_kind (t_kind t5)) by (rewrite Er; apply plain_char; discriminate).
    pose proof (step_next t5 W5 Hp5) as S6. pose proof S6 as (W6 & N6 & M6).
    eapply okres_impl; [apply IH; [exact W6|]|].
    + cbn. destruct pc as [|x].
      * rewrite R1. lia.
      * destruct Hr as [Hx Hg]. subst r1. lia.
    + intros [[t' pc'] r'] [S7 R7]. split; [|exact R7].
      eapply step_trans; [exact S1|]. eapply step_trans; [exact S2|].
      eapply step_trans; [exact S5|]. eapply step_trans; [exact S6 | exact S7].
Qed.

End NF.
