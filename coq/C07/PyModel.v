(* C07 — the Python side: the grammar's abstract syntax, its concrete spellings, and what
   cffi/cparser.py makes of it.

   `tyexpr` is the concrete syntax tree of the common declarator grammar, shaped like
   parse_sequel reads it (header, optional name, grouping parentheses, function suffixes,
   array suffixes).  `tokens_of` lists its tokens, `spell` writes them with white space.

   pycparser is not modelled: `pyast` is the declarator inversion every C parser performs
   (the tree pycparser hands to cffi), and `denote_py` is Parser._get_type_and_quals
   (cparser.py:611) with _parse_function_type (724), _as_func_arg (757), the specifier
   normalisation (649–674), resolve_common_type (commontypes.py:26) and _parse_constant (880)
   for array lengths.  `denote = build . denote_mty` (Realize.v). *)
From Coq Require Import List Arith NArith ZArith Lia Bool String.
Import ListNotations.
From Cffi Require Import C25.Model C07.Model C07.Realize.
Local Open Scope Z_scope.

(* ---------------------------------------------------------------- syntax *)
Inductive modifier := Msigned | Munsigned | Mshort | Mlong.
Inductive basekw := Bint | Bchar | Bvoid | Bbool | Bfloat | Bdouble.
Inductive qual := Qconst | Qvolatile.
Inductive tagkind := TKstruct | TKunion | TKenum.

Inductive stok :=
| SQ (q : qual) | SM (m : modifier) | SB (b : basekw) | SComplex
| SName (n : str)                      (* typedef name, standard *_t name, bool, FILE *)
| STag (k : tagkind) (n : str).

Inductive hitem := HStar | HQ (q : qual) | HAbi (stdcall : bool).
Inductive alen := ALOpen | ALLit (text : str) | ALName (n : str).

Inductive tyexpr :=
| TE (specs : list stok) (d : decl)
with decl :=
| D (hdr : list hitem) (name : option str) (group : option (option bool * decl))
    (funcs : list fsuffix) (arrays : list alen)
with fsuffix :=
| F (args : list tyexpr) (void : bool) (dots : bool).

(* ---------------------------------------------------------------- tokens *)
Definition sp_qual (q : qual) : str := match q with Qconst => s2l "const" | Qvolatile => s2l "volatile" end.
Definition sp_mod (m : modifier) : str :=
  match m with Msigned => s2l "signed" | Munsigned => s2l "unsigned" | Mshort => s2l "short"
             | Mlong => s2l "long" end.
Definition sp_base (b : basekw) : str :=
  match b with Bint => s2l "int" | Bchar => s2l "char" | Bvoid => s2l "void" | Bbool => s2l "_Bool"
             | Bfloat => s2l "float" | Bdouble => s2l "double" end.
Definition sp_tag (k : tagkind) : str :=
  match k with TKstruct => s2l "struct" | TKunion => s2l "union" | TKenum => s2l "enum" end.
Definition sp_abi (stdcall : bool) : str := if stdcall then s2l "__stdcall" else s2l "__cdecl".

Definition stok_tokens (s : stok) : list str :=
  match s with
  | SQ q => [sp_qual q] | SM m => [sp_mod m] | SB b => [sp_base b] | SComplex => [s2l "_Complex"]
  | SName n => [n] | STag k n => [sp_tag k; n]
  end.
Definition hitem_token (h : hitem) : str :=
  match h with HStar => [c_star] | HQ q => sp_qual q | HAbi a => sp_abi a end.
Definition alen_tokens (a : alen) : list str :=
  match a with
  | ALOpen => [[c_lbr]; [c_rbr]]
  | ALLit t => [[c_lbr]; t; [c_rbr]]
  | ALName n => [[c_lbr]; n; [c_rbr]]
  end.

Fixpoint sep_by {A} (sep : A) (l : list (list A)) : list A :=
  match l with
  | [] => []
  | [x] => x
  | x :: l' => x ++ sep :: sep_by sep l'
  end.

Fixpoint te_tokens (t : tyexpr) : list str :=
  match t with TE specs d => List.concat (map stok_tokens specs) ++ decl_tokens d end
with decl_tokens (d : decl) : list str :=
  match d with
  | D hdr name group funcs arrays =>
    map hitem_token hdr
    ++ match name with Some n => [n] | None => [] end
    ++ match group with
       | Some (abi, d') => [[c_lpar]] ++ match abi with Some a => [sp_abi a] | None => [] end
                           ++ decl_tokens d' ++ [[c_rpar]]
       | None => []
       end
    ++ List.concat (map fs_tokens funcs)
    ++ List.concat (map alen_tokens arrays)
  end
with fs_tokens (f : fsuffix) : list str :=
  match f with
  | F args void dots =>
    [[c_lpar]]
    ++ (if void then [s2l "void"]
        else sep_by [c_comma] (map te_tokens args
                               ++ if dots then [[s2l "..."]] else []))
    ++ [[c_rpar]]
  end.

(* spelling: each token preceded by its white space *)
Definition spell (wtoks : list (str * str)) (trailing : str) : str :=
  List.concat (map (fun wt => fst wt ++ snd wt) wtoks) ++ trailing.

Definition is_ws (w : str) : bool := forallb is_space w.

(* a token that is an identifier, keyword or number needs white space before a token that
   starts with a letter, digit, '_' or '$' *)
Definition wordy_end (s : str) : bool := match rev s with c :: _ => is_ident_next c | [] => false end.
Definition wordy_start (s : str) : bool := match s with c :: _ => is_ident_next c | [] => false end.

Fixpoint sep_ok (prev : str) (wtoks : list (str * str)) : bool :=
  match wtoks with
  | [] => true
  | (w, s) :: rest =>
    is_ws w && (negb (wordy_end prev && wordy_start s) || negb (match w with [] => true | _ => false end))
    && sep_ok s rest
  end.

(* the spelling used by the generators: gap_i, a mandatory blank where needed, token_i *)
Fixpoint attach (prev : str) (gaps : list str) (toks : list str) : list (str * str) :=
  match toks with
  | [] => []
  | s :: toks' =>
    let g := match gaps with g :: _ => g | [] => [] end in
    let w := if wordy_end prev && wordy_start s then g ++ [32%N] else g in
    (w, s) :: attach s (tl gaps) toks'
  end.
Definition render (t : tyexpr) (gaps : list str) : str :=
  let toks := te_tokens t in
  spell (attach [] gaps toks) (nth (List.length toks) gaps []).

(* ---------------------------------------------------------------- pycparser's tree *)
Inductive pyty :=
| PyBase (names : list stok)           (* specifier tokens, qualifiers dropped *)
| PyPtr (t : pyty)
| PyArr (t : pyty) (dim : alen)
| PyFunc (args : list pyty) (dots : bool) (ret : pyty).

Definition is_qual (s : stok) : bool := match s with SQ _ => true | _ => false end.

Definition wrap_stars (hdr : list hitem) (t : pyty) : pyty :=
  fold_left (fun acc h => match h with HStar => PyPtr acc | _ => acc end) hdr t.

Fixpoint py_te (t : tyexpr) : pyty :=
  match t with TE specs d => py_decl d (PyBase (filter (fun s => negb (is_qual s)) specs)) end
with py_decl (d : decl) (inner : pyty) : pyty :=
  match d with
  | D hdr name group funcs arrays =>
    let t1 := wrap_stars hdr inner in
    let t2 := fold_right (fun a acc => PyArr acc a) t1 arrays in
    let t3 := fold_right (fun f acc => py_fs f acc) t2 funcs in
    match group with
    | Some (_, d') => py_decl d' t3
    | None => t3
    end
  end
with py_fs (f : fsuffix) (ret : pyty) : pyty :=
  match f with
  | F args void dots =>
    if void then PyFunc [PyBase [SB Bvoid]] false ret
    else PyFunc (map py_te args) dots ret
  end.

(* ---------------------------------------------------------------- cparser.py *)
Definition modifier_eqb (a b : modifier) : bool :=
  match a, b with Msigned, Msigned | Munsigned, Munsigned | Mshort, Mshort | Mlong, Mlong => true
                | _, _ => false end.
Definition basekw_eqb (a b : basekw) : bool :=
  match a, b with Bint, Bint | Bchar, Bchar | Bvoid, Bvoid | Bbool, Bbool | Bfloat, Bfloat
                | Bdouble, Bdouble => true | _, _ => false end.
Definition tagkind_eqb (a b : tagkind) : bool :=
  match a, b with TKstruct, TKstruct | TKunion, TKunion | TKenum, TKenum => true | _, _ => false end.

(* words of an IdentifierType *)
Inductive word := WM (m : modifier) | WB (b : basekw) | WComplex.
Definition word_eqb (a b : word) : bool :=
  match a, b with
  | WM x, WM y => modifier_eqb x y
  | WB x, WB y => basekw_eqb x y
  | WComplex, WComplex => true
  | _, _ => false
  end.
Fixpoint words_eqb (a b : list word) : bool :=
  match a, b with
  | [], [] => true
  | x :: a', y :: b' => word_eqb x y && words_eqb a' b'
  | _, _ => false
  end.

(* model.PrimitiveType.ALL_PRIMITIVE_TYPES + COMMON_TYPES 'float _Complex'/'double _Complex',
   keyed by the word list (' '.join(names)); value: _CFFI_PRIM_xxx, 0 = void *)
Definition py_prims : list (list word * Z) :=
  [ ([WB Bvoid], 0); ([WB Bbool], 1); ([WB Bchar], 2); ([WM Msigned; WB Bchar], 3);
    ([WM Munsigned; WB Bchar], 4); ([WM Mshort], 5); ([WM Munsigned; WM Mshort], 6);
    ([WB Bint], 7); ([WM Munsigned; WB Bint], 8); ([WM Mlong], 9); ([WM Munsigned; WM Mlong], 10);
    ([WM Mlong; WM Mlong], 11); ([WM Munsigned; WM Mlong; WM Mlong], 12);
    ([WB Bfloat], 13); ([WB Bdouble], 14); ([WM Mlong; WB Bdouble], 15);
    ([WB Bfloat; WComplex], 48); ([WB Bdouble; WComplex], 49) ].

Fixpoint assoc_words (tbl : list (list word * Z)) (k : list word) : option Z :=
  match tbl with
  | [] => None
  | (k', v) :: tbl' => if words_eqb k' k then Some v else assoc_words tbl' k
  end.

(* the `while names:` loop (654–660): leading short/long/signed/unsigned are counted *)
Fixpoint strip_prefixes (names : list word) (cs cl csg cu : nat) : list word * (nat * nat * nat * nat) :=
  match names with
  | WM Mshort :: r => strip_prefixes r (S cs) cl csg cu
  | WM Mlong :: r => strip_prefixes r cs (S cl) csg cu
  | WM Msigned :: r => strip_prefixes r cs cl (S csg) cu
  | WM Munsigned :: r => strip_prefixes r cs cl csg (S cu)
  | _ => (names, (cs, cl, csg, cu))
  end.

Definition normalise (names : list word) : list word :=
  if words_eqb names [WM Msigned; WB Bchar] then names
  else
    let '(rest, (cs, cl, _, cu)) := strip_prefixes names O O O O in
    let newnames := repeat (WM Munsigned) cu ++ repeat (WM Mshort) cs ++ repeat (WM Mlong) cl in
    let rest1 := match rest with [] => [WB Bint] | _ => rest end in
    let rest2 := if words_eqb rest1 [WB Bint] && (negb (cs =? 0)%nat || negb (cl =? 0)%nat)
                 then [] else rest1 in
    newnames ++ rest2.

Definition word_of (s : stok) : option word :=
  match s with
  | SM m => Some (WM m) | SB b => Some (WB b) | SComplex => Some WComplex
  | _ => None
  end.
Fixpoint words_of (l : list stok) : option (list word) :=
  match l with
  | [] => Some []
  | s :: l' => match word_of s, words_of l' with
               | Some w, Some ws => Some (w :: ws)
               | _, _ => None
               end
  end.

Definition prim_mty (p : Z) : mty := if p =? 0 then MVoid else MPrim p.

Section Denote.
Variable g : genv.

Definition lookup_tag (k : tagkind) (n : str) : option mty :=
  match k with
  | TKenum => assoc_str (g_enums g) n
  | _ =>
    match assoc_str (map (fun x => (fst (fst x), (snd (fst x), snd x))) (g_structs g)) n with
    | Some (is_union, m) =>
      if Bool.eqb is_union (tagkind_eqb k TKunion) then Some m else None
    | None => None
    end
  end.

(* TypeDecl with IdentifierType / Struct / Union / Enum (618–697) *)
Definition denote_base (names : list stok) : option mty :=
  match names with
  | [SName n] =>
    match assoc_str (g_typedefs g) n with
    | Some m => Some m
    | None =>
      (* resolve_common_type: ALL_PRIMITIVE_TYPES names, COMMON_TYPES *)
      match search_standard_typename n with
      | Some p => Some (MPrim p)
      | None =>
        if str_eqb n (s2l "bool") then Some (MPrim PRIM_BOOL)
        else if str_eqb n (s2l "FILE") then Some file_mty
        else None
      end
    end
  | [STag k n] => lookup_tag k n
  | _ =>
    match words_of names with
    | Some ws =>
      (* a specifier list without any type specifier: pycparser supplies 'int' *)
      let ws1 := match ws with [] => [WB Bint] | _ => ws end in
      option_map prim_mty (assoc_words py_prims (normalise ws1))
    | None => None
    end
  end.

(* _parse_constant (880) on what pycparser's lexer accepts as an integer constant without
   suffix: 0, [1-9][0-9]*, 0[0-7]+, 0[xX][0-9a-fA-F]+ *)
Definition all_digits (base : Z) (s : str) : bool :=
  forallb (fun c => match digit_val c with Some d => d <? base | None => false end) s.
Definition py_int (text : str) : option Z :=
  match text with
  | [] => None
  | 48%N :: [] => Some 0
  | 48%N :: c1 :: s2 =>
    if (N.eqb c1 120 || N.eqb c1 88)%bool then
      match s2 with
      | [] => None
      | _ => if all_digits 16 s2 then Some (fst (digits 16 s2 0 O)) else None
      end
    else if all_digits 8 (c1 :: s2) then Some (fst (digits 8 (c1 :: s2) 0 O)) else None
  | c :: _ =>
    if is_digit c && all_digits 10 text then Some (fst (digits 10 text 0 O)) else None
  end.

(* value of a name in an array length: self._int_constants (macros and enumerators) *)
Definition py_const (n : str) : option Z :=
  match assoc_str (g_globals g) n with
  | Some (GInt _ neg value) => Some (if neg =? 0 then value else value - 18446744073709551616)
  | _ => None
  end.

Definition py_dim (a : alen) : option (option Z) :=
  match a with
  | ALOpen => Some None
  | ALLit t => option_map Some (py_int t)
  | ALName n => option_map Some (py_const n)
  end.

(* _as_func_arg (757).  For an array, model.PointerType(type.item) is built directly; when the
   item is a RawFunctionType its build_backend_type() raises CDefError ("cannot render the
   type ...: it is a function type"), unlike Parser._get_type_pointer which turns a function
   into a function pointer. *)
Definition as_func_arg (m : mty) : option mty :=
  match m with
  | MArr (MFun _ _ _) _ => None
  | MArr t _ => Some (MPtr t)
  | MFun _ _ _ => Some (MPtr m)
  | _ => Some m
  end.

Definition is_mvoid (m : mty) : bool := match m with MVoid => true | _ => false end.

Fixpoint denote_py (p : pyty) : option mty :=
  match p with
  | PyBase names => denote_base names
  | PyPtr t => option_map MPtr (denote_py t)
  | PyArr t dim =>
    match py_dim dim, denote_py t with
    | Some len, Some m => Some (MArr m len)
    | _, _ => None
    end
  | PyFunc args dots ret =>
    (* "a function with only '(...)' as argument is not correct C" (741) *)
    if dots && match args with [] => true | _ => false end then None
    else
      match (fix das (l : list pyty) : option (list mty) :=
               match l with
               | [] => Some []
               | a :: l' => match denote_py a, das l' with
                            | Some m, Some ms => option_map (fun m' => m' :: ms) (as_func_arg m)
                            | _, _ => None
                            end
               end) args with
      | None => None
      | Some margs =>
        let margs1 := if negb dots && match margs with [m] => is_mvoid m | _ => false end
                      then [] else margs in
        option_map (fun r => MFun r margs1 dots) (denote_py ret)
      end
  end.

Definition denote_mty (t : tyexpr) : option mty := denote_py (py_te t).

(* FFI.typeof(string) of the in-line FFI (api.py:173): a function type is refused *)
Definition denote (t : tyexpr) : option ctype :=
  match denote_mty t with
  | Some m => match build m with Some (RT c) => Some c | _ => None end
  | None => None
  end.

(* cffi.FFI().typeof(render t gaps): cparser._preprocess turns \r \f \v into blanks (commit
   ec3bae5), blank, tab and newline are skipped by pycparser's lexer: white space does not matter *)
Definition py_typeof (t : tyexpr) (gaps : list str) : option ctype := denote t.

End Denote.

(* ---------------------------------------------------------------- declaration contexts *)
(* how cffi names an aggregate: `typedef struct s n;` gives the struct the name n on the Python
   side (Parser._get_struct_union_enum_type: force_the_name), not on the C side.
   aggregates: (kind, tag, size);  typedefs in declaration order. *)
Definition agg_decl := (tagkind * str * option Z)%type.

Definition direct_tag (t : tyexpr) : option (tagkind * str) :=
  match t with
  | TE specs (D [] _ None [] []) =>
    match filter (fun s => negb (is_qual s)) specs with
    | [STag k n] => Some (k, n)
    | _ => None
    end
  | _ => None
  end.

(* An enum is never renamed this way: when `enum e { .. };` is first seen, EnumType.force_the_name(None)
   (model.py:501) stores the placeholder '$enum_e' in forcename, so the later `if not tp.forcename`
   (cparser.py:830) is false; the declaration contexts always define an enum before any typedef uses it. *)
Fixpoint forced_name (py_side : bool) (k : tagkind) (n : str) (tds : list (str * tyexpr)) : option str :=
  if negb py_side || tagkind_eqb k TKenum then None else
  match tds with
  | [] => None
  | (tn, t) :: tds' =>
    match direct_tag t with
    | Some (k', n') => if tagkind_eqb k k' && str_eqb n n' then Some tn else forced_name py_side k n tds'
    | None => forced_name py_side k n tds'
    end
  end.

Definition agg_mty (py_side : bool) (tds : list (str * tyexpr)) (a : agg_decl) : mty :=
  let '(k, n, sz) := a in
  let cname := match forced_name py_side k n tds with
               | Some f => f
               | None => sp_tag k ++ [32%N] ++ n
               end in
  MAgg (match k with TKstruct => AStruct | TKunion => AUnion | TKenum => AEnum end) cname sz.

(* insertion into a name-sorted association list (the code generator sorts its tables) *)
Fixpoint insert_by_name {A} (k : str) (v : A) (l : list (str * A)) : list (str * A) :=
  match l with
  | [] => [(k, v)]
  | (k', v') :: l' => if leb_lex k k' then (k, v) :: l else (k', v') :: insert_by_name k v l'
  end.

Definition base_genv (py_side : bool) (aggs : list agg_decl) (tds : list (str * tyexpr))
           (globals : list (str * gkind)) : genv :=
  let structs := fold_right (fun a acc =>
                   match a with
                   | (TKenum, _, _) => acc
                   | (k, n, _) => insert_by_name n (tagkind_eqb k TKunion, agg_mty py_side tds a) acc
                   end) [] aggs in
  let enums := fold_right (fun a acc =>
                   match a with
                   | (TKenum, n, _) => insert_by_name n (agg_mty py_side tds a) acc
                   | _ => acc
                   end) [] aggs in
  mkGenv [] (map (fun x => (fst x, fst (snd x), snd (snd x))) structs) enums globals.

(* typedefs are processed in order; each sees the previous ones.  A typedef whose type the
   Python parser rejects is not declared (cdef() would have failed). *)
Fixpoint add_typedefs (g : genv) (tds : list (str * tyexpr)) : genv :=
  match tds with
  | [] => g
  | (n, t) :: tds' =>
    match denote_mty g t with
    | Some m => add_typedefs (mkGenv (insert_by_name n m (g_typedefs g)) (g_structs g) (g_enums g)
                                     (g_globals g)) tds'
    | None => add_typedefs g tds'
    end
  end.

Definition make_genv (py_side : bool) (aggs : list agg_decl) (tds : list (str * tyexpr))
           (globals : list (str * gkind)) : genv :=
  add_typedefs (base_genv py_side aggs tds globals) tds.

(* ---------------------------------------------------------------- for the correspondence *)
Definition str_of (s : string) : str := s2l s.
