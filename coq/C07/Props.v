(* C07 — Python and C type-string parsers denote the same type.  Statements only.

   Models:  Model.v   parse_c_type.c at character/token level (next_token, parse_complete,
                      parse_sequel, write_ds, the opcode buffer);
            Realize.v realize_c_type_or_func_now as `decode` + the backend's type constructors as `build`;
            PyModel.v the grammar's syntax trees, their spellings (`render`/`spell`), and
                      cparser._get_type_and_quals on pycparser's declarator tree (`denote`).

   FULL STATEMENT (not proved; false as it stands, see the _refuted theorems):
     for every declaration context, every syntax tree t of the common declarator grammar and
     every white space choice,   c_typeof FFI_COMPLEXITY_OUTPUT g_c (render t gaps) = py_typeof g_py t gaps.

   PROVED (C07_agree_partial): the sub-grammar
       qualifiers* specifier-keywords+  declarator
     where the specifier keywords are ANY list over signed/unsigned/short/long/int/char/void/
     _Bool/float/double/_Complex (valid or not; `signed` not combined with what makes cparser drop
     it), and the declarator is built from '*', const/volatile, arbitrarily nested grouping
     parentheses around declarators that start with '*', and array suffixes [ ], [decimal],
     [octal], [hexadecimal] (value <= SSIZE_MAX), [NAME] where NAME is an integer constant of the
     declaration context (macro or enumerator, 0 <= value <= SSIZE_MAX); any white space that
     separates the tokens; any declaration context whose table of globals is sorted; any output
     buffer that is large enough;  and, after a grouping parenthesis, a parameter list "()" or
     "(void)" (pointers to functions without parameters, at any depth: pointer to function
     returning pointer to function ..., arrays of such pointers), with __cdecl or __stdcall
     allowed as the first token inside that grouping parenthesis.
   SIDE THEOREMS (all strings): C07_no_fault, C07_result_index_in_range,
     C07_next_token_stops_at_terminator, C07_lookahead_stops_at_terminator,
     C07_fuel_suffices (the model's E_out_of_fuel outcome never happens: termination),
     C07_token_nonempty, C07_parse_from_fuel / C07_parse_complete_fuel / C07_parse_sequel_fuel.
   REGENERATED TABLES (C07/Gen.v, from the sources on every run): C07_tables_are_the_sources,
     C07_keyword_lookup_is_source, C07_opcode_numbers_are_source.
   PROVED (C07_agree_names_partial): the same declarators over a base type named through the
     declaration context: declared typedef names, standard *_t names, struct/union tags (declared,
     right or wrong kind), enum tags (declared or not), in any well-formed context.
   MISSING from the full statement: parameter lists with parameters or "..." (argument decay),
     function types that are not behind a pointer, __cdecl/__stdcall anywhere else (both parsers
     accept it in a declarator header; without a function the C parser rejects it),
     the common types bool/FILE, undeclared struct/union tags, array lengths named by negative or
     undeclared constants (both reject), declarator names, qualifiers
     after the specifiers but before the first '*' are covered only when written in the
     declarator header, arrays longer than SSIZE_MAX (both reject), nesting deeper than 999.
     These are covered by the correspondence runs only. *)
From Coq Require Import List Arith NArith ZArith Lia Bool String.
Import ListNotations.
From Cffi Require Import C25.Model C25.Proofs C07.Model C07.Realize C07.PyModel C07.Lexer C07.Tokens C07.Specs
     C07.SpecsAgree C07.Parse C07.Sequel C07.Sequel2 C07.Agree C07.Tables C07.Names C07.Agree2 C07.NoFault C07.NoFault2 C07.NoFault3 C07.Fuel C07.Gen C07.GenFacts.

(* "any ordering of primitive specifiers": on every list of specifier keywords the C parser
   (c_spec_abs: modifiers loop, base-type switch, _Complex, nothing left over) and the Python
   parser (normalise + ALL_PRIMITIVE_TYPES lookup) accept the same lists with the same primitive
   type and reject the same lists *)
Theorem C07_specifier_orderings : forall ws : list word, ws <> [] -> sign_ok ws = true ->
  c_spec_abs ws = option_map (OP OP_PRIMITIVE) (py_spec_abs ws).
Proof. exact spec_agree. Qed.
Print Assumptions C07_specifier_orderings.

(* a spelled token list is read back by next_token token by token, then TOK_END for ever *)
Theorem C07_lexer : forall wtoks trailing kinds,
  seps [] wtoks -> is_ws trailing = true ->
  Forall2 (fun wt k => lexeme (snd wt) k) wtoks kinds ->
  lexed (spell wtoks trailing) (combine kinds (map snd wtoks)).
Proof. exact spell_lexed. Qed.
Print Assumptions C07_lexer.

(* the C parser's strtoull and cparser's _parse_constant read the same literals to the same value *)
Theorem C07_integer_literals : forall text n, py_int text = Some n ->
  lexeme text KInteger /\ strtoull0 text = (n, List.length text).
Proof. exact integer_literals. Qed.
Print Assumptions C07_integer_literals.

(* what parse_sequel writes for a declarator decodes to the declarator applied to the base type *)
Theorem C07_declarator_opcodes : forall osz cx g input toks, lexed input toks ->
  table_ok (map fst (c_globals cx)) ->
  forall d, sdecl (c_globals cx) d -> forall f i o outer,
  At toks i (sdecl_toks d) -> final_stop (K toks (i + ntoks d)) ->
  (List.length o + nops d <= osz)%nat -> (ntoks d + 1 < f)%nat ->
  exists o' idx,
    parse_sequel osz cx f (T input i o) outer = Ok (T input (i + ntoks d) o', idx) /\
    List.length o' = (List.length o + nops d)%nat /\
    (forall j, (j < List.length o)%nat -> nth_error o' j = nth_error o j) /\
    (forall out'', agree out'' o' (List.length o) (List.length o') ->
       forall m n, decodes g n out'' outer m -> decodes g (n + cost d) out'' idx (apply_decl (c_globals cx) d m)).
Proof. exact sequel_run. Qed.
Print Assumptions C07_declarator_opcodes.

(* the agreement theorem for the sub-grammar described above *)
Theorem C07_agree_partial : forall (g : genv) (osz : nat) q1 ws d wtoks trailing,
  ws <> [] -> sign_ok ws = true -> table_ok (map fst (g_globals g)) -> sdecl (g_globals g) d ->
  map snd wtoks = te_tokens (simple_te q1 ws d) ->
  sep_ok [] wtoks = true -> is_ws trailing = true ->
  (S (nops d) <= osz)%nat -> (cost d < 999)%nat ->
  c_typeof osz g (spell wtoks trailing) = denote g (simple_te q1 ws d).
Proof. exact agree_partial. Qed.
Print Assumptions C07_agree_partial.

(* the same with a base type named through the declaration context g:
     NTypedef n  a declared typedef name (its meaning is looked up by both parsers),
     NStd n      a standard name (wchar_t, intN_t, size_t, ...) that is not a declared typedef,
     NTag k n    struct / union n declared (with the right or the wrong kind: both reject the
                 wrong kind), enum n declared or not (both reject an undeclared enum),
   over any well-formed context (the four name tables sorted without NULs, as the code generator
   emits them).  `r` says what the base is: Some (opcode, type) or None (rejected). *)
Theorem C07_agree_names_partial : forall (g : genv) (osz : nat) q1 b r d wtoks trailing,
  wf_genv g -> ident_ok (nbase_name b) -> base_ok g b r -> sdecl (g_globals g) d ->
  map snd wtoks = te_tokens (named_te q1 b d) ->
  sep_ok [] wtoks = true -> is_ws trailing = true ->
  (S (nops d) <= osz)%nat -> (cost d < 999)%nat ->
  c_typeof osz g (spell wtoks trailing) = denote g (named_te q1 b d) /\
  denote_mty g (named_te q1 b d) = option_map (fun om => apply_decl (g_globals g) d (snd om)) r.
Proof. exact agree_names_partial. Qed.
Print Assumptions C07_agree_names_partial.

(* ---------------------------------------------------------------- memory safety (side theorems, used by C30) *)
(* Every load tok->output[i] and every store tok->output[i] = .. / *p_current = .. of the model goes
   through get_out / set_out, which return Fault unless 0 <= i < output_index; write_ds is the only
   operation that appends and it refuses (error "internal type complexity limit reached") unless
   output_index < output_size.  For EVERY input string, type context and buffer size the parser
   never faults: all indices used are inside the part of the buffer already written.
   (The heart of the proof is the bound  arg_next + commas-still-ahead + 1 < output_index  that
   justifies the number_of_commas()+2 slots reserved for the arguments of a function type.
   Before commit bdb4859 the C code read tok->output[arg] with arg == -1 after a failed argument;
   in this model that access is a Fault, i.e. the statement below was false of the old code.) *)
Theorem C07_no_fault : forall (output_size : nat) (cx : ctx) (input : str),
  parse_c_type output_size cx input <> Fault.
Proof. exact parse_no_fault. Qed.
Print Assumptions C07_no_fault.

(* ... and a successful parse returns an index inside the written part of the buffer *)
Theorem C07_result_index_in_range : forall (output_size : nat) (cx : ctx) (input : str) out r,
  parse_c_type output_size cx input = Ok (out, r) -> (0 <= r < Z.of_nat (List.length out))%Z.
Proof. exact result_index_in_range. Qed.
Print Assumptions C07_result_index_in_range.

(* next_token / get_following_char / number_of_commas never depend on what is stored after the
   terminating NUL, and the token they deliver lies before it: for a NUL-free text s,
   scanning  s NUL junk  is scanning  s *)
Theorem C07_next_token_stops_at_terminator : forall s junk, nulfree s = true ->
  lex_from (s ++ 0%N :: junk) = lex_from s /\
  (forall k n kd, lex_from s = (k, n, kd) -> (k + n <= List.length s)%nat).
Proof. exact next_token_stops_at_terminator. Qed.
Print Assumptions C07_next_token_stops_at_terminator.

Theorem C07_lookahead_stops_at_terminator : forall s junk,
  first_nonspace (s ++ 0%N :: junk) = first_nonspace s /\
  (forall d acc, ncommas (s ++ 0%N :: junk) d acc = ncommas s d acc).
Proof. exact lookahead_stops_at_terminator. Qed.
Print Assumptions C07_lookahead_stops_at_terminator.

(* ---------------------------------------------------------------- termination (the model's fuel) *)
(* Model.v threads a fuel argument through every loop and recursive call and returns
   Err E_out_of_fuel at nine places; that outcome does not exist in the C code.  For EVERY input,
   context and buffer size it never happens with the fuel parse_c_type gives (6*|input|+24): an `Err`
   of the model is always one of the 24 parse_error() messages of parse_c_type.c.  (So C07_no_fault
   and C30_type_parser_outcome do not hide a model that "gave up".)
   NOT covered: base_plain maps every error of the nested parse of a commontypes.c replacement text to
   E_internal, as parse_common_type_replacement() does; an exhausted fuel inside that nested parse would
   be an E_internal, see C07_nested_fuel_suffices and the header of Fuel.v. *)
Theorem C07_fuel_suffices : forall (osz : nat) (cx : ctx) (s : str) (p : nat),
  parse_c_type osz cx s <> Err E_out_of_fuel p.
Proof. exact fuel_suffices. Qed.
Print Assumptions C07_fuel_suffices.

(* the tokenizer: every token other than TOK_END consumes at least one character *)
Theorem C07_token_nonempty : forall s k n kd, lex_from s = (k, n, kd) -> kd <> KEnd -> (1 <= n)%nat.
Proof. exact lex_from_pos. Qed.
Print Assumptions C07_token_nonempty.

(* each recursive function separately, under an explicit fuel-versus-remaining-input bound
   (m t = characters from tok->p on; good t = the token window is what next_token delivers) *)
Theorem C07_parse_from_fuel : forall osz cx f input out p, (4 * List.length input + 4 <= f)%nat ->
  parse_from osz cx f input out <> Err E_out_of_fuel p.
Proof. exact parse_from_fuel. Qed.
Print Assumptions C07_parse_from_fuel.

Theorem C07_parse_complete_fuel : forall osz cx f t p, good t -> (4 * m t + 3 <= f)%nat ->
  parse_complete osz cx f t <> Err E_out_of_fuel p.
Proof. exact parse_complete_fuel. Qed.
Print Assumptions C07_parse_complete_fuel.

Theorem C07_parse_sequel_fuel : forall osz cx f t outer p, good t -> (4 * m t + 2 <= f)%nat ->
  parse_sequel osz cx f t outer <> Err E_out_of_fuel p.
Proof. exact parse_sequel_fuel. Qed.
Print Assumptions C07_parse_sequel_fuel.

(* the nested parse of a commontypes.c replacement text, on its own *)
Theorem C07_nested_fuel_suffices : forall osz cx f repl out p,
  In repl (map snd C07.Model.common_simple_types) -> (64 <= f)%nat ->
  parse_from osz cx f repl out <> Err E_out_of_fuel p.
Proof. exact nested_fuel_suffices. Qed.
Print Assumptions C07_nested_fuel_suffices.

(* non-vacuity: `good` holds of every token next_token delivers, in particular of the first one *)
Example C07_good_start : forall input out, good (start_tok input out).
Proof. intros. unfold start_tok. apply good_next. Qed.

(* ---------------------------------------------------------------- regenerated tables *)
(* C07/Gen.v is rewritten from src/c/parse_c_type.c (keyword switch of next_token), src/cffi/parse_c_type.h
   and src/cffi/cffi_opcode.py (opcode numbers), src/c/realize_c_type.c (recursion limit), src/c/ffi_obj.c
   (FFI_COMPLEXITY_OUTPUT) and src/c/commontypes.c on every run; the model's hand-written tables are
   those (closed by computation: an edit of a source table breaks this obligation) *)
Theorem C07_tables_are_the_sources :
  C07.Gen.keywords = C07.Model.keywords /\
  forallb op_row_ok model_ops = true /\
  C07.Gen.c_ops = C07.Gen.py_ops /\
  Z.of_nat realize_fuel = realize_recursion_limit /\
  ffi_complexity_output = 1200%Z /\
  C07.Gen.common_simple_types = C07.Model.common_simple_types.
Proof. exact gen_tables_pinned. Qed.
Print Assumptions C07_tables_are_the_sources.

Theorem C07_keyword_lookup_is_source : forall s, kw_of s = assoc_str C07.Gen.keywords s.
Proof. exact gen_kw_of. Qed.
Print Assumptions C07_keyword_lookup_is_source.

Theorem C07_opcode_numbers_are_source : forall n v, In (n, v) model_ops ->
  assoc_str C07.Gen.c_ops n = Some v /\ assoc_str C07.Gen.py_ops n = Some v.
Proof. exact gen_ops_pinned. Qed.
Print Assumptions C07_opcode_numbers_are_source.

(* ---------------------------------------------------------------- the full statement is false *)
Definition nog : genv := mkGenv [] [] [] [].
Definition disagree (t : tyexpr) : Prop :=
  c_typeof 1200 nog (render t []) <> py_typeof nog t [].

(* 'long const int': a qualifier between two specifier keywords *)
Theorem C07_qualifier_between_specifiers_refuted :
  disagree (TE [SM Mlong; SQ Qconst; SB Bint] (D [] None None [] [])).
Proof. vm_compute. discriminate. Qed.
Print Assumptions C07_qualifier_between_specifiers_refuted.

(* 'int (( * ))': grouping parentheses directly inside grouping parentheses *)
Theorem C07_nested_grouping_parens_refuted :
  disagree (TE [SB Bint] (D [] None (Some (None, D [] None (Some (None, D [HStar] None None [] [])) [] [])) [] [])).
Proof. vm_compute. discriminate. Qed.
Print Assumptions C07_nested_grouping_parens_refuted.

(* 'signed double' *)
Theorem C07_signed_ignored_refuted :
  disagree (TE [SM Msigned; SB Bdouble] (D [] None None [] [])).
Proof. vm_compute. discriminate. Qed.
Print Assumptions C07_signed_ignored_refuted.

(* 'const *': no type specifier at all *)
Theorem C07_implicit_int_refuted :
  disagree (TE [SQ Qconst] (D [HStar] None None [] [])).
Proof. vm_compute. discriminate. Qed.
Print Assumptions C07_implicit_int_refuted.

(* 'int( * )(...)' *)
Theorem C07_ellipsis_only_refuted :
  disagree (TE [SB Bint] (D [] None (Some (None, D [HStar] None None [] [])) [F [] false true] [])).
Proof. vm_compute. discriminate. Qed.
Print Assumptions C07_ellipsis_only_refuted.

(* 'int( * )(const void)' *)
Theorem C07_sole_void_param_refuted :
  disagree (TE [SB Bint] (D [] None (Some (None, D [HStar] None None [] []))
                           [F [TE [SQ Qconst; SB Bvoid] (D [] None None [] [])] false false] [])).
Proof. vm_compute. discriminate. Qed.
Print Assumptions C07_sole_void_param_refuted.

(* 'int __stdcall' *)
Theorem C07_stray_abi_refuted :
  disagree (TE [SB Bint] (D [HAbi true] None None [] [])).
Proof. vm_compute. discriminate. Qed.
Print Assumptions C07_stray_abi_refuted.

(* 'void( * )(int(const int))': a parameter list starting with a qualifier where a grouping could stand *)
Theorem C07_qualifier_first_param_refuted :
  disagree (TE [SB Bvoid] (D [] None (Some (None, D [HStar] None None [] []))
                            [F [TE [SB Bint] (D [] None None
                                   [F [TE [SQ Qconst; SB Bint] (D [] None None [] [])] false false] [])]
                               false false] [])).
Proof. vm_compute. discriminate. Qed.
Print Assumptions C07_qualifier_first_param_refuted.

(* ---------------------------------------------------------------- non-vacuity *)
(* "  const unsigned long int*const( *volatile[0x10])[3] ": the hypotheses of C07_agree_partial hold and
   both sides are the same accepted type *)
Example C07_example :
  let q1 := [Qconst] in
  let ws := [WM Munsigned; WM Mlong; WB Bint] in
  let d := D [HStar; HQ Qconst] None (Some (None, D [HStar; HQ Qvolatile] None None [] [ALLit (s2l "0x10")]))
             [] [ALLit (s2l "3")] in
  let t := simple_te q1 ws d in
  let wtoks := attach [] [[32%N; 32%N]; []; []; []; []; []; []; []; []; []; []; []; [32%N]] (te_tokens t) in
  (ws <> [] /\ sign_ok ws = true /\ sdecl [] d /\ map snd wtoks = te_tokens t /\ sep_ok [] wtoks = true) /\
  c_typeof 1200 nog (spell wtoks []) =
    Some (CArr (CPtr (CArr (CPtr (CPrim 10)) (Some 3%Z))) (Some 16%Z)) /\
  denote nog t = Some (CArr (CPtr (CArr (CPtr (CPrim 10)) (Some 3%Z))) (Some 16%Z)).
Proof.
  cbv zeta. split; [|split; vm_compute; reflexivity].
  repeat split; try (vm_compute; congruence).
  apply SD1; try reflexivity.
  - repeat constructor; vm_compute; congruence.
  - apply SD0; [reflexivity|]. repeat constructor; vm_compute; congruence.
Qed.

(* "long(__stdcall*const*[2])(void)": an array of pointers to constant pointers to a function
   without parameters; the hypotheses of C07_agree_partial hold and both sides are the same
   accepted type *)
Example C07_function_example :
  let ws := [WM Mlong] in
  let d := D [] None (Some (Some true, D [HStar; HQ Qconst; HStar] None None [] [ALLit (s2l "2")]))
             [F [] true false] [] in
  let t := simple_te [] ws d in
  let wtoks := map (fun tk => ([], tk)) (te_tokens t) in
  (ws <> [] /\ sign_ok ws = true /\ sdecl [] d /\ map snd wtoks = te_tokens t /\ sep_ok [] wtoks = true) /\
  spell wtoks [] = s2l "long(__stdcall*const*[2])(void)" /\
  c_typeof 1200 nog (spell wtoks []) = Some (CArr (CPtr (CFunc (CPrim 9) [] false)) (Some 2%Z)) /\
  denote nog t = Some (CArr (CPtr (CFunc (CPrim 9) [] false)) (Some 2%Z)).
Proof.
  cbv zeta. split; [|split; [|split]; vm_compute; reflexivity].
  repeat split; try (vm_compute; congruence).
  apply SD2; try reflexivity.
  apply SD0; [reflexivity|]. repeat constructor; vm_compute; congruence.
Qed.

(* " const t *[3][N]" and "union s" in a context with `typedef int *t;`, `struct s` (8 bytes) and
   `#define N 5` *)
Definition ex_genv : genv :=
  mkGenv [(s2l "t", MPtr (MPrim 7))] [(s2l "s", false, MAgg AStruct (s2l "struct s") (Some 8%Z))] []
         [(s2l "N", GInt false 0 5)].

Example C07_names_example :
  wf_genv ex_genv /\
  (let b := NTypedef (s2l "t") in
   let d := D [HStar] None None [] [ALLit (s2l "3"); ALName (s2l "N")] in
   ident_ok (nbase_name b) /\ base_ok ex_genv b (Some (OP OP_TYPENAME 0, MPtr (MPrim 7))) /\
   sdecl (g_globals ex_genv) d /\
   c_typeof 1200 ex_genv (s2l " const t *[3][N]") =
     Some (CArr (CArr (CPtr (CPtr (CPrim 7))) (Some 5%Z)) (Some 3%Z)) /\
   denote ex_genv (named_te [Qconst] b d) =
     Some (CArr (CArr (CPtr (CPtr (CPrim 7))) (Some 5%Z)) (Some 3%Z))) /\
  (let b := NTag TKunion (s2l "s") in
   base_ok ex_genv b None /\ c_typeof 1200 ex_genv (s2l "union s") = None).
Proof.
  assert (Hs1 : forall x : cstr, sorted [x]) by (intros x i j H; cbn in H; lia).
  split; [|split].
  - split; [|split; [|split]]; (split; [cbn [map g_typedefs g_structs g_enums g_globals ex_genv fst] | first [apply Hs1 | intros i j H; cbn in H; lia]]).
    + constructor; [|constructor]. constructor; [discriminate | constructor].
    + constructor; [|constructor]. constructor; [discriminate | constructor].
    + constructor.
    + constructor; [|constructor]. constructor; [discriminate | constructor].
  - cbv zeta. split; [split; [cbn; auto | reflexivity]|].
    split; [apply (BO_typedef ex_genv (s2l "t") 0 (MPtr (MPrim 7))); reflexivity|].
    split; [apply SD0; [reflexivity | repeat constructor; vm_compute; congruence]|].
    split; vm_compute; reflexivity.
  - cbv zeta. split; [|vm_compute; reflexivity].
    exact (BO_su ex_genv TKunion (s2l "s") 0 false _ ltac:(discriminate) eq_refl).
Qed.

(* non-vacuity of the NStd case of base_ok (C07_agree_names_partial): a standard name that is not a
   declared typedef of the example context *)
Example C07_base_ok_std_example :
  base_ok ex_genv (NStd (s2l "uint16_t")) (Some (OP OP_PRIMITIVE 20, MPrim 20)) /\
  c_typeof 1200 ex_genv (s2l "uint16_t *") = Some (CPtr (CPrim 20)).
Proof.
  split; [|vm_compute; reflexivity].
  apply BO_std; [|vm_compute; reflexivity].
  cbn. intros [H | H]; [discriminate H | exact H].
Qed.
