(* C07 — the agreement theorem for base types named through the declaration context (typedef
   names, standard names, struct/union/enum tags), followed by a simple declarator. *)
From Coq Require Import List Arith NArith ZArith Lia Bool String.
Import ListNotations.
From Cffi Require Import C25.Model C25.Proofs C07.Model C07.Realize C07.PyModel C07.Lexer C07.Tokens C07.Specs
     C07.Parse C07.Sequel C07.Sequel2 C07.Agree C07.Tables C07.Names.

Local Open Scope nat_scope.

Definition qual_toks (q1 : list qual) : kinds_texts := map (fun q => (qkind q, sp_qual q)) q1.

Definition named_te (q1 : list qual) (b : nbase) (d : decl) : tyexpr :=
  TE (map SQ q1 ++ nbase_stoks b) d.

Lemma tag_lexeme k : lexeme (sp_tag k) (KKw (kw_of_tag k)).
Proof. destruct k; apply ident_lexeme'; reflexivity. Qed.

Lemma named_tokens q1 b :
  List.concat (map stok_tokens (map SQ q1 ++ nbase_stoks b)) = map snd (qual_toks q1 ++ nbase_toks b).
Proof.
  unfold qual_toks. rewrite map_app, concat_app, map_app. f_equal.
  - induction q1; cbn; congruence.
  - destruct b; reflexivity.
Qed.

Lemma filter_named q1 b :
  filter (fun s => negb (is_qual s)) (map SQ q1 ++ nbase_stoks b) = nbase_stoks b.
Proof.
  rewrite filter_app. replace (filter _ (map SQ q1)) with (@nil stok) by (induction q1; cbn; auto).
  destruct b; reflexivity.
Qed.

(* the opcode written for the base decodes to the base type *)
Lemma base_decodes g b op m : base_ok g b (Some (op, m)) ->
  forall out, nth_error out 0 = Some op -> decodes g 1 out 0%Z m.
Proof.
  intros H out Ho fuel Hf. destruct fuel as [|f]; [lia|].
  change 0%Z with (Z.of_nat 0).
  remember (Some (op, m)) as r eqn:Er.
  destruct H as [n i m' Hn | n p Hni Hp | k n i u m' Hk Hn | n i m' Hn | n Hni]; try discriminate.
  - assert (E1 : op = OP OP_TYPENAME (Z.of_nat i)) by congruence. assert (E2 : m' = m) by congruence.
    subst op m'. clear Er. cbn [decode]. rewrite nthZ_nat, Ho.
    rewrite GETOP_OP, GETARG_OP by (cbv; split; [discriminate | reflexivity]). cbn.
    rewrite nthZ_nat, Hn. reflexivity.
  - assert (E1 : op = OP OP_PRIMITIVE p) by congruence. assert (E2 : m = MPrim p) by congruence.
    subst op m. clear Er. cbn [decode]. rewrite nthZ_nat, Ho.
    rewrite GETOP_OP, GETARG_OP by (cbv; split; [discriminate | reflexivity]). cbn.
    pose proof (std_nonzero _ _ Hp). unfold PRIM_VOID.
    replace (p =? 0)%Z with false by (symmetry; apply Z.eqb_neq; lia). reflexivity.
  - destruct (Bool.eqb u (tagkind_eqb k TKunion)); [|discriminate].
    assert (E1 : op = OP OP_STRUCT_UNION (Z.of_nat i)) by congruence. assert (E2 : m' = m) by congruence.
    subst op m'. clear Er. cbn [decode]. rewrite nthZ_nat, Ho.
    rewrite GETOP_OP, GETARG_OP by (cbv; split; [discriminate | reflexivity]). cbn.
    unfold IO_FILE_STRUCT. replace (Z.of_nat i =? -1)%Z with false by (symmetry; apply Z.eqb_neq; lia).
    rewrite nthZ_nat, Hn. reflexivity.
  - assert (E1 : op = OP OP_ENUM (Z.of_nat i)) by congruence. assert (E2 : m' = m) by congruence.
    subst op m'. clear Er. cbn [decode]. rewrite nthZ_nat, Ho.
    rewrite GETOP_OP, GETARG_OP by (cbv; split; [discriminate | reflexivity]). cbn.
    rewrite nthZ_nat, Hn. reflexivity.
Qed.

Theorem agree_names_partial : forall (g : genv) (osz : nat) q1 b r d wtoks trailing,
  wf_genv g -> ident_ok (nbase_name b) -> base_ok g b r -> sdecl (g_globals g) d ->
  map snd wtoks = te_tokens (named_te q1 b d) ->
  sep_ok [] wtoks = true -> is_ws trailing = true ->
  S (nops d) <= osz -> cost d < 999 ->
  c_typeof osz g (spell wtoks trailing) = denote g (named_te q1 b d) /\
  denote_mty g (named_te q1 b d) = option_map (fun om => apply_decl (g_globals g) d (snd om)) r.
Proof.
  intros g osz q1 b r d wtoks trailing Wg Hid Hok Hd Htok Hsep Htr Hroom Hdepth.
  set (input := spell wtoks trailing).
  set (toks := qual_toks q1 ++ nbase_toks b ++ sdecl_toks d).
  assert (Htexts : map snd wtoks = map snd toks).
  { rewrite Htok. unfold named_te, toks. rewrite te_tokens_TE, named_tokens, (sdecl_tokens _ d Hd).
    rewrite app_assoc, !(map_app snd). reflexivity. }
  assert (Hlex : Forall is_lex toks).
  { unfold toks, qual_toks. apply Forall_app. split; [|apply Forall_app; split; [|apply (sdecl_lexemes (g_globals g)); exact Hd]].
    - clear. induction q1 as [|q q1 IH]; cbn [map]; constructor; [apply qual_lexeme | exact IH].
    - destruct b; cbn [nbase_toks nbase_name] in *; repeat constructor; unfold is_lex; cbn [fst snd];
        try apply tag_lexeme; apply ident_ok_lexeme; exact Hid. }
  assert (L : lexed input toks).
  { replace toks with (combine (map fst toks) (map snd wtoks)).
    - apply spell_lexed; [apply sep_ok_seps; exact Hsep | exact Htr |].
      rewrite Htexts in *. clear - Hlex Htexts.
      revert wtoks Htexts. induction Hlex as [|[k s] l Hx Hl IH]; intros [|[w s'] wt] E; cbn in *; try discriminate; constructor.
      + inversion E; subst. exact Hx.
      + apply IH. inversion E; reflexivity.
    - rewrite Htexts. clear. induction toks as [|[k s] l IH]; cbn; congruence. }
  (* the Python side *)
  assert (Hpy : denote_mty g (named_te q1 b d) = option_map (fun om => apply_decl (g_globals g) d (snd om)) r).
  { unfold denote_mty, named_te. cbn [py_te]. rewrite py_decl_sdecl by exact Hd.
    cbn [denote_py]. rewrite filter_named, (denote_base_named g b r Wg Hok).
    destruct r as [[op m]|]; reflexivity. }
  split; [|exact Hpy].
  (* the C side *)
  set (nb := List.length (nbase_toks b)).
  assert (Hntok : List.length wtoks = List.length toks).
  { rewrite <- (map_length snd wtoks), Htexts, map_length. reflexivity. }
  assert (Hlen : List.length toks <= List.length input).
  { rewrite <- Hntok. apply spell_length. apply (lex_nonempty wtoks toks Hlex Htexts). }
  assert (Htl : List.length toks = List.length q1 + nb + ntoks d).
  { unfold toks, qual_toks, ntoks, nb. rewrite !app_length, !map_length. lia. }
  assert (Hnb : 1 <= nb <= 2) by (unfold nb; destruct b; cbn; lia).
  destruct (cost_le_ntoks _ d Hd) as [Hc1 Hc2].
  unfold c_typeof, parse_c_type, fuel_for. fold input.
  set (F := 6 * List.length input + 24).
  destruct F as [|f0] eqn:EF; [lia|].
  rewrite parse_from_S, start_tok_T.
  destruct f0 as [|f1]; [lia|].
  unfold F in EF. clear F.
  assert (Hkat : Kat toks 0 (map qkind q1)).
  { intros j Hj. unfold Parse.K. cbn [Nat.add]. unfold toks, qual_toks. rewrite map_length in Hj.
    rewrite map_app, map_map. cbn [fst]. rewrite app_nth1 by (rewrite map_length; lia). reflexivity. }
  assert (Hatb : At toks (0 + List.length q1) (nbase_toks b)).
  { intros j Hj. cbn [Nat.add]. unfold toks.
    rewrite nth_error_app2 by (unfold qual_toks; rewrite map_length; lia).
    unfold qual_toks. rewrite map_length. replace (List.length q1 + j - List.length q1) with j by lia.
    apply nth_error_app1. exact Hj. }
  assert (Hat : At toks (List.length q1 + nb) (sdecl_toks d)).
  { intros j Hj. unfold toks. rewrite app_assoc.
    rewrite nth_error_app2 by (unfold qual_toks, nb; rewrite app_length, map_length; lia).
    f_equal. unfold qual_toks, nb. rewrite app_length, map_length. lia. }
  assert (Hfinal : Parse.K toks (List.length q1 + nb + ntoks d) = KEnd).
  { unfold Parse.K. apply nth_overflow. rewrite map_length. lia. }
  assert (Hfol : follower (Parse.K toks (0 + List.length q1 + nb))).
  { cbn [Nat.add]. destruct (sdecl_toks d) as [|[k s] rest] eqn:Ed.
    - unfold ntoks in Hfinal. rewrite Ed in Hfinal. cbn in Hfinal. rewrite Nat.add_0_r in Hfinal.
      rewrite Hfinal. left. reflexivity.
    - apply (At_cons toks) in Hat as [H0 _]. rewrite (At_K toks _ _ H0). cbn [fst].
      exact (sdecl_first_follower _ _ _ _ _ Hd Ed). }
  pose proof (parse_complete_named osz g input toks L Wg q1 b r f1 0 [] Hkat Hatb Hfol Hid Hok ltac:(lia)) as Hspec.
  destruct r as [[op m]|].
  2:{ destruct (parse_complete osz (ctx_of g) (S f1) (T input 0 [])) as [[? ?]| |]; try contradiction.
      cbn [bind]. unfold denote. rewrite Hpy. reflexivity. }
  rewrite Hspec. cbn [Nat.add]. fold nb.
  rewrite (write_ds_ok osz input) by (cbn; lia). cbn [bind app List.length].
  change (Z.of_nat 0) with 0%Z.
  assert (P1 : final_stop (Parse.K toks (List.length q1 + nb + ntoks d)))
    by (rewrite Hfinal; left; reflexivity).
  assert (P2 : List.length [op] + nops d <= osz) by (cbn [List.length]; lia).
  assert (P3 : ntoks d + 1 < f1) by lia.
  destruct (sequel_run osz (ctx_of g) g input toks L (proj2 (proj2 (proj2 Wg))) d Hd f1 (List.length q1 + nb) [op] 0%Z
              Hat P1 P2 P3) as (o' & idx & Hrun & Hlo & Hpre & Hsem).
  rewrite Hrun. cbn [bind]. rewrite (kind_T _ _ L), Hfinal. cbn [kind_eqb negb T_out].
  rewrite T_out.
  unfold realize, denote. rewrite Hpy. cbn [option_map snd].
  assert (Hdec : decode g realize_fuel o' idx = Some (apply_decl (g_globals g) d m)).
  { apply (Hsem o') with (n := 1) (m := m).
    - intros j _. reflexivity.
    - apply (base_decodes g b op m Hok). rewrite Hpre by (cbn; lia). reflexivity.
    - unfold realize_fuel. cbn. lia. }
  rewrite Hdec. reflexivity.
Qed.
