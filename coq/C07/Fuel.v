(* C07 — the fuel of the model is never exhausted (termination of the recursive-descent parser).

   Model.v gives every loop / recursive call a fuel argument and returns `Err E_out_of_fuel` at nine
   places.  Here: for every function of the parser, a fuel-versus-remaining-input measure under which
   that outcome is impossible, and the fuel `fuel_for input = 6*|input|+24` given by parse_c_type
   satisfies it.  Measure: m t = number of characters from tok->p on (the current token included).
   Every next_token() on a token that is neither TOK_END nor TOK_START consumes >= 1 character
   (lex_from_pos), the three token loops (header / qualifiers / modifiers / brackets) need m+1, and
   the mutually recursive functions need 4*m + b with b = 1 (parens) < 2 (parse_sequel)
   < 3 (parse_complete) < 4 (args_loop, parse_c_type_from): one '(' pays for the four nested calls
   parens -> args_loop -> parse_complete -> parse_sequel -> parens.

   What this does NOT cover: Model.base_plain maps every error of the nested parse_c_type_from on a
   commontypes.c replacement text ("struct _IO_FILE", "_Bool") to E_internal, exactly like
   parse_common_type_replacement() (parse_c_type.c:846), so an exhausted fuel INSIDE that nested
   parse would surface as E_internal, not as E_out_of_fuel.  nested_fuel_suffices below is the nested
   parse taken on its own (fuel >= 64 = 4*15+4 under this coarse measure).  NOT mechanised: that the
   call site always has that much (parse_complete called with S f passes f to the nested parse; for
   short inputs such as "FILE", f = 6*4+24-2 = 46 < 64, although the real need is < 10: the finer
   measure 4 * #'(' + m would give 19 <= 22).  That case is covered by the correspondence only: the
   harness compares the model with parse_c_type.c on "FILE"/"bool" strings, where a starved nested
   parse would show as E_internal against a successful C parse. *)
From Coq Require Import List Arith NArith ZArith Lia Bool String.
Import ListNotations.
From Cffi Require Import C25.Model C07.Model C07.Lexer C07.NoFault C07.NoFault2 C07.NoFault3.

Local Open Scope nat_scope.

Definition nof {A} (P : A -> Prop) (r : res A) : Prop :=
  match r with Ok a => P a | Err e _ => e <> E_out_of_fuel | Fault => True end.

Lemma nof_bind {A B} (P : A -> Prop) (Q : B -> Prop) (r : res A) (f : A -> res B) :
  nof P r -> (forall a, P a -> nof Q (f a)) -> nof Q (bind r f).
Proof. destruct r; cbn; auto. Qed.

Lemma nof_impl {A} (P Q : A -> Prop) (r : res A) : nof P r -> (forall a, P a -> Q a) -> nof Q r.
Proof. destruct r; cbn; auto. Qed.

(* ---------------------------------------------------------------- the measure *)
Definition m (t : tok) : nat := List.length (t_rest t).
Definition good (t : tok) : Prop :=
  t_size t <= m t /\ (t_kind t <> KEnd -> t_kind t <> KStart -> 1 <= t_size t).
Definition le_tok (t t' : tok) : Prop := good t' /\ m t' <= m t.
Arguments le_tok : simpl never.

(* the tokenizer: every token other than TOK_END has at least one character *)
Lemma lex_from_pos : forall s k n kd, lex_from s = (k, n, kd) -> kd <> KEnd -> 1 <= n.
Proof.
  induction s as [|c s IH]; intros k n kd H Hk.
  - cbn in H. inversion H; subst. congruence.
  - cbn [lex_from] in H.
    destruct (is_ident_first c). { inversion H; lia. }
    destruct (is_space c).
    { destruct (lex_from s) as [[k' n'] kd'] eqn:El. inversion H; subst. eapply IH; eauto. }
    destruct (is_digit c).
    { inversion H; subst. destruct s as [|c1 s2]; [cbn; lia|].
      destruct (N.eqb c1 120 || N.eqb c1 88)%bool; lia. }
    destruct (N.eqb c c_dot && _)%bool. { inversion H; lia. }
    destruct (N.eqb c 0). { inversion H; subst. congruence. }
    inversion H; lia.
Qed.

Lemma good_next t : good (next_token t).
Proof.
  unfold next_token, good, m.
  destruct (lex_from (skipn (t_size t) (t_rest t))) as [[k n] kd] eqn:E. cbn [t_size t_rest t_kind].
  pose proof (lex_window _ _ _ _ E) as Hw. split.
  - rewrite skipn_length. lia.
  - intros H1 _. eapply lex_from_pos; eauto.
Qed.

Lemma m_next_le t : m (next_token t) <= m t - t_size t.
Proof.
  unfold next_token, m.
  destruct (lex_from (skipn (t_size t) (t_rest t))) as [[k n] kd]. cbn [t_rest].
  rewrite !skipn_length. lia.
Qed.

(* next_token consumes at least one character of a real token *)
Lemma m_next_lt t : good t -> t_kind t <> KEnd -> t_kind t <> KStart -> m (next_token t) + 1 <= m t.
Proof. intros [G1 G2] H1 H2. specialize (G2 H1 H2). pose proof (m_next_le t). lia. Qed.

Lemma le_refl t : good t -> le_tok t t.
Proof. intros H. split; [exact H | lia]. Qed.
Lemma le_next t : le_tok t (next_token t).
Proof. split; [apply good_next | pose proof (m_next_le t); lia]. Qed.

(* t' differs from t in the output buffer only *)
Definition same (t t' : tok) : Prop :=
  t_rest t' = t_rest t /\ t_size t' = t_size t /\ t_kind t' = t_kind t.
Lemma same_refl t : same t t.
Proof. repeat split. Qed.
Lemma same_trans a b c : same a b -> same b c -> same a c.
Proof. intros (A1 & A2 & A3) (B1 & B2 & B3). repeat split; congruence. Qed.
Lemma same_with_out t o : same t (with_out t o).
Proof. repeat split. Qed.
Lemma same_m t t' : same t t' -> m t' = m t.
Proof. intros (R & _ & _). unfold m. rewrite R. reflexivity. Qed.
Lemma same_good t t' : same t t' -> good t -> good t'.
Proof. intros (R & S & K) [G1 G2]. unfold good, m in *. rewrite R, S, K. split; assumption. Qed.
Lemma next_lt_same t t1 : same t t1 -> good t -> t_kind t <> KEnd -> t_kind t <> KStart ->
  m (next_token t1) + 1 <= m t.
Proof.
  intros S G H1 H2. pose proof (same_good _ _ S G) as G1. pose proof S as (_ & _ & K).
  pose proof (m_next_lt t1 G1 ltac:(rewrite K; exact H1) ltac:(rewrite K; exact H2)).
  rewrite (same_m _ _ S) in H. exact H.
Qed.

Ltac noferr := (unfold parse_error; cbn; discriminate).

Section FU.
Variable osz : nat.
Variable cx : ctx.

(* ---- primitives: no loop, the token window is untouched *)
Lemma write_ds_same t ds : nof (fun '(t', _) => same t t') (write_ds osz t ds).
Proof. unfold write_ds. destruct (_ <? _); [cbn; apply same_with_out | noferr]. Qed.

Lemma set_out_same t i v : nof (fun t' => same t t') (set_out t i v).
Proof. unfold set_out. destruct (_ && _)%bool; [cbn; apply same_with_out | exact I]. Qed.

Lemma retarget_same t pc r a : nof (fun '(t', _) => same t t') (retarget t pc r a).
Proof.
  unfold retarget, get_cur, set_cur. destruct pc as [|x]; cbn [bind].
  - cbn. apply same_refl.
  - unfold get_out. destruct (_ && _)%bool; [|exact I]. cbn [bind].
    eapply nof_bind; [apply set_out_same|]. intros t' S. cbn. exact S.
Qed.

Lemma reserve_same : forall n t, nof (fun t' => same t t') (reserve osz n t).
Proof.
  induction n as [|n IH]; intros t; cbn [reserve]; [cbn; apply same_refl|].
  eapply nof_bind; [apply write_ds_same|]. intros [t1 i1] S1.
  eapply nof_impl; [apply IH|]. intros t' S2. eapply same_trans; eauto.
Qed.

Lemma array_length_fuel t : nof (fun _ => True) (array_length cx t).
Proof.
  unfold array_length. destruct (t_kind t); try noferr.
  - destruct (search_sorted _ _); [|noferr]. destruct (snd _); [|noferr].
    repeat match goal with |- context [if ?c then _ else _] => destruct c end; first [exact I | noferr].
  - destruct (strtoull0 _).
    repeat match goal with |- context [if ?c then _ else _] => destruct c end; first [exact I | noferr].
Qed.

(* ---- the token loops: fuel m+1 *)
Lemma header_fuel : forall f t outer abi, good t -> m t + 1 <= f ->
  nof (fun '(t', _, _) => le_tok t t') (header osz f t outer abi).
Proof.
  induction f as [|f IH]; intros t outer abi Hg Hf; [lia|]. cbn [header].
  assert (Hst : forall (o : Z) (a : option kw), nof (fun '(t', _, _) => le_tok t t') (Ok (t, o, a)))
    by (intros; cbn; apply le_refl; exact Hg).
  assert (Hgo : forall t1 o a, same t t1 -> t_kind t <> KEnd -> t_kind t <> KStart ->
            nof (fun '(t', _, _) => le_tok t t') (header osz f (next_token t1) o a)).
  { intros t1 o a S H1 H2. pose proof (next_lt_same t t1 S Hg H1 H2).
    eapply nof_impl; [apply IH; [apply good_next | lia]|].
    intros [[t' o'] a'] [G L]. split; [exact G | lia]. }
  destruct (t_kind t) as [| | | | |c|k] eqn:Ek; try apply Hst.
  - destruct (N.eqb c c_star); [|apply Hst].
    eapply nof_bind; [apply write_ds_same|]. intros [t1 idx] S1.
    apply Hgo; [exact S1 | discriminate | discriminate].
  - destruct k; try apply Hst; (apply Hgo; [apply same_refl | discriminate | discriminate]).
Qed.

Lemma qualifiers_fuel : forall f t, good t -> m t + 1 <= f ->
  nof (fun t' => le_tok t t') (qualifiers f t).
Proof.
  induction f as [|f IH]; intros t Hg Hf; [lia|]. cbn [qualifiers].
  assert (Hst : nof (fun t' => le_tok t t') (Ok t)) by (cbn; apply le_refl; exact Hg).
  assert (Hgo : t_kind t <> KEnd -> t_kind t <> KStart ->
            nof (fun t' => le_tok t t') (qualifiers f (next_token t))).
  { intros H1 H2. pose proof (m_next_lt t Hg H1 H2).
    eapply nof_impl; [apply IH; [apply good_next | lia]|].
    intros t' [G L]. split; [exact G | lia]. }
  destruct (t_kind t) as [| | | | |c|k] eqn:Ek; try apply Hst.
  destruct k; try apply Hst; (apply Hgo; discriminate).
Qed.

Lemma modifiers_fuel : forall f t a b, good t -> m t + 1 <= f ->
  nof (fun '(t', _, _) => le_tok t t') (modifiers f t a b).
Proof.
  induction f as [|f IH]; intros t a b Hg Hf; [lia|]. cbn [modifiers].
  assert (Hst : nof (fun '(t', _, _) => le_tok t t') (Ok (t, a, b))) by (cbn; apply le_refl; exact Hg).
  assert (Hgo : forall a' b', t_kind t <> KEnd -> t_kind t <> KStart ->
            nof (fun '(t', _, _) => le_tok t t') (modifiers f (next_token t) a' b')).
  { intros a' b' H1 H2. pose proof (m_next_lt t Hg H1 H2).
    eapply nof_impl; [apply IH; [apply good_next | lia]|].
    intros [[t' x] y] [G L]. split; [exact G | lia]. }
  destruct (t_kind t) as [| | | | |c|k] eqn:Ek; try apply Hst.
  destruct k; try apply Hst.
  - destruct (a <? 0)%Z; [noferr|]. destruct (a >=? 2)%Z; [noferr | apply Hgo; discriminate].
  - destruct (negb (a =? 0)%Z); [noferr | apply Hgo; discriminate].
  - destruct (negb (b =? 0)%Z); [noferr | apply Hgo; discriminate].
  - destruct (negb (b =? 0)%Z); [noferr | apply Hgo; discriminate].
Qed.

Lemma brackets_fuel : forall f t pc result, good t -> m t + 1 <= f ->
  nof (fun '(t', _, _) => le_tok t t') (brackets osz cx f t pc result).
Proof.
  induction f as [|f IH]; intros t pc result Hg Hf; [lia|]. cbn [brackets].
  destruct (is_ch t c_lbr) eqn:Eb; [|cbn; apply le_refl; exact Hg].
  apply is_ch_true in Eb. cbv zeta.
  eapply nof_bind; [apply retarget_same|]. intros [t1 r1] S1.
  pose proof (next_lt_same t t1 S1 Hg ltac:(rewrite Eb; discriminate) ltac:(rewrite Eb; discriminate)) as L2.
  eapply nof_bind with (P := fun t5 => le_tok (next_token t1) t5).
  - destruct (negb (is_ch (next_token t1) c_rbr)).
    + eapply nof_bind; [apply array_length_fuel|]. intros lenv _.
      eapply nof_bind; [apply write_ds_same|]. intros [t4 i4] S4.
      eapply nof_bind; [apply write_ds_same|]. intros [t5 i5] S5. cbn.
      pose proof (same_trans _ _ _ S4 S5) as S35.
      split; [eapply same_good; [exact S35 | apply good_next]|].
      rewrite (same_m _ _ S35). pose proof (m_next_le (next_token t1)). lia.
    + eapply nof_bind; [apply write_ds_same|]. intros [t3 i3] S3. cbn.
      split; [eapply same_good; [exact S3 | apply good_next] | rewrite (same_m _ _ S3); lia].
  - intros t5 [G5 L5]. destruct (negb (is_ch t5 c_rbr)); [noferr|].
    pose proof (m_next_le t5) as L6.
    eapply nof_impl; [apply IH; [apply good_next | lia]|].
    intros [[t' pc'] r'] [G' L']. split; [exact G' | lia].
Qed.

(* ---- the keyword / identifier dispatch: no loop *)
Lemma base_mod_fuel t a b : good t ->
  nof (fun '(t', _) => le_tok t t') (base_with_modifiers t a b).
Proof.
  intros Hg. unfold base_with_modifiers.
  destruct (t_kind t) as [| | | | |c|k]; try (cbn; apply le_refl; exact Hg).
  destruct k; try noferr; try (cbn; apply le_refl; exact Hg).
  - destruct (negb (a =? 0)%Z); [noferr|]. cbn. apply le_next.
  - destruct (negb (b =? 0)%Z || negb (a =? 1)%Z)%bool; [noferr|]. cbn. apply le_next.
  - cbn. apply le_next.
Qed.

(* whatever the nested parser pf returns: its errors become E_internal (parse_c_type.c:846) *)
Lemma base_plain_fuel pf t : good t ->
  nof (fun '(t3, _, _) => le_tok t t3) (base_plain cx pf t).
Proof.
  intros Hg. unfold base_plain.
  destruct (t_kind t) as [| | | | |c|k]; try noferr.
  - destruct (search_sorted _ _); [cbn; apply le_refl; exact Hg|].
    destruct (search_standard_typename _); [cbn; apply le_refl; exact Hg|].
    destruct (get_common_type _) as [repl|]; [|noferr].
    destruct (pf repl (t_out t)) as [[out' n]| |]; [|cbn; discriminate|exact I].
    cbn. split; [exact Hg | apply Nat.le_refl].
  - destruct k; try noferr; try (cbn; apply le_refl; exact Hg); cbv zeta;
      (destruct (negb (kind_eqb (t_kind (next_token t)) KIdent)); [noferr|]);
      repeat match goal with
             | |- nof _ (match ?c with Some _ => _ | None => _ end) => destruct c
             | |- nof _ (if ?c then _ else _) => destruct c
             end; first [noferr | (cbn; apply le_next)].
Qed.

(* ---- the mutual block *)
Definition F_parens (f : nat) : Prop := forall t pc result abi cfg, good t -> 4 * m t + 1 <= f ->
  nof (fun '(t', _, _, _) => le_tok t t') (parens osz cx f t pc result abi cfg).
Definition F_sequel (f : nat) : Prop := forall t outer, good t -> 4 * m t + 2 <= f ->
  nof (fun '(t', _) => le_tok t t') (parse_sequel osz cx f t outer).
Definition F_complete (f : nat) : Prop := forall t, good t -> 4 * m t + 3 <= f ->
  nof (fun '(t', _) => le_tok t t') (parse_complete osz cx f t).
Definition F_args (f : nat) : Prop := forall t an fl, good t -> 4 * m t + 4 <= f ->
  nof (fun '(t', _, _) => le_tok t t') (args_loop osz cx f t an fl).
Definition F_from (f : nat) : Prop := forall input out, 4 * List.length input + 4 <= f ->
  nof (fun _ => True) (parse_from osz cx f input out).

Lemma fsequel_step f : F_parens f -> F_sequel (S f).
Proof.
  intros HP t outer Hg Hf. rewrite parse_sequel_S'.
  eapply nof_bind; [apply header_fuel; [exact Hg | lia]|].
  intros [[t1 outer1] abi] [G1 L1].
  assert (Hid : exists t2 cfg, (match t_kind t1 with KIdent => (next_token t1, 0%Z) | _ => (t1, 1%Z) end) = (t2, cfg)
                               /\ le_tok t1 t2).
  { destruct (t_kind t1); try (eexists; eexists; split; [reflexivity | apply le_refl; exact G1]).
    eexists; eexists; split; [reflexivity | apply le_next]. }
  destruct Hid as (t2 & cfg & E2 & [G2 L2]). rewrite E2.
  eapply nof_bind; [apply HP; [exact G2 | lia]|].
  intros [[[t3 pc] result] abi3] [G3 L3].
  destruct abi3; [noferr|].
  eapply nof_bind; [apply brackets_fuel; [exact G3 | lia]|].
  intros [[t4 pc4] r4] [G4 L4].
  eapply nof_bind; [apply retarget_same|].
  intros [t5 r5] S5. cbn.
  split; [eapply same_good; eauto | rewrite (same_m _ _ S5); lia].
Qed.

Lemma fcomplete_step f : F_sequel f -> F_complete (S f).
Proof.
  intros HS t Hg Hf. rewrite parse_complete_S.
  eapply nof_bind; [apply qualifiers_fuel; [exact Hg | lia]|].
  intros t1 [G1 L1].
  eapply nof_bind; [apply modifiers_fuel; [exact G1 | lia]|].
  intros [[t2 mlen] msign] [G2 L2].
  eapply nof_bind with (P := fun '(t5, _, _) => le_tok t2 t5).
  { destruct (negb (mlen =? 0)%Z || negb (msign =? 0)%Z)%bool.
    - eapply nof_bind; [apply base_mod_fuel; exact G2|]. intros [t3 op] L3. cbn. exact L3.
    - eapply nof_bind; [apply base_plain_fuel; exact G2|].
      intros [[t3 op] cplx] [G3 L3]. cbn. split; [apply good_next|].
      pose proof (m_next_le t3). lia. }
  intros [[t5 t1op] t1c] [G5 L5].
  eapply nof_bind with (P := fun '(t6, _) => le_tok t5 t6).
  { destruct (is_kw t5 K_Complex); [|cbn; apply le_refl; exact G5].
    destruct (t1c =? 0)%Z; [noferr|]. cbn. apply le_next. }
  intros [t6 op6] [G6 L6].
  eapply nof_bind; [apply write_ds_same|].
  intros [t7 idx] S7. pose proof (same_m _ _ S7) as M7.
  eapply nof_impl; [apply HS; [eapply same_good; eauto | lia]|].
  intros [t8 i8] [G8 L8]. split; [exact G8 | lia].
Qed.

Lemma m_start input out : m (start_tok input out) <= List.length input.
Proof. unfold start_tok. pose proof (m_next_le (mkTok input 0 0 KStart out)) as H. cbn in H. unfold m in *. cbn in *. lia. Qed.

Lemma ffrom_step f : F_complete f -> F_from (S f).
Proof.
  intros HC input out Hf. rewrite parse_from_S'.
  pose proof (m_start input out) as Hm.
  eapply nof_bind; [apply HC; [unfold start_tok; apply good_next | lia]|].
  intros [t1 result] _. destruct (negb (kind_eqb (t_kind t1) KEnd)); [noferr | exact I].
Qed.

Lemma fargs_step f : F_complete f -> F_args f -> F_args (S f).
Proof.
  intros HC HA t an fl Hg Hf. rewrite args_loop_S.
  destruct (kind_eqb (t_kind t) KDots). { cbn. apply le_next. }
  specialize (HC t Hg ltac:(lia)).
  destruct (parse_complete osz cx f t) as [[t1 arg]| |]; [|exact HC|exact I].
  destruct HC as [G1 L1].
  eapply nof_bind with (P := fun _ => True); [unfold get_out; destruct (_ && _)%bool; exact I|].
  intros o _.
  eapply nof_bind with (P := fun _ => True).
  { cbv zeta. destruct (_ || _)%bool; [exact I|]. destruct (_ =? _)%Z; exact I. }
  intros oarg _.
  eapply nof_bind; [apply set_out_same|]. intros t2 S2.
  pose proof (same_m _ _ S2) as M2. pose proof (same_good _ _ S2 G1) as G2.
  destruct (negb (is_ch t2 c_comma)) eqn:Ec.
  - cbn. split; [exact G2 | lia].
  - apply negb_false_iff in Ec. apply is_ch_true in Ec.
    pose proof (m_next_lt t2 G2 ltac:(rewrite Ec; discriminate) ltac:(rewrite Ec; discriminate)) as L3.
    eapply nof_impl; [apply HA; [apply good_next | lia]|].
    intros [[t' a'] f'] [G L]. split; [exact G | lia].
Qed.

Lemma fparens_step f : F_sequel f -> F_args f -> F_parens f -> F_parens (S f).
Proof.
  intros HS HA HP t pc result abi cfg Hg Hf. rewrite parens_S.
  destruct (is_ch t c_lpar) eqn:El; [|cbn; apply le_refl; exact Hg].
  apply is_ch_true in El. cbv zeta.
  pose proof (m_next_lt t Hg ltac:(rewrite El; discriminate) ltac:(rewrite El; discriminate)) as L1.
  set (t1 := next_token t) in *.
  assert (G1 : good t1) by apply good_next.
  assert (Habi : exists t2 abi2, (match t_kind t1 with
                                  | KKw K_cdecl => (next_token t1, Some K_cdecl)
                                  | KKw K_stdcall => (next_token t1, Some K_stdcall)
                                  | _ => (t1, abi) end) = (t2, abi2) /\ le_tok t1 t2).
  { destruct (t_kind t1) as [| | | | |c|k];
      try (eexists; eexists; split; [reflexivity | apply le_refl; exact G1]).
    destruct k; try (eexists; eexists; split; [reflexivity | apply le_refl; exact G1]);
      (eexists; eexists; split; [reflexivity | apply le_next]). }
  destruct Habi as (t2 & abi2 & E2 & [G2 L2]). rewrite E2.
  eapply nof_bind with (P := fun '(t9, _, _, _) => le_tok t2 t9).
  - destruct ((cfg =? 1)%Z && (is_ch t2 c_star || is_kw t2 K_const || is_kw t2 K_volatile || is_ch t2 c_lbr))%bool.
    + (* grouping *)
      eapply nof_bind; [apply write_ds_same|].
      intros [t3 i3] S3. pose proof (same_m _ _ S3) as M3.
      eapply nof_bind; [apply HS; [eapply same_good; eauto | lia]|].
      intros [t4 x'] [G4 L4]. cbn. split; [exact G4 | lia].
    + (* function *)
      set (t3 := if (is_kw t2 K_void && N.eqb (following_char t2) c_rpar)%bool then next_token t2 else t2).
      assert (L3 : le_tok t2 t3).
      { unfold t3. destruct (is_kw t2 K_void && N.eqb (following_char t2) c_rpar)%bool;
          [apply le_next | apply le_refl; exact G2]. }
      destruct L3 as [G3 L3]. cbv zeta.
      eapply nof_bind; [apply retarget_same|]. intros [t4 r4] S4.
      eapply nof_bind; [apply write_ds_same|]. intros [t5 base] S5.
      eapply nof_bind; [apply reserve_same|]. intros t6 S6.
      assert (S36 : same t3 t6) by (eapply same_trans; [exact S4 | eapply same_trans; eauto]).
      pose proof (same_m _ _ S36) as M6. pose proof (same_good _ _ S36 G3) as G6.
      eapply nof_bind with (P := fun '(t7, _, _) => le_tok t6 t7).
      * destruct (negb (is_ch t6 c_rpar)); [apply HA; [exact G6 | lia] | cbn; apply le_refl; exact G6].
      * intros [[t7 an] fl7] [G7 L7].
        eapply nof_bind; [apply set_out_same|]. intros t8 S8. cbn.
        split; [eapply same_good; eauto | rewrite (same_m _ _ S8); lia].
  - intros [[[t9 pc9] r9] abi9] [G9 L9].
    destruct (negb (is_ch t9 c_rpar)); [noferr|].
    pose proof (m_next_le t9) as L10.
    eapply nof_impl; [apply HP; [apply good_next | lia]|].
    intros [[[t' pc'] r'] abi'] [G' L']. split; [exact G' | lia].
Qed.

Theorem all_fuel : forall f, F_sequel f /\ F_parens f /\ F_args f /\ F_complete f /\ F_from f.
Proof.
  induction f as [|f (IS & IP & IA & IC & IF)].
  - repeat split; intro; intros; lia.
  - split; [apply fsequel_step; exact IP|].
    split; [apply fparens_step; assumption|].
    split; [apply fargs_step; assumption|].
    split; [apply fcomplete_step; assumption | apply ffrom_step; exact IC].
Qed.

(* each function separately, under an explicit fuel bound *)
Theorem parse_from_fuel : forall f input out p, 4 * List.length input + 4 <= f ->
  parse_from osz cx f input out <> Err E_out_of_fuel p.
Proof.
  intros f input out p Hf H. destruct (all_fuel f) as (_ & _ & _ & _ & HF).
  specialize (HF input out Hf). rewrite H in HF. cbn in HF. congruence.
Qed.

Theorem parse_complete_fuel : forall f t p, good t -> 4 * m t + 3 <= f ->
  parse_complete osz cx f t <> Err E_out_of_fuel p.
Proof.
  intros f t p Hg Hf H. destruct (all_fuel f) as (_ & _ & _ & HC & _).
  specialize (HC t Hg Hf). rewrite H in HC. cbn in HC. congruence.
Qed.

Theorem parse_sequel_fuel : forall f t outer p, good t -> 4 * m t + 2 <= f ->
  parse_sequel osz cx f t outer <> Err E_out_of_fuel p.
Proof.
  intros f t outer p Hg Hf H. destruct (all_fuel f) as (HS & _).
  specialize (HS t outer Hg Hf). rewrite H in HS. cbn in HS. congruence.
Qed.

(* the fuel given by parse_c_type is never exhausted *)
Theorem fuel_suffices : forall input p, parse_c_type osz cx input <> Err E_out_of_fuel p.
Proof.
  intros input p. unfold parse_c_type. apply parse_from_fuel. unfold fuel_for. lia.
Qed.

(* the nested parse_c_type_from of parse_common_type_replacement(), taken on its own: the two
   replacement texts of commontypes.c have at most 15 characters *)
Theorem nested_fuel_suffices : forall f repl out p, In repl (map snd common_simple_types) ->
  64 <= f -> parse_from osz cx f repl out <> Err E_out_of_fuel p.
Proof.
  intros f repl out p Hin Hf. apply parse_from_fuel.
  assert (Hl : List.length repl <= 15).
  { cbn in Hin. destruct Hin as [<- | [<- | []]]; cbn; lia. }
  lia.
Qed.

End FU.
