(* C07 — no access to tok->output outside [0, output_index): parse_sequel / parse_complete. *)
From Coq Require Import List Arith NArith ZArith Lia Bool String.
Import ListNotations.
From Cffi Require Import C25.Model C07.Model C07.Lexer C07.NoFault C07.NoFault2.

Local Open Scope nat_scope.

Section NF.
Variable osz : nat.
Variable cx : ctx.

Notation okres := NoFault2.okres.

Definition neutral_at1 (a b : tok) : Prop :=
  forall d acc, ncommas (t_rest a) (S d) acc = ncommas (t_rest b) (S d) acc.

Lemma neutral_step_at1 a b : neutral_step a b -> neutral_at1 a b.
Proof. intros H d acc. apply H. Qed.

Lemma len_nonneg t : (0 <= len t)%Z.
Proof. unfold len. lia. Qed.

Lemma reserve_nf : forall n t, wf t ->
  okres (fun t' => step_ok t t' /\ len t' = (len t + Z.of_nat n)%Z /\ t_kind t' = t_kind t) (reserve osz n t).
Proof.
  induction n as [|n IH]; intros t Hw; cbn [reserve].
  - cbn. split; [apply step_refl; exact Hw|]. split; [lia | reflexivity].
  - eapply okres_bind; [apply write_ds_ok'; exact Hw|].
    intros [t1 i1] (S1 & L1 & _ & K1). pose proof S1 as (W1 & _ & _).
    eapply okres_impl; [apply IH; exact W1|].
    intros t' (S2 & L2 & K2). split; [eapply step_trans; eauto|]. split; [lia | congruence].
Qed.

Definition P_sequel (f : nat) : Prop := forall t outer, wf t -> (0 <= outer < len t)%Z ->
  okres (fun '(t', idx) => step_ok t t' /\ (0 <= idx < len t')%Z) (parse_sequel osz cx f t outer).
Definition P_parens (f : nat) : Prop := forall t pc result abi cfg, wf t -> res_ok t pc result ->
  okres (fun '(t', pc', r', _) => step_ok t t' /\ res_ok t' pc' r') (parens osz cx f t pc result abi cfg).
Definition P_args (f : nat) : Prop := forall t an fl, wf t -> (0 <= an)%Z ->
  (an + Z.of_nat (ncommas (t_rest t) 0 0) + 1 < len t)%Z ->
  okres (fun '(t', an', _) => wf t' /\ neutral_at1 t t' /\ (len t <= len t')%Z /\ (0 <= an' < len t')%Z)
        (args_loop osz cx f t an fl).
Definition P_complete (f : nat) : Prop := forall t, wf t ->
  okres (fun '(t', idx) => step_ok t t' /\ (0 <= idx < len t')%Z) (parse_complete osz cx f t).
Definition P_from (f : nat) : Prop := forall input out,
  okres (fun '(out', n) => List.length out <= List.length out' /\ (0 <= n < Z.of_nat (List.length out'))%Z)
        (parse_from osz cx f input out).

(* ---- the dispatch without modifiers *)
Lemma base_plain_nf pf t :
  (forall input out, okres (fun '(out', n) => List.length out <= List.length out' /\
                                              (0 <= n < Z.of_nat (List.length out'))%Z) (pf input out)) ->
  wf t ->
  okres (fun '(t3, _, _) => step_ok t t3 /\ plain_kind (t_kind t3)) (base_plain cx pf t).
Proof.
  intros Hpf Hw. unfold base_plain.
  assert (Hnext : forall k, t_kind t = KKw k ->
            negb (kind_eqb (t_kind (next_token t)) KIdent) = false ->
            step_ok t (next_token t) /\ plain_kind (t_kind (next_token t))).
  { intros k Ek Hn. split; [apply step_next; [exact Hw | rewrite Ek; apply plain_kw]|].
    apply negb_false_iff in Hn. destruct (t_kind (next_token t)); try discriminate. apply plain_ident. }
  destruct (t_kind t) as [| | | | |c|k] eqn:Ek; try exact I.
  - (* identifier *)
    destruct (search_sorted _ _); [cbn; split; [apply step_refl; exact Hw | rewrite Ek; apply plain_ident]|].
    destruct (search_standard_typename _); [cbn; split; [apply step_refl; exact Hw | rewrite Ek; apply plain_ident]|].
    destruct (get_common_type _) as [repl|]; [|exact I].
    specialize (Hpf repl (t_out t)). destruct (pf repl (t_out t)) as [[out' n]| |]; cbn in *; auto.
    destruct Hpf as [Hl _]. split; [|rewrite Ek; apply plain_ident].
    split; [exact Hw|]. split; [intros d acc; reflexivity | unfold len; cbn [t_out with_out]; lia].
  - destruct k; try exact I;
      try (cbn; split; [apply step_refl; exact Hw | rewrite Ek; apply plain_kw]).
    + (* enum *)
      cbv zeta. destruct (negb (kind_eqb (t_kind (next_token t)) KIdent)) eqn:En; [exact I|].
      destruct (search_sorted _ _); [|exact I]. cbn. apply (Hnext _ eq_refl eq_refl).
    + (* struct *)
      cbv zeta. destruct (negb (kind_eqb (t_kind (next_token t)) KIdent)) eqn:En; [exact I|].
      destruct (search_sorted _ _).
      * destruct (xorb _ _); [exact I|]. cbn. apply (Hnext _ eq_refl eq_refl).
      * destruct (_ && _)%bool; [|exact I]. cbn. apply (Hnext _ eq_refl eq_refl).
    + (* union *)
      cbv zeta. destruct (negb (kind_eqb (t_kind (next_token t)) KIdent)) eqn:En; [exact I|].
      destruct (search_sorted _ _).
      * destruct (xorb _ _); [exact I|]. cbn. apply (Hnext _ eq_refl eq_refl).
      * destruct (_ && _)%bool; [|exact I]. cbn. apply (Hnext _ eq_refl eq_refl).
Qed.

(* unfolding equations of the mutual fixpoint *)
Lemma args_loop_S f t arg_next flags :
  args_loop osz cx (S f) t arg_next flags =
  if kind_eqb (t_kind t) KDots then Ok (next_token t, arg_next, 1%Z)
  else
    match parse_complete osz cx f t with
    | Ok (t1, arg) =>
      bind (get_out t1 arg) (fun o =>
      bind (let op := GETOP o in
            if ((op =? OP_ARRAY)%Z || (op =? OP_OPEN_ARRAY)%Z)%bool then Ok (OP OP_POINTER (GETARG o))
            else if (op =? OP_FUNCTION)%Z then Ok (OP OP_POINTER arg)
            else Ok (OP OP_NOOP arg)) (fun oarg =>
      bind (set_out t1 arg_next oarg) (fun t2 =>
        if negb (is_ch t2 c_comma) then Ok (t2, (arg_next + 1)%Z, flags)
        else args_loop osz cx f (next_token t2) (arg_next + 1)%Z flags)))
    | Err e p => Err e p
    | Fault => Fault
    end.
Proof. reflexivity. Qed.

Lemma parens_S f t pc result abi cfg :
  parens osz cx (S f) t pc result abi cfg =
  if is_ch t c_lpar then
    let t1 := next_token t in
    let '(t2, abi2) := match t_kind t1 with
                       | KKw K_cdecl => (next_token t1, Some K_cdecl)
                       | KKw K_stdcall => (next_token t1, Some K_stdcall)
                       | _ => (t1, abi)
                       end in
    bind (if ((cfg =? 1)%Z && (is_ch t2 c_star || is_kw t2 K_const || is_kw t2 K_volatile
                               || is_ch t2 c_lbr))%bool
          then
            let x := Z.of_nat (List.length (t_out t2)) in
            bind (write_ds osz t2 (OP OP_NOOP 0)) (fun '(t3, _) =>
            bind (parse_sequel osz cx f t3 x) (fun '(t4, x') =>
              Ok (t4, POut x, OP (GETOP 0) x', abi2)))
          else
            let flags := match abi2 with Some K_stdcall => 2%Z | _ => 0%Z end in
            let t3 := if (is_kw t2 K_void && N.eqb (following_char t2) c_rpar)%bool
                      then next_token t2 else t2 in
            let arg_total := S (number_of_commas t3) in
            let oi := Z.of_nat (List.length (t_out t3)) in
            bind (retarget t3 pc result oi) (fun '(t4, result4) =>
            bind (write_ds osz t4 (OP OP_FUNCTION 0)) (fun '(t5, base_index) =>
            bind (reserve osz (S arg_total) t5) (fun t6 =>
            bind (if negb (is_ch t6 c_rpar) then args_loop osz cx f t6 (base_index + 1)%Z flags
                  else Ok (t6, (base_index + 1)%Z, flags)) (fun '(t7, arg_next, flags7) =>
            bind (set_out t7 arg_next (OP OP_FUNCTION_END flags7)) (fun t8 =>
              Ok (t8, POut oi, result4, @None kw)))))))
         (fun '(t9, pc9, result9, abi9) =>
            if negb (is_ch t9 c_rpar) then parse_error t9 E_rparen
            else parens osz cx f (next_token t9) pc9 result9 abi9 (cfg - 1)%Z)
  else Ok (t, pc, result, abi).
Proof. reflexivity. Qed.

Lemma parse_sequel_S' f t outer :
  parse_sequel osz cx (S f) t outer =
  bind (header osz f t outer None) (fun '(t1, outer1, abi) =>
    let '(t2, cfg) := match t_kind t1 with
                      | KIdent => (next_token t1, 0%Z)
                      | _ => (t1, 1%Z)
                      end in
    bind (parens osz cx f t2 PRes 0%Z abi cfg) (fun '(t3, pc, result, abi3) =>
      if match abi3 with Some _ => true | None => false end then parse_error t3 E_lparen
      else
        bind (brackets osz cx f t3 pc result) (fun '(t4, pc4, result4) =>
          bind (retarget t4 pc4 result4 outer1) (fun '(t5, result5) =>
            Ok (t5, GETARG result5))))).
Proof. reflexivity. Qed.

Lemma parse_complete_S f t :
  parse_complete osz cx (S f) t =
  bind (qualifiers f t) (fun t1 =>
  bind (modifiers f t1 0%Z 0%Z) (fun '(t2, mlen, msign) =>
  bind (if (negb (mlen =? 0)%Z || negb (msign =? 0)%Z)%bool then
          bind (base_with_modifiers t2 mlen msign) (fun '(t3, op) => Ok (t3, op, 0%Z))
        else
          bind (base_plain cx (parse_from osz cx f) t2) (fun '(t3, op, cplx) => Ok (next_token t3, op, cplx)))
       (fun '(t5, t1op, t1complex) =>
  bind (if is_kw t5 K_Complex then
          if (t1complex =? 0)%Z then parse_error t5 E_complex
          else Ok (next_token t5, t1complex)
        else Ok (t5, t1op)) (fun '(t6, t1op6) =>
  bind (write_ds osz t6 t1op6) (fun '(t7, idx) => parse_sequel osz cx f t7 idx))))).
Proof. reflexivity. Qed.

Lemma parse_from_S' f input out :
  parse_from osz cx (S f) input out =
  bind (parse_complete osz cx f (start_tok input out)) (fun '(t1, result) =>
    if negb (kind_eqb (t_kind t1) KEnd) then parse_error t1 E_unexpected
    else Ok (t_out t1, result)).
Proof. reflexivity. Qed.

(* ---- one step of each function *)
Lemma sequel_step f : P_parens f -> P_sequel (S f).
Proof.
  intros HP t outer Hw Ho. rewrite parse_sequel_S'.
  eapply okres_bind; [apply header_nf; eauto|].
  intros [[t1 outer1] abi] [S1 O1]. pose proof S1 as (W1 & N1 & M1).
  assert (Hid : exists t2 cfg, (match t_kind t1 with KIdent => (next_token t1, 0%Z) | _ => (t1, 1%Z) end) = (t2, cfg)
                               /\ step_ok t1 t2 /\ len t2 = len t1).
  { destruct (t_kind t1) eqn:Ek; try (eexists; eexists; split; [reflexivity|]; split; [apply step_refl; exact W1 | reflexivity]).
    eexists; eexists; split; [reflexivity|]. split; [apply step_next; [exact W1 | rewrite Ek; apply plain_ident]|].
    unfold len. rewrite t_out_next. reflexivity. }
  destruct Hid as (t2 & cfg & E2 & S2 & L2). rewrite E2. pose proof S2 as (W2 & _ & _).
  eapply okres_bind; [apply HP; [exact W2 | exact I]|].
  intros [[[t3 pc] result] abi3] [S3 R3]. pose proof S3 as (W3 & _ & M3).
  destruct abi3; [exact I|].
  eapply okres_bind; [apply brackets_nf; eauto|].
  intros [[t4 pc4] r4] [S4 R4]. pose proof S4 as (W4 & _ & M4).
  eapply okres_bind; [apply retarget_ok'; eauto|].
  intros [t5 r5] (S5 & L5 & K5 & R5). cbn.
  split.
  - eapply step_trans; [exact S1|]. eapply step_trans; [exact S2|]. eapply step_trans; [exact S3|].
    eapply step_trans; [exact S4 | exact S5].
  - destruct pc4 as [|x].
    + rewrite R5. lia.
    + subst r5. destruct R4 as [_ Hg]. lia.
Qed.

Lemma complete_step f : P_sequel f -> P_from f -> P_complete (S f).
Proof.
  intros HS HF t Hw. rewrite parse_complete_S.
  eapply okres_bind; [apply qualifiers_nf; exact Hw|].
  intros t1 [S1 O1]. pose proof S1 as (W1 & _ & _).
  eapply okres_bind; [apply modifiers_nf; exact W1|].
  intros [[t2 mlen] msign] [S2 O2]. pose proof S2 as (W2 & _ & _).
  eapply okres_bind with (P := fun '(t5, _, _) => step_ok t2 t5).
  { destruct (negb (mlen =? 0)%Z || negb (msign =? 0)%Z)%bool.
    - eapply okres_bind; [apply base_mod_nf; exact W2|]. intros [t3 op] [S3 _]. cbn. exact S3.
    - eapply okres_bind; [apply base_plain_nf; [exact HF | exact W2]|].
      intros [[t3 op] cplx] [S3 P3]. cbn. pose proof S3 as (W3 & _ & _).
      eapply step_trans; [exact S3 | apply step_next; assumption]. }
  intros [[t5 t1op] t1c] S5. pose proof S5 as (W5 & _ & _).
  eapply okres_bind with (P := fun '(t6, _) => step_ok t5 t6).
  { destruct (is_kw t5 K_Complex) eqn:Ec; [|cbn; apply step_refl; exact W5].
    destruct (t1c =? 0)%Z; [exact I|]. cbn. apply step_next; [exact W5|].
    destruct (is_kw_true _ _ Ec) as [k' Ek]. rewrite Ek. apply plain_kw. }
  intros [t6 op6] S6. pose proof S6 as (W6 & _ & _).
  eapply okres_bind; [apply write_ds_ok'; exact W6|].
  intros [t7 idx] (S7 & L7 & I7 & K7). pose proof S7 as (W7 & _ & _).
  pose proof (len_nonneg t6).
  eapply okres_impl; [apply HS; [exact W7 | lia]|].
  intros [t8 idx8] [S8 R8]. split; [|exact R8].
  eapply step_trans; [exact S1|]. eapply step_trans; [exact S2|]. eapply step_trans; [exact S5|].
  eapply step_trans; [exact S6|]. eapply step_trans; [exact S7 | exact S8].
Qed.

Lemma from_step f : P_complete f -> P_from (S f).
Proof.
  intros HC input out. rewrite parse_from_S'.
  assert (Hw : wf (start_tok input out)) by (unfold start_tok; apply wf_next).
  eapply okres_bind; [apply HC; exact Hw|].
  intros [t1 result] [S1 R1]. destruct S1 as (_ & _ & M1).
  destruct (negb (kind_eqb (t_kind t1) KEnd)); [exact I|]. cbn.
  unfold len in *. unfold start_tok in M1. rewrite t_out_next in M1. cbn [t_out] in M1. split; lia.
Qed.

Lemma args_step f : P_complete f -> P_args f -> P_args (S f).
Proof.
  intros HC HA t an fl Hw Han Hinv. rewrite args_loop_S.
  destruct (kind_eqb (t_kind t) KDots) eqn:Ed.
  { assert (Ek : t_kind t = KDots) by (destruct (t_kind t); try discriminate; reflexivity).
    pose proof (step_next t Hw ltac:(rewrite Ek; apply plain_dots)) as (W1 & N1 & M1).
    cbn. split; [exact W1|]. split; [apply neutral_step_at1; exact N1|]. split; [exact M1 | lia]. }
  specialize (HC t Hw). destruct (parse_complete osz cx f t) as [[t1 arg]| |]; cbn in HC; [|exact I|exact HC].
  destruct HC as [S1 A1]. pose proof S1 as (W1 & N1 & M1).
  destruct (get_out_ok t1 arg A1) as [o Ho]. rewrite Ho. cbn [bind].
  set (oarg := (let op := GETOP o in
                if ((op =? OP_ARRAY)%Z || (op =? OP_OPEN_ARRAY)%Z)%bool then Ok (OP OP_POINTER (GETARG o))
                else if (op =? OP_FUNCTION)%Z then Ok (OP OP_POINTER arg) else Ok (OP OP_NOOP arg)) : res Z).
  assert (Hoarg : exists v, oarg = Ok v).
  { unfold oarg. cbv zeta. destruct (_ || _)%bool; [eauto|]. destruct (_ =? _)%Z; eauto. }
  destruct Hoarg as [v Hv]. rewrite Hv. cbn [bind].
  destruct (set_out_ok t1 an v W1 ltac:(lia)) as (t2 & E2 & S2 & L2 & K2). rewrite E2. cbn [bind].
  pose proof S2 as (W2 & N2 & M2).
  assert (Hnc : ncommas (t_rest t) 0 0 = ncommas (t_rest t2) 0 0) by (rewrite N1; apply N2).
  destruct (negb (is_ch t2 c_comma)) eqn:Ec.
  - cbn. split; [exact W2|]. split; [|split; lia].
    intros d acc. rewrite N1. apply N2.
  - apply negb_false_iff in Ec. apply is_ch_true in Ec.
    pose proof (scan_next t2 W2 0 0) as Hsc. rewrite Ec in Hsc. cbn in Hsc.
    rewrite (ncommas_acc _ 0 1) in Hsc.
    eapply okres_impl; [apply HA; [apply wf_next | lia|]|].
    + unfold len. rewrite t_out_next. fold (len t2). lia.
    + intros [[t' an'] fl'] (W' & N' & M' & A').
      split; [exact W'|]. split; [|split; [|exact A']].
      * intros d acc. rewrite N1, N2. rewrite (scan_next t2 W2 (S d) acc), Ec. cbn. apply N'.
      * unfold len in *. rewrite t_out_next in M'. lia.
Qed.

Lemma parens_step f : P_sequel f -> P_args f -> P_parens f -> P_parens (S f).
Proof.
  intros HS HA HP t pc result abi cfg Hw Hr. rewrite parens_S.
  destruct (is_ch t c_lpar) eqn:El; [|cbn; split; [apply step_refl; exact Hw | exact Hr]].
  apply is_ch_true in El. cbv zeta.
  set (t1 := next_token t).
  assert (W1 : wf t1) by apply wf_next.
  assert (L1 : len t1 = len t) by (unfold len, t1; rewrite t_out_next; reflexivity).
  assert (N01 : forall d acc, ncommas (t_rest t) d acc = ncommas (t_rest t1) (S d) acc).
  { intros d acc. rewrite (scan_next t Hw d acc), El. reflexivity. }
  assert (Habi : exists t2 abi2, (match t_kind t1 with
                                  | KKw K_cdecl => (next_token t1, Some K_cdecl)
                                  | KKw K_stdcall => (next_token t1, Some K_stdcall)
                                  | _ => (t1, abi) end) = (t2, abi2) /\ step_ok t1 t2 /\ len t2 = len t1).
  { assert (Hs : step_ok t1 t1 /\ len t1 = len t1) by (split; [apply step_refl; exact W1 | reflexivity]).
    destruct (t_kind t1) as [| | | | |c|k] eqn:Ek; try (eexists; eexists; split; [reflexivity | exact Hs]).
    destruct k; try (eexists; eexists; split; [reflexivity | exact Hs]);
      (eexists; eexists; split; [reflexivity|]; split;
       [apply step_next; [exact W1 | rewrite Ek; apply plain_kw] | unfold len; rewrite t_out_next; reflexivity]). }
  destruct Habi as (t2 & abi2 & E2 & S2 & L2). rewrite E2. pose proof S2 as (W2 & N2 & _).
  (* the inside of the parentheses: at nesting depth + 1 *)
  eapply okres_bind with
    (P := fun '(t9, pc9, r9, _) => wf t9 /\ neutral_at1 t2 t9 /\ (len t2 <= len t9)%Z /\ res_ok t9 pc9 r9).
  - destruct ((cfg =? 1)%Z && (is_ch t2 c_star || is_kw t2 K_const || is_kw t2 K_volatile || is_ch t2 c_lbr))%bool.
    + (* grouping *)
      eapply okres_bind; [apply write_ds_ok'; exact W2|].
      intros [t3 i3] (S3 & L3 & I3 & K3). pose proof S3 as (W3 & N3 & M3).
      pose proof (len_nonneg t2) as Hnn.
      eapply okres_bind; [apply HS; [exact W3 | fold (len t2); lia]|].
      intros [t4 x'] [S4 X4]. pose proof S4 as (W4 & N4 & M4). unfold NoFault2.okres. cbv beta iota.
      split; [exact W4|]. split; [|split; [lia|]].
      * apply neutral_step_at1. eapply neutral_trans; eauto.
      * unfold res_ok. fold (len t2). rewrite GETARG_OP_any. split; lia.
    + (* function *)
      set (t3 := if (is_kw t2 K_void && N.eqb (following_char t2) c_rpar)%bool then next_token t2 else t2).
      assert (S3 : step_ok t2 t3 /\ len t3 = len t2).
      { unfold t3. destruct (is_kw t2 K_void && N.eqb (following_char t2) c_rpar)%bool eqn:Ev.
        - apply andb_true_iff in Ev as [Ev _]. destruct (is_kw_true _ _ Ev) as [k' Ek].
          split; [apply step_next; [exact W2 | rewrite Ek; apply plain_kw] | unfold len; rewrite t_out_next; reflexivity].
        - split; [apply step_refl; exact W2 | reflexivity]. }
      destruct S3 as [S3 L3]. pose proof S3 as (W3 & N3 & _).
      cbv zeta. fold (len t3). pose proof (len_nonneg t3) as Hnn3.
      assert (Hr3 : res_ok t3 pc result).
      { eapply res_ok_mono; [exact Hr | lia]. }
      eapply okres_bind; [apply retarget_ok'; eauto|].
      intros [t4 r4] (S4 & L4 & K4 & R4). pose proof S4 as (W4 & N4 & _).
      eapply okres_bind; [apply write_ds_ok'; exact W4|].
      intros [t5 base] (S5 & L5 & I5 & K5). pose proof S5 as (W5 & N5 & _).
      eapply okres_bind; [apply reserve_nf; exact W5|].
      intros t6 (S6 & L6 & K6). pose proof S6 as (W6 & N6 & _).
      assert (N36 : neutral_step t3 t6).
      { eapply neutral_trans; [exact N4|]. eapply neutral_trans; [exact N5 | exact N6]. }
      unfold number_of_commas in L6.
      eapply okres_bind with
        (P := fun '(t7, an, _) => wf t7 /\ neutral_at1 t6 t7 /\ (len t6 <= len t7)%Z /\ (0 <= an < len t7)%Z).
      * destruct (negb (is_ch t6 c_rpar)).
        -- apply HA; [exact W6 | lia|]. rewrite <- (N36 0 0). lia.
        -- cbn. split; [exact W6|]. split; [intros d acc; reflexivity|]. lia.
      * intros [[t7 an] fl7] (W7 & N7 & M7 & A7).
        destruct (set_out_ok t7 an (OP OP_FUNCTION_END fl7) W7 A7) as (t8 & E8 & S8 & L8 & K8).
        rewrite E8. cbn. pose proof S8 as (W8 & N8 & _).
        split; [exact W8|]. split; [|split; [lia|]].
        -- intros d acc. rewrite (N3 (S d) acc), (N36 (S d) acc), (N7 d acc). apply N8.
        -- split; [lia|]. destruct pc as [|x].
           ++ rewrite R4. lia.
           ++ subst r4. destruct Hr as [_ Hg]. lia.
  - intros [[[t9 pc9] r9] abi9] (W9 & N9 & M9 & R9).
    destruct (negb (is_ch t9 c_rpar)) eqn:Er; [exact I|].
    apply negb_false_iff in Er. apply is_ch_true in Er.
    eapply okres_impl; [apply HP; [apply wf_next|]|].
    + eapply res_ok_mono; [exact R9|]. unfold len. rewrite t_out_next. lia.
    + intros [[[t' pc'] r'] abi'] [(W' & N' & M') R']. split; [|exact R'].
      split; [exact W'|]. split.
      * intros d acc. rewrite N01, (N2 (S d) acc), (N9 d acc).
        rewrite (scan_next t9 W9 (S d) acc), Er. cbn. apply N'.
      * unfold len in *. rewrite t_out_next in M'. lia.
Qed.

Theorem all_nf : forall f, P_sequel f /\ P_parens f /\ P_args f /\ P_complete f /\ P_from f.
Proof.
  induction f as [|f (IS & IP & IA & IC & IF)].
  - repeat split; intro; intros; exact I.
  - split; [apply sequel_step; exact IP|].
    split; [apply parens_step; assumption|].
    split; [apply args_step; assumption|].
    split; [apply complete_step; assumption | apply from_step; exact IC].
Qed.

(* parse_c_type never touches tok->output outside [0, output_index) *)
Theorem parse_no_fault : forall input, parse_c_type osz cx input <> Fault.
Proof.
  intros input H. unfold parse_c_type in H.
  destruct (all_nf (fuel_for input)) as (_ & _ & _ & _ & HF).
  specialize (HF input []). rewrite H in HF. exact HF.
Qed.

Theorem result_index_in_range : forall input out r,
  parse_c_type osz cx input = Ok (out, r) -> (0 <= r < Z.of_nat (List.length out))%Z.
Proof.
  intros input out r H. unfold parse_c_type in H.
  destruct (all_nf (fuel_for input)) as (_ & _ & _ & _ & HF).
  specialize (HF input []). rewrite H in HF. apply HF.
Qed.

End NF.

Theorem next_token_stops_at_terminator : forall s junk, nulfree s = true ->
  lex_from (s ++ 0%N :: junk) = lex_from s /\
  (forall k n kd, lex_from s = (k, n, kd) -> (k + n <= List.length s)%nat).
Proof. intros s junk H. split; [apply lex_from_terminator; exact H | apply lex_window]. Qed.

Theorem lookahead_stops_at_terminator : forall s junk,
  first_nonspace (s ++ 0%N :: junk) = first_nonspace s /\
  (forall d acc, ncommas (s ++ 0%N :: junk) d acc = ncommas s d acc).
Proof. intros s junk. split; [apply first_nonspace_terminator | intros; apply ncommas_terminator]. Qed.
