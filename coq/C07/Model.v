(* C07 — hand model of src/c/parse_c_type.c at token level.

   The model keeps the control structure of the C code: `next_token` (parse_c_type.c:113)
   character by character, `parse_complete` (605), `parse_sequel` (227), `write_ds` (209),
   `number_of_commas` (97), `get_following_char` (87), with the opcode output buffer explicit.

   Errors.  In C an error is sticky: parse_error() records the FIRST error (location, message),
   sets tok->kind = TOK_ERROR, after which next_token() is a no-op, every loop exits and
   parse_c_type() returns -1.  The model short-circuits instead: `Err code pos` is that first
   error.  Between the first error and the return the C code performs no access to the output
   buffer (checked path by path: after an error every write_ds fails without writing, `p_current`
   is never dereferenced again, and since commit bdb4859 parse_sequel returns at once when an
   argument fails to parse instead of reading tok->output[arg] with arg == -1).

   Memory.  `t_out` is output[0 .. output_index).  write_ds() appends (bounded by output_size);
   every other store `tok->output[i] = ..` / `*p_current = ..` and every load `tok->output[i]`
   goes through `set_out` / `get_out`, which return `Fault` when i is not < output_index
   (hence not < output_size).  C07_no_fault (Props.v) states that Fault never happens. *)
From Coq Require Import List Arith NArith ZArith Lia Bool String Ascii.
Import ListNotations.
From Cffi Require Import C25.Model.
Local Open Scope Z_scope.

Definition str := list N.

Fixpoint s2l (s : string) : str :=
  match s with
  | EmptyString => []
  | String a s' => N_of_ascii a :: s2l s'
  end.

Fixpoint str_eqb (a b : str) : bool :=
  match a, b with
  | [], [] => true
  | x :: a', y :: b' => N.eqb x y && str_eqb a' b'
  | _, _ => false
  end.

(* ---------------------------------------------------------------- characters (57–85) *)
Definition ch (a : ascii) : N := N_of_ascii a.
Definition in_range (lo hi x : N) : bool := (N.leb lo x && N.leb x hi)%bool.

Definition is_space (x : N) : bool :=
  (N.eqb x 32 || N.eqb x 12 || N.eqb x 10 || N.eqb x 13 || N.eqb x 9 || N.eqb x 11)%bool.
Definition is_ident_first (x : N) : bool :=
  (in_range 65 90 x || in_range 97 122 x || N.eqb x 95 || N.eqb x 36)%bool.
Definition is_digit (x : N) : bool := in_range 48 57 x.
Definition is_hex_digit (x : N) : bool :=
  (in_range 48 57 x || in_range 65 70 x || in_range 97 102 x)%bool.
Definition is_ident_next (x : N) : bool := (is_ident_first x || is_digit x)%bool.

(* ---------------------------------------------------------------- tokens (10–46) *)
Inductive kw := K_Bool | K_char | K_Complex | K_const | K_double | K_enum | K_float | K_int
  | K_long | K_short | K_signed | K_struct | K_union | K_unsigned | K_void | K_volatile
  | K_cdecl | K_stdcall.

Inductive kind := KStart | KEnd | KIdent | KInteger | KDots | KChar (c : N) | KKw (k : kw).

Definition kw_eqb (a b : kw) : bool :=
  match a, b with
  | K_Bool, K_Bool | K_char, K_char | K_Complex, K_Complex | K_const, K_const
  | K_double, K_double | K_enum, K_enum | K_float, K_float | K_int, K_int | K_long, K_long
  | K_short, K_short | K_signed, K_signed | K_struct, K_struct | K_union, K_union
  | K_unsigned, K_unsigned | K_void, K_void | K_volatile, K_volatile | K_cdecl, K_cdecl
  | K_stdcall, K_stdcall => true
  | _, _ => false
  end.

Definition kind_eqb (a b : kind) : bool :=
  match a, b with
  | KStart, KStart | KEnd, KEnd | KIdent, KIdent | KInteger, KInteger | KDots, KDots => true
  | KChar x, KChar y => N.eqb x y
  | KKw x, KKw y => kw_eqb x y
  | _, _ => false
  end.

Definition keywords : list (str * kw) :=
  [ (s2l "_Bool", K_Bool); (s2l "__cdecl", K_cdecl); (s2l "__stdcall", K_stdcall);
    (s2l "_Complex", K_Complex); (s2l "char", K_char); (s2l "const", K_const);
    (s2l "double", K_double); (s2l "enum", K_enum); (s2l "float", K_float); (s2l "int", K_int);
    (s2l "long", K_long); (s2l "short", K_short); (s2l "signed", K_signed);
    (s2l "struct", K_struct); (s2l "union", K_union); (s2l "unsigned", K_unsigned);
    (s2l "void", K_void); (s2l "volatile", K_volatile) ]%string.

(* the switch on p[0] { case '_': if (size == 5 && !memcmp(p, "_Bool", 5)) ... } of 157–196 is an
   exact-spelling test *)
Fixpoint assoc_str {A} (tbl : list (str * A)) (s : str) : option A :=
  match tbl with
  | [] => None
  | (k, v) :: tbl' => if str_eqb k s then Some v else assoc_str tbl' s
  end.
Definition kw_of (s : str) : option kw := assoc_str keywords s.

Definition c_star := 42%N.   Definition c_lpar := 40%N.   Definition c_rpar := 41%N.
Definition c_lbr := 91%N.    Definition c_rbr := 93%N.    Definition c_comma := 44%N.
Definition c_dot := 46%N.

(* number of leading characters satisfying f *)
Fixpoint span (f : N -> bool) (s : str) : nat :=
  match s with
  | c :: s' => if f c then S (span f s') else O
  | [] => O
  end.

(* next_token's scan, from p = tok->p + tok->size: (characters skipped, size, kind).
   The end of the list is the terminating NUL; an explicit 0 in the list is a NUL too. *)
Fixpoint lex_from (s : str) : nat * nat * kind :=
  match s with
  | [] => (O, O, KEnd)
  | c :: s' =>
    if is_ident_first c then
      let n := S (span is_ident_next s') in
      (O, n, match kw_of (firstn n s) with Some k => KKw k | None => KIdent end)
    else if is_space c then
      let '(k, n, kd) := lex_from s' in (S k, n, kd)
    else if is_digit c then
      let n0 := match s' with
                | c1 :: _ => if (N.eqb c1 120 || N.eqb c1 88)%bool then 2%nat else 1%nat
                | [] => 1%nat
                end in
      ((O, n0 + span is_hex_digit (skipn n0 s))%nat, KInteger)
    else if (N.eqb c c_dot && match s' with
                              | c1 :: c2 :: _ => N.eqb c1 c_dot && N.eqb c2 c_dot
                              | _ => false
                              end)%bool then (O, 3%nat, KDots)
    else if N.eqb c 0 then (O, O, KEnd)
    else (O, 1%nat, KChar c)
  end.

(* ---------------------------------------------------------------- parser state (48–55) *)
Record tok := mkTok {
  t_rest : str;          (* the characters from tok->p on *)
  t_pos : nat;           (* tok->p - tok->input *)
  t_size : nat;
  t_kind : kind;
  t_out : list Z         (* tok->output[0 .. tok->output_index) *)
}.

Definition next_token (t : tok) : tok :=
  let s := skipn (t_size t) (t_rest t) in
  let '(k, n, kd) := lex_from s in
  mkTok (skipn k s) (t_pos t + t_size t + k) n kd (t_out t).

Definition with_out (t : tok) (o : list Z) : tok :=
  mkTok (t_rest t) (t_pos t) (t_size t) (t_kind t) o.

Definition tok_text (t : tok) : str := firstn (t_size t) (t_rest t).

(* get_following_char (87) *)
Fixpoint first_nonspace (s : str) : N :=
  match s with
  | [] => 0%N
  | c :: s' => if is_space c then first_nonspace s' else c
  end.
Definition following_char (t : tok) : N := first_nonspace (skipn (t_size t) (t_rest t)).

(* number_of_commas (97), scanning from tok->p *)
Fixpoint ncommas (s : str) (nesting : nat) (acc : nat) : nat :=
  match s with
  | [] => acc
  | c :: s' =>
    if N.eqb c c_comma then ncommas s' nesting (match nesting with O => S acc | _ => acc end)
    else if N.eqb c c_lpar then ncommas s' (S nesting) acc
    else if N.eqb c c_rpar then match nesting with O => acc | S n => ncommas s' n acc end
    else if N.eqb c 0 then acc
    else ncommas s' nesting acc
  end.
Definition number_of_commas (t : tok) : nat := ncommas (t_rest t) O O.

(* ---------------------------------------------------------------- results and errors *)
(* error codes = the messages passed to parse_error(), in order of appearance in the file *)
Inductive err := E_complexity | E_rparen | E_lparen | E_invalid_number | E_number_too_large
  | E_const_too_large | E_disagreement | E_posint | E_rbracket | E_short | E_long_short
  | E_long_long_long | E_multiple_sign | E_combination | E_internal | E_undefined_type
  | E_su_name | E_undefined_su | E_wrong_kind | E_enum_name | E_undefined_enum | E_identifier
  | E_complex | E_unexpected | E_out_of_fuel.

Definition err_code (e : err) : N :=
  match e with
  | E_complexity => 1 | E_rparen => 2 | E_lparen => 3 | E_invalid_number => 4
  | E_number_too_large => 5 | E_const_too_large => 6 | E_disagreement => 7 | E_posint => 8
  | E_rbracket => 9 | E_short => 10 | E_long_short => 11 | E_long_long_long => 12
  | E_multiple_sign => 13 | E_combination => 14 | E_internal => 15 | E_undefined_type => 16
  | E_su_name => 17 | E_undefined_su => 18 | E_wrong_kind => 19 | E_enum_name => 20
  | E_undefined_enum => 21 | E_identifier => 22 | E_complex => 23 | E_unexpected => 24
  | E_out_of_fuel => 99
  end%N.

(* Err e pos: first error e at offset pos.  Fault: an access tok->output[i] with i outside
   [0, output_index) — C07_no_fault (Props.v) shows that it never happens *)
Inductive res (A : Type) :=
| Ok (a : A)
| Err (e : err) (pos : nat)
| Fault.
Arguments Ok {A} a.
Arguments Err {A} e pos.
Arguments Fault {A}.

Definition bind {A B} (r : res A) (f : A -> res B) : res B :=
  match r with
  | Ok a => f a
  | Err e p => Err e p
  | Fault => Fault
  end.
Notation "'do' x <- r ; k" := (bind r (fun x => k))
  (at level 200, x name, r at level 100, k at level 200).
Notation "'do' ' p <- r ; k" := (bind r (fun x => match x with p => k end))
  (at level 200, p pattern, r at level 100, k at level 200).

Definition parse_error {A} (t : tok) (e : err) : res A := Err e (t_pos t).

(* ---------------------------------------------------------------- opcodes (parse_c_type.h) *)
Definition OP_PRIMITIVE := 1.   Definition OP_POINTER := 3.      Definition OP_ARRAY := 5.
Definition OP_OPEN_ARRAY := 7.  Definition OP_STRUCT_UNION := 9. Definition OP_ENUM := 11.
Definition OP_FUNCTION := 13.   Definition OP_FUNCTION_END := 15. Definition OP_NOOP := 17.
Definition OP_TYPENAME := 21.   Definition OP_CONSTANT_INT := 31.

(* _cffi_opcode_t is a pointer-sized word; the model holds its value as a signed integer:
   _CFFI_OP(op, arg) = op | (arg << 8), _CFFI_GETOP = low byte, _CFFI_GETARG = (intptr_t)x >> 8 *)
Definition OP (op arg : Z) : Z := op + arg * 256.
Definition GETOP (x : Z) : Z := x mod 256.
Definition GETARG (x : Z) : Z := x / 256.

Definition PRIM_VOID := 0.    Definition PRIM_BOOL := 1.   Definition PRIM_CHAR := 2.
Definition PRIM_SCHAR := 3.   Definition PRIM_UCHAR := 4.  Definition PRIM_SHORT := 5.
Definition PRIM_USHORT := 6.  Definition PRIM_INT := 7.    Definition PRIM_UINT := 8.
Definition PRIM_LONG := 9.    Definition PRIM_ULONG := 10. Definition PRIM_LONGLONG := 11.
Definition PRIM_ULONGLONG := 12. Definition PRIM_FLOAT := 13. Definition PRIM_DOUBLE := 14.
Definition PRIM_LONGDOUBLE := 15. Definition PRIM_FLOATCOMPLEX := 48.
Definition PRIM_DOUBLECOMPLEX := 49.

(* search_standard_typename (487): the size/memcmp/switch cascade accepts exactly these
   spellings (each test is size == len(prefix)+2 && memcmp(prefix) && p[size-2..] == "_t") *)
Definition standard_typenames : list (str * Z) :=
  [ (s2l "wchar_t", 16); (s2l "int8_t", 17); (s2l "uint8_t", 18); (s2l "int16_t", 19);
    (s2l "uint16_t", 20); (s2l "int32_t", 21); (s2l "uint32_t", 22); (s2l "int64_t", 23);
    (s2l "uint64_t", 24); (s2l "intptr_t", 25); (s2l "uintptr_t", 26); (s2l "ptrdiff_t", 27);
    (s2l "size_t", 28); (s2l "ssize_t", 29); (s2l "int_least8_t", 30); (s2l "uint_least8_t", 31);
    (s2l "int_least16_t", 32); (s2l "uint_least16_t", 33); (s2l "int_least32_t", 34);
    (s2l "uint_least32_t", 35); (s2l "int_least64_t", 36); (s2l "uint_least64_t", 37);
    (s2l "int_fast8_t", 38); (s2l "uint_fast8_t", 39); (s2l "int_fast16_t", 40);
    (s2l "uint_fast16_t", 41); (s2l "int_fast32_t", 42); (s2l "uint_fast32_t", 43);
    (s2l "int_fast64_t", 44); (s2l "uint_fast64_t", 45); (s2l "intmax_t", 46);
    (s2l "uintmax_t", 47); (s2l "_cffi_float_complex_t", 48); (s2l "_cffi_double_complex_t", 49);
    (s2l "char16_t", 50); (s2l "char32_t", 51) ]%string.
Definition search_standard_typename (s : str) : option Z := assoc_str standard_typenames s.

(* commontypes.c, non-Windows build: the sorted table searched by get_common_type() *)
Definition common_simple_types : list (str * str) :=
  [ (s2l "FILE", s2l "struct _IO_FILE"); (s2l "bool", s2l "_Bool") ]%string.
Definition get_common_type (s : str) : option str :=
  match search_sorted (map fst common_simple_types) s with
  | Some i => Some (snd (nth i common_simple_types ([], [])))
  | None => None
  end.

(* ---------------------------------------------------------------- the type context *)
(* what parse_c_type.c reads of struct _cffi_type_context_s: four tables sorted by name
   (searched with search_sorted, C25; search_in_xxx returns -1 at once on an empty table, which
   is also what search_sorted returns), the union flag of struct_unions, and for globals
   the opcode kind and what the constant's fetch function returns *)
Inductive gkind :=
| GInt (is_enum : bool) (neg : Z) (value : Z)   (* OP_CONSTANT_INT / OP_ENUM; g->address(&gc) = neg, gc.value *)
| GOther.

Record ctx := mkCtx {
  c_typenames : list str;
  c_structs : list (str * bool);      (* name, _CFFI_F_UNION *)
  c_enums : list str;
  c_globals : list (str * gkind)
}.

Definition MAX_SSIZE_T := 9223372036854775807.
Definition IO_FILE_STRUCT := -1.

(* ---------------------------------------------------------------- strtoull(p, &endptr, 0) *)
Definition digit_val (c : N) : option Z :=
  if in_range 48 57 c then Some (Z.of_N c - 48)
  else if in_range 65 70 c then Some (Z.of_N c - 55)
  else if in_range 97 102 c then Some (Z.of_N c - 87)
  else None.

(* (value, number of characters consumed) *)
Fixpoint digits (base : Z) (s : str) (acc : Z) (n : nat) : Z * nat :=
  match s with
  | c :: s' =>
    match digit_val c with
    | Some d => if d <? base then digits base s' (acc * base + d) (S n) else (acc, n)
    | None => (acc, n)
    end
  | [] => (acc, n)
  end.

(* s starts with a decimal digit *)
Definition strtoull0 (s : str) : Z * nat :=
  match s with
  | 48%N :: c1 :: s2 =>
    if ((N.eqb c1 120 || N.eqb c1 88) && match s2 with c2 :: _ => is_hex_digit c2 | [] => false end)%bool
    then digits 16 s2 0 2%nat
    else digits 8 (c1 :: s2) 0 1%nat
  | 48%N :: [] => (0, 1%nat)
  | _ => digits 10 s 0 O
  end.

(* ---------------------------------------------------------------- output buffer *)
Section Parser.
Variable output_size : nat.     (* info->output_size *)
Variable cx : ctx.              (* info->ctx *)

(* write_ds (209) *)
Definition write_ds (t : tok) (ds : Z) : res (tok * Z) :=
  if (List.length (t_out t) <? output_size)%nat
  then Ok (with_out t (t_out t ++ [ds]), Z.of_nat (List.length (t_out t)))
  else parse_error t E_complexity.

(* tok->output[i] for an int i *)
Definition get_out (t : tok) (i : Z) : res Z :=
  if (0 <=? i) && (i <? Z.of_nat (List.length (t_out t)))
  then Ok (nth (Z.to_nat i) (t_out t) 0) else Fault.

Fixpoint set_nth (l : list Z) (i : nat) (v : Z) : list Z :=
  match l, i with
  | [], _ => []
  | _ :: l', O => v :: l'
  | x :: l', S i' => x :: set_nth l' i' v
  end.

Definition set_out (t : tok) (i : Z) (v : Z) : res tok :=
  if (0 <=? i) && (i <? Z.of_nat (List.length (t_out t)))
  then Ok (with_out t (set_nth (t_out t) (Z.to_nat i) v)) else Fault.

(* _cffi_opcode_t result, *p_current:  p_current is &result or tok->output + i *)
Inductive pcur := PRes | POut (i : Z).

Definition get_cur (t : tok) (pc : pcur) (result : Z) : res Z :=
  match pc with PRes => Ok result | POut i => get_out t i end.

Definition set_cur (t : tok) (pc : pcur) (result : Z) (v : Z) : res (tok * Z) :=
  match pc with
  | PRes => Ok (t, v)
  | POut i => do t' <- set_out t i v; Ok (t', result)
  end.

(* *p_current = _CFFI_OP(_CFFI_GETOP( *p_current), arg) *)
Definition retarget (t : tok) (pc : pcur) (result : Z) (arg : Z) : res (tok * Z) :=
  do cur <- get_cur t pc result;
  set_cur t pc result (OP (GETOP cur) arg).

Definition is_kw (t : tok) (k : kw) : bool := kind_eqb (t_kind t) (KKw k).
Definition is_ch (t : tok) (c : N) : bool := kind_eqb (t_kind t) (KChar c).

(* ---------------------------------------------------------------- parse_sequel (227) *)

(* header: (239–261).  abi: 0, or the keyword seen *)
Fixpoint header (fuel : nat) (t : tok) (outer : Z) (abi : option kw) : res (tok * Z * option kw) :=
  match fuel with
  | O => parse_error t E_out_of_fuel
  | S f =>
    match t_kind t with
    | KChar c =>
      if N.eqb c c_star then
        do '(t1, idx) <- write_ds t (OP OP_POINTER outer);
        header f (next_token t1) idx abi
      else Ok (t, outer, abi)
    | KKw K_const => header f (next_token t) outer abi
    | KKw K_volatile => header f (next_token t) outer abi
    | KKw K_cdecl => header f (next_token t) outer (Some K_cdecl)
    | KKw K_stdcall => header f (next_token t) outer (Some K_stdcall)
    | _ => Ok (t, outer, abi)
    end
  end.

(* for (arg_next = 0; arg_next <= arg_total; arg_next++) if (write_ds(tok, _CFFI_OP(0, 0)) < 0) return -1; *)
Fixpoint reserve (n : nat) (t : tok) : res tok :=
  match n with
  | O => Ok t
  | S n' => do '(t1, _) <- write_ds t (OP 0 0); reserve n' t1
  end.

(* the length inside [ ] (378–429): returns the length *)
Definition array_length (t : tok) : res Z :=
  match t_kind t with
  | KInteger =>
    let '(v, used) := strtoull0 (tok_text t) in
    if negb (used =? t_size t)%nat then parse_error t E_invalid_number
    else if v >? MAX_SSIZE_T then parse_error t E_number_too_large
    else Ok v
  | KIdent =>
    match search_sorted (map fst (c_globals cx)) (tok_text t) with
    | Some gi =>
      match snd (nth gi (c_globals cx) ([], GOther)) with
      | GInt _ neg value =>
        if (neg =? 0) && (value >? MAX_SSIZE_T) then parse_error t E_const_too_large
        else if (neg =? 0) || (value =? 0) then Ok value
        else if negb (neg =? 1) then parse_error t E_disagreement
        else parse_error t E_posint
      | GOther => parse_error t E_posint
      end
    | None => parse_error t E_posint
    end
  | _ => parse_error t E_posint
  end.

(* while (tok->kind == TOK_OPEN_BRACKET) (368–442) *)
Fixpoint brackets (fuel : nat) (t : tok) (pc : pcur) (result : Z) : res (tok * pcur * Z) :=
  match fuel with
  | O => parse_error t E_out_of_fuel
  | S f =>
    if is_ch t c_lbr then
      let oi := Z.of_nat (List.length (t_out t)) in
      do '(t1, result1) <- retarget t pc result oi;
      let pc1 := POut oi in
      let t2 := next_token t1 in
      do t5 <- (if negb (is_ch t2 c_rbr) then
                  do len <- array_length t2;
                  let t3 := next_token t2 in
                  do '(t4, _) <- write_ds t3 (OP OP_ARRAY 0);
                  do '(t5, _) <- write_ds t4 len;
                  Ok t5
                else
                  do '(t3, _) <- write_ds t2 (OP OP_OPEN_ARRAY 0); Ok t3);
      if negb (is_ch t5 c_rbr) then parse_error t5 E_rbracket
      else brackets f (next_token t5) pc1 result1
    else Ok (t, pc, result)
  end.

(* the keyword/identifier dispatch of parse_complete, after the modifiers (665–801):
   returns t1 and t1complex (0 if none) and the token state *)
Definition base_with_modifiers (t : tok) (mlen msign : Z) : res (tok * Z) :=
  match t_kind t with
  | KKw K_void | KKw K_Bool | KKw K_float | KKw K_struct | KKw K_union | KKw K_enum
  | KKw K_Complex => parse_error t E_combination
  | KKw K_double =>
    if negb (msign =? 0) || negb (mlen =? 1) then parse_error t E_combination
    else Ok (next_token t, OP OP_PRIMITIVE PRIM_LONGDOUBLE)
  | k =>
    do '(t1, mlen1) <-
      match k with
      | KKw K_char => if negb (mlen =? 0) then parse_error t E_combination
                      else Ok (next_token t, -2)
      | KKw K_int => Ok (next_token t, mlen)
      | _ => Ok (t, mlen)
      end;
    let t0 :=
      if msign >=? 0 then
        (if mlen1 =? -2 then PRIM_SCHAR else if mlen1 =? -1 then PRIM_SHORT
         else if mlen1 =? 1 then PRIM_LONG else if mlen1 =? 2 then PRIM_LONGLONG else PRIM_INT)
      else
        (if mlen1 =? -2 then PRIM_UCHAR else if mlen1 =? -1 then PRIM_USHORT
         else if mlen1 =? 1 then PRIM_ULONG else if mlen1 =? 2 then PRIM_ULONGLONG else PRIM_UINT) in
    Ok (t1, OP OP_PRIMITIVE t0)
  end.

(* qualifiers: (612–624) *)
Fixpoint qualifiers (fuel : nat) (t : tok) : res tok :=
  match fuel with
  | O => parse_error t E_out_of_fuel
  | S f =>
    match t_kind t with
    | KKw K_const => qualifiers f (next_token t)
    | KKw K_volatile => qualifiers f (next_token t)
    | _ => Ok t
    end
  end.

(* modifiers: (628–663) *)
Fixpoint modifiers (fuel : nat) (t : tok) (mlen msign : Z) : res (tok * Z * Z) :=
  match fuel with
  | O => parse_error t E_out_of_fuel
  | S f =>
    match t_kind t with
    | KKw K_short =>
      if negb (mlen =? 0) then parse_error t E_short
      else modifiers f (next_token t) (mlen - 1) msign
    | KKw K_long =>
      if mlen <? 0 then parse_error t E_long_short
      else if mlen >=? 2 then parse_error t E_long_long_long
      else modifiers f (next_token t) (mlen + 1) msign
    | KKw K_signed =>
      if negb (msign =? 0) then parse_error t E_multiple_sign
      else modifiers f (next_token t) mlen (msign + 1)
    | KKw K_unsigned =>
      if negb (msign =? 0) then parse_error t E_multiple_sign
      else modifiers f (next_token t) mlen (msign - 1)
    | _ => Ok (t, mlen, msign)
    end
  end.

(* the keyword/identifier dispatch of parse_complete without modifiers (716–799), before the
   common next_token (800): (token state, t1, t1complex).  pf is parse_c_type_from, used for
   the common-type replacement (846) *)
Definition base_plain (pf : str -> list Z -> res (list Z * Z)) (t2 : tok) : res (tok * Z * Z) :=
  match t_kind t2 with
  | KKw K_int => Ok (t2, OP OP_PRIMITIVE PRIM_INT, 0)
  | KKw K_char => Ok (t2, OP OP_PRIMITIVE PRIM_CHAR, 0)
  | KKw K_void => Ok (t2, OP OP_PRIMITIVE PRIM_VOID, 0)
  | KKw K_Bool => Ok (t2, OP OP_PRIMITIVE PRIM_BOOL, 0)
  | KKw K_float => Ok (t2, OP OP_PRIMITIVE PRIM_FLOAT, OP OP_PRIMITIVE PRIM_FLOATCOMPLEX)
  | KKw K_double => Ok (t2, OP OP_PRIMITIVE PRIM_DOUBLE, OP OP_PRIMITIVE PRIM_DOUBLECOMPLEX)
  | KIdent =>
    match search_sorted (c_typenames cx) (tok_text t2) with
    | Some n => Ok (t2, OP OP_TYPENAME (Z.of_nat n), 0)
    | None =>
      match search_standard_typename (tok_text t2) with
      | Some n => Ok (t2, OP OP_PRIMITIVE n, 0)
      | None =>
        match get_common_type (tok_text t2) with
        | Some replacement =>
          (* parse_common_type_replacement (846): a nested parse_c_type_from on the
             replacement text, appending to the same output *)
          match pf replacement (t_out t2) with
          | Ok (out', n) => Ok (with_out t2 out', OP OP_NOOP n, 0)
          | Err _ _ => Err E_internal (t_pos t2)
          | Fault => Fault
          end
        | None => parse_error t2 E_undefined_type
        end
      end
    end
  | KKw K_struct | KKw K_union =>
    let is_union := is_kw t2 K_union in
    let t3 := next_token t2 in
    if negb (kind_eqb (t_kind t3) KIdent) then parse_error t3 E_su_name
    else
      match search_sorted (map fst (c_structs cx)) (tok_text t3) with
      | None =>
        if negb is_union && str_eqb (tok_text t3) (s2l "_IO_FILE")
        then Ok (t3, OP OP_STRUCT_UNION IO_FILE_STRUCT, 0)
        else parse_error t3 E_undefined_su
      | Some n =>
        if xorb (snd (nth n (c_structs cx) ([], false))) is_union
        then parse_error t3 E_wrong_kind
        else Ok (t3, OP OP_STRUCT_UNION (Z.of_nat n), 0)
      end
  | KKw K_enum =>
    let t3 := next_token t2 in
    if negb (kind_eqb (t_kind t3) KIdent) then parse_error t3 E_enum_name
    else
      match search_sorted (c_enums cx) (tok_text t3) with
      | None => parse_error t3 E_undefined_enum
      | Some n => Ok (t3, OP OP_ENUM (Z.of_nat n), 0)
      end
  | _ => parse_error t2 E_identifier
  end.

Definition start_tok (input : str) (out : list Z) : tok :=
  next_token (mkTok input O O KStart out).

Fixpoint parse_sequel (fuel : nat) (t : tok) (outer : Z) {struct fuel} : res (tok * Z) :=
  match fuel with
  | O => parse_error t E_out_of_fuel
  | S f =>
    do '(t1, outer1, abi) <- header f t outer None;
    (* 263–267 *)
    let '(t2, cfg) := match t_kind t1 with
                      | KIdent => (next_token t1, 0)
                      | _ => (t1, 1)
                      end in
    do '(t3, pc, result, abi3) <- parens f t2 PRes 0 abi cfg;
    if match abi3 with Some _ => true | None => false end then parse_error t3 E_lparen
    else
      do '(t4, pc4, result4) <- brackets f t3 pc result;
      (* 444–445 *)
      do '(t5, result5) <- retarget t4 pc4 result4 outer1;
      Ok (t5, GETARG result5)
  end

(* while (tok->kind == TOK_OPEN_PAREN) (272–363) *)
with parens (fuel : nat) (t : tok) (pc : pcur) (result : Z) (abi : option kw) (cfg : Z)
       {struct fuel} : res (tok * pcur * Z * option kw) :=
  match fuel with
  | O => parse_error t E_out_of_fuel
  | S f =>
    if is_ch t c_lpar then
      let t1 := next_token t in
      let '(t2, abi2) := match t_kind t1 with
                         | KKw K_cdecl => (next_token t1, Some K_cdecl)
                         | KKw K_stdcall => (next_token t1, Some K_stdcall)
                         | _ => (t1, abi)
                         end in
      do '(t9, pc9, result9, abi9) <-
        (if (cfg =? 1) && (is_ch t2 c_star || is_kw t2 K_const || is_kw t2 K_volatile
                           || is_ch t2 c_lbr)
         then
           (* just parentheses for grouping (284–294) *)
           let x := Z.of_nat (List.length (t_out t2)) in
           do '(t3, _) <- write_ds t2 (OP OP_NOOP 0);
           do '(t4, x') <- parse_sequel f t3 x;
           Ok (t4, POut x, OP (GETOP 0) x', abi2)
         else
           (* function type (296–357) *)
           let flags := match abi2 with Some K_stdcall => 2 | _ => 0 end in
           let t3 := if is_kw t2 K_void && N.eqb (following_char t2) c_rpar
                     then next_token t2 else t2 in
           let arg_total := S (number_of_commas t3) in
           let oi := Z.of_nat (List.length (t_out t3)) in
           do '(t4, result4) <- retarget t3 pc result oi;
           do '(t5, base_index) <- write_ds t4 (OP OP_FUNCTION 0);
           do t6 <- reserve (S arg_total) t5;
           do '(t7, arg_next, flags7) <-
             (if negb (is_ch t6 c_rpar) then args_loop f t6 (base_index + 1) flags
              else Ok (t6, base_index + 1, flags));
           do t8 <- set_out t7 arg_next (OP OP_FUNCTION_END flags7);
           Ok (t8, POut oi, result4, None));
      if negb (is_ch t9 c_rpar) then parse_error t9 E_rparen
      else parens f (next_token t9) pc9 result9 abi9 (cfg - 1)
    else Ok (t, pc, result, abi)
  end

(* while (1) { ... } (328–355) *)
with args_loop (fuel : nat) (t : tok) (arg_next : Z) (flags : Z) {struct fuel}
       : res (tok * Z * Z) :=
  match fuel with
  | O => parse_error t E_out_of_fuel
  | S f =>
    if kind_eqb (t_kind t) KDots then Ok (next_token t, arg_next, 1)
    else
      match parse_complete f t with
      | Ok (t1, arg) =>
        do o <- get_out t1 arg;
        do oarg <-
          (let op := GETOP o in
           if (op =? OP_ARRAY) || (op =? OP_OPEN_ARRAY) then Ok (OP OP_POINTER (GETARG o))
           else if op =? OP_FUNCTION then Ok (OP OP_POINTER arg)
           else Ok (OP OP_NOOP arg));
        do t2 <- set_out t1 arg_next oarg;
        if negb (is_ch t2 c_comma) then Ok (t2, arg_next + 1, flags)
        else args_loop f (next_token t2) (arg_next + 1) flags
      | Err e p => Err e p          (* if (arg < 0) return -1;  (338) *)
      | Fault => Fault
      end
  end

(* parse_complete (605) *)
with parse_complete (fuel : nat) (t : tok) {struct fuel} : res (tok * Z) :=
  match fuel with
  | O => parse_error t E_out_of_fuel
  | S f =>
    do t1 <- qualifiers f t;
    do '(t2, mlen, msign) <- modifiers f t1 0 0;
    do '(t5, t1op, t1complex) <-
      (if negb (mlen =? 0) || negb (msign =? 0) then
         do '(t3, op) <- base_with_modifiers t2 mlen msign; Ok (t3, op, 0)
       else
         do '(t3, op, cplx) <- base_plain (parse_from f) t2;
         Ok (next_token t3, op, cplx));
    (* 802–808 *)
    do '(t6, t1op6) <-
      (if is_kw t5 K_Complex then
         if t1complex =? 0 then parse_error t5 E_complex
         else Ok (next_token t5, t1complex)
       else Ok (t5, t1op));
    (* return parse_sequel(tok, write_ds(tok, t1)); *)
    do '(t7, idx) <- write_ds t6 t1op6;
    parse_sequel f t7 idx
  end

(* parse_c_type_from (815): result index and the output *)
with parse_from (fuel : nat) (input : str) (out : list Z) {struct fuel} : res (list Z * Z) :=
  match fuel with
  | O => Err E_out_of_fuel O
  | S f =>
    do '(t1, result) <- parse_complete f (start_tok input out);
    if negb (kind_eqb (t_kind t1) KEnd) then parse_error t1 E_unexpected
    else Ok (t_out t1, result)
  end.

(* every call consumes at least one unit of fuel and every loop iteration at least one
   character or one level of nesting: 4 * length + 16 is ample *)
Definition fuel_for (input : str) : nat := 6 * List.length input + 24.

(* parse_c_type (839) *)
Definition parse_c_type (input : str) : res (list Z * Z) :=
  parse_from (fuel_for input) input [].

End Parser.

(* ---------------------------------------------------------------- for the correspondence *)
(* what the harness prints: inl (result, opcodes) | inr (message number, error_location) ;
   Fault and out-of-fuel map to values the harness never prints *)
Definition parse_obs (osz : nat) (cx : ctx) (input : str) : (Z * list Z) + (N * N) :=
  match parse_c_type osz cx input with
  | Ok (out, r) => inl (r, out)
  | Err e p => inr (err_code e, N.of_nat p)
  | Fault => inr (255%N, 0%N)
  end.

(* compact form of the same observation (the harness driver encodes the opcodes the same way):
   (result, number of opcodes, sum of op_i mod 2^64 * 2^(64*(n-1-i))) *)
Definition enc_out (l : list Z) : Z :=
  fold_left (fun acc op => acc * 18446744073709551616 + (op mod 18446744073709551616)) l 0.
Definition parse_obs_enc (osz : nat) (cx : ctx) (input : string) : (Z * Z * Z) + (N * N) :=
  match parse_obs osz cx (s2l input) with
  | inl (r, out) => inl (r, Z.of_nat (List.length out), enc_out out)
  | inr e => inr e
  end.
Definition obs_eqb (a b : (Z * Z * Z) + (N * N)) : bool :=
  match a, b with
  | inl (r, n, e), inl (r', n', e') => Z.eqb r r' && Z.eqb n n' && Z.eqb e e'
  | inr (c, p), inr (c', p') => N.eqb c c' && N.eqb p p'
  | _, _ => false
  end.
Definition o_ok (r n e : Z) : (Z * Z * Z) + (N * N) := inl (r, n, e).
Definition o_err (c p : N) : (Z * Z * Z) + (N * N) := inr (c, p).

(* 61-bit polynomial checksum of the opcode list, used by the correspondence driver to keep the
   case literals small (the driver computes the same function on the harness output; on a
   mismatch the full model output is printed) *)
Definition hash_out (l : list Z) : Z :=
  fold_left (fun acc op => (acc * 1000003 + (op mod 18446744073709551616) + 1) mod 2305843009213693951) l 7.
Definition parse_obs_hash (osz : nat) (cx : ctx) (input : str) : (Z * Z * Z) + (N * N) :=
  match parse_obs osz cx input with
  | inl (r, out) => inl (r, Z.of_nat (List.length out), hash_out out)
  | inr e => inr e
  end.
