(* C07 — the agreement theorem for the sub-grammar: primitive specifiers in any order, qualifiers
   before the specifiers and in the declarator, pointers, nested grouping parentheses, arrays
   with decimal/octal/hexadecimal lengths. *)
From Coq Require Import List Arith NArith ZArith Lia Bool String.
Import ListNotations.
From Cffi Require Import C25.Model C07.Model C07.Realize C07.PyModel C07.Lexer C07.Tokens C07.Tables C07.Specs
     C07.SpecsAgree C07.Parse C07.Sequel C07.Sequel2.

Local Open Scope nat_scope.

Definition stok_of_word (w : word) : stok :=
  match w with WM m => SM m | WB b => SB b | WComplex => SComplex end.
Definition sp_word (w : word) : str :=
  match w with WM m => sp_mod m | WB b => sp_base b | WComplex => s2l "_Complex" end.

Definition spec_toks (q1 : list qual) (ws : list word) : kinds_texts :=
  map (fun q => (qkind q, sp_qual q)) q1 ++ map (fun w => (wkind w, sp_word w)) ws.

(* ---------------------------------------------------------------- tokens are lexemes *)
Lemma ident_lexeme' s k :
  match s with c :: tl => (is_ident_first c && forallb is_ident_next tl)%bool | [] => false end = true ->
  word_kind s = k -> lexeme s k.
Proof.
  destruct s as [|c tl]; [discriminate|]. intros H <-. apply andb_true_iff in H as [A B].
  apply ident_lexeme; assumption.
Qed.

Lemma qual_lexeme q : lexeme (sp_qual q) (qkind q).
Proof. destruct q; apply ident_lexeme'; reflexivity. Qed.

Lemma abi_lexeme a : lexeme (sp_abi a) (hkind (HAbi a)).
Proof. destruct a; apply ident_lexeme'; reflexivity. Qed.

Lemma word_lexeme w : lexeme (sp_word w) (wkind w).
Proof. destruct w as [[]|[]|]; apply ident_lexeme'; reflexivity. Qed.

Lemma lpar_lexeme : lexeme [c_lpar] (KChar c_lpar).
Proof. apply punct_lexeme; reflexivity. Qed.
Lemma rpar_lexeme : lexeme [c_rpar] (KChar c_rpar).
Proof. apply punct_lexeme; reflexivity. Qed.
Lemma lbr_lexeme : lexeme [c_lbr] (KChar c_lbr).
Proof. apply punct_lexeme; reflexivity. Qed.
Lemma rbr_lexeme : lexeme [c_rbr] (KChar c_rbr).
Proof. apply punct_lexeme; reflexivity. Qed.
Lemma star_lexeme : lexeme [c_star] (KChar c_star).
Proof. apply punct_lexeme; reflexivity. Qed.

Definition is_lex (kt : kind * str) : Prop := lexeme (snd kt) (fst kt).

Lemma sdecl_lexemes : forall gl d, sdecl gl d -> Forall is_lex (sdecl_toks d).
Proof.
  intros gl.
  assert (Hh : forall hdr, forallb hitem_plain hdr = true ->
                           Forall is_lex (map (fun h => (hkind h, hitem_token h)) hdr)).
  { induction hdr as [|h hdr IH]; intros H; cbn in *; constructor.
    - apply andb_true_iff in H as [H0 _]. destruct h as [|q|a]; unfold is_lex; cbn.
      + apply star_lexeme. + apply qual_lexeme. + discriminate.
    - apply IH. apply andb_true_iff in H as [_ H]. exact H. }
  assert (Ha : forall arrays, Forall (fun a => alen_val gl a <> None) arrays ->
                              Forall is_lex (List.concat (map alen_toks arrays))).
  { induction arrays as [|a arrays IH]; intros H; cbn; [constructor|].
    inversion H as [|? ? H0 H1]; subst. apply Forall_app. split; [|apply IH; exact H1].
    destruct a as [|t|n]; cbn in *.
    - constructor; [apply lbr_lexeme|]. constructor; [apply rbr_lexeme|]. constructor.
    - destruct (py_int t) as [v|] eqn:E; [|congruence].
      constructor; [apply lbr_lexeme|]. constructor; [eapply py_int_lexeme; exact E|].
      constructor; [apply rbr_lexeme|]. constructor.
    - destruct (ident_okb n) eqn:E; [|congruence].
      constructor; [apply lbr_lexeme|]. constructor; [apply ident_ok_lexeme, ident_okb_ok; exact E|].
      constructor; [apply rbr_lexeme|]. constructor. }
  induction 1 as [hdr arrays H1 H2 | hdr arrays d' H1 H2 Hd IH Hs | hdr d' abi void H1 Hd IH Hs];
    cbn [sdecl_toks map List.concat fs_toks].
  - rewrite !app_nil_l. apply Forall_app. split; auto.
  - rewrite (app_nil_l (List.concat _)). apply Forall_app. split; [auto|]. apply Forall_app. split; [|auto].
    constructor; [apply lpar_lexeme|]. apply Forall_app. split; [exact IH|].
    constructor; [apply rpar_lexeme | constructor].
  - rewrite !app_nil_r. apply Forall_app. split; [auto|]. apply Forall_app. split.
    + destruct abi as [a|].
      * constructor; [apply lpar_lexeme|]. constructor; [exact (abi_lexeme a)|].
        apply Forall_app. split; [exact IH|]. constructor; [apply rpar_lexeme | constructor].
      * constructor; [apply lpar_lexeme|]. apply Forall_app. split; [exact IH|].
        constructor; [apply rpar_lexeme | constructor].
    + constructor; [apply lpar_lexeme|]. destruct void; cbn [app].
      * constructor; [exact (word_lexeme (WB Bvoid))|]. constructor; [apply rpar_lexeme | constructor].
      * constructor; [apply rpar_lexeme | constructor].
Qed.

Lemma sdecl_tokens : forall gl d, sdecl gl d -> decl_tokens d = map snd (sdecl_toks d).
Proof.
  assert (Ha : forall arrays, List.concat (map alen_tokens arrays) = map snd (List.concat (map alen_toks arrays))).
  { induction arrays as [|a arrays IH]; cbn; [reflexivity|]. rewrite map_app, <- IH. destruct a; reflexivity. }
  induction 1 as [hdr arrays H1 H2 | hdr arrays d' H1 H2 Hd IH Hs | hdr d' abi void H1 Hd IH Hs];
    cbn [decl_tokens sdecl_toks].
  - cbn. rewrite !map_app, map_map. cbn. rewrite Ha. reflexivity.
  - rewrite IH, Ha. cbn [map List.concat app].
    do 3 (rewrite ?map_app, ?map_map; cbn [map snd app]). repeat rewrite <- app_assoc. reflexivity.
  - rewrite IH. cbn [map List.concat app fs_toks fs_tokens]. rewrite !app_nil_r.
    destruct abi as [a|];
      do 3 (rewrite ?map_app, ?map_map; cbn [map snd app]); repeat rewrite <- app_assoc;
      destruct void; reflexivity.
Qed.

Lemma spec_tokens : forall q1 ws,
  List.concat (map stok_tokens (map SQ q1 ++ map stok_of_word ws)) = map snd (spec_toks q1 ws).
Proof.
  intros q1 ws. unfold spec_toks. rewrite map_app, concat_app, map_app. f_equal.
  - induction q1; cbn; congruence.
  - induction ws as [|w ws IH]; cbn; [reflexivity|]. rewrite IH. destruct w as [[]|[]|]; reflexivity.
Qed.

Lemma integer_literals : forall text n, py_int text = Some n ->
  lexeme text KInteger /\ strtoull0 text = (n, List.length text).
Proof. intros text n H. split; [eapply py_int_lexeme | apply py_int_strtoull]; exact H. Qed.

(* ---------------------------------------------------------------- the Python side *)
Section Py.
Variable g : genv.
Notation gl := (g_globals g).

Lemma wrap_stars_sem : forall hdr inner,
  denote_py g (wrap_stars hdr inner) = option_map (wrap_ptrs (nstars hdr)) (denote_py g inner).
Proof.
  unfold wrap_stars. induction hdr as [|h hdr IH]; intros inner; cbn [fold_left].
  - cbn. destruct (denote_py g inner); reflexivity.
  - rewrite IH. destruct h.
    + change (nstars (HStar :: hdr)) with (S (nstars hdr)). cbn [denote_py].
      destruct (denote_py g inner); cbn [option_map]; [rewrite wrap_ptrs_S|]; reflexivity.
    + reflexivity.
    + reflexivity.
Qed.

Lemma arrays_sem : forall arrays t1, Forall (fun a => alen_val gl a <> None) arrays ->
  denote_py g (fold_right (fun a acc => PyArr acc a) t1 arrays) =
  option_map (fun m => fold_right (fun a acc => MArr acc (lenval gl a)) m arrays) (denote_py g t1).
Proof.
  induction arrays as [|a arrays IH]; intros t1 H; cbn [fold_right].
  - destruct (denote_py g t1); reflexivity.
  - inversion H as [|? ? H0 H1]; subst. cbn [denote_py]. rewrite IH by exact H1.
    assert (Hd : py_dim g a = Some (lenval gl a)).
    { unfold lenval. destruct a as [|t|n]; cbn [alen_val py_dim] in *; [reflexivity| |].
      - destruct (py_int t); [|congruence]. destruct (_ <=? _)%Z; [reflexivity|congruence].
      - destruct (ident_okb n); [|congruence]. unfold const_len, py_const in *.
        destruct (assoc_str (g_globals g) n) as [[e neg value|]|]; cbn in H0 |- *; try congruence.
        destruct (neg =? 0)%Z; cbn in H0 |- *; [|congruence].
        destruct ((0 <=? value)%Z && (value <=? MAX_SSIZE_T)%Z); cbn in H0 |- *; [reflexivity|congruence]. }
    rewrite Hd. destruct (denote_py g t1); reflexivity.
Qed.

Lemma void_param : denote_base g [SB Bvoid] = Some MVoid.
Proof. reflexivity. Qed.

Lemma py_decl_sdecl : forall d, sdecl gl d -> forall inner,
  denote_py g (py_decl d inner) = option_map (apply_decl gl d) (denote_py g inner).
Proof.
  induction 1 as [hdr arrays H1 H2 | hdr arrays d' H1 H2 Hd IH Hs | hdr d' abi void H1 Hd IH Hs]; intros inner;
    cbn [py_decl apply_decl fold_right].
  - rewrite arrays_sem by exact H2. rewrite wrap_stars_sem. destruct (denote_py g inner); reflexivity.
  - rewrite IH. rewrite arrays_sem by exact H2. rewrite wrap_stars_sem. destruct (denote_py g inner); reflexivity.
  - rewrite IH. cbn [py_fs]. destruct void.
    + cbn [denote_py]. rewrite void_param. cbn [as_func_arg option_map negb andb is_mvoid].
      rewrite wrap_stars_sem. destruct (denote_py g inner); reflexivity.
    + cbn [denote_py andb]. rewrite wrap_stars_sem. destruct (denote_py g inner); reflexivity.
Qed.

Lemma words_of_words : forall ws, words_of (map stok_of_word ws) = Some ws.
Proof. induction ws as [|w ws IH]; cbn; [reflexivity|]. rewrite IH. destruct w; reflexivity. Qed.

Lemma filter_specs : forall q1 ws,
  filter (fun s => negb (is_qual s)) (map SQ q1 ++ map stok_of_word ws) = map stok_of_word ws.
Proof.
  intros. rewrite filter_app.
  replace (filter _ (map SQ q1)) with (@nil stok) by (induction q1; cbn; auto).
  cbn. induction ws as [|w ws IH]; cbn; [reflexivity|]. rewrite IH. destruct w; reflexivity.
Qed.

Lemma denote_base_words : forall ws, ws <> [] ->
  denote_base g (map stok_of_word ws) = option_map prim_mty (py_spec_abs ws).
Proof.
  intros ws Hne. destruct ws as [|w ws]; [congruence|].
  unfold denote_base. pose proof (words_of_words (w :: ws)) as Hw.
  destruct w as [m|b|]; cbn [map stok_of_word] in *; rewrite Hw; reflexivity.
Qed.

End Py.

(* ---------------------------------------------------------------- the C side at the end *)
Section CEnd.
Variable osz : nat.
Variable cx : ctx.
Variable input : str.
Variable toks : kinds_texts.
Hypothesis L : lexed input toks.
Notation T := (T input).
Notation K := (K toks).

(* a left-over specifier keyword stops parse_sequel at once *)
Lemma sequel_stuck f i o outer w : K i = wkind w ->
  parse_sequel osz cx (S (S f)) (T i o) outer = Ok (T i o, outer).
Proof.
  intros Hk. rewrite parse_sequel_S.
  assert (Hh : header osz (S f) (T i o) outer None = Ok (T i o, outer, None)).
  { cbn [header]. rewrite (kind_T _ _ L), Hk. destruct w as [[]|[]|]; reflexivity. }
  rewrite Hh. cbn [bind]. rewrite (kind_T _ _ L), Hk.
  assert (Hni : forall A (x y : A), match wkind w with KIdent => x | _ => y end = y)
    by (intros; destruct w as [[]|[]|]; reflexivity).
  rewrite Hni.
  rewrite parens_stop by (unfold is_ch; rewrite (kind_T _ _ L), Hk; destruct w as [[]|[]|]; reflexivity).
  cbn [bind].
  assert (Hb : brackets osz cx (S f) (T i o) PRes 0%Z = Ok (T i o, PRes, 0%Z)).
  { cbn [brackets]. unfold is_ch. rewrite (kind_T _ _ L), Hk. destruct w as [[]|[]|]; reflexivity. }
  rewrite Hb. cbn [bind retarget get_cur set_cur].
  rewrite GETARG_OP by (cbv; split; [discriminate | reflexivity]). reflexivity.
Qed.

End CEnd.

Lemma spell_length : forall wtoks trailing, Forall (fun wt => snd wt <> []) wtoks ->
  List.length wtoks <= List.length (spell wtoks trailing).
Proof.
  unfold spell. induction wtoks as [|[w s] l IH]; intros tr H; cbn; [lia|].
  inversion H; subst. rewrite <- app_assoc, !app_length. specialize (IH tr H3).
  rewrite app_length in IH. cbn in H2. destruct s; [congruence|]. cbn. lia.
Qed.

Lemma cost_le_ntoks : forall gl d, sdecl gl d -> cost d <= ntoks d /\ nops d <= ntoks d.
Proof.
  assert (Ha : forall arrays, List.length arrays <= List.length (List.concat (map alen_toks arrays)) /\
                              list_sum (map arr_ops arrays) <= List.length (List.concat (map alen_toks arrays))).
  { induction arrays as [|a l [IH1 IH2]]; cbn; [lia|]. rewrite app_length.
    change (fold_right Nat.add 0 (map arr_ops l)) with (list_sum (map arr_ops l)).
    destruct a; cbn; lia. }
  assert (Hs : forall hdr, nstars hdr <= List.length hdr).
  { intros. unfold nstars. induction hdr as [|h hdr IH]; cbn; [lia|]. destruct h; cbn; lia. }
  intros gl. unfold ntoks.
  induction 1 as [hdr arrays H1 H2 | hdr arrays d' H1 H2 Hd [IH1 IH2] Hst | hdr d' abi void H1 Hd [IH1 IH2] Hst];
    cbn [cost nops sdecl_toks map List.concat fs_toks].
  - rewrite !app_nil_l, app_length, map_length. pose proof (Ha arrays). pose proof (Hs hdr).
    cbn [List.length]. lia.
  - rewrite !app_length, map_length. cbn [List.length app].
    pose proof (Ha arrays). pose proof (Hs hdr). unfold kinds_texts, str in *. lia.
  - rewrite !app_length, map_length. cbn [List.length app list_sum map fold_right]. rewrite ?app_length.
    pose proof (Hs hdr). unfold kinds_texts, str in *.
    destruct abi; destruct void; cbn [List.length app]; rewrite ?app_length; cbn [List.length]; lia.
Qed.

Lemma te_tokens_TE specs d : te_tokens (TE specs d) = List.concat (map stok_tokens specs) ++ decl_tokens d.
Proof. reflexivity. Qed.

Lemma lex_nonempty : forall (wtoks : list (str * str)) (toks : kinds_texts),
  Forall is_lex toks -> map snd wtoks = map snd toks -> Forall (fun wt => snd wt <> []) wtoks.
Proof.
  induction wtoks as [|[w s] l IH]; intros [|[k s'] t] Hl E; cbn in *; try discriminate; constructor.
  - inversion E; subst. inversion Hl as [|? ? Hx Hl']; subst. unfold is_lex in Hx. cbn [fst snd] in Hx.
    destruct Hx as [Hn _]. exact Hn.
  - inversion E as [[E1 E2]]. inversion Hl as [|? ? Hx Hl']; subst. apply (IH t Hl' E2).
Qed.

(* the first token of a declarator may follow a base type *)
Lemma sdecl_first_follower gl d k s rest : sdecl gl d -> sdecl_toks d = (k, s) :: rest -> follower k.
Proof.
  intros Hd Ed.
  destruct Hd as [hdr arrays H1 H2|hdr arrays d' H1 H2 Hd' Hs|hdr d' abi void H1 Hd' Hs]; cbn [sdecl_toks] in Ed.
  - rewrite !app_nil_l in Ed. destruct hdr as [|h hdr].
    + destruct arrays as [|a arrays]; [discriminate|]. destruct a; inversion Ed; right; left; eexists; reflexivity.
    + cbn in H1. apply andb_true_iff in H1 as [H1 _]. inversion Ed.
      destruct h as [|[]|]; try discriminate; cbn; unfold follower; eauto.
  - destruct hdr as [|h hdr].
    + inversion Ed. right; left; eexists; reflexivity.
    + cbn in H1. apply andb_true_iff in H1 as [H1 _]. inversion Ed.
      destruct h as [|[]|]; try discriminate; cbn; unfold follower; eauto.
  - destruct hdr as [|h hdr].
    + destruct abi; inversion Ed; right; left; eexists; reflexivity.
    + cbn in H1. apply andb_true_iff in H1 as [H1 _]. inversion Ed.
      destruct h as [|[]|]; try discriminate; cbn; unfold follower; eauto.
Qed.

(* ---------------------------------------------------------------- the theorem *)
Definition simple_te (q1 : list qual) (ws : list word) (d : decl) : tyexpr :=
  TE (map SQ q1 ++ map stok_of_word ws) d.

Theorem agree_partial : forall (g : genv) (osz : nat) q1 ws d wtoks trailing,
  ws <> [] -> sign_ok ws = true -> table_ok (map fst (g_globals g)) -> sdecl (g_globals g) d ->
  map snd wtoks = te_tokens (simple_te q1 ws d) ->
  sep_ok [] wtoks = true -> is_ws trailing = true ->
  S (nops d) <= osz -> cost d < 999 ->
  c_typeof osz g (spell wtoks trailing) = denote g (simple_te q1 ws d).
Proof.
  intros g osz q1 ws d wtoks trailing Hne Hsign Hgl Hd Htok Hsep Htr Hroom Hdepth.
  set (gl := g_globals g) in *.
  set (input := spell wtoks trailing).
  set (toks := spec_toks q1 ws ++ sdecl_toks d).
  assert (Htexts : map snd wtoks = map snd toks).
  { rewrite Htok. unfold simple_te, toks. rewrite te_tokens_TE, (map_app snd), spec_tokens, (sdecl_tokens gl d Hd).
    reflexivity. }
  assert (Hlex : Forall is_lex toks).
  { unfold toks, spec_toks. apply Forall_app. split; [apply Forall_app; split|apply (sdecl_lexemes gl); exact Hd].
    - clear. induction q1 as [|q q1 IH]; cbn [map]; constructor; [apply qual_lexeme | exact IH].
    - clear. induction ws as [|w ws IH]; cbn [map]; constructor; [apply word_lexeme | exact IH]. }
  assert (L : lexed input toks).
  { replace toks with (combine (map fst toks) (map snd wtoks)).
    - apply spell_lexed; [apply sep_ok_seps; exact Hsep | exact Htr |].
      rewrite Htexts in *. clear - Hlex Htexts.
      revert wtoks Htexts. induction Hlex as [|[k s] l Hx Hl IH]; intros [|[w s'] wt] E; cbn in *; try discriminate; constructor.
      + inversion E; subst. exact Hx.
      + apply IH. inversion E; reflexivity.
    - rewrite Htexts. clear. induction toks as [|[k s] l IH]; cbn; congruence. }
  (* the Python side *)
  assert (Hpy : denote_mty g (simple_te q1 ws d) =
                option_map (fun p => apply_decl gl d (prim_mty p)) (py_spec_abs ws)).
  { unfold denote_mty, simple_te. cbn [py_te]. rewrite py_decl_sdecl by exact Hd.
    cbn [denote_py]. rewrite filter_specs, denote_base_words by exact Hne.
    destruct (py_spec_abs ws); reflexivity. }
  pose proof (spec_agree ws Hne Hsign) as Hagree.
  (* the C side *)
  assert (Hntok : List.length wtoks = List.length toks).
  { rewrite <- (map_length snd wtoks), Htexts, map_length. reflexivity. }
  assert (Hlen : List.length toks <= List.length input).
  { rewrite <- Hntok. apply spell_length. apply (lex_nonempty wtoks toks Hlex Htexts). }
  assert (Htl : List.length toks = List.length q1 + List.length ws + ntoks d).
  { unfold toks, spec_toks, ntoks. rewrite !app_length, !map_length. reflexivity. }
  destruct (cost_le_ntoks _ d Hd) as [Hc1 Hc2].
  unfold c_typeof, parse_c_type, fuel_for. fold input.
  set (F := 6 * List.length input + 24).
  destruct F as [|f0] eqn:EF; [lia|].
  rewrite parse_from_S, start_tok_T.
  destruct f0 as [|f1]; [lia|].
  unfold F in EF. clear F.
  assert (Hkat : Kat toks 0 (map qkind q1 ++ map wkind ws)).
  { intros j Hj. unfold Parse.K. cbn [Nat.add]. unfold toks, spec_toks.
    rewrite !map_app, !map_map. cbn [fst].
    rewrite app_nth1 by (rewrite app_length in *; rewrite !map_length in *; lia). reflexivity. }
  assert (Hat : At toks (List.length q1 + List.length ws) (sdecl_toks d)).
  { intros j Hj. unfold toks. rewrite nth_error_app2 by (unfold spec_toks; rewrite app_length, !map_length; lia).
    f_equal. unfold spec_toks. rewrite app_length, !map_length. lia. }
  assert (Hfinal : Parse.K toks (List.length q1 + List.length ws + ntoks d) = KEnd).
  { unfold Parse.K. apply nth_overflow. rewrite map_length. lia. }
  assert (Hfol : follower (Parse.K toks (0 + List.length q1 + List.length ws))).
  { cbn [Nat.add]. destruct (sdecl_toks d) as [|[k s] rest] eqn:Ed.
    - unfold ntoks in Hfinal. rewrite Ed in Hfinal. cbn in Hfinal. rewrite Nat.add_0_r in Hfinal.
      rewrite Hfinal. left. reflexivity.
    - apply (At_cons toks) in Hat as [H0 _]. rewrite (At_K toks _ _ H0). cbn [fst].
      exact (sdecl_first_follower _ _ _ _ _ Hd Ed). }
  pose proof (parse_complete_specs osz (ctx_of g) input toks L q1 ws f1 0 [] Hkat Hne Hfol) as Hspec.
  assert (Hf1 : List.length q1 + List.length ws + 2 < f1) by lia.
  specialize (Hspec Hf1).
  unfold c_spec_abs in Hagree.
  destruct (c_spec_run ws) as [[op n]|].
  2:{ (* rejected inside the specifiers *)
      destruct (parse_complete osz (ctx_of g) (S f1) (T input 0 [])) as [[? ?]| |]; try contradiction.
      cbn [bind]. unfold denote. rewrite Hpy.
      destruct (py_spec_abs ws); [discriminate|]. reflexivity. }
  destruct Hspec as [Hn Hspec]. rewrite Hspec. cbn [Nat.add].
  rewrite (write_ds_ok osz input) by (cbn; lia). cbn [bind app List.length].
  change (Z.of_nat 0) with 0%Z.
  destruct (n =? List.length ws) eqn:En.
  - (* all specifier words used *)
    apply Nat.eqb_eq in En. subst n.
    assert (P1 : final_stop (Parse.K toks (List.length q1 + List.length ws + ntoks d)))
      by (rewrite Hfinal; left; reflexivity).
    assert (P2 : List.length [op] + nops d <= osz) by (cbn [List.length]; lia).
    assert (P3 : ntoks d + 1 < f1) by lia.
    destruct (sequel_run osz (ctx_of g) g input toks L Hgl d Hd f1 (List.length q1 + List.length ws) [op] 0%Z
                Hat P1 P2 P3) as (o' & idx & Hrun & Hlo & Hpre & Hsem).
    rewrite Hrun. cbn [bind]. rewrite (kind_T _ _ L), Hfinal. cbn [kind_eqb negb T_out].
    rewrite T_out.
    destruct (py_spec_abs ws) as [p|] eqn:Ep; cbn [option_map] in Hagree; [|discriminate].
    inversion Hagree as [Hop]. clear Hagree.
    unfold realize, denote. rewrite Hpy. cbn [option_map].
    assert (Hdec : decode g realize_fuel o' idx = Some (apply_decl gl d (prim_mty p))).
    { apply (Hsem o') with (n := 1) (m := prim_mty p).
      - intros j _. reflexivity.
      - change 0%Z with (Z.of_nat 0). apply dec_prim. rewrite Hpre by (cbn; lia). cbn. rewrite Hop. reflexivity.
      - unfold realize_fuel. cbn. lia. }
    rewrite Hdec. reflexivity.
  - (* a specifier keyword is left over: "unexpected symbol" *)
    apply Nat.eqb_neq in En.
    assert (Hk : Parse.K toks (List.length q1 + n) = wkind (nth n ws WComplex)).
    { pose proof (Hkat (List.length q1 + n) ltac:(rewrite app_length, !map_length; lia)) as E0.
      cbn [Nat.add] in E0. rewrite E0.
      rewrite app_nth2 by (rewrite map_length; lia). rewrite map_length.
      replace (List.length q1 + n - List.length q1) with n by lia.
      rewrite (nth_indep _ KEnd (wkind WComplex)) by (rewrite map_length; lia). apply map_nth. }
    destruct f1 as [|[|f2]]; try lia.
    rewrite (sequel_stuck osz (ctx_of g) input toks L f2 _ _ _ _ Hk). cbn [bind].
    rewrite (kind_T _ _ L), Hk.
    replace (negb (kind_eqb (wkind (nth n ws WComplex)) KEnd)) with true by (destruct (nth n ws WComplex) as [[]|[]|]; reflexivity).
    unfold denote. rewrite Hpy. destruct (py_spec_abs ws); [discriminate|]. reflexivity.
Qed.
