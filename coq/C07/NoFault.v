(* C07 — memory safety of the type-string parser model, for ALL strings, contexts and buffer sizes:
   every index used to read or write tok->output is inside [0, output_index) (hence inside the
   buffer), and the scanning primitives stop at the terminator.

   The central invariant is the one the C code relies on when it reserves `number_of_commas + 2`
   slots for the arguments of a function type: while the arguments are parsed,
       arg_next + (commas at nesting level 0 still ahead) + 1  <  output_index
   which holds because parse_complete consumes a piece of text that is balanced in parentheses
   and contains no comma at level 0 ("comma neutral"). *)
From Coq Require Import List Arith NArith ZArith Lia Bool String.
Import ListNotations.
From Cffi Require Import C25.Model C07.Model.

Local Open Scope nat_scope.

(* ---------------------------------------------------------------- characters *)
Definition neutral_char (c : N) : bool :=
  negb (N.eqb c c_comma || N.eqb c c_lpar || N.eqb c c_rpar || N.eqb c 0).
Definition neutral_str (s : str) : bool := forallb neutral_char s.

Lemma ncommas_acc : forall s d acc, ncommas s d acc = acc + ncommas s d 0.
Proof.
  induction s as [|c s IH]; intros d acc; cbn [ncommas]; [lia|].
  destruct (N.eqb c c_comma).
  - destruct d; [rewrite (IH 0 (S acc)), (IH 0 1); lia | apply IH].
  - destruct (N.eqb c c_lpar); [apply IH|].
    destruct (N.eqb c c_rpar); [destruct d; [lia | apply IH]|].
    destruct (N.eqb c 0); [lia | apply IH].
Qed.

Lemma ncommas_neutral : forall a r d acc, neutral_str a = true ->
  ncommas (a ++ r) d acc = ncommas r d acc.
Proof.
  induction a as [|c a IH]; intros r d acc H; [reflexivity|].
  cbn [neutral_str forallb] in H. apply andb_true_iff in H as [Hc Ha].
  unfold neutral_char in Hc. apply negb_true_iff in Hc.
  apply orb_false_iff in Hc as [Hc H0]. apply orb_false_iff in Hc as [Hc H3].
  apply orb_false_iff in Hc as [H1 H2].
  cbn [app ncommas]. rewrite H1, H2, H3, H0. apply IH. exact Ha.
Qed.

Lemma space_neutral c : is_space c = true -> neutral_char c = true.
Proof.
  unfold is_space. intros H.
  repeat (apply orb_true_iff in H as [H|H]); apply N.eqb_eq in H; subst; reflexivity.
Qed.

Lemma ws_neutral w : forallb is_space w = true -> neutral_str w = true.
Proof.
  unfold neutral_str. rewrite !forallb_forall. intros H x Hx. apply space_neutral. apply H. exact Hx.
Qed.

Lemma ident_next_neutral c : is_ident_next c = true -> neutral_char c = true.
Proof.
  unfold is_ident_next, is_ident_first, is_digit, in_range, neutral_char, c_comma, c_lpar, c_rpar. intros H.
  apply negb_true_iff.
  destruct (N.eqb c 44) eqn:E1; [apply N.eqb_eq in E1; subst; discriminate|].
  destruct (N.eqb c 40) eqn:E2; [apply N.eqb_eq in E2; subst; discriminate|].
  destruct (N.eqb c 41) eqn:E3; [apply N.eqb_eq in E3; subst; discriminate|].
  destruct (N.eqb c 0) eqn:E4; [apply N.eqb_eq in E4; subst; discriminate|]. reflexivity.
Qed.

Lemma hex_neutral c : is_hex_digit c = true -> neutral_char c = true.
Proof.
  unfold is_hex_digit, in_range, neutral_char, c_comma, c_lpar, c_rpar. intros H.
  apply negb_true_iff.
  destruct (N.eqb c 44) eqn:E1; [apply N.eqb_eq in E1; subst; discriminate|].
  destruct (N.eqb c 40) eqn:E2; [apply N.eqb_eq in E2; subst; discriminate|].
  destruct (N.eqb c 41) eqn:E3; [apply N.eqb_eq in E3; subst; discriminate|].
  destruct (N.eqb c 0) eqn:E4; [apply N.eqb_eq in E4; subst; discriminate|]. reflexivity.
Qed.

Lemma span_props (f : N -> bool) : forall s,
  span f s <= List.length s /\ forallb f (firstn (span f s) s) = true.
Proof.
  induction s as [|c s [IH1 IH2]]; cbn [span]; [split; [lia | reflexivity]|].
  destruct (f c) eqn:E; cbn [List.length firstn forallb]; [|split; [lia | reflexivity]].
  rewrite E, IH2. split; [lia | reflexivity].
Qed.

Lemma forallb_impl {A} (f g : A -> bool) l : (forall x, f x = true -> g x = true) ->
  forallb f l = true -> forallb g l = true.
Proof. intros H. rewrite !forallb_forall. intros Hf x Hx. apply H, Hf, Hx. Qed.

(* ---------------------------------------------------------------- what lex_from delivers *)
Definition token_ok (kd : kind) (n : nat) (s : str) : Prop :=
  n <= List.length s /\
  match kd with
  | KChar c => n = 1 /\ nth_error s 0 = Some c /\ c <> 0%N
  | KEnd => n = 0 /\ (s = [] \/ exists r, s = 0%N :: r)
  | _ => neutral_str (firstn n s) = true
  end.

Lemma lex_from_props : forall s k n kd, lex_from s = (k, n, kd) ->
  k <= List.length s /\ forallb is_space (firstn k s) = true /\ token_ok kd n (skipn k s) /\ kd <> KStart.
Proof.
  induction s as [|c s IH]; intros k n kd H.
  - cbn in H. inversion H; subst. cbn. repeat split; auto; try lia; discriminate.
  - cbn [lex_from] in H.
    destruct (is_ident_first c) eqn:E1.
    { inversion H; subst; clear H. cbn [skipn firstn forallb List.length].
      destruct (span_props is_ident_next s) as [Hs1 Hs2].
      split; [lia|]. split; [reflexivity|]. split; [|destruct (kw_of _); discriminate].
      split; [cbn [List.length]; lia|].
      assert (Hn : neutral_str (firstn (S (span is_ident_next s)) (c :: s)) = true).
      { cbn [firstn neutral_str forallb]. rewrite ident_next_neutral by (unfold is_ident_next; rewrite E1; reflexivity).
        cbn [andb]. apply (forallb_impl is_ident_next); [apply ident_next_neutral | exact Hs2]. }
      destruct (kw_of _); exact Hn. }
    destruct (is_space c) eqn:E2.
    { destruct (lex_from s) as [[k' n'] kd'] eqn:El. inversion H; subst; clear H.
      destruct (IH _ _ _ eq_refl) as (A & B & C & D0).
      cbn [List.length firstn forallb skipn]. rewrite E2, B.
      split; [lia|]. split; [reflexivity|]. split; [exact C | exact D0]. }
    destruct (is_digit c) eqn:E3.
    { inversion H; subst; clear H. cbn [skipn firstn forallb List.length].
      split; [lia|]. split; [reflexivity|]. split; [|discriminate].
      assert (Hc : neutral_char c = true).
      { apply ident_next_neutral. unfold is_ident_next. rewrite E3. apply orb_true_r. }
      destruct s as [|c1 s2].
      - unfold token_ok. cbn [Nat.add span skipn List.length firstn neutral_str forallb]. rewrite Hc. split; [lia | reflexivity].
      - destruct (N.eqb c1 120 || N.eqb c1 88)%bool eqn:Ex.
        + cbn [skipn]. destruct (span_props is_hex_digit s2) as [Hs1 Hs2].
          split; [cbn [List.length]; lia|].
          cbn [Nat.add firstn neutral_str forallb]. rewrite Hc.
          replace (neutral_char c1) with true
            by (symmetry; apply orb_true_iff in Ex as [Ex|Ex]; apply N.eqb_eq in Ex; subst; reflexivity).
          cbn [andb]. apply (forallb_impl is_hex_digit); [apply hex_neutral | exact Hs2].
        + cbn [skipn]. destruct (span_props is_hex_digit (c1 :: s2)) as [Hs1 Hs2].
          split; [cbn [List.length] in *; lia|].
          cbn [Nat.add firstn neutral_str forallb]. rewrite Hc. cbn [andb].
          apply (forallb_impl is_hex_digit); [apply hex_neutral | exact Hs2]. }
    destruct (N.eqb c c_dot && match s with c1 :: c2 :: _ => N.eqb c1 c_dot && N.eqb c2 c_dot | _ => false end)%bool eqn:E4.
    { inversion H; subst; clear H. cbn [skipn firstn forallb List.length].
      apply andb_true_iff in E4 as [Ea Eb]. destruct s as [|c1 [|c2 s3]]; try discriminate.
      apply andb_true_iff in Eb as [Eb Ec].
      apply N.eqb_eq in Ea, Eb, Ec. subst.
      split; [lia|]. split; [reflexivity|]. split; [|discriminate].
      split; [cbn; lia | reflexivity]. }
    destruct (N.eqb c 0) eqn:E5.
    { inversion H; subst; clear H. apply N.eqb_eq in E5. subst.
      cbn [skipn firstn forallb List.length]. split; [lia|]. split; [reflexivity|]. split; [|discriminate].
      split; [lia|]. split; [reflexivity|]. right. eexists; reflexivity. }
    inversion H; subst; clear H. cbn [skipn firstn forallb List.length].
    split; [lia|]. split; [reflexivity|]. split; [|discriminate].
    split; [cbn; lia|]. split; [reflexivity|]. split; [reflexivity|].
    apply N.eqb_neq. exact E5.
Qed.

(* ---------------------------------------------------------------- parser states *)
Definition wf (t : tok) : Prop := token_ok (t_kind t) (t_size t) (t_rest t) \/ t_kind t = KStart /\ t_size t = 0.

Lemma wf_next t : wf (next_token t).
Proof.
  unfold next_token.
  destruct (lex_from (skipn (t_size t) (t_rest t))) as [[k n] kd] eqn:E.
  destruct (lex_from_props _ _ _ _ E) as (A & B & C & D0). left. exact C.
Qed.

Lemma wf_with_out t o : wf t -> wf (with_out t o).
Proof. intros H. exact H. Qed.

Definition neutral_step (t t' : tok) : Prop :=
  forall d acc, ncommas (t_rest t) d acc = ncommas (t_rest t') d acc.

Lemma neutral_refl t : neutral_step t t.
Proof. intros d acc. reflexivity. Qed.
Lemma neutral_trans a b c : neutral_step a b -> neutral_step b c -> neutral_step a c.
Proof. intros H1 H2 d acc. rewrite H1. apply H2. Qed.

(* skipping the current token *)
Lemma scan_next : forall t, wf t -> forall d acc,
  ncommas (t_rest t) d acc =
  match t_kind t with
  | KChar c =>
    if N.eqb c c_comma then ncommas (t_rest (next_token t)) d (match d with O => S acc | _ => acc end)
    else if N.eqb c c_lpar then ncommas (t_rest (next_token t)) (S d) acc
    else if N.eqb c c_rpar then match d with O => acc | S d' => ncommas (t_rest (next_token t)) d' acc end
    else ncommas (t_rest (next_token t)) d acc
  | KEnd => acc
  | _ => ncommas (t_rest (next_token t)) d acc
  end.
Proof.
  intros t Hwf d acc.
  assert (Hsplit : t_rest t = firstn (t_size t) (t_rest t) ++ skipn (t_size t) (t_rest t))
    by (symmetry; apply firstn_skipn).
  unfold next_token.
  destruct (lex_from (skipn (t_size t) (t_rest t))) as [[k n] kd] eqn:E.
  destruct (lex_from_props _ _ _ _ E) as (A & B & _ & _). cbn [t_rest].
  set (s := skipn (t_size t) (t_rest t)) in *.
  assert (Hs : forall d acc, ncommas s d acc = ncommas (skipn k s) d acc).
  { intros d0 acc0. rewrite <- (firstn_skipn k s) at 1. apply ncommas_neutral, ws_neutral, B. }
  destruct Hwf as [[Hle Hk]|[Hk Hz]].
  2:{ rewrite Hk. rewrite Hsplit, Hz. cbn [firstn app]. fold s. rewrite Hz in *. apply Hs. }
  destruct (t_kind t) as [| | | | |c|kw0] eqn:Ek.
  - rewrite Hsplit. rewrite ncommas_neutral by exact Hk. apply Hs.
  - destruct Hk as [Hz [Hr|[r Hr]]]; rewrite Hr; reflexivity.
  - rewrite Hsplit. rewrite ncommas_neutral by exact Hk. apply Hs.
  - rewrite Hsplit. rewrite ncommas_neutral by exact Hk. apply Hs.
  - rewrite Hsplit. rewrite ncommas_neutral by exact Hk. apply Hs.
  - destruct Hk as (H1 & Hc & Hnz).
    destruct (t_rest t) as [|c0 r] eqn:Er; [discriminate|]. cbn in Hc. inversion Hc; subst c0.
    assert (Es : s = r) by (unfold s; rewrite H1; reflexivity).
    rewrite Es in *. clear Es. cbn [ncommas].
    destruct (N.eqb c c_comma); [apply Hs|].
    destruct (N.eqb c c_lpar); [apply Hs|].
    destruct (N.eqb c c_rpar); [destruct d; [reflexivity | apply Hs]|].
    replace (N.eqb c 0) with false by (symmetry; apply N.eqb_neq; exact Hnz). apply Hs.
  - rewrite Hsplit. rewrite ncommas_neutral by exact Hk. apply Hs.
Qed.

(* skipping a token that is not a comma or a parenthesis is neutral *)
Lemma next_neutral t : wf t ->
  (forall c, t_kind t = KChar c -> c <> c_comma /\ c <> c_lpar /\ c <> c_rpar) -> t_kind t <> KEnd ->
  neutral_step t (next_token t).
Proof.
  intros Hwf Hc He d acc. rewrite (scan_next t Hwf).
  destruct (t_kind t) as [| | | | |c|kw0] eqn:Ek; try reflexivity; [congruence|].
  destruct (Hc c eq_refl) as (A & B & C).
  apply N.eqb_neq in A, B, C. rewrite A, B, C. reflexivity.
Qed.

(* ---------------------------------------------------------------- the terminator *)
(* The three scanning primitives read the text from tok->p on.  Their result does not depend on
   what is stored after the terminating NUL, and the token window they deliver lies before it. *)
Definition nulfree (s : str) : bool := forallb (fun c => negb (N.eqb c 0)) s.

Lemma span_stop (f : N -> bool) : f 0%N = false -> forall a junk,
  span f (a ++ 0%N :: junk) = span f a.
Proof.
  intros H0. induction a as [|c a IH]; intros junk; cbn [app span]; [rewrite H0; reflexivity|].
  destruct (f c); [rewrite IH|]; reflexivity.
Qed.

Lemma firstn_app_le {A} n (a b : list A) : n <= List.length a -> firstn n (a ++ b) = firstn n a.
Proof. intros H. rewrite firstn_app. replace (n - List.length a) with 0 by lia. cbn. apply app_nil_r. Qed.

Theorem lex_from_terminator : forall s junk, nulfree s = true ->
  lex_from (s ++ 0%N :: junk) = lex_from s.
Proof.
  induction s as [|c s IH]; intros junk Hn; [reflexivity|].
  cbn [nulfree forallb] in Hn. apply andb_true_iff in Hn as [Hc Hs]. apply negb_true_iff in Hc.
  cbn [app lex_from].
  destruct (is_ident_first c).
  { rewrite (span_stop is_ident_next eq_refl).
    change (c :: s ++ 0%N :: junk) with ((c :: s) ++ 0%N :: junk).
    rewrite firstn_app_le; [reflexivity|]. cbn [List.length]. pose proof (span_props is_ident_next s). lia. }
  destruct (is_space c); [rewrite (IH junk Hs); reflexivity|].
  destruct (is_digit c).
  { destruct s as [|c1 s2]; [reflexivity|]. cbn [app].
    destruct (N.eqb c1 120 || N.eqb c1 88)%bool; cbn [skipn].
    - rewrite (span_stop is_hex_digit eq_refl). reflexivity.
    - change (c1 :: s2 ++ 0%N :: junk) with ((c1 :: s2) ++ 0%N :: junk).
      rewrite (span_stop is_hex_digit eq_refl). reflexivity. }
  assert (Hd : match s ++ 0%N :: junk with
               | c1 :: c2 :: _ => N.eqb c1 c_dot && N.eqb c2 c_dot
               | _ => false
               end = match s with c1 :: c2 :: _ => N.eqb c1 c_dot && N.eqb c2 c_dot | _ => false end).
  { destruct s as [|c1 [|c2 s3]]; cbn [app]; [destruct junk; reflexivity | apply andb_false_r | reflexivity]. }
  rewrite Hd. destruct (N.eqb c c_dot && _)%bool; [reflexivity|]. rewrite Hc. reflexivity.
Qed.

Theorem first_nonspace_terminator : forall s junk,
  first_nonspace (s ++ 0%N :: junk) = first_nonspace s.
Proof.
  induction s as [|c s IH]; intros junk; [reflexivity|]. cbn [app first_nonspace].
  destruct (is_space c); [apply IH | reflexivity].
Qed.

Theorem ncommas_terminator : forall s junk d acc,
  ncommas (s ++ 0%N :: junk) d acc = ncommas s d acc.
Proof.
  induction s as [|c s IH]; intros junk d acc; [reflexivity|]. cbn [app ncommas].
  destruct (N.eqb c c_comma); [apply IH|].
  destruct (N.eqb c c_lpar); [apply IH|].
  destruct (N.eqb c c_rpar); [destruct d; [reflexivity | apply IH]|].
  destruct (N.eqb c 0); [reflexivity | apply IH].
Qed.

(* the token window [skipped, skipped + size) stays inside the text *)
Theorem lex_window : forall s k n kd, lex_from s = (k, n, kd) -> k + n <= List.length s.
Proof.
  intros s k n kd H. destruct (lex_from_props _ _ _ _ H) as (A & _ & [B _] & _).
  rewrite skipn_length in B. lia.
Qed.
