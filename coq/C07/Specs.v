(* C07 — type specifiers: what parse_complete makes of a specifier list (c_spec_abs, shown to be
   what the model computes), what cparser makes of it (normalise + table), and their agreement
   for every list of specifier keywords in which `signed` is not discarded by the Python side. *)
From Coq Require Import List Arith NArith ZArith Lia Bool String.
Import ListNotations.
From Cffi Require Import C25.Model C07.Model C07.Realize C07.PyModel C07.Lexer C07.Tokens.

Local Open Scope Z_scope.

Definition kw_of_mod (m : modifier) : kw :=
  match m with Msigned => K_signed | Munsigned => K_unsigned | Mshort => K_short | Mlong => K_long end.
Definition kw_of_base (b : basekw) : kw :=
  match b with Bint => K_int | Bchar => K_char | Bvoid => K_void | Bbool => K_Bool | Bfloat => K_float
             | Bdouble => K_double end.
Definition kw_of_word (w : word) : kw :=
  match w with WM m => kw_of_mod m | WB b => kw_of_base b | WComplex => K_Complex end.
Definition wkind (w : word) : kind := KKw (kw_of_word w).
Definition qkind (q : qual) : kind := KKw (match q with Qconst => K_const | Qvolatile => K_volatile end).

(* ---------------------------------------------------------------- abstract C specifier parser *)
(* modifiers: loop (628): number of words consumed, modifiers_length, modifiers_sign; None = error *)
Fixpoint c_mods (ws : list word) (mlen msign : Z) : option (nat * Z * Z) :=
  match ws with
  | WM Mshort :: r =>
    if negb (mlen =? 0) then None
    else match c_mods r (mlen - 1) msign with Some (n, a, b) => Some (S n, a, b) | None => None end
  | WM Mlong :: r =>
    if mlen <? 0 then None else if mlen >=? 2 then None
    else match c_mods r (mlen + 1) msign with Some (n, a, b) => Some (S n, a, b) | None => None end
  | WM Msigned :: r =>
    if negb (msign =? 0) then None
    else match c_mods r mlen (msign + 1) with Some (n, a, b) => Some (S n, a, b) | None => None end
  | WM Munsigned :: r =>
    if negb (msign =? 0) then None
    else match c_mods r mlen (msign - 1) with Some (n, a, b) => Some (S n, a, b) | None => None end
  | _ => Some (O, mlen, msign)
  end.

Definition prim_by (mlen msign : Z) : Z :=
  if msign >=? 0 then
    (if mlen =? -2 then PRIM_SCHAR else if mlen =? -1 then PRIM_SHORT
     else if mlen =? 1 then PRIM_LONG else if mlen =? 2 then PRIM_LONGLONG else PRIM_INT)
  else
    (if mlen =? -2 then PRIM_UCHAR else if mlen =? -1 then PRIM_USHORT
     else if mlen =? 1 then PRIM_ULONG else if mlen =? 2 then PRIM_ULONGLONG else PRIM_UINT).

(* (t1, t1complex, words consumed) after the modifiers *)
Definition c_base (rest : list word) (mlen msign : Z) : option (Z * Z * nat) :=
  if negb (mlen =? 0) || negb (msign =? 0) then
    match rest with
    | WB Bvoid :: _ | WB Bbool :: _ | WB Bfloat :: _ | WComplex :: _ => None
    | WB Bdouble :: _ =>
      if negb (msign =? 0) || negb (mlen =? 1) then None
      else Some (OP OP_PRIMITIVE PRIM_LONGDOUBLE, 0, 1%nat)
    | WB Bchar :: _ => if negb (mlen =? 0) then None else Some (OP OP_PRIMITIVE (prim_by (-2) msign), 0, 1%nat)
    | WB Bint :: _ => Some (OP OP_PRIMITIVE (prim_by mlen msign), 0, 1%nat)
    | _ => Some (OP OP_PRIMITIVE (prim_by mlen msign), 0, O)
    end
  else
    match rest with
    | WB Bint :: _ => Some (OP OP_PRIMITIVE PRIM_INT, 0, 1%nat)
    | WB Bchar :: _ => Some (OP OP_PRIMITIVE PRIM_CHAR, 0, 1%nat)
    | WB Bvoid :: _ => Some (OP OP_PRIMITIVE PRIM_VOID, 0, 1%nat)
    | WB Bbool :: _ => Some (OP OP_PRIMITIVE PRIM_BOOL, 0, 1%nat)
    | WB Bfloat :: _ => Some (OP OP_PRIMITIVE PRIM_FLOAT, OP OP_PRIMITIVE PRIM_FLOATCOMPLEX, 1%nat)
    | WB Bdouble :: _ => Some (OP OP_PRIMITIVE PRIM_DOUBLE, OP OP_PRIMITIVE PRIM_DOUBLECOMPLEX, 1%nat)
    | _ => None
    end.

(* the opcode written for the specifier words, and how many words were used; None = error *)
Definition c_spec_run (ws : list word) : option (Z * nat) :=
  match c_mods ws 0 0 with
  | None => None
  | Some (n, mlen, msign) =>
    match c_base (skipn n ws) mlen msign with
    | None => None
    | Some (op, cplx, n2) =>
      match skipn (n + n2) ws with
      | WComplex :: _ => if cplx =? 0 then None else Some (cplx, S (n + n2))
      | _ => Some (op, (n + n2)%nat)
      end
    end
  end.

(* all words must be used: a left-over keyword is "unexpected symbol" / "expected ')'" *)
Definition c_spec_abs (ws : list word) : option Z :=
  match c_spec_run ws with
  | Some (op, n) => if (n =? List.length ws)%nat then Some op else None
  | None => None
  end.

Definition py_spec_abs (ws : list word) : option Z :=
  assoc_words py_prims (normalise ws).

(* ---------------------------------------------------------------- agreement *)
Definition is_signed (w : word) : bool := match w with WM Msigned => true | _ => false end.
Definition is_nonint (w : word) : bool :=
  match w with
  | WM Munsigned | WB Bfloat | WB Bdouble | WB Bvoid | WB Bbool | WComplex => true
  | _ => false
  end.
(* `signed` is not silently dropped: at most one, and then no unsigned / non-integer keyword *)
Definition sign_ok (ws : list word) : bool :=
  match List.length (filter is_signed ws) with
  | O => true
  | 1%nat => negb (existsb is_nonint ws)
  | _ => false
  end.

Definition all_words : list word :=
  [WM Msigned; WM Munsigned; WM Mshort; WM Mlong; WB Bint; WB Bchar; WB Bvoid; WB Bbool; WB Bfloat;
   WB Bdouble; WComplex].

Fixpoint lists_upto (n : nat) : list (list word) :=
  match n with
  | O => [[]]
  | S n' => [] :: flat_map (fun l => map (fun w => w :: l) all_words) (lists_upto n')
  end.

Definition agree_on (ws : list word) : bool :=
  match ws with
  | [] => true
  | _ => negb (sign_ok ws) ||
         match c_spec_abs ws, py_spec_abs ws with
         | Some a, Some b => OP OP_PRIMITIVE b =? a
         | None, None => true
         | _, _ => false
         end
  end.

Lemma all_words_complete : forall w, In w all_words.
Proof. intros [[]|[]|]; cbn; tauto. Qed.

Lemma lists_upto_complete : forall n ws, (List.length ws <= n)%nat -> In ws (lists_upto n).
Proof.
  induction n; intros ws H.
  - destruct ws; [left; reflexivity | cbn in H; lia].
  - destruct ws as [|w ws]; [left; reflexivity|]. right.
    apply in_flat_map. exists ws. split; [apply IHn; cbn in H; lia|].
    apply in_map_iff. exists w. split; [reflexivity | apply all_words_complete].
Qed.

(* --- long lists are rejected by both *)
Lemma c_mods_count : forall ws mlen msign n a b,
  c_mods ws mlen msign = Some (n, a, b) ->
  Z.of_nat n + Z.abs mlen + Z.abs msign = Z.abs a + Z.abs b /\ Z.abs a <= 2 /\ Z.abs b <= 1 \/
  ~ (Z.abs mlen <= 2 /\ Z.abs msign <= 1).
Proof.
  induction ws as [|w ws IH]; intros mlen msign n a b H.
  - cbn in H. inversion H; subst. destruct (Z_le_dec (Z.abs a) 2), (Z_le_dec (Z.abs b) 1); [left|right|right|right]; lia.
  - destruct w as [[]| |]; cbn in H;
      try (inversion H; subst; destruct (Z_le_dec (Z.abs a) 2), (Z_le_dec (Z.abs b) 1); [left|right|right|right]; lia).
    + destruct (msign =? 0) eqn:E; [|discriminate]. cbn in H. apply Z.eqb_eq in E. subst.
      destruct (c_mods ws mlen (0 + 1)) as [[[n' a'] b']|] eqn:E2; [|discriminate]. inversion H; subst.
      destruct (IH _ _ _ _ _ E2) as [[A [B C]]|A]; [left|right]; lia.
    + destruct (msign =? 0) eqn:E; [|discriminate]. cbn in H. apply Z.eqb_eq in E. subst.
      destruct (c_mods ws mlen (0 - 1)) as [[[n' a'] b']|] eqn:E2; [|discriminate]. inversion H; subst.
      destruct (IH _ _ _ _ _ E2) as [[A [B C]]|A]; [left|right]; lia.
    + destruct (mlen =? 0) eqn:E; [|discriminate]. cbn in H. apply Z.eqb_eq in E. subst.
      destruct (c_mods ws (0 - 1) msign) as [[[n' a'] b']|] eqn:E2; [|discriminate]. inversion H; subst.
      destruct (IH _ _ _ _ _ E2) as [[A [B C]]|A]; [left|right]; lia.
    + destruct (mlen <? 0) eqn:E; [discriminate|]. destruct (mlen >=? 2) eqn:E1; [discriminate|].
      apply Z.ltb_ge in E. rewrite Z.geb_leb in E1. apply Z.leb_gt in E1.
      destruct (c_mods ws (mlen + 1) msign) as [[[n' a'] b']|] eqn:E2; [|discriminate]. inversion H; subst.
      destruct (IH _ _ _ _ _ E2) as [[A [B C]]|A]; [left|right]; lia.
Qed.

Lemma c_spec_abs_short : forall ws op, c_spec_abs ws = Some op -> (List.length ws <= 5)%nat.
Proof.
  intros ws op H. unfold c_spec_abs in H.
  destruct (c_spec_run ws) as [[op' n]|] eqn:E; [|discriminate].
  destruct (n =? List.length ws)%nat eqn:En; [|discriminate]. apply Nat.eqb_eq in En.
  unfold c_spec_run in E.
  destruct (c_mods ws 0 0) as [[[n1 a] b]|] eqn:Em; [|discriminate].
  destruct (c_mods_count _ _ _ _ _ _ Em) as [[A [B C]]|A]; [|cbn in A; lia].
  cbn in A.
  destruct (c_base (skipn n1 ws) a b) as [[[o c] n2]|] eqn:Eb; [|discriminate].
  assert (n2 <= 1)%nat.
  { unfold c_base in Eb.
    destruct (negb (a =? 0) || negb (b =? 0)); destruct (skipn n1 ws) as [|[[]|[]|] r];
      try discriminate; try (inversion Eb; lia);
      repeat match type of Eb with (if ?c then _ else _) = _ => destruct c end;
      try discriminate; inversion Eb; lia. }
  destruct (skipn (n1 + n2) ws) as [|[| |] r]; try (inversion E; subst; lia).
  destruct (c =? 0); [discriminate|]. inversion E; subst. lia.
Qed.

Lemma assoc_words_in : forall tbl k v, assoc_words tbl k = Some v -> exists k', In (k', v) tbl /\ words_eqb k' k = true.
Proof.
  induction tbl as [|[k' v'] tbl IH]; intros k v H; cbn in H; [discriminate|].
  destruct (words_eqb k' k) eqn:E.
  - inversion H; subst. exists k'. split; [left; reflexivity | exact E].
  - destruct (IH _ _ H) as [k'' [A B]]. exists k''. split; [right; exact A | exact B].
Qed.

Lemma words_eqb_length : forall a b, words_eqb a b = true -> List.length a = List.length b.
Proof.
  induction a as [|x a IH]; intros [|y b] H; cbn in *; try discriminate; [reflexivity|].
  apply andb_true_iff in H as [_ H]. f_equal. apply IH; exact H.
Qed.

Lemma py_prims_short : forall k v, assoc_words py_prims k = Some v -> (List.length k <= 3)%nat.
Proof.
  intros k v H. destruct (assoc_words_in _ _ _ H) as [k' [Hin He]].
  rewrite <- (words_eqb_length _ _ He).
  cbn in Hin. repeat (destruct Hin as [Hin|Hin]; [inversion Hin; subst; cbn; lia|]). contradiction.
Qed.

Lemma strip_prefixes_count : forall names cs cl csg cu rest cs' cl' csg' cu',
  strip_prefixes names cs cl csg cu = (rest, (cs', cl', csg', cu')) ->
  (List.length rest <= List.length names)%nat /\
  (List.length rest + cs' + cl' + csg' + cu' = List.length names + cs + cl + csg + cu)%nat /\
  (csg' = csg + List.length (filter is_signed (firstn (List.length names - List.length rest) names)))%nat.
Proof.
  induction names as [|w names IH]; intros cs cl csg cu rest cs' cl' csg' cu' H.
  - cbn in H. inversion H; subst. cbn. repeat split; lia.
  - destruct w as [[]| |]; cbn [strip_prefixes] in H;
      try (inversion H; subst; cbn [List.length]; rewrite Nat.sub_diag; cbn; repeat split; lia).
    all: destruct (IH _ _ _ _ _ _ _ _ _ H) as (Hle & A & B);
      cbn [List.length];
      replace (S (List.length names) - List.length rest)%nat with (S (List.length names - List.length rest)) by lia;
      cbn [firstn filter is_signed List.length]; repeat split; lia.
Qed.

Lemma filter_firstn_le {A} (f : A -> bool) : forall n l,
  (List.length (filter f (firstn n l)) <= List.length (filter f l))%nat.
Proof.
  induction n; intros [|x l]; cbn; try lia.
  specialize (IHn l). destruct (f x); cbn; lia.
Qed.

Lemma normalise_length : forall ws,
  (List.length ws <= List.length (normalise ws) + List.length (filter is_signed ws) + 1)%nat.
Proof.
  intros ws. unfold normalise.
  destruct (words_eqb ws [WM Msigned; WB Bchar]); [lia|].
  destruct (strip_prefixes ws 0 0 0 0) as [rest [[[cs cl] csg] cu]] eqn:E.
  destruct (strip_prefixes_count _ _ _ _ _ _ _ _ _ _ E) as (Hle & A & B).
  pose proof (filter_firstn_le is_signed (List.length ws - List.length rest) ws) as F.
  rewrite !app_length, !repeat_length.
  destruct rest as [|r0 rest'].
  - cbn [words_eqb word_eqb basekw_eqb andb]. cbn [List.length] in *.
    destruct (negb (cs =? 0)%nat || negb (cl =? 0)%nat); cbn [List.length]; lia.
  - destruct (words_eqb (r0 :: rest') [WB Bint] && (negb (cs =? 0)%nat || negb (cl =? 0)%nat)) eqn:E2.
    + apply andb_true_iff in E2 as [E2 _]. apply words_eqb_length in E2. cbn [List.length] in *. lia.
    + cbn [List.length] in *. lia.
Qed.

Lemma sign_ok_count : forall ws, sign_ok ws = true -> (List.length (filter is_signed ws) <= 1)%nat.
Proof.
  intros ws H. unfold sign_ok in H.
  destruct (List.length (filter is_signed ws)) as [|[|n]]; try lia; try discriminate.
Qed.

