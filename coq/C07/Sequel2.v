(* C07 — parse_sequel on simple declarators: result state and meaning of the opcodes written. *)
From Coq Require Import List Arith NArith ZArith Lia Bool String.
Import ListNotations.
From Cffi Require Import C25.Model C07.Model C07.Realize C07.PyModel C07.Lexer C07.Tokens C07.Tables C07.Specs C07.Parse
     C07.Sequel C07.NoFault.

Local Open Scope nat_scope.

Fixpoint cost (d : decl) : nat :=
  match d with
  | D hdr _ group _ arrays =>
    nstars hdr + List.length arrays + match group with Some (_, d') => S (cost d') | None => 0 end
    + match d with D _ _ _ funcs _ => List.length funcs end
  end.

Definition ntoks (d : decl) : nat := List.length (sdecl_toks d).

(* ---------------------------------------------------------------- the two look-aheads of a parameter list *)
Lemma space_not_ident c : is_space c = true -> is_ident_first c = false.
Proof.
  unfold is_space. intros H.
  repeat (apply orb_true_iff in H; destruct H as [H|H]); apply N.eqb_eq in H; subst; reflexivity.
Qed.

(* get_following_char sees ')' exactly when the next token is ')' *)
Lemma first_nonspace_lex : forall s k n kd, lex_from s = (k, n, kd) ->
  N.eqb (first_nonspace s) c_rpar = kind_eqb kd (KChar c_rpar).
Proof.
  induction s as [|c s IH]; intros k n kd H.
  - cbn in H. inversion H; subst. reflexivity.
  - cbn [lex_from] in H. cbn [first_nonspace].
    destruct (is_ident_first c) eqn:E1.
    + assert (Hs : is_space c = false).
      { destruct (is_space c) eqn:E; [|reflexivity]. apply space_not_ident in E. congruence. }
      rewrite Hs. inversion H; subst.
      assert (Hc : N.eqb c c_rpar = false).
      { destruct (N.eqb c c_rpar) eqn:E; [|reflexivity]. apply N.eqb_eq in E. subst. discriminate. }
      rewrite Hc. destruct (kw_of _); reflexivity.
    + destruct (is_space c) eqn:E2.
      * destruct (lex_from s) as [[k0 n0] kd0] eqn:E. inversion H; subst. apply (IH k0 n kd). reflexivity.
      * destruct (is_digit c) eqn:E3.
        { inversion H; subst.
          destruct (N.eqb c c_rpar) eqn:E; [|reflexivity]. apply N.eqb_eq in E. subst. discriminate. }
        match type of H with (if ?b then _ else _) = _ => destruct b eqn:E4 end.
        { inversion H; subst. apply andb_true_iff in E4 as [E4 _]. apply N.eqb_eq in E4. subst. reflexivity. }
        destruct (N.eqb c 0) eqn:E5.
        { inversion H; subst. apply N.eqb_eq in E5. subst. reflexivity. }
        inversion H; subst. reflexivity.
Qed.

Lemma following_rpar t :
  N.eqb (following_char t) c_rpar = kind_eqb (t_kind (next_token t)) (KChar c_rpar).
Proof.
  unfold following_char, next_token.
  destruct (lex_from (skipn (t_size t) (t_rest t))) as [[k n] kd] eqn:E. cbn [t_kind].
  exact (first_nonspace_lex _ _ _ _ E).
Qed.

(* number_of_commas at a ')' *)
Lemma commas_at_rpar t : wf t -> t_kind t = KChar c_rpar -> number_of_commas t = 0.
Proof.
  intros Hwf Hk. unfold number_of_commas. rewrite (scan_next t Hwf), Hk. reflexivity.
Qed.

Lemma wf_T input i o : wf (T input i o).
Proof. unfold T. apply wf_with_out. unfold st. cbn [Nat.iter]. apply wf_next. Qed.

Section Sem.
Variable g : genv.
Variable gl : list (str * gkind).

(* the hole *p_current: whatever index it is finally pointed to, the entry point decodes to W of it *)
Definition HoleSem (lo : nat) (o : list Z) (pc : pcur) (result : Z) (W : mty -> mty) (c : nat) : Prop :=
  forall target out'',
    agree out'' (fst (retarget_pure o pc result target)) lo (List.length o) ->
    forall m n, decodes g n out'' target m ->
                decodes g (n + c) out'' (GETARG (snd (retarget_pure o pc result target))) (W m).

Lemma HoleSem_init lo o : HoleSem lo o PRes 0%Z (fun m => m) 0.
Proof.
  intros target out'' _ m n H. cbn [retarget_pure snd].
  rewrite GETARG_OP by (cbv; split; [discriminate | reflexivity]).
  rewrite Nat.add_0_r. exact H.
Qed.

Lemma HoleSem_array lo o pc result W c a :
  HoleSem lo o pc result W c -> pc_ok o pc -> lo <= List.length o ->
  let oi := Z.of_nat (List.length o) in
  let o1 := fst (retarget_pure o pc result oi) in
  let r1 := snd (retarget_pure o pc result oi) in
  let o2 := o1 ++ match lenval gl a with Some n => [OP OP_ARRAY 0; n] | None => [OP OP_OPEN_ARRAY 0] end in
  HoleSem lo o2 (POut oi) r1 (fun m => W (MArr m (lenval gl a))) (S c).
Proof.
  intros HS Hpc Hlo oi o1 r1 o2 target out'' Hag m n Hm.
  assert (Hl1 : List.length o1 = List.length o) by apply retarget_pure_length.
  cbn [retarget_pure fst snd] in *. unfold oi in *. rewrite Nat2Z.id in *.
  assert (Hl2 : List.length o < List.length o2).
  { unfold o2. rewrite app_length, Hl1. destruct (lenval gl a); cbn; lia. }
  (* the new array entry *)
  assert (Hnew : decodes g (S n) out'' (Z.of_nat (List.length o)) (MArr m (lenval gl a))).
  { pose proof (Hag (List.length o) ltac:(lia)) as H0. rewrite set_nth_same in H0 by exact Hl2.
    assert (Hnth : nth (List.length o) o2 0%Z =
                   match lenval gl a with Some _ => OP OP_ARRAY 0 | None => OP OP_OPEN_ARRAY 0 end).
    { unfold o2. rewrite app_nth2 by lia. rewrite Hl1, Nat.sub_diag. destruct (lenval gl a); reflexivity. }
    rewrite Hnth in H0.
    destruct (lenval gl a) as [len|] eqn:El.
    - rewrite GETOP_OP in H0 by (cbv; split; [discriminate | reflexivity]).
      eapply dec_arr; [exact H0| |exact Hm].
      rewrite (Hag (S (List.length o))).
      + rewrite set_nth_other by lia. unfold o2. rewrite nth_error_app2 by lia.
        rewrite Hl1. replace (S (List.length o) - List.length o) with 1 by lia. reflexivity.
      + unfold o2. rewrite app_length, Hl1. cbn. lia.
    - rewrite GETOP_OP in H0 by (cbv; split; [discriminate | reflexivity]).
      eapply dec_open; [exact H0 | exact Hm]. }
  specialize (HS (Z.of_nat (List.length o)) out'').
  replace (S n + c) with (S n + c) in * by lia.
  replace (n + S c) with (S n + c) by lia.
  apply HS; [|exact Hnew].
  intros j Hj. rewrite (Hag j) by lia.
  rewrite set_nth_other by lia. unfold o2. apply nth_error_app1. fold o1. lia.
Qed.

(* the same for a function suffix without parameters *)
Lemma HoleSem_func0 lo o pc result W c flags :
  HoleSem lo o pc result W c -> pc_ok o pc -> lo <= List.length o -> (flags = 0 \/ flags = 2)%Z ->
  let oi := Z.of_nat (List.length o) in
  let o1 := fst (retarget_pure o pc result oi) in
  let r1 := snd (retarget_pure o pc result oi) in
  let o2 := o1 ++ [OP OP_FUNCTION 0; OP OP_FUNCTION_END flags; OP 0 0] in
  HoleSem lo o2 (POut oi) r1 (fun m => W (MFun m [] false)) (S c).
Proof.
  intros HS Hpc Hlo Hfl oi o1 r1 o2 target out'' Hag m n Hm.
  assert (Hl1 : List.length o1 = List.length o) by apply retarget_pure_length.
  cbn [retarget_pure fst snd] in *. unfold oi in *. rewrite Nat2Z.id in *.
  assert (Hl2 : List.length o2 = List.length o + 3).
  { unfold o2. rewrite app_length, Hl1. reflexivity. }
  assert (Hnew : decodes g (S n) out'' (Z.of_nat (List.length o)) (MFun m [] false)).
  { pose proof (Hag (List.length o) ltac:(lia)) as H0. rewrite set_nth_same in H0 by lia.
    assert (Hnth : nth (List.length o) o2 0%Z = OP OP_FUNCTION 0).
    { unfold o2. rewrite app_nth2 by lia. rewrite Hl1, Nat.sub_diag. reflexivity. }
    rewrite Hnth in H0.
    rewrite GETOP_OP in H0 by (cbv; split; [discriminate | reflexivity]).
    eapply dec_func0; [exact H0| |exact Hfl|exact Hm].
    rewrite (Hag (S (List.length o))) by lia.
    rewrite set_nth_other by lia. unfold o2. rewrite nth_error_app2 by lia.
    rewrite Hl1. replace (S (List.length o) - List.length o) with 1 by lia. reflexivity. }
  specialize (HS (Z.of_nat (List.length o)) out'').
  replace (n + S c) with (S n + c) by lia.
  apply HS; [|exact Hnew].
  intros j Hj. rewrite (Hag j) by lia.
  rewrite set_nth_other by lia. unfold o2. apply nth_error_app1. fold o1. lia.
Qed.

Lemma finish_arrays_sem : forall arrs lo o pc result W c,
  HoleSem lo o pc result W c -> pc_ok o pc -> lo <= List.length o ->
  Forall (fun a => alen_val gl a <> None) arrs ->
  let '(o', pc', r') := finish_arrays gl arrs o pc result in
  HoleSem lo o' pc' r' (fun m => W (fold_right (fun a acc => MArr acc (lenval gl a)) m arrs)) (c + List.length arrs)
  /\ pc_ok o' pc' /\ List.length o <= List.length o' /\
  (forall j, j < List.length o -> (match pc with POut x => j <> Z.to_nat x | PRes => True end) ->
             nth_error o' j = nth_error o j) /\
  (pc' = pc \/ exists x, pc' = POut x /\ (Z.of_nat (List.length o) <= x)%Z).
Proof.
  induction arrs as [|a arrs IH]; intros lo o pc result W c HS Hpc Hlo Hv.
  - cbn [finish_arrays fold_right List.length]. rewrite Nat.add_0_r. repeat split; auto.
  - inversion Hv as [|? ? Hva Hv']; subst.
    cbn [finish_arrays].
    pose proof (HoleSem_array lo o pc result W c a HS Hpc Hlo) as HS'. cbv zeta in HS'.
    destruct (retarget_pure o pc result (Z.of_nat (List.length o))) as [o1 r1] eqn:E.
    cbn [fst snd] in HS'.
    assert (Hl1 : List.length o1 = List.length o).
    { change o1 with (fst (o1, r1)). rewrite <- E. apply retarget_pure_length. }
    set (o2 := o1 ++ match lenval gl a with Some n => [OP OP_ARRAY 0; n] | None => [OP OP_OPEN_ARRAY 0] end) in *.
    assert (Hl2 : List.length o < List.length o2).
    { unfold o2. rewrite app_length, Hl1. destruct (lenval gl a); cbn; lia. }
    specialize (IH lo o2 (POut (Z.of_nat (List.length o))) r1 _ (S c) HS').
    destruct (finish_arrays gl arrs o2 (POut (Z.of_nat (List.length o))) r1) as [[o' pc'] r'].
    destruct IH as (A & B & C & D0 & E0); auto; try lia.
    { cbn. lia. }
    split; [|split; [|split; [|split]]]; auto; try lia.
    + cbn [fold_right List.length]. replace (c + S (List.length arrs)) with (S c + List.length arrs) by lia.
      exact A.
    + intros j Hj Hne. rewrite D0 by (try lia; rewrite Nat2Z.id; lia).
      unfold o2. rewrite nth_error_app1 by lia.
      unfold retarget_pure in E. destruct pc as [|x]; inversion E; subst; [reflexivity|].
      apply set_nth_other. lia.
    + right. destruct E0 as [->|[x [-> Hx]]].
      * eexists; split; [reflexivity|lia].
      * eexists; split; [reflexivity|lia].
Qed.

Lemma iter_ptr n m : Nat.iter n MPtr (MPtr m) = MPtr (Nat.iter n MPtr m).
Proof.
  induction n; [reflexivity|].
  change (MPtr (Nat.iter n MPtr (MPtr m)) = MPtr (MPtr (Nat.iter n MPtr m))). rewrite IHn. reflexivity.
Qed.

Lemma hdr_out_prefix : forall hdr o outer, exists ext, fst (hdr_out hdr o outer) = o ++ ext.
Proof.
  induction hdr as [|h hdr IH]; intros o outer; cbn [hdr_out].
  - exists []. cbn. rewrite app_nil_r. reflexivity.
  - destruct h; try apply IH.
    destruct (IH (o ++ [OP OP_POINTER outer]) (Z.of_nat (List.length o))) as [ext E].
    exists ([OP OP_POINTER outer] ++ ext). rewrite E, app_assoc. reflexivity.
Qed.

Lemma wrap_ptrs_S k m : wrap_ptrs (S k) m = wrap_ptrs k (MPtr m).
Proof. unfold wrap_ptrs. rewrite iter_ptr. reflexivity. Qed.

Lemma hdr_sem : forall hdr o outer out'' m n,
  agree out'' (fst (hdr_out hdr o outer)) (List.length o) (List.length (fst (hdr_out hdr o outer))) ->
  decodes g n out'' outer m ->
  decodes g (n + nstars hdr) out'' (snd (hdr_out hdr o outer)) (wrap_ptrs (nstars hdr) m).
Proof.
  induction hdr as [|h hdr IH]; intros o outer out'' m n Hag Hm.
  - cbn. rewrite Nat.add_0_r. exact Hm.
  - destruct h.
    + change (nstars (HStar :: hdr)) with (S (nstars hdr)). rewrite wrap_ptrs_S.
      replace (n + S (nstars hdr)) with (S n + nstars hdr) by lia.
      cbn [hdr_out] in *.
      destruct (hdr_out_prefix hdr (o ++ [OP OP_POINTER outer]) (Z.of_nat (List.length o))) as [ext E].
      apply IH.
      * intros j [Hj1 Hj2]. apply Hag. rewrite app_length in Hj1. cbn [List.length] in Hj1.
        split; [lia | exact Hj2].
      * eapply dec_ptr; [|exact Hm].
        rewrite Hag.
        -- rewrite E, <- app_assoc. rewrite nth_error_app2 by lia. rewrite Nat.sub_diag. reflexivity.
        -- rewrite E, !app_length. cbn. lia.
    + change (nstars (HQ q :: hdr)) with (nstars hdr). cbn [hdr_out] in *. apply IH; assumption.
    + change (nstars (HAbi stdcall :: hdr)) with (nstars hdr). cbn [hdr_out] in *. apply IH; assumption.
Qed.

Lemma HoleSem_group lo og x x' W' c' :
  lo <= x -> x < List.length og -> nth_error og x = Some (OP OP_NOOP 0) ->
  (forall out'', agree out'' og (S x) (List.length og) ->
     forall m n, decodes g n out'' (Z.of_nat x) m -> decodes g (n + c') out'' x' (W' m)) ->
  HoleSem lo og (POut (Z.of_nat x)) (OP (GETOP 0) x') W' (S c').
Proof.
  intros Hlo Hx Hnoop Hin target out'' Hag m n Hm.
  cbn [retarget_pure fst snd] in *. rewrite Nat2Z.id in *.
  change (GETOP 0) with 0%Z. rewrite GETARG_OP by (cbv; split; [discriminate | reflexivity]).
  replace (n + S c') with (S n + c') by lia.
  apply Hin.
  - intros j Hj. rewrite Hag by lia. apply set_nth_other. lia.
  - eapply dec_noop; [|exact Hm].
    rewrite Hag by lia. rewrite set_nth_same by exact Hx.
    rewrite (nth_error_nth _ _ 0%Z Hnoop).
    rewrite GETOP_OP by (cbv; split; [discriminate | reflexivity]). reflexivity.
Qed.

Lemma assemble : forall hdr o outer of pcf rf W c,
  HoleSem (List.length o) of pcf rf W c ->
  List.length (fst (hdr_out hdr o outer)) <= List.length of ->
  (forall j, j < List.length (fst (hdr_out hdr o outer)) -> nth_error of j = nth_error (fst (hdr_out hdr o outer)) j) ->
  (pcf = PRes \/ exists x, pcf = POut x /\ (Z.of_nat (List.length (fst (hdr_out hdr o outer))) <= x)%Z) ->
  let final := fst (retarget_pure of pcf rf (snd (hdr_out hdr o outer))) in
  let idx := GETARG (snd (retarget_pure of pcf rf (snd (hdr_out hdr o outer)))) in
  (forall j, j < List.length o -> nth_error final j = nth_error o j) /\
  (forall out'', agree out'' final (List.length o) (List.length final) ->
     forall m n, decodes g n out'' outer m ->
                 decodes g (n + (nstars hdr + c)) out'' idx (W (wrap_ptrs (nstars hdr) m))).
Proof.
  intros hdr o outer of pcf rf W c HS Hle Hpres Hpc final idx.
  destruct (hdr_out_prefix hdr o outer) as [ext Ep].
  pose proof (hdr_out_length hdr o outer) as Hlh.
  assert (Hfin : forall j, j < List.length (fst (hdr_out hdr o outer)) ->
                           nth_error final j = nth_error (fst (hdr_out hdr o outer)) j).
  { intros j Hj. unfold final. destruct Hpc as [->|[x [-> Hx]]]; cbn [retarget_pure fst].
    - apply Hpres; exact Hj.
    - rewrite set_nth_other by lia. apply Hpres; exact Hj. }
  assert (Hlf : List.length final = List.length of) by apply retarget_pure_length.
  split.
  - intros j Hj. rewrite Hfin by lia. rewrite Ep. apply nth_error_app1. exact Hj.
  - intros out'' Hag m n Hm.
    replace (n + (nstars hdr + c)) with ((n + nstars hdr) + c) by lia.
    apply HS.
    + fold final. rewrite <- Hlf. exact Hag.
    + apply hdr_sem; [|exact Hm].
      intros j Hj. rewrite Hag by lia. apply Hfin. lia.
Qed.

End Sem.

Section Run2.
Variable osz : nat.
Variable cx : ctx.
Variable g : genv.
Variable input : str.
Variable toks : kinds_texts.
Hypothesis L : lexed input toks.
Notation gl := (c_globals cx).
Hypothesis Hgl : table_ok (map fst gl).

Notation T := (T input).
Notation K := (K toks).
Notation At := (At toks).

Definition final_stop (k : kind) : Prop := k = KEnd \/ k = KChar c_rpar.

Lemma parens_stop f t pc result abi cfg : is_ch t c_lpar = false ->
  parens osz cx (S f) t pc result abi cfg = Ok (t, pc, result, abi).
Proof. intros H. cbn [parens]. rewrite H. reflexivity. Qed.

Lemma parens_group f i o :
  K i = KChar c_lpar -> K (S i) = KChar c_star ->
  parens osz cx (S f) (T i o) PRes 0%Z None 1%Z =
  bind (bind (write_ds osz (T (S i) o) (OP OP_NOOP 0)) (fun '(t3, _) =>
          bind (parse_sequel osz cx f t3 (Z.of_nat (List.length o))) (fun '(t4, x') =>
            Ok (t4, POut (Z.of_nat (List.length o)), OP (GETOP 0) x', @None kw))))
       (fun '(t9, pc9, result9, abi9) =>
          if negb (is_ch t9 c_rpar) then parse_error t9 E_rparen
          else parens osz cx f (next_token t9) pc9 result9 abi9 (1 - 1)%Z).
Proof.
  intros H0 H1. cbn [parens]. unfold is_ch at 1. rewrite (kind_T _ _ L), H0. cbn [kind_eqb].
  rewrite N.eqb_refl. rewrite T_next. rewrite (kind_T _ _ L), H1.
  unfold is_ch, is_kw. rewrite (kind_T _ _ L), H1. cbn [kind_eqb]. rewrite N.eqb_refl.
  cbn [andb orb Z.eqb]. rewrite T_out. reflexivity.
Qed.

Definition abi_kw (a : bool) : kw := if a then K_stdcall else K_cdecl.

Lemma parens_group_abi f i o a :
  K i = KChar c_lpar -> K (S i) = KKw (abi_kw a) -> K (S (S i)) = KChar c_star ->
  parens osz cx (S f) (T i o) PRes 0%Z None 1%Z =
  bind (bind (write_ds osz (T (S (S i)) o) (OP OP_NOOP 0)) (fun '(t3, _) =>
          bind (parse_sequel osz cx f t3 (Z.of_nat (List.length o))) (fun '(t4, x') =>
            Ok (t4, POut (Z.of_nat (List.length o)), OP (GETOP 0) x', Some (abi_kw a)))))
       (fun '(t9, pc9, result9, abi9) =>
          if negb (is_ch t9 c_rpar) then parse_error t9 E_rparen
          else parens osz cx f (next_token t9) pc9 result9 abi9 (1 - 1)%Z).
Proof.
  intros H0 H1 H2. cbn [parens]. unfold is_ch at 1. rewrite (kind_T _ _ L), H0. cbn [kind_eqb].
  rewrite N.eqb_refl. rewrite T_next. rewrite (kind_T _ _ L), H1.
  destruct a; cbn [abi_kw]; rewrite T_next;
    unfold is_ch, is_kw; rewrite (kind_T _ _ L), H2; cbn [kind_eqb]; rewrite N.eqb_refl;
    cbn [andb orb Z.eqb]; rewrite T_out; reflexivity.
Qed.

Lemma set_nth_app_mid : forall (a : list Z) x y z v, set_nth (a ++ [x; y; z]) (S (List.length a)) v = a ++ [x; v; z].
Proof. induction a as [|h a IH]; intros; cbn; [reflexivity|]. f_equal. apply IH. Qed.

(* a parameter list "( )" or "( void )": OP_FUNCTION, OP_FUNCTION_END and one spare slot *)
Lemma parens_func0 f i o pc result (abi : option kw) cfg (void : bool) :
  K i = KChar c_lpar ->
  (if void then K (S i) = KKw K_void /\ K (S (S i)) = KChar c_rpar else K (S i) = KChar c_rpar) ->
  pc_ok o pc -> List.length o + 3 <= osz ->
  let flags := match abi with Some K_stdcall => 2%Z | _ => 0%Z end in
  parens osz cx (S f) (T i o) pc result abi cfg =
  parens osz cx f (T ((if void then 3 else 2) + i)
                     (fst (retarget_pure o pc result (Z.of_nat (List.length o)))
                        ++ [OP OP_FUNCTION 0; OP OP_FUNCTION_END flags; OP 0 0]))
         (POut (Z.of_nat (List.length o))) (snd (retarget_pure o pc result (Z.of_nat (List.length o))))
         None (cfg - 1).
Proof.
  intros H0 Hv Hpc Hroom flags. cbn [parens]. unfold is_ch at 1. rewrite (kind_T _ _ L), H0. cbn [kind_eqb].
  rewrite N.eqb_refl. rewrite T_next.
  pose proof (retarget_pure_length o pc result (Z.of_nat (List.length o))) as Hl1.
  set (o1 := fst (retarget_pure o pc result (Z.of_nat (List.length o)))) in *.
  set (r1 := snd (retarget_pure o pc result (Z.of_nat (List.length o)))) in *.
  assert (Hset : forall j, set_out (T j (((o1 ++ [OP OP_FUNCTION 0]) ++ [OP 0 0]) ++ [OP 0 0]))
                   (Z.of_nat (List.length o1) + 1) (OP OP_FUNCTION_END flags) =
                 Ok (T j (o1 ++ [OP OP_FUNCTION 0; OP OP_FUNCTION_END flags; OP 0 0]))).
  { intros j. unfold set_out. rewrite T_out.
    assert (E : ((0 <=? Z.of_nat (List.length o1) + 1)%Z &&
                 (Z.of_nat (List.length o1) + 1 <? Z.of_nat (List.length (((o1 ++ [OP OP_FUNCTION 0]) ++ [OP 0 0]) ++ [OP 0 0])))%Z)%bool = true).
    { apply andb_true_iff; split; [apply Z.leb_le | apply Z.ltb_lt]; rewrite ?app_length; cbn [List.length]; lia. }
    rewrite E. rewrite T_with_out. f_equal. f_equal.
    replace (Z.to_nat (Z.of_nat (List.length o1) + 1)) with (S (List.length o1)) by lia.
    rewrite <- !app_assoc. cbn [app]. apply set_nth_app_mid. }
  destruct void.
  - destruct Hv as [H1 H2]. rewrite (kind_T _ _ L), H1.
    unfold is_ch, is_kw. rewrite !(kind_T _ _ L), H1. cbn [kind_eqb kw_eqb orb]. rewrite andb_false_r.
    rewrite following_rpar, T_next, (kind_T _ _ L), H2. cbn [kind_eqb]. rewrite N.eqb_refl. cbn [andb].
    rewrite commas_at_rpar by (try apply wf_T; rewrite (kind_T _ _ L); exact H2).
    rewrite T_out. rewrite retarget_ok by exact Hpc. fold o1 r1. cbn [bind].
    rewrite (write_ds_ok osz input) by lia. cbn [bind reserve].
    rewrite (write_ds_ok osz input) by (rewrite app_length; cbn; lia). cbn [bind].
    rewrite (write_ds_ok osz input) by (rewrite !app_length; cbn; lia). cbn [bind].
    rewrite !(kind_T _ _ L), H2. cbn [kind_eqb]. rewrite N.eqb_refl. cbn [negb bind].
    rewrite Hset. cbn [bind]. rewrite (kind_T _ _ L), H2. cbn [kind_eqb]. rewrite N.eqb_refl. cbn [negb].
    rewrite T_next. reflexivity.
  - rewrite (kind_T _ _ L), Hv.
    unfold is_ch, is_kw. rewrite !(kind_T _ _ L), Hv. cbn [kind_eqb kw_eqb orb andb].
    change (N.eqb c_rpar c_star) with false. change (N.eqb c_rpar c_lbr) with false. cbn [orb]. rewrite andb_false_r.
    rewrite commas_at_rpar by (try apply wf_T; rewrite (kind_T _ _ L); exact Hv).
    rewrite T_out. rewrite retarget_ok by exact Hpc. fold o1 r1. cbn [bind].
    rewrite (write_ds_ok osz input) by lia. cbn [bind reserve].
    rewrite (write_ds_ok osz input) by (rewrite app_length; cbn; lia). cbn [bind].
    rewrite (write_ds_ok osz input) by (rewrite !app_length; cbn; lia). cbn [bind].
    rewrite !(kind_T _ _ L), Hv. cbn [kind_eqb]. rewrite N.eqb_refl. cbn [negb bind].
    rewrite Hset. cbn [bind]. rewrite (kind_T _ _ L), Hv. cbn [kind_eqb]. rewrite N.eqb_refl. cbn [negb].
    rewrite T_next. reflexivity.
Qed.

Lemma stopper_not_ident k : stopper k -> forall A (x y : A), match k with KIdent => x | _ => y end = y.
Proof. intros [->|[->|[->| ->]]] A x y; reflexivity. Qed.

Lemma sdecl_first_star d : sdecl gl d -> starts_star d = true ->
  exists rest, sdecl_toks d = (KChar c_star, [c_star]) :: rest.
Proof.
  intros Hd Hs. destruct Hd as [hdr arrays _ _|hdr arrays d' _ _ _ _|hdr d' abi void _ _ _];
    (destruct hdr as [|[|q|a] hdr]; cbn in Hs; try discriminate; cbn; eexists; reflexivity).
Qed.

Theorem sequel_run : forall d, sdecl gl d -> forall f i o outer,
  At i (sdecl_toks d) -> final_stop (K (i + ntoks d)) ->
  List.length o + nops d <= osz -> ntoks d + 1 < f ->
  exists o' idx,
    parse_sequel osz cx f (T i o) outer = Ok (T (i + ntoks d) o', idx) /\
    List.length o' = List.length o + nops d /\
    (forall j, j < List.length o -> nth_error o' j = nth_error o j) /\
    (forall out'', agree out'' o' (List.length o) (List.length o') ->
       forall m n, decodes g n out'' outer m -> decodes g (n + cost d) out'' idx (apply_decl gl d m)).
Proof.
  induction 1 as [hdr arrays Hh Ha | hdr arrays d' Hh Ha Hd' IH Hst | hdr d' abi void Hh Hd' IH Hst];
    intros f i o outer Hat Hfin Hroom Hf.
  - (* no grouping *)
    unfold ntoks in *. cbn [sdecl_toks nops cost apply_decl fold_right] in *.
    change (List.concat (map fs_toks [])) with (@nil (kind * str)) in *;
    change (3 * @List.length fsuffix []) with 0 in *; change (@List.length fsuffix []) with 0 in *.
    rewrite !app_nil_l in *.
    rewrite app_length, map_length in *.
    apply At_app in Hat as [Hat1 Hat2]. rewrite map_length in Hat2.
    destruct f as [|f]; [lia|]. rewrite parse_sequel_S.
    set (na := List.length (List.concat (map alen_toks arrays))) in *.
    assert (Hstop1 : stopper (K (i + List.length hdr))).
    { destruct arrays as [|a arrays'].
      - cbn in na. subst na. rewrite Nat.add_0_r in Hfin. destruct Hfin as [->| ->]; unfold stopper; auto.
      - cbn [map List.concat] in Hat2. apply At_app in Hat2 as [Hat2 _].
        destruct a; cbn [alen_toks] in Hat2; apply At_cons in Hat2 as [H0 _];
          rewrite (At_K _ _ _ H0); unfold stopper; auto. }
    rewrite (header_run osz input toks L hdr f i o outer None); auto; try lia.
    2:{ intros j Hj. rewrite map_length in Hj. specialize (Hat1 j). rewrite map_length in Hat1.
        specialize (Hat1 Hj). rewrite nth_error_map in Hat1.
        destruct (nth_error hdr j) eqn:E; [|apply nth_error_None in E; lia].
        cbn in Hat1. rewrite (At_K _ _ _ Hat1). cbn.
        rewrite (nth_indep _ KEnd (hkind h)) by (rewrite map_length; lia). rewrite map_nth.
        f_equal. symmetry. apply nth_error_nth. exact E. }
    cbn [bind]. rewrite (kind_T _ _ L). rewrite stopper_not_ident by exact Hstop1.
    destruct f as [|f]; [lia|].
    rewrite parens_stop.
    2:{ unfold is_ch. rewrite (kind_T _ _ L).
        destruct arrays as [|a arrays'].
        - cbn in na. subst na. rewrite Nat.add_0_r in Hfin. destruct Hfin as [->| ->]; reflexivity.
        - cbn [map List.concat] in Hat2. apply At_app in Hat2 as [Hat2 _].
          destruct a; cbn [alen_toks] in Hat2; apply At_cons in Hat2 as [H0 _];
            rewrite (At_K _ _ _ H0); reflexivity. }
    cbn [bind].
    pose proof (hdr_out_length hdr o outer) as Hlh.
    destruct (hdr_out hdr o outer) as [oh outer1] eqn:Eh. cbn [fst snd] in *.
    rewrite (brackets_run osz cx input toks L Hgl arrays (S f) (i + List.length hdr) oh PRes 0%Z); auto; try lia.
    2:{ fold na. rewrite <- Nat.add_assoc. destruct Hfin as [->| ->]; discriminate. }
    2:{ exact I. }
    2:{ assert (List.length arrays <= na).
        { subst na. clear. induction arrays as [|a l IH]; cbn; [lia|]. rewrite app_length. destruct a; cbn; lia. }
        lia. }
    cbn [bind]. fold na.
    pose proof (finish_arrays_sem g gl arrays (List.length o) oh PRes 0%Z (fun m => m) 0
                  (HoleSem_init g _ _) I ltac:(lia) Ha) as Hsem.
    pose proof (finish_arrays_length cx arrays oh PRes 0%Z Ha) as Hlen.
    destruct (finish_arrays gl arrays oh PRes 0%Z) as [[of pcf] rf]. cbn [fst snd] in *.
    destruct Hsem as (HS & Hpcf & Hle & Hpres & Hpcfact).
    rewrite retarget_ok by exact Hpcf. cbn [bind].
    eexists. eexists. split; [rewrite Nat.add_assoc; reflexivity|].
    split; [rewrite retarget_pure_length; lia|].
    assert (Eoh : oh = fst (hdr_out hdr o outer)) by (rewrite Eh; reflexivity).
    assert (Eo1 : outer1 = snd (hdr_out hdr o outer)) by (rewrite Eh; reflexivity).
    rewrite Eo1.
    pose proof (assemble g hdr o outer of pcf rf _ _ HS) as Has.
    rewrite <- Eoh in Has. cbv zeta in Has.
    assert (P1 : List.length oh <= List.length of) by lia.
    assert (P2 : forall j, j < List.length oh -> nth_error of j = nth_error oh j)
      by (intros; apply Hpres; [assumption | exact I]).
    assert (P3 : pcf = PRes \/ exists x, pcf = POut x /\ (Z.of_nat (List.length oh) <= x)%Z).
    { destruct Hpcfact as [->|[x [-> Hx]]]; [left; reflexivity | right; eexists; split; [reflexivity | exact Hx]]. }
    destruct (Has P1 P2 P3) as [Has1 Has2].
    split; [exact Has1|].
    intros out'' Hag m n Hm.
    match goal with |- decodes _ ?k _ _ _ =>
      replace k with (n + (nstars hdr + (0 + List.length arrays))) by lia end.
    apply Has2; assumption.
  - (* grouping parentheses *)
    assert (Hnt : ntoks (D hdr None (Some (None, d')) [] arrays) =
                  List.length hdr + (S (ntoks d' + 1) + List.length (List.concat (map alen_toks arrays)))).
    { unfold ntoks. cbn [sdecl_toks]. rewrite !app_length, map_length. cbn [List.length]. reflexivity. }
    rewrite Hnt in *. clear Hnt. unfold ntoks in *.
    cbn [sdecl_toks nops cost apply_decl fold_right] in Hat, Hroom |- *.
    change (List.concat (map fs_toks [])) with (@nil (kind * str)) in *;
    change (3 * @List.length fsuffix []) with 0 in *; change (@List.length fsuffix []) with 0 in *.
    rewrite ?app_nil_l in *.
    apply At_app in Hat as [Hat1 Hat2]. rewrite map_length in Hat2.
    apply At_app in Hat2 as [Hat2 Hat3].
    apply At_cons in Hat2 as [Hlp Hat2]. apply At_app in Hat2 as [Hin Hrp].
    apply At_cons in Hrp as [Hrp _].
    cbn [List.length app] in Hat3. rewrite app_length in Hat3. cbn [List.length] in Hat3.
    set (nd := List.length (sdecl_toks d')) in *.
    set (na := List.length (List.concat (map alen_toks arrays))) in *.
    set (p := i + List.length hdr) in *.
    destruct f as [|f]; [lia|]. rewrite parse_sequel_S.
    assert (HK0 : K p = KChar c_lpar) by (rewrite (At_K _ _ _ Hlp); reflexivity).
    assert (Hstop1 : stopper (K p)) by (rewrite HK0; unfold stopper; auto).
    rewrite (header_run osz input toks L hdr f i o outer None); auto; try lia.
    2:{ intros j Hj. rewrite map_length in Hj. specialize (Hat1 j). rewrite map_length in Hat1.
        specialize (Hat1 Hj). rewrite nth_error_map in Hat1.
        destruct (nth_error hdr j) eqn:E; [|apply nth_error_None in E; lia].
        cbn in Hat1. rewrite (At_K _ _ _ Hat1). cbn.
        rewrite (nth_indep _ KEnd (hkind h)) by (rewrite map_length; lia). rewrite map_nth.
        f_equal. symmetry. apply nth_error_nth. exact E. }
    cbn [bind]. fold p. rewrite (kind_T _ _ L). rewrite stopper_not_ident by exact Hstop1.
    destruct f as [|f]; [lia|].
    destruct (sdecl_first_star d' Hd' Hst) as [rest Efirst].
    assert (HK1 : K (S p) = KChar c_star).
    { rewrite Efirst in Hin. apply At_cons in Hin as [H0 _]. rewrite (At_K _ _ _ H0). reflexivity. }
    pose proof (hdr_out_length hdr o outer) as Hlh.
    destruct (hdr_out hdr o outer) as [oh outer1] eqn:Eh. cbn [fst snd] in *.
    rewrite (parens_group f p oh HK0 HK1).
    rewrite (write_ds_ok osz input) by lia. cbn [bind].
    destruct (IH f (S p) (oh ++ [OP OP_NOOP 0]) (Z.of_nat (List.length oh))) as (og & x' & Hrun & Hlg & Hpg & Hsg).
    { exact Hin. }
    { right. match goal with |- Parse.K _ ?e = _ => replace e with (S p + nd) by (subst nd p; lia) end.
      rewrite (At_K _ _ _ Hrp). reflexivity. }
    { rewrite app_length. cbn [List.length]. lia. }
    { fold nd. lia. }
    fold nd in Hrun. rewrite Hrun. cbn [bind].
    assert (HKr : K (S p + nd) = KChar c_rpar).
    { rewrite (At_K _ _ _ Hrp). reflexivity. }
    unfold is_ch at 1. rewrite (kind_T _ _ L), HKr. cbn [kind_eqb]. rewrite N.eqb_refl. cbn [negb].
    rewrite T_next.
    assert (Hnolp : is_ch (T (S (S p + nd)) og) c_lpar = false).
    { unfold is_ch. rewrite (kind_T _ _ L).
      destruct arrays as [|a arrays'].
      - cbn in na. subst na. replace (S (S p + nd)) with (i + (List.length hdr + (S (nd + 1) + 0))) by lia.
        destruct Hfin as [->| ->]; reflexivity.
      - cbn [map List.concat] in Hat3. apply At_app in Hat3 as [Hat3 _].
        replace (S (S p + nd)) with (p + S (nd + 1)) by lia.
        destruct a; cbn [alen_toks] in Hat3; apply At_cons in Hat3 as [H0 _];
          rewrite (At_K _ _ _ H0); reflexivity. }
    destruct f as [|f]; [lia|].
    rewrite parens_stop by exact Hnolp. cbn [bind].
    assert (Hxlt : List.length oh < List.length og) by (rewrite Hlg, app_length; cbn; lia).
    rewrite (brackets_run osz cx input toks L Hgl arrays (S (S f)) (S (S p + nd)) og
               (POut (Z.of_nat (List.length oh))) (OP (GETOP 0) x')); auto; try lia.
    2:{ replace (S (S p + nd)) with (p + S (nd + 1)) by lia. exact Hat3. }
    2:{ fold na. replace (S (S p + nd) + na) with (i + (List.length hdr + (S (nd + 1) + na))) by lia.
        destruct Hfin as [->| ->]; discriminate. }
    2:{ cbn. lia. }
    2:{ rewrite Hlg, app_length. cbn [List.length]. lia. }
    2:{ assert (List.length arrays <= na).
        { subst na. clear. induction arrays as [|a l IH]; cbn; [lia|]. rewrite app_length. destruct a; cbn; lia. }
        lia. }
    cbn [bind]. fold na.
    assert (Hnoop : nth_error og (List.length oh) = Some (OP OP_NOOP 0)).
    { rewrite Hpg by (rewrite app_length; cbn; lia). rewrite nth_error_app2 by lia.
      rewrite Nat.sub_diag. reflexivity. }
    assert (HS0 : HoleSem g (List.length o) og (POut (Z.of_nat (List.length oh))) (OP (GETOP 0) x')
                          (apply_decl gl d') (S (cost d'))).
    { apply HoleSem_group; auto; try lia.
      intros out'' Hag m n Hm. apply Hsg; [|exact Hm].
      rewrite app_length. cbn [List.length]. replace (List.length oh + 1) with (S (List.length oh)) by lia.
      exact Hag. }
    pose proof (finish_arrays_sem g gl arrays (List.length o) og (POut (Z.of_nat (List.length oh)))
                  (OP (GETOP 0) x') _ _ HS0) as Hsem.
    pose proof (finish_arrays_length cx arrays og (POut (Z.of_nat (List.length oh))) (OP (GETOP 0) x') Ha) as Hlen.
    destruct (finish_arrays gl arrays og (POut (Z.of_nat (List.length oh))) (OP (GETOP 0) x')) as [[of pcf] rf].
    cbn [fst snd] in *.
    destruct Hsem as (HS & Hpcf & Hle & Hpres & Hpcfact); auto; try lia.
    { cbn. lia. }
    rewrite retarget_ok by exact Hpcf. cbn [bind].
    eexists. eexists. split.
    { replace (i + (List.length hdr + (S (nd + 1) + na))) with (S (S p + nd) + na) by lia. reflexivity. }
    split; [rewrite retarget_pure_length, Hlen, Hlg, app_length; cbn [List.length]; lia|].
    assert (Eoh : oh = fst (hdr_out hdr o outer)) by (rewrite Eh; reflexivity).
    assert (Eo1 : outer1 = snd (hdr_out hdr o outer)) by (rewrite Eh; reflexivity).
    rewrite Eo1.
    pose proof (assemble g hdr o outer of pcf rf _ _ HS) as Has.
    rewrite <- Eoh in Has. cbv zeta in Has.
    assert (P1 : List.length oh <= List.length of) by lia.
    assert (P2 : forall j, j < List.length oh -> nth_error of j = nth_error oh j).
    { intros j Hj. rewrite Hpres by (try lia; rewrite Nat2Z.id; lia).
      rewrite Hpg by (rewrite app_length; cbn; lia). apply nth_error_app1. exact Hj. }
    assert (P3 : pcf = PRes \/ exists x, pcf = POut x /\ (Z.of_nat (List.length oh) <= x)%Z).
    { right. destruct Hpcfact as [->|[x [-> Hx]]]; eexists; (split; [reflexivity | lia]). }
    destruct (Has P1 P2 P3) as [Has1 Has2].
    split; [exact Has1|].
    intros out'' Hag m n Hm.
    match goal with |- decodes _ ?k _ _ _ =>
      replace k with (n + (nstars hdr + (S (cost d') + List.length arrays))) by lia end.
    apply Has2; assumption.
  - (* grouping parentheses (with or without __cdecl/__stdcall) followed by an empty parameter list *)
    destruct abi as [[|]|].
    + (* __stdcall *)
      set (nf := if void then 3 else 2).
      assert (Hnt : ntoks (D hdr None (Some (Some true, d')) [F [] void false] []) =
                    List.length hdr + (S (S (ntoks d' + 1)) + nf)).
      { unfold ntoks, nf. cbn [sdecl_toks map List.concat fs_toks]. rewrite ?app_length, map_length.
        destruct void; cbn [List.length app]; rewrite ?app_length; cbn [List.length]; lia. }
      rewrite Hnt in *. clear Hnt. unfold ntoks in *.
      cbn [sdecl_toks nops cost apply_decl fold_right map List.concat fs_toks] in Hat, Hroom |- *.
      rewrite ?app_nil_r in Hat.
      apply At_app in Hat as [Hat1 Hat2]. rewrite map_length in Hat2.
      apply At_app in Hat2 as [Hat2 Hat3].
      apply At_cons in Hat2 as [Hlp Hat2]. apply At_cons in Hat2 as [Habi Hat2]. apply At_app in Hat2 as [Hin Hrp].
      apply At_cons in Hrp as [Hrp _].
      cbn [List.length app] in Hat3. rewrite app_length in Hat3. cbn [List.length] in Hat3.
      set (nd := List.length (sdecl_toks d')) in *.
      set (p := i + List.length hdr) in *.
      destruct f as [|f]; [lia|]. rewrite parse_sequel_S.
      assert (HK0 : K p = KChar c_lpar) by (rewrite (At_K _ _ _ Hlp); reflexivity).
      assert (Hstop1 : stopper (K p)) by (rewrite HK0; unfold stopper; auto).
      rewrite (header_run osz input toks L hdr f i o outer None); auto; try lia.
      2:{ intros j Hj. rewrite map_length in Hj. specialize (Hat1 j). rewrite map_length in Hat1.
          specialize (Hat1 Hj). rewrite nth_error_map in Hat1.
          destruct (nth_error hdr j) eqn:E; [|apply nth_error_None in E; lia].
          cbn in Hat1. rewrite (At_K _ _ _ Hat1). cbn.
          rewrite (nth_indep _ KEnd (hkind h)) by (rewrite map_length; lia). rewrite map_nth.
          f_equal. symmetry. apply nth_error_nth. exact E. }
      cbn [bind]. fold p. rewrite (kind_T _ _ L). rewrite stopper_not_ident by exact Hstop1.
      destruct f as [|f]; [unfold nf in Hf; destruct void; lia|].
      destruct (sdecl_first_star d' Hd' Hst) as [rest Efirst].
      assert (HK1 : K (S (S p)) = KChar c_star).
      { rewrite Efirst in Hin. apply At_cons in Hin as [H0 _]. rewrite (At_K _ _ _ H0). reflexivity. }
      pose proof (hdr_out_length hdr o outer) as Hlh.
      destruct (hdr_out hdr o outer) as [oh outer1] eqn:Eh. cbn [fst snd] in *.
      assert (HKa : K (S p) = KKw (abi_kw true)) by (rewrite (At_K _ _ _ Habi); reflexivity).
      rewrite (parens_group_abi f p oh true HK0 HKa HK1). cbn [abi_kw].
      rewrite (write_ds_ok osz input) by lia. cbn [bind].
      destruct (IH f (S (S p)) (oh ++ [OP OP_NOOP 0]) (Z.of_nat (List.length oh))) as (og & x' & Hrun & Hlg & Hpg & Hsg).
      { exact Hin. }
      { right. match goal with |- Parse.K _ ?e = _ => replace e with (S (S p) + nd) by (subst nd p; lia) end.
        rewrite (At_K _ _ _ Hrp). reflexivity. }
      { rewrite app_length. cbn [List.length]. lia. }
      { fold nd. unfold nf in Hf. destruct void; lia. }
      fold nd in Hrun. rewrite Hrun. cbn [bind].
      assert (HKr : K (S (S p) + nd) = KChar c_rpar).
      { rewrite (At_K _ _ _ Hrp). reflexivity. }
      unfold is_ch at 1. rewrite (kind_T _ _ L), HKr. cbn [kind_eqb]. rewrite N.eqb_refl. cbn [negb].
      rewrite T_next.
      set (q := S (S (S p) + nd)) in *.
      replace (p + S (S (nd + 1))) with q in Hat3 by (subst q; lia).
      assert (Hxlt : List.length oh < List.length og) by (rewrite Hlg, app_length; cbn; lia).
      destruct f as [|f]; [unfold nf in Hf; destruct void; lia|].
      assert (Hfk : K q = KChar c_lpar /\
                    (if void then K (S q) = KKw K_void /\ K (S (S q)) = KChar c_rpar else K (S q) = KChar c_rpar)).
      { apply At_cons in Hat3 as [Ha0 Hat3]. split; [rewrite (At_K _ _ _ Ha0); reflexivity|].
        destruct void; cbn [app] in Hat3.
        - apply At_cons in Hat3 as [Ha1 Hat3]. apply At_cons in Hat3 as [Ha2 _].
          rewrite (At_K _ _ _ Ha1), (At_K _ _ _ Ha2). split; reflexivity.
        - apply At_cons in Hat3 as [Ha1 _]. rewrite (At_K _ _ _ Ha1). reflexivity. }
      destruct Hfk as [Hq0 Hq1].
      assert (Hroom3 : List.length og + 3 <= osz).
      { rewrite Hlg, app_length. cbn [List.length list_sum map fold_right Nat.mul] in *. lia. }
      rewrite (parens_func0 f q og (POut (Z.of_nat (List.length oh))) (OP (GETOP 0) x') (Some K_stdcall) (1 - 1)%Z void Hq0 Hq1)
        by (first [exact Hroom3 | cbn; lia]).
      cbv iota zeta. fold nf.
      assert (Hend : final_stop (K (nf + q))).
      { replace (nf + q) with (i + (List.length hdr + (S (S (nd + 1)) + nf))) by (subst q p; lia). exact Hfin. }
      destruct f as [|f]; [unfold nf in Hf; destruct void; lia|].
      rewrite parens_stop by (unfold is_ch; rewrite (kind_T _ _ L); destruct Hend as [->| ->]; reflexivity).
      cbn [bind].
      set (oi := Z.of_nat (List.length og)) in *.
      set (o1 := fst (retarget_pure og (POut (Z.of_nat (List.length oh))) (OP (GETOP 0) x') oi)) in *.
      set (r1 := snd (retarget_pure og (POut (Z.of_nat (List.length oh))) (OP (GETOP 0) x') oi)) in *.
      set (of := o1 ++ [OP OP_FUNCTION 0; OP OP_FUNCTION_END 2%Z; OP 0 0]) in *.
      assert (Hl1 : List.length o1 = List.length og) by apply retarget_pure_length.
      assert (Hlof : List.length of = List.length og + 3) by (unfold of; rewrite app_length, Hl1; reflexivity).
      assert (Hpcf : pc_ok of (POut oi)) by (unfold pc_ok; rewrite Hlof; unfold oi; lia).
      rewrite (brackets_run osz cx input toks L Hgl [] (S (S (S f))) (nf + q) of (POut oi) r1).
      2:{ intros j Hj. cbn in Hj. lia. }
      2:{ constructor. }
      2:{ cbn [map List.concat List.length]. rewrite Nat.add_0_r. destruct Hend as [->| ->]; discriminate. }
      2:{ exact Hpcf. }
      2:{ cbn [map list_sum fold_right]. lia. }
      2:{ cbn [List.length]. lia. }
      cbn [map List.concat List.length finish_arrays fst snd bind]. rewrite Nat.add_0_r.
      rewrite retarget_ok by exact Hpcf. cbn [bind].
      assert (Hnoop : nth_error og (List.length oh) = Some (OP OP_NOOP 0)).
      { rewrite Hpg by (rewrite app_length; cbn; lia). rewrite nth_error_app2 by lia.
        rewrite Nat.sub_diag. reflexivity. }
      assert (HS0 : HoleSem g (List.length o) og (POut (Z.of_nat (List.length oh))) (OP (GETOP 0) x')
                            (apply_decl gl d') (S (cost d'))).
      { apply HoleSem_group; auto; try lia.
        intros out'' Hag m n Hm. apply Hsg; [|exact Hm].
        rewrite app_length. cbn [List.length]. replace (List.length oh + 1) with (S (List.length oh)) by lia.
        exact Hag. }
      pose proof (HoleSem_func0 g (List.length o) og (POut (Z.of_nat (List.length oh))) (OP (GETOP 0) x')
                    _ _ 2%Z HS0 ltac:(cbn; lia) ltac:(lia) ltac:(right; reflexivity)) as HS.
      cbv zeta in HS. fold oi o1 r1 of in HS.
      eexists. eexists. split.
      { replace (i + (List.length hdr + (S (S (nd + 1)) + nf))) with (nf + q) by (subst q p; lia). reflexivity. }
      split; [rewrite retarget_pure_length, Hlof, Hlg, app_length; cbn [List.length list_sum map fold_right]; lia|].
      assert (Eoh : oh = fst (hdr_out hdr o outer)) by (rewrite Eh; reflexivity).
      assert (Eo1 : outer1 = snd (hdr_out hdr o outer)) by (rewrite Eh; reflexivity).
      rewrite Eo1.
      pose proof (assemble g hdr o outer of (POut oi) r1 _ _ HS) as Has.
      rewrite <- Eoh in Has. cbv zeta in Has.
      assert (P1 : List.length oh <= List.length of) by lia.
      assert (P2 : forall j, j < List.length oh -> nth_error of j = nth_error oh j).
      { intros j Hj. unfold of. rewrite nth_error_app1 by lia. unfold o1. cbn [retarget_pure fst].
        rewrite set_nth_other by (rewrite Nat2Z.id; lia).
        rewrite Hpg by (rewrite app_length; cbn; lia). apply nth_error_app1. exact Hj. }
      assert (P3 : POut oi = PRes \/ exists x, POut oi = POut x /\ (Z.of_nat (List.length oh) <= x)%Z).
      { right. exists oi. split; [reflexivity | unfold oi; lia]. }
      destruct (Has P1 P2 P3) as [Has1 Has2].
      split; [exact Has1|].
      intros out'' Hag m n Hm.
      match goal with |- decodes _ ?k _ _ _ =>
        replace k with (n + (nstars hdr + (S (S (cost d'))))) by lia end.
      apply Has2; assumption.
    + (* __cdecl *)
      set (nf := if void then 3 else 2).
      assert (Hnt : ntoks (D hdr None (Some (Some false, d')) [F [] void false] []) =
                    List.length hdr + (S (S (ntoks d' + 1)) + nf)).
      { unfold ntoks, nf. cbn [sdecl_toks map List.concat fs_toks]. rewrite ?app_length, map_length.
        destruct void; cbn [List.length app]; rewrite ?app_length; cbn [List.length]; lia. }
      rewrite Hnt in *. clear Hnt. unfold ntoks in *.
      cbn [sdecl_toks nops cost apply_decl fold_right map List.concat fs_toks] in Hat, Hroom |- *.
      rewrite ?app_nil_r in Hat.
      apply At_app in Hat as [Hat1 Hat2]. rewrite map_length in Hat2.
      apply At_app in Hat2 as [Hat2 Hat3].
      apply At_cons in Hat2 as [Hlp Hat2]. apply At_cons in Hat2 as [Habi Hat2]. apply At_app in Hat2 as [Hin Hrp].
      apply At_cons in Hrp as [Hrp _].
      cbn [List.length app] in Hat3. rewrite app_length in Hat3. cbn [List.length] in Hat3.
      set (nd := List.length (sdecl_toks d')) in *.
      set (p := i + List.length hdr) in *.
      destruct f as [|f]; [lia|]. rewrite parse_sequel_S.
      assert (HK0 : K p = KChar c_lpar) by (rewrite (At_K _ _ _ Hlp); reflexivity).
      assert (Hstop1 : stopper (K p)) by (rewrite HK0; unfold stopper; auto).
      rewrite (header_run osz input toks L hdr f i o outer None); auto; try lia.
      2:{ intros j Hj. rewrite map_length in Hj. specialize (Hat1 j). rewrite map_length in Hat1.
          specialize (Hat1 Hj). rewrite nth_error_map in Hat1.
          destruct (nth_error hdr j) eqn:E; [|apply nth_error_None in E; lia].
          cbn in Hat1. rewrite (At_K _ _ _ Hat1). cbn.
          rewrite (nth_indep _ KEnd (hkind h)) by (rewrite map_length; lia). rewrite map_nth.
          f_equal. symmetry. apply nth_error_nth. exact E. }
      cbn [bind]. fold p. rewrite (kind_T _ _ L). rewrite stopper_not_ident by exact Hstop1.
      destruct f as [|f]; [unfold nf in Hf; destruct void; lia|].
      destruct (sdecl_first_star d' Hd' Hst) as [rest Efirst].
      assert (HK1 : K (S (S p)) = KChar c_star).
      { rewrite Efirst in Hin. apply At_cons in Hin as [H0 _]. rewrite (At_K _ _ _ H0). reflexivity. }
      pose proof (hdr_out_length hdr o outer) as Hlh.
      destruct (hdr_out hdr o outer) as [oh outer1] eqn:Eh. cbn [fst snd] in *.
      assert (HKa : K (S p) = KKw (abi_kw false)) by (rewrite (At_K _ _ _ Habi); reflexivity).
      rewrite (parens_group_abi f p oh false HK0 HKa HK1). cbn [abi_kw].
      rewrite (write_ds_ok osz input) by lia. cbn [bind].
      destruct (IH f (S (S p)) (oh ++ [OP OP_NOOP 0]) (Z.of_nat (List.length oh))) as (og & x' & Hrun & Hlg & Hpg & Hsg).
      { exact Hin. }
      { right. match goal with |- Parse.K _ ?e = _ => replace e with (S (S p) + nd) by (subst nd p; lia) end.
        rewrite (At_K _ _ _ Hrp). reflexivity. }
      { rewrite app_length. cbn [List.length]. lia. }
      { fold nd. unfold nf in Hf. destruct void; lia. }
      fold nd in Hrun. rewrite Hrun. cbn [bind].
      assert (HKr : K (S (S p) + nd) = KChar c_rpar).
      { rewrite (At_K _ _ _ Hrp). reflexivity. }
      unfold is_ch at 1. rewrite (kind_T _ _ L), HKr. cbn [kind_eqb]. rewrite N.eqb_refl. cbn [negb].
      rewrite T_next.
      set (q := S (S (S p) + nd)) in *.
      replace (p + S (S (nd + 1))) with q in Hat3 by (subst q; lia).
      assert (Hxlt : List.length oh < List.length og) by (rewrite Hlg, app_length; cbn; lia).
      destruct f as [|f]; [unfold nf in Hf; destruct void; lia|].
      assert (Hfk : K q = KChar c_lpar /\
                    (if void then K (S q) = KKw K_void /\ K (S (S q)) = KChar c_rpar else K (S q) = KChar c_rpar)).
      { apply At_cons in Hat3 as [Ha0 Hat3]. split; [rewrite (At_K _ _ _ Ha0); reflexivity|].
        destruct void; cbn [app] in Hat3.
        - apply At_cons in Hat3 as [Ha1 Hat3]. apply At_cons in Hat3 as [Ha2 _].
          rewrite (At_K _ _ _ Ha1), (At_K _ _ _ Ha2). split; reflexivity.
        - apply At_cons in Hat3 as [Ha1 _]. rewrite (At_K _ _ _ Ha1). reflexivity. }
      destruct Hfk as [Hq0 Hq1].
      assert (Hroom3 : List.length og + 3 <= osz).
      { rewrite Hlg, app_length. cbn [List.length list_sum map fold_right Nat.mul] in *. lia. }
      rewrite (parens_func0 f q og (POut (Z.of_nat (List.length oh))) (OP (GETOP 0) x') (Some K_cdecl) (1 - 1)%Z void Hq0 Hq1)
        by (first [exact Hroom3 | cbn; lia]).
      cbv iota zeta. fold nf.
      assert (Hend : final_stop (K (nf + q))).
      { replace (nf + q) with (i + (List.length hdr + (S (S (nd + 1)) + nf))) by (subst q p; lia). exact Hfin. }
      destruct f as [|f]; [unfold nf in Hf; destruct void; lia|].
      rewrite parens_stop by (unfold is_ch; rewrite (kind_T _ _ L); destruct Hend as [->| ->]; reflexivity).
      cbn [bind].
      set (oi := Z.of_nat (List.length og)) in *.
      set (o1 := fst (retarget_pure og (POut (Z.of_nat (List.length oh))) (OP (GETOP 0) x') oi)) in *.
      set (r1 := snd (retarget_pure og (POut (Z.of_nat (List.length oh))) (OP (GETOP 0) x') oi)) in *.
      set (of := o1 ++ [OP OP_FUNCTION 0; OP OP_FUNCTION_END 0%Z; OP 0 0]) in *.
      assert (Hl1 : List.length o1 = List.length og) by apply retarget_pure_length.
      assert (Hlof : List.length of = List.length og + 3) by (unfold of; rewrite app_length, Hl1; reflexivity).
      assert (Hpcf : pc_ok of (POut oi)) by (unfold pc_ok; rewrite Hlof; unfold oi; lia).
      rewrite (brackets_run osz cx input toks L Hgl [] (S (S (S f))) (nf + q) of (POut oi) r1).
      2:{ intros j Hj. cbn in Hj. lia. }
      2:{ constructor. }
      2:{ cbn [map List.concat List.length]. rewrite Nat.add_0_r. destruct Hend as [->| ->]; discriminate. }
      2:{ exact Hpcf. }
      2:{ cbn [map list_sum fold_right]. lia. }
      2:{ cbn [List.length]. lia. }
      cbn [map List.concat List.length finish_arrays fst snd bind]. rewrite Nat.add_0_r.
      rewrite retarget_ok by exact Hpcf. cbn [bind].
      assert (Hnoop : nth_error og (List.length oh) = Some (OP OP_NOOP 0)).
      { rewrite Hpg by (rewrite app_length; cbn; lia). rewrite nth_error_app2 by lia.
        rewrite Nat.sub_diag. reflexivity. }
      assert (HS0 : HoleSem g (List.length o) og (POut (Z.of_nat (List.length oh))) (OP (GETOP 0) x')
                            (apply_decl gl d') (S (cost d'))).
      { apply HoleSem_group; auto; try lia.
        intros out'' Hag m n Hm. apply Hsg; [|exact Hm].
        rewrite app_length. cbn [List.length]. replace (List.length oh + 1) with (S (List.length oh)) by lia.
        exact Hag. }
      pose proof (HoleSem_func0 g (List.length o) og (POut (Z.of_nat (List.length oh))) (OP (GETOP 0) x')
                    _ _ 0%Z HS0 ltac:(cbn; lia) ltac:(lia) ltac:(left; reflexivity)) as HS.
      cbv zeta in HS. fold oi o1 r1 of in HS.
      eexists. eexists. split.
      { replace (i + (List.length hdr + (S (S (nd + 1)) + nf))) with (nf + q) by (subst q p; lia). reflexivity. }
      split; [rewrite retarget_pure_length, Hlof, Hlg, app_length; cbn [List.length list_sum map fold_right]; lia|].
      assert (Eoh : oh = fst (hdr_out hdr o outer)) by (rewrite Eh; reflexivity).
      assert (Eo1 : outer1 = snd (hdr_out hdr o outer)) by (rewrite Eh; reflexivity).
      rewrite Eo1.
      pose proof (assemble g hdr o outer of (POut oi) r1 _ _ HS) as Has.
      rewrite <- Eoh in Has. cbv zeta in Has.
      assert (P1 : List.length oh <= List.length of) by lia.
      assert (P2 : forall j, j < List.length oh -> nth_error of j = nth_error oh j).
      { intros j Hj. unfold of. rewrite nth_error_app1 by lia. unfold o1. cbn [retarget_pure fst].
        rewrite set_nth_other by (rewrite Nat2Z.id; lia).
        rewrite Hpg by (rewrite app_length; cbn; lia). apply nth_error_app1. exact Hj. }
      assert (P3 : POut oi = PRes \/ exists x, POut oi = POut x /\ (Z.of_nat (List.length oh) <= x)%Z).
      { right. exists oi. split; [reflexivity | unfold oi; lia]. }
      destruct (Has P1 P2 P3) as [Has1 Has2].
      split; [exact Has1|].
      intros out'' Hag m n Hm.
      match goal with |- decodes _ ?k _ _ _ =>
        replace k with (n + (nstars hdr + (S (S (cost d'))))) by lia end.
      apply Has2; assumption.
    + (* no keyword *)
      set (nf := if void then 3 else 2).
      assert (Hnt : ntoks (D hdr None (Some (None, d')) [F [] void false] []) =
                    List.length hdr + (S (ntoks d' + 1) + nf)).
      { unfold ntoks, nf. cbn [sdecl_toks map List.concat fs_toks]. rewrite ?app_length, map_length.
        destruct void; cbn [List.length app]; rewrite ?app_length; cbn [List.length]; lia. }
      rewrite Hnt in *. clear Hnt. unfold ntoks in *.
      cbn [sdecl_toks nops cost apply_decl fold_right map List.concat fs_toks] in Hat, Hroom |- *.
      rewrite ?app_nil_r in Hat.
      apply At_app in Hat as [Hat1 Hat2]. rewrite map_length in Hat2.
      apply At_app in Hat2 as [Hat2 Hat3].
      apply At_cons in Hat2 as [Hlp Hat2]. apply At_app in Hat2 as [Hin Hrp].
      apply At_cons in Hrp as [Hrp _].
      cbn [List.length app] in Hat3. rewrite app_length in Hat3. cbn [List.length] in Hat3.
      set (nd := List.length (sdecl_toks d')) in *.
      set (p := i + List.length hdr) in *.
      destruct f as [|f]; [lia|]. rewrite parse_sequel_S.
      assert (HK0 : K p = KChar c_lpar) by (rewrite (At_K _ _ _ Hlp); reflexivity).
      assert (Hstop1 : stopper (K p)) by (rewrite HK0; unfold stopper; auto).
      rewrite (header_run osz input toks L hdr f i o outer None); auto; try lia.
      2:{ intros j Hj. rewrite map_length in Hj. specialize (Hat1 j). rewrite map_length in Hat1.
          specialize (Hat1 Hj). rewrite nth_error_map in Hat1.
          destruct (nth_error hdr j) eqn:E; [|apply nth_error_None in E; lia].
          cbn in Hat1. rewrite (At_K _ _ _ Hat1). cbn.
          rewrite (nth_indep _ KEnd (hkind h)) by (rewrite map_length; lia). rewrite map_nth.
          f_equal. symmetry. apply nth_error_nth. exact E. }
      cbn [bind]. fold p. rewrite (kind_T _ _ L). rewrite stopper_not_ident by exact Hstop1.
      destruct f as [|f]; [unfold nf in Hf; destruct void; lia|].
      destruct (sdecl_first_star d' Hd' Hst) as [rest Efirst].
      assert (HK1 : K (S p) = KChar c_star).
      { rewrite Efirst in Hin. apply At_cons in Hin as [H0 _]. rewrite (At_K _ _ _ H0). reflexivity. }
      pose proof (hdr_out_length hdr o outer) as Hlh.
      destruct (hdr_out hdr o outer) as [oh outer1] eqn:Eh. cbn [fst snd] in *.
      rewrite (parens_group f p oh HK0 HK1).
      rewrite (write_ds_ok osz input) by lia. cbn [bind].
      destruct (IH f (S p) (oh ++ [OP OP_NOOP 0]) (Z.of_nat (List.length oh))) as (og & x' & Hrun & Hlg & Hpg & Hsg).
      { exact Hin. }
      { right. match goal with |- Parse.K _ ?e = _ => replace e with (S p + nd) by (subst nd p; lia) end.
        rewrite (At_K _ _ _ Hrp). reflexivity. }
      { rewrite app_length. cbn [List.length]. lia. }
      { fold nd. unfold nf in Hf. destruct void; lia. }
      fold nd in Hrun. rewrite Hrun. cbn [bind].
      assert (HKr : K (S p + nd) = KChar c_rpar).
      { rewrite (At_K _ _ _ Hrp). reflexivity. }
      unfold is_ch at 1. rewrite (kind_T _ _ L), HKr. cbn [kind_eqb]. rewrite N.eqb_refl. cbn [negb].
      rewrite T_next.
      set (q := S (S p + nd)) in *.
      replace (p + S (nd + 1)) with q in Hat3 by (subst q; lia).
      assert (Hxlt : List.length oh < List.length og) by (rewrite Hlg, app_length; cbn; lia).
      destruct f as [|f]; [unfold nf in Hf; destruct void; lia|].
      assert (Hfk : K q = KChar c_lpar /\
                    (if void then K (S q) = KKw K_void /\ K (S (S q)) = KChar c_rpar else K (S q) = KChar c_rpar)).
      { apply At_cons in Hat3 as [Ha0 Hat3]. split; [rewrite (At_K _ _ _ Ha0); reflexivity|].
        destruct void; cbn [app] in Hat3.
        - apply At_cons in Hat3 as [Ha1 Hat3]. apply At_cons in Hat3 as [Ha2 _].
          rewrite (At_K _ _ _ Ha1), (At_K _ _ _ Ha2). split; reflexivity.
        - apply At_cons in Hat3 as [Ha1 _]. rewrite (At_K _ _ _ Ha1). reflexivity. }
      destruct Hfk as [Hq0 Hq1].
      assert (Hroom3 : List.length og + 3 <= osz).
      { rewrite Hlg, app_length. cbn [List.length list_sum map fold_right Nat.mul] in *. lia. }
      rewrite (parens_func0 f q og (POut (Z.of_nat (List.length oh))) (OP (GETOP 0) x') None (1 - 1)%Z void Hq0 Hq1)
        by (first [exact Hroom3 | cbn; lia]).
      cbv iota zeta. fold nf.
      assert (Hend : final_stop (K (nf + q))).
      { replace (nf + q) with (i + (List.length hdr + (S (nd + 1) + nf))) by (subst q p; lia). exact Hfin. }
      destruct f as [|f]; [unfold nf in Hf; destruct void; lia|].
      rewrite parens_stop by (unfold is_ch; rewrite (kind_T _ _ L); destruct Hend as [->| ->]; reflexivity).
      cbn [bind].
      set (oi := Z.of_nat (List.length og)) in *.
      set (o1 := fst (retarget_pure og (POut (Z.of_nat (List.length oh))) (OP (GETOP 0) x') oi)) in *.
      set (r1 := snd (retarget_pure og (POut (Z.of_nat (List.length oh))) (OP (GETOP 0) x') oi)) in *.
      set (of := o1 ++ [OP OP_FUNCTION 0; OP OP_FUNCTION_END 0%Z; OP 0 0]) in *.
      assert (Hl1 : List.length o1 = List.length og) by apply retarget_pure_length.
      assert (Hlof : List.length of = List.length og + 3) by (unfold of; rewrite app_length, Hl1; reflexivity).
      assert (Hpcf : pc_ok of (POut oi)) by (unfold pc_ok; rewrite Hlof; unfold oi; lia).
      rewrite (brackets_run osz cx input toks L Hgl [] (S (S (S f))) (nf + q) of (POut oi) r1).
      2:{ intros j Hj. cbn in Hj. lia. }
      2:{ constructor. }
      2:{ cbn [map List.concat List.length]. rewrite Nat.add_0_r. destruct Hend as [->| ->]; discriminate. }
      2:{ exact Hpcf. }
      2:{ cbn [map list_sum fold_right]. lia. }
      2:{ cbn [List.length]. lia. }
      cbn [map List.concat List.length finish_arrays fst snd bind]. rewrite Nat.add_0_r.
      rewrite retarget_ok by exact Hpcf. cbn [bind].
      assert (Hnoop : nth_error og (List.length oh) = Some (OP OP_NOOP 0)).
      { rewrite Hpg by (rewrite app_length; cbn; lia). rewrite nth_error_app2 by lia.
        rewrite Nat.sub_diag. reflexivity. }
      assert (HS0 : HoleSem g (List.length o) og (POut (Z.of_nat (List.length oh))) (OP (GETOP 0) x')
                            (apply_decl gl d') (S (cost d'))).
      { apply HoleSem_group; auto; try lia.
        intros out'' Hag m n Hm. apply Hsg; [|exact Hm].
        rewrite app_length. cbn [List.length]. replace (List.length oh + 1) with (S (List.length oh)) by lia.
        exact Hag. }
      pose proof (HoleSem_func0 g (List.length o) og (POut (Z.of_nat (List.length oh))) (OP (GETOP 0) x')
                    _ _ 0%Z HS0 ltac:(cbn; lia) ltac:(lia) ltac:(left; reflexivity)) as HS.
      cbv zeta in HS. fold oi o1 r1 of in HS.
      eexists. eexists. split.
      { replace (i + (List.length hdr + (S (nd + 1) + nf))) with (nf + q) by (subst q p; lia). reflexivity. }
      split; [rewrite retarget_pure_length, Hlof, Hlg, app_length; cbn [List.length list_sum map fold_right]; lia|].
      assert (Eoh : oh = fst (hdr_out hdr o outer)) by (rewrite Eh; reflexivity).
      assert (Eo1 : outer1 = snd (hdr_out hdr o outer)) by (rewrite Eh; reflexivity).
      rewrite Eo1.
      pose proof (assemble g hdr o outer of (POut oi) r1 _ _ HS) as Has.
      rewrite <- Eoh in Has. cbv zeta in Has.
      assert (P1 : List.length oh <= List.length of) by lia.
      assert (P2 : forall j, j < List.length oh -> nth_error of j = nth_error oh j).
      { intros j Hj. unfold of. rewrite nth_error_app1 by lia. unfold o1. cbn [retarget_pure fst].
        rewrite set_nth_other by (rewrite Nat2Z.id; lia).
        rewrite Hpg by (rewrite app_length; cbn; lia). apply nth_error_app1. exact Hj. }
      assert (P3 : POut oi = PRes \/ exists x, POut oi = POut x /\ (Z.of_nat (List.length oh) <= x)%Z).
      { right. exists oi. split; [reflexivity | unfold oi; lia]. }
      destruct (Has P1 P2 P3) as [Has1 Has2].
      split; [exact Has1|].
      intros out'' Hag m n Hm.
      match goal with |- decodes _ ?k _ _ _ =>
        replace k with (n + (nstars hdr + (S (S (cost d'))))) by lia end.
      apply Has2; assumption.
Qed.

End Run2.