(* C07 — parse_sequel on declarators made of pointers, qualifiers, nested grouping parentheses and
   arrays: what it writes, and what the written opcodes decode to. *)
From Coq Require Import List Arith NArith ZArith Lia Bool String.
Import ListNotations.
From Cffi Require Import C25.Model C07.Model C07.Realize C07.PyModel C07.Lexer C07.Tokens C07.Tables C07.Specs C07.Parse.

Local Open Scope nat_scope.

(* ---------------------------------------------------------------- opcode arithmetic *)
Lemma GETOP_OP op a : (0 <= op < 256)%Z -> GETOP (OP op a) = op.
Proof.
  intros H. unfold GETOP, OP. rewrite Z.mod_add by lia. apply Z.mod_small; lia.
Qed.
Lemma GETARG_OP op a : (0 <= op < 256)%Z -> GETARG (OP op a) = a.
Proof.
  intros H. unfold GETARG, OP. rewrite Z.div_add by lia.
  rewrite (Z.div_small op 256) by lia. lia.
Qed.

(* ---------------------------------------------------------------- decoding facts *)
Section Dec.
Variable g : genv.

Definition decodes (n : nat) (out : list Z) (idx : Z) (m : mty) : Prop :=
  forall fuel, n <= fuel -> decode g fuel out idx = Some m.

Lemma decodes_mono n n' out idx m : decodes n out idx m -> n <= n' -> decodes n' out idx m.
Proof. intros H Hn fuel Hf. apply H. lia. Qed.

Lemma nthZ_nat {A} (l : list A) (i : nat) : nthZ l (Z.of_nat i) = nth_error l i.
Proof.
  unfold nthZ. destruct (Z.of_nat i <? 0)%Z eqn:E; [apply Z.ltb_lt in E; lia|].
  rewrite Nat2Z.id. reflexivity.
Qed.

Lemma dec_prim out i p n : nth_error out i = Some (OP OP_PRIMITIVE p) ->
  decodes (S n) out (Z.of_nat i) (prim_mty p).
Proof.
  intros H fuel Hf. destruct fuel as [|f]; [lia|]. cbn [decode].
  rewrite nthZ_nat, H. rewrite GETOP_OP, GETARG_OP by (cbv; split; [discriminate | reflexivity]).
  cbn. unfold prim_mty, PRIM_VOID. destruct (p =? 0)%Z; reflexivity.
Qed.

Lemma dec_ptr out i j n m : nth_error out i = Some (OP OP_POINTER j) ->
  decodes n out j m -> decodes (S n) out (Z.of_nat i) (MPtr m).
Proof.
  intros H Hj fuel Hf. destruct fuel as [|f]; [lia|]. cbn [decode].
  rewrite nthZ_nat, H. rewrite GETOP_OP, GETARG_OP by (cbv; split; [discriminate | reflexivity]).
  cbn. rewrite (Hj f) by lia. reflexivity.
Qed.

Lemma dec_noop out i j n m : nth_error out i = Some (OP OP_NOOP j) ->
  decodes n out j m -> decodes (S n) out (Z.of_nat i) m.
Proof.
  intros H Hj fuel Hf. destruct fuel as [|f]; [lia|]. cbn [decode].
  rewrite nthZ_nat, H. rewrite GETOP_OP, GETARG_OP by (cbv; split; [discriminate | reflexivity]).
  cbn. apply Hj. lia.
Qed.

Lemma dec_arr out i j len n m : nth_error out i = Some (OP OP_ARRAY j) ->
  nth_error out (S i) = Some len ->
  decodes n out j m -> decodes (S n) out (Z.of_nat i) (MArr m (Some len)).
Proof.
  intros H Hl Hj fuel Hf. destruct fuel as [|f]; [lia|]. cbn [decode].
  rewrite nthZ_nat, H. rewrite GETOP_OP, GETARG_OP by (cbv; split; [discriminate | reflexivity]).
  cbn. replace (Z.of_nat i + 1)%Z with (Z.of_nat (S i)) by lia. rewrite nthZ_nat, Hl.
  rewrite (Hj f) by lia. reflexivity.
Qed.

Lemma dec_open out i j n m : nth_error out i = Some (OP OP_OPEN_ARRAY j) ->
  decodes n out j m -> decodes (S n) out (Z.of_nat i) (MArr m None).
Proof.
  intros H Hj fuel Hf. destruct fuel as [|f]; [lia|]. cbn [decode].
  rewrite nthZ_nat, H. rewrite GETOP_OP, GETARG_OP by (cbv; split; [discriminate | reflexivity]).
  cbn. rewrite (Hj f) by lia. reflexivity.
Qed.

(* a function without parameters: OP_FUNCTION directly followed by OP_FUNCTION_END *)
Lemma dec_func0 out i j flags n m : nth_error out i = Some (OP OP_FUNCTION j) ->
  nth_error out (S i) = Some (OP OP_FUNCTION_END flags) -> (flags = 0 \/ flags = 2)%Z ->
  decodes n out j m -> decodes (S n) out (Z.of_nat i) (MFun m [] false).
Proof.
  intros H He Hfl Hj fuel Hf. destruct fuel as [|f]; [lia|]. cbn [decode].
  rewrite nthZ_nat, H. rewrite GETOP_OP, GETARG_OP by (cbv; split; [discriminate | reflexivity]).
  cbn [Z.eqb OP_FUNCTION OP_PRIMITIVE OP_POINTER OP_ARRAY OP_OPEN_ARRAY OP_STRUCT_UNION OP_ENUM Pos.eqb].
  rewrite (Hj f) by lia.
  replace (Z.to_nat (Z.of_nat i + 1)) with (S i) by lia.
  destruct (nth_error_split _ _ He) as (l1 & l2 & E & El).
  assert (Hsk : skipn (S i) out = OP OP_FUNCTION_END flags :: l2).
  { rewrite E. rewrite <- El. rewrite skipn_app, Nat.sub_diag, skipn_all. reflexivity. }
  rewrite Hsk.
  rewrite GETOP_OP, GETARG_OP by (cbv; split; [discriminate | reflexivity]).
  destruct Hfl as [-> | ->]; reflexivity.
Qed.

End Dec.

(* ---------------------------------------------------------------- lists *)
Definition agree (a b : list Z) (lo hi : nat) : Prop :=
  forall j, lo <= j < hi -> nth_error a j = nth_error b j.

Lemma set_nth_length : forall l i v, List.length (set_nth l i v) = List.length l.
Proof. induction l; intros [|i] v; cbn; auto. Qed.

Lemma set_nth_same : forall l i v, i < List.length l -> nth_error (set_nth l i v) i = Some v.
Proof. induction l; intros [|i] v H; cbn in *; try lia; auto. apply IHl. lia. Qed.

Lemma set_nth_other : forall l i j v, i <> j -> nth_error (set_nth l i v) j = nth_error l j.
Proof. induction l; intros [|i] [|j] v H; cbn; auto; try congruence. Qed.

(* ---------------------------------------------------------------- the simple declarators *)
Section Decl.
(* the integer constants of the declaration context (macros and enumerators) *)
Variable gl : list (str * gkind).

(* a name used as an array length: a non-negative constant that fits in ssize_t *)
Definition const_len (n : str) : option Z :=
  match assoc_str gl n with
  | Some (GInt _ neg value) =>
    if (neg =? 0)%Z && (0 <=? value)%Z && (value <=? MAX_SSIZE_T)%Z then Some value else None
  | _ => None
  end.

Definition alen_val (a : alen) : option (option Z) :=
  match a with
  | ALOpen => Some None
  | ALLit t => match py_int t with
               | Some n => if (n <=? MAX_SSIZE_T)%Z then Some (Some n) else None
               | None => None
               end
  | ALName n => if ident_okb n then option_map Some (const_len n) else None
  end.

Definition hitem_plain (h : hitem) : bool := match h with HAbi _ => false | _ => true end.
Definition starts_star (d : decl) : bool :=
  match d with D (HStar :: _) _ _ _ _ => true | _ => false end.

Inductive sdecl : decl -> Prop :=
| SD0 : forall hdr arrays,
    forallb hitem_plain hdr = true -> Forall (fun a => alen_val a <> None) arrays ->
    sdecl (D hdr None None [] arrays)
| SD1 : forall hdr arrays d,
    forallb hitem_plain hdr = true -> Forall (fun a => alen_val a <> None) arrays ->
    sdecl d -> starts_star d = true ->
    sdecl (D hdr None (Some (None, d)) [] arrays)
(* a pointer to a function without parameters: hdr ( d ) ( )   or   hdr ( d ) ( void ),
   with __cdecl or __stdcall allowed after the first parenthesis *)
| SD2 : forall hdr d abi void,
    forallb hitem_plain hdr = true ->
    sdecl d -> starts_star d = true ->
    sdecl (D hdr None (Some (abi, d)) [F [] void false] []).

Definition hkind (h : hitem) : kind :=
  match h with HStar => KChar c_star | HQ q => qkind q | HAbi a => KKw (if a then K_stdcall else K_cdecl) end.

Definition alen_toks (a : alen) : kinds_texts :=
  match a with
  | ALOpen => [(KChar c_lbr, [c_lbr]); (KChar c_rbr, [c_rbr])]
  | ALLit t => [(KChar c_lbr, [c_lbr]); (KInteger, t); (KChar c_rbr, [c_rbr])]
  | ALName n => [(KChar c_lbr, [c_lbr]); (KIdent, n); (KChar c_rbr, [c_rbr])]
  end.

(* an empty parameter list *)
Definition fs_toks (f : fsuffix) : kinds_texts :=
  match f with
  | F _ void _ => [(KChar c_lpar, [c_lpar])] ++ (if void then [(KKw K_void, s2l "void")] else [])
                  ++ [(KChar c_rpar, [c_rpar])]
  end.

(* kinds and texts of the tokens of a simple declarator *)
Fixpoint sdecl_toks (d : decl) : kinds_texts :=
  match d with
  | D hdr _ group funcs arrays =>
    map (fun h => (hkind h, hitem_token h)) hdr
    ++ match group with
       | Some (None, d') => [(KChar c_lpar, [c_lpar])] ++ sdecl_toks d' ++ [(KChar c_rpar, [c_rpar])]
       | Some (Some a, d') => [(KChar c_lpar, [c_lpar]); (hkind (HAbi a), sp_abi a)]
                              ++ sdecl_toks d' ++ [(KChar c_rpar, [c_rpar])]
       | None => []
       end
    ++ List.concat (map fs_toks funcs)
    ++ List.concat (map alen_toks arrays)
  end.

Definition nstars (hdr : list hitem) : nat :=
  List.length (filter (fun h => match h with HStar => true | _ => false end) hdr).
Definition arr_ops (a : alen) : nat := match a with ALOpen => 1 | _ => 2 end.

Fixpoint nops (d : decl) : nat :=
  match d with
  | D hdr _ group funcs arrays =>
    nstars hdr + match group with Some (_, d') => S (nops d') | None => 0 end
    + 3 * List.length funcs + list_sum (map arr_ops arrays)
  end.

Definition lenval (a : alen) : option Z := match alen_val a with Some v => v | None => None end.

Definition wrap_ptrs (n : nat) (m : mty) : mty := Nat.iter n MPtr m.

(* the type a declarator builds around the base type *)
Fixpoint apply_decl (d : decl) (m : mty) : mty :=
  match d with
  | D hdr _ group funcs arrays =>
    let m1 := wrap_ptrs (nstars hdr) m in
    let m2 := fold_right (fun a acc => MArr acc (lenval a)) m1 arrays in
    let m3 := fold_right (fun _ acc => MFun acc [] false) m2 funcs in
    match group with
    | Some (_, d') => apply_decl d' m3
    | None => m3
    end
  end.

End Decl.

Lemma const_len_search gl n v : table_ok (map fst gl) -> const_len gl n = Some v ->
  exists gi e, search_sorted (map fst gl) n = Some gi /\ nth gi gl ([], GOther) = (n, GInt e 0 v) /\
               (v <= MAX_SSIZE_T)%Z.
Proof.
  intros Ht H. unfold const_len in H. destruct (assoc_str gl n) as [[e neg value|]|] eqn:E; try discriminate.
  destruct (neg =? 0)%Z eqn:E0; [|discriminate]. destruct (0 <=? value)%Z; [|discriminate].
  destruct (value <=? MAX_SSIZE_T)%Z eqn:E1; [|discriminate]. cbn in H. inversion H; subst.
  apply Z.eqb_eq in E0. subst. apply Z.leb_le in E1.
  destruct (assoc_some_nth _ _ _ E) as [gi Hi]. exists gi, e. split; [|split; [|exact E1]].
  - apply (search_member _ _ _ Ht). rewrite nth_error_map, Hi. reflexivity.
  - apply nth_error_nth with (d := ([], GOther)) in Hi. exact Hi.
Qed.

(* ---------------------------------------------------------------- running the model *)
Section Run.
Variable osz : nat.
Variable cx : ctx.
Variable g : genv.
Variable input : str.
Variable toks : kinds_texts.
Hypothesis L : lexed input toks.
Notation gl := (c_globals cx).
Hypothesis Hgl : table_ok (map fst gl).

Notation T := (T input).
Notation K := (K toks).
Notation Kat := (Kat toks).

Definition At (i : nat) (l : kinds_texts) : Prop :=
  forall j, j < List.length l -> nth_error toks (i + j) = nth_error l j.

Lemma At_app i a b : At i (a ++ b) -> At i a /\ At (i + List.length a) b.
Proof.
  intros H. split.
  - intros j Hj. rewrite (H j) by (rewrite app_length; lia). apply nth_error_app1. exact Hj.
  - intros j Hj. rewrite <- Nat.add_assoc. rewrite (H (List.length a + j)) by (rewrite app_length; lia).
    rewrite nth_error_app2 by lia. f_equal. lia.
Qed.

Lemma At_cons i x l : At i (x :: l) -> nth_error toks i = Some x /\ At (S i) l.
Proof.
  intros H. split.
  - specialize (H 0). cbn in H. rewrite Nat.add_0_r in H. apply H. lia.
  - intros j Hj. specialize (H (S j)). cbn in H. rewrite Nat.add_succ_r in H. apply H. lia.
Qed.

Lemma At_K i x : nth_error toks i = Some x -> K i = fst x.
Proof.
  intros H. unfold Parse.K.
  assert (Hi : i < List.length toks) by (apply nth_error_Some; congruence).
  rewrite (nth_indep _ KEnd (fst x)) by (rewrite map_length; exact Hi).
  rewrite map_nth. f_equal. apply nth_error_nth. exact H.
Qed.

Lemma At_text i x o : nth_error toks i = Some x ->
  tok_text (T i o) = snd x /\ t_size (T i o) = List.length (snd x).
Proof.
  intros H.
  assert (Hi : i < List.length toks) by (apply nth_error_Some; congruence).
  assert (E : nth i (map snd toks) [] = snd x).
  { rewrite (nth_indep _ [] (snd x)) by (rewrite map_length; exact Hi).
    rewrite map_nth. f_equal. apply nth_error_nth. exact H. }
  split.
  - rewrite T_text, (lx_text _ _ L) by exact Hi. exact E.
  - change (t_size (T i o)) with (t_size (st input i)). rewrite (lx_size _ _ L) by exact Hi. rewrite E. reflexivity.
Qed.

Lemma kind_T' i o : t_kind (T i o) = K i.
Proof. apply kind_T. exact L. Qed.

(* ---- write_ds *)
Lemma write_ds_ok i o ds : List.length o < osz ->
  write_ds osz (T i o) ds = Ok (T i (o ++ [ds]), Z.of_nat (List.length o)).
Proof.
  intros H. unfold write_ds. rewrite T_out.
  destruct (List.length o <? osz) eqn:E; [|apply Nat.ltb_ge in E; lia]. reflexivity.
Qed.

(* ---- header *)
Fixpoint hdr_out (hdr : list hitem) (o : list Z) (outer : Z) : list Z * Z :=
  match hdr with
  | [] => (o, outer)
  | HStar :: r => hdr_out r (o ++ [OP OP_POINTER outer]) (Z.of_nat (List.length o))
  | _ :: r => hdr_out r o outer
  end.

Lemma hdr_out_length : forall hdr o outer,
  List.length (fst (hdr_out hdr o outer)) = List.length o + nstars hdr.
Proof.
  induction hdr as [|h hdr IH]; intros o outer; cbn; [lia|].
  destruct h; unfold nstars in *; cbn [filter List.length]; rewrite IH; try rewrite app_length; cbn; lia.
Qed.

Definition stopper (k : kind) : Prop :=
  k = KEnd \/ k = KChar c_lpar \/ k = KChar c_rpar \/ k = KChar c_lbr.

Lemma header_run : forall hdr f i o outer abi,
  Kat i (map hkind hdr) -> forallb hitem_plain hdr = true ->
  stopper (K (i + List.length hdr)) ->
  List.length o + nstars hdr <= osz -> List.length hdr < f ->
  header osz f (T i o) outer abi =
  Ok (T (i + List.length hdr) (fst (hdr_out hdr o outer)), snd (hdr_out hdr o outer), abi).
Proof.
  induction hdr as [|h hdr IH]; intros f i o outer abi Hk Hp Hs Hroom Hf; destruct f as [|f]; try (cbn in Hf; lia).
  - cbn [List.length hdr_out fst snd] in *. rewrite Nat.add_0_r in *. cbn [header]. rewrite kind_T'.
    destruct Hs as [->|[->|[->| ->]]]; reflexivity.
  - cbn [map] in Hk. apply Kat_cons in Hk as [Hh Hk].
    cbn [forallb] in Hp. apply andb_true_iff in Hp as [Hp0 Hp].
    cbn [List.length] in *. rewrite Nat.add_succ_r in *.
    cbn [header]. rewrite kind_T', Hh.
    destruct h as [|q|a]; [| |discriminate].
    + cbn [hkind]. change (N.eqb c_star c_star) with true. cbv iota.
      unfold nstars in Hroom. cbn [filter List.length] in Hroom.
      rewrite write_ds_ok by lia. cbn [bind]. rewrite T_next.
      cbn [hdr_out]. apply IH; auto; try lia.
      rewrite app_length. cbn. unfold nstars. lia.
    + cbn [hdr_out]. destruct q; cbn [hkind qkind]; rewrite T_next; apply IH; auto; lia.
Qed.

(* ---- retarget *)
Definition retarget_pure (o : list Z) (pc : pcur) (result target : Z) : list Z * Z :=
  match pc with
  | PRes => (o, OP (GETOP result) target)
  | POut x => (set_nth o (Z.to_nat x) (OP (GETOP (nth (Z.to_nat x) o 0%Z)) target), result)
  end.

Definition pc_ok (o : list Z) (pc : pcur) : Prop :=
  match pc with PRes => True | POut x => (0 <= x < Z.of_nat (List.length o))%Z end.

Lemma retarget_ok i o pc result target : pc_ok o pc ->
  retarget (T i o) pc result target =
  Ok (T i (fst (retarget_pure o pc result target)), snd (retarget_pure o pc result target)).
Proof.
  intros H. unfold retarget, get_cur, set_cur, retarget_pure. destruct pc as [|x]; cbn [bind].
  - reflexivity.
  - cbn in H. unfold get_out, set_out. cbn [t_out Lexer.T with_out].
    assert (E : ((0 <=? x)%Z && (x <? Z.of_nat (List.length o))%Z)%bool = true).
    { apply andb_true_iff; split; [apply Z.leb_le | apply Z.ltb_lt]; lia. }
    rewrite E. cbn [bind]. reflexivity.
Qed.

Lemma retarget_pure_length o pc result target :
  List.length (fst (retarget_pure o pc result target)) = List.length o.
Proof. destruct pc; cbn; [reflexivity | apply set_nth_length]. Qed.

(* ---- brackets *)
Fixpoint finish_arrays (gl0 : list (str * gkind)) (arrs : list alen) (o : list Z) (pc : pcur) (result : Z) : list Z * pcur * Z :=
  match arrs with
  | [] => (o, pc, result)
  | a :: r =>
    let oi := Z.of_nat (List.length o) in
    let '(o1, r1) := retarget_pure o pc result oi in
    let o2 := o1 ++ match lenval gl0 a with
                    | Some n => [OP OP_ARRAY 0; n]
                    | None => [OP OP_OPEN_ARRAY 0]
                    end in
    finish_arrays gl0 r o2 (POut oi) r1
  end.

Lemma finish_arrays_length : forall arrs o pc result,
  Forall (fun a => alen_val gl a <> None) arrs ->
  List.length (fst (fst (finish_arrays gl arrs o pc result))) = List.length o + list_sum (map arr_ops arrs).
Proof.
  induction arrs as [|a arrs IH]; intros o pc result Hv; cbn [finish_arrays map list_sum]; [cbn; lia|].
  inversion Hv as [|? ? Ha Hv']; subst.
  destruct (retarget_pure o pc result (Z.of_nat (List.length o))) as [o1 r1] eqn:E.
  rewrite IH by exact Hv'. rewrite app_length.
  assert (List.length o1 = List.length o).
  { change o1 with (fst (o1, r1)). rewrite <- E. apply retarget_pure_length. }
  unfold lenval. destruct a as [|t|n]; cbn [alen_val arr_ops] in *.
  - cbn [List.length list_sum fold_right]. fold (list_sum (map arr_ops arrs)). lia.
  - destruct (py_int t) as [v|]; [|congruence]. destruct (v <=? MAX_SSIZE_T)%Z; [|congruence].
    cbn [List.length list_sum fold_right]. fold (list_sum (map arr_ops arrs)). lia.
  - destruct (ident_okb n); [|congruence]. destruct (const_len gl n) as [v|]; [|cbn in Ha; congruence].
    cbn [option_map List.length list_sum fold_right]. fold (list_sum (map arr_ops arrs)). lia.
Qed.

Definition not_lbr (k : kind) : Prop := k <> KChar c_lbr.

Lemma brackets_run : forall arrs f i o pc result,
  At i (List.concat (map alen_toks arrs)) -> Forall (fun a => alen_val gl a <> None) arrs ->
  not_lbr (K (i + List.length (List.concat (map alen_toks arrs)))) ->
  pc_ok o pc ->
  List.length o + list_sum (map arr_ops arrs) <= osz -> List.length arrs < f ->
  brackets osz cx f (T i o) pc result =
  Ok (T (i + List.length (List.concat (map alen_toks arrs))) (fst (fst (finish_arrays gl arrs o pc result))),
      snd (fst (finish_arrays gl arrs o pc result)), snd (finish_arrays gl arrs o pc result)).
Proof.
  induction arrs as [|a arrs IH]; intros f i o pc result Hat Hv Hstop Hpc Hroom Hf;
    destruct f as [|f]; try (cbn in Hf; lia).
  - cbn [map List.concat List.length finish_arrays fst snd] in *. rewrite Nat.add_0_r in *.
    cbn [brackets]. unfold is_ch. rewrite kind_T'.
    destruct (kind_eqb (K i) (KChar c_lbr)) eqn:E; [|reflexivity].
    exfalso. apply Hstop. destruct (K i) as [| | | | |c|k]; try discriminate.
    cbn in E. apply N.eqb_eq in E. subst. reflexivity.
  - cbn [map List.concat] in Hat. apply At_app in Hat as [Ha Hat].
    inversion Hv as [|? ? Hva Hv']; subst.
    change (list_sum (map arr_ops (a :: arrs))) with (arr_ops a + list_sum (map arr_ops arrs)) in Hroom.
    cbn [List.length] in Hf.
    cbn [map List.concat] in Hstop. rewrite app_length, Nat.add_assoc in Hstop.
    cbn [map List.concat]. rewrite app_length, Nat.add_assoc.
    cbn [finish_arrays].
    pose proof (retarget_ok i o pc result (Z.of_nat (List.length o)) Hpc) as Hret.
    destruct (retarget_pure o pc result (Z.of_nat (List.length o))) as [o1 r1] eqn:Erp. cbn [fst snd] in Hret.
    assert (Hl1 : List.length o1 = List.length o).
    { change o1 with (fst (o1, r1)). rewrite <- Erp. apply retarget_pure_length. }
    assert (Hpc' : forall e extra, pc_ok (o1 ++ e :: extra) (POut (Z.of_nat (List.length o)))).
    { intros e extra. cbn. rewrite app_length. cbn. lia. }
    destruct a as [|t|n].
    + (* [] *)
      cbn [alen_toks] in Ha. apply At_cons in Ha as [H0 Ha]. apply At_cons in Ha as [H1 _].
      cbn [brackets]. unfold is_ch. rewrite kind_T', (At_K _ _ H0). cbn [fst kind_eqb].
      rewrite N.eqb_refl. cbv iota zeta. rewrite !T_out. rewrite Hret. cbn [bind]. rewrite T_next.
      rewrite kind_T', (At_K _ _ H1). cbn [fst kind_eqb]. rewrite N.eqb_refl. cbn [negb].
      cbn [arr_ops] in Hroom.
      rewrite write_ds_ok by lia. cbn [bind].
      rewrite kind_T', (At_K _ _ H1). cbn [fst kind_eqb]. rewrite N.eqb_refl. cbn [negb].
      rewrite T_next. cbn [alen_toks List.length lenval alen_val].
      replace (i + 2) with (S (S i)) by lia.
      rewrite IH; auto; try lia.
      * replace (S (S i)) with (i + 2) by lia. exact Hat.
      * replace (S (S i)) with (i + 2) by lia. exact Hstop.
      * rewrite app_length. cbn. lia.
    + (* [ literal ] *)
      cbn [alen_toks] in Ha. apply At_cons in Ha as [H0 Ha]. apply At_cons in Ha as [H1 Ha].
      apply At_cons in Ha as [H2 _].
      cbn [alen_val] in Hva.
      destruct (py_int t) as [v|] eqn:Epy; [|congruence].
      destruct (v <=? MAX_SSIZE_T)%Z eqn:Emax; [|congruence].
      cbn [brackets]. unfold is_ch. rewrite kind_T', (At_K _ _ H0). cbn [fst kind_eqb].
      rewrite N.eqb_refl. cbv iota zeta. rewrite !T_out. rewrite Hret. cbn [bind]. rewrite T_next.
      rewrite kind_T', (At_K _ _ H1). cbn [fst kind_eqb negb].
      unfold array_length. rewrite kind_T', (At_K _ _ H1). cbn [fst].
      destruct (At_text _ _ o1 H1) as [Htx Hsz]. cbn [snd] in Htx, Hsz.
      rewrite Htx, (py_int_strtoull _ _ Epy), Hsz, Nat.eqb_refl. cbn [negb].
      rewrite Z.gtb_ltb.
      replace (MAX_SSIZE_T <? v)%Z with false by (symmetry; apply Z.ltb_ge; apply Z.leb_le; exact Emax).
      cbn [bind]. rewrite T_next.
      cbn [arr_ops] in Hroom.
      rewrite write_ds_ok by lia. cbn [bind].
      rewrite write_ds_ok by (rewrite app_length; cbn; lia). cbn [bind].
      rewrite kind_T', (At_K _ _ H2). cbn [fst kind_eqb]. rewrite N.eqb_refl. cbn [negb].
      rewrite T_next. cbn [alen_toks List.length]. unfold lenval. cbn [alen_val]. rewrite Epy, Emax.
      replace (i + 3) with (S (S (S i))) by lia. rewrite <- app_assoc. cbn [app].
      rewrite IH; auto; try lia.
      * replace (S (S (S i))) with (i + 3) by lia. exact Hat.
      * replace (S (S (S i))) with (i + 3) by lia. exact Hstop.
      * rewrite app_length. cbn. lia.
    + (* [ name ] *)
      cbn [alen_toks] in Ha. apply At_cons in Ha as [H0 Ha]. apply At_cons in Ha as [H1 Ha].
      apply At_cons in Ha as [H2 _].
      cbn [alen_val] in Hva.
      destruct (ident_okb n) eqn:Eid; [|congruence].
      destruct (const_len gl n) as [v|] eqn:Ec; [|cbn in Hva; congruence].
      destruct (const_len_search _ _ _ Hgl Ec) as (gi & e & Hs & Hn & Hmax).
      cbn [brackets]. unfold is_ch. rewrite kind_T', (At_K _ _ H0). cbn [fst kind_eqb].
      rewrite N.eqb_refl. cbv iota zeta. rewrite !T_out. rewrite Hret. cbn [bind]. rewrite T_next.
      rewrite kind_T', (At_K _ _ H1). cbn [fst kind_eqb negb].
      unfold array_length. rewrite kind_T', (At_K _ _ H1). cbn [fst].
      destruct (At_text _ _ o1 H1) as [Htx Hsz]. cbn [snd] in Htx, Hsz.
      rewrite Htx, Hs, Hn. cbn [snd]. rewrite Z.eqb_refl. cbn [andb orb].
      rewrite Z.gtb_ltb.
      replace (MAX_SSIZE_T <? v)%Z with false by (symmetry; apply Z.ltb_ge; exact Hmax).
      cbn [bind]. rewrite T_next.
      cbn [arr_ops] in Hroom.
      rewrite write_ds_ok by lia. cbn [bind].
      rewrite write_ds_ok by (rewrite app_length; cbn; lia). cbn [bind].
      rewrite kind_T', (At_K _ _ H2). cbn [fst kind_eqb]. rewrite N.eqb_refl. cbn [negb].
      rewrite T_next. cbn [alen_toks List.length]. unfold lenval. cbn [alen_val]. rewrite Eid, Ec.
      cbn [option_map].
      replace (i + 3) with (S (S (S i))) by lia. rewrite <- app_assoc. cbn [app].
      rewrite IH; auto; try lia.
      * replace (S (S (S i))) with (i + 3) by lia. exact Hat.
      * replace (S (S (S i))) with (i + 3) by lia. exact Hstop.
      * rewrite app_length. cbn. lia.
Qed.

End Run.
