(* C07 — the tokens of the grammar are lexemes; C and Python read integer literals alike. *)
From Coq Require Import List Arith NArith ZArith Lia Bool String.
Import ListNotations.
From Cffi Require Import C25.Model C07.Model C07.Realize C07.PyModel C07.Lexer.

Local Open Scope nat_scope.

Lemma span_app_all (f : N -> bool) : forall tl rest,
  forallb f tl = true -> match rest with [] => True | c :: _ => f c = false end ->
  span f (tl ++ rest) = List.length tl.
Proof.
  induction tl as [|c tl IH]; intros rest Hall Hr.
  - cbn [app List.length]. destruct rest as [|c r]; cbn [span]; [reflexivity | rewrite Hr; reflexivity].
  - cbn [forallb] in Hall. apply andb_true_iff in Hall as [Hc Hall].
    cbn [app span List.length]. rewrite Hc. f_equal. apply IH; auto.
Qed.

Lemma wordy_end_cons c tl : forallb is_ident_next (c :: tl) = true -> wordy_end (c :: tl) = true.
Proof.
  intros H. unfold wordy_end.
  assert (Hr : forallb is_ident_next (rev (c :: tl)) = true).
  { rewrite forallb_forall in *. intros x Hx. apply H. apply in_rev. exact Hx. }
  destruct (rev (c :: tl)) as [|x r] eqn:E.
  - apply (f_equal (@List.length N)) in E. rewrite rev_length in E. discriminate.
  - cbn in Hr. apply andb_true_iff in Hr as [Hx _]. exact Hx.
Qed.

Definition word_kind (s : str) : kind :=
  match kw_of s with Some k => KKw k | None => KIdent end.

Lemma ident_lexeme : forall c tl,
  is_ident_first c = true -> forallb is_ident_next tl = true ->
  lexeme (c :: tl) (word_kind (c :: tl)).
Proof.
  intros c tl Hc Htl. split; [discriminate|].
  intros rest Hstop.
  assert (Hw : wordy_end (c :: tl) = true).
  { apply wordy_end_cons. cbn. rewrite Htl. unfold is_ident_next. rewrite Hc. reflexivity. }
  specialize (Hstop Hw).
  cbn [app lex_from]. rewrite Hc.
  rewrite (span_app_all is_ident_next tl rest Htl).
  - change (c :: tl ++ rest) with ((c :: tl) ++ rest).
    replace (S (List.length tl)) with (List.length (c :: tl)) by reflexivity.
    rewrite firstn_app, Nat.sub_diag, firstn_all. cbn [firstn]. rewrite app_nil_r. reflexivity.
  - destruct rest; [exact I | exact Hstop].
Qed.

Lemma punct_lexeme : forall c,
  is_ident_first c = false -> is_space c = false -> is_digit c = false -> N.eqb c c_dot = false ->
  N.eqb c 0 = false -> lexeme [c] (KChar c).
Proof.
  intros c H1 H2 H3 H4 H5. split; [discriminate|]. intros rest _.
  cbn [app lex_from]. rewrite H1, H2, H3, H4, H5. reflexivity.
Qed.

(* ---------------------------------------------------------------- integer literals *)
Local Open Scope Z_scope.

Lemma digits_all : forall base s acc n,
  all_digits base s = true ->
  snd (digits base s acc n) = (n + List.length s)%nat /\
  fst (digits base s acc n) = fst (digits base s acc O).
Proof.
  induction s as [|c s IH]; intros acc n H; cbn in *.
  - split; [lia | reflexivity].
  - apply andb_true_iff in H as [Hc H].
    destruct (digit_val c) as [d|]; [|discriminate]. rewrite Hc.
    destruct (IH (acc * base + d) (S n) H) as [A B].
    destruct (IH (acc * base + d) 1%nat H) as [_ B1].
    split; [rewrite A; lia | rewrite B, B1; reflexivity].
Qed.

Lemma hex_is_hex : forall c, (match digit_val c with Some d => d <? 16 | None => false end) = true ->
  is_hex_digit c = true.
Proof.
  intros c. unfold digit_val, is_hex_digit.
  destruct (in_range 48 57 c); [reflexivity|].
  destruct (in_range 65 70 c); [reflexivity|].
  destruct (in_range 97 102 c); [reflexivity|]. discriminate.
Qed.

Lemma digit_lt_hex : forall base c, base <= 16 ->
  (match digit_val c with Some d => d <? base | None => false end) = true -> is_hex_digit c = true.
Proof.
  intros base c Hb H. apply hex_is_hex. destruct (digit_val c); [|discriminate].
  apply Z.ltb_lt in H. apply Z.ltb_lt. lia.
Qed.

Lemma all_digits_hex : forall base s, base <= 16 -> all_digits base s = true ->
  forallb is_hex_digit s = true.
Proof.
  intros base s Hb H. unfold all_digits in H. rewrite forallb_forall in *.
  intros x Hx. eapply digit_lt_hex; eauto.
Qed.

Lemma hex_ident_next c : is_hex_digit c = true -> is_ident_next c = true.
Proof.
  unfold is_hex_digit, is_ident_next, is_ident_first, is_digit, in_range. intros H.
  repeat (apply orb_true_iff in H as [H|H]); apply andb_true_iff in H as [A B];
    apply N.leb_le in A; apply N.leb_le in B.
  - replace (48 <=? c)%N with true by (symmetry; apply N.leb_le; lia).
    replace (c <=? 57)%N with true by (symmetry; apply N.leb_le; lia).
    rewrite !orb_true_r. reflexivity.
  - replace (65 <=? c)%N with true by (symmetry; apply N.leb_le; lia).
    replace (c <=? 90)%N with true by (symmetry; apply N.leb_le; lia). reflexivity.
  - replace (97 <=? c)%N with true by (symmetry; apply N.leb_le; lia).
    replace (c <=? 122)%N with true by (symmetry; apply N.leb_le; lia).
    rewrite !orb_true_r. reflexivity.
Qed.

Lemma stops_not_hex rest : stops rest ->
  match rest with [] => True | c :: _ => is_hex_digit c = false end.
Proof.
  destruct rest as [|c r]; [trivial|]. cbn. intros H.
  destruct (is_hex_digit c) eqn:E; [|reflexivity].
  apply hex_ident_next in E. congruence.
Qed.

Lemma is_digit_facts c : is_digit c = true ->
  is_ident_first c = false /\ is_space c = false /\ is_ident_next c = true.
Proof.
  unfold is_digit, is_ident_first, is_space, is_ident_next, is_digit, in_range. intros H.
  apply andb_true_iff in H as [A B]. apply N.leb_le in A. apply N.leb_le in B.
  assert (E : forall a b, (a <=? c)%N && (c <=? b)%N = false \/ (48 <= a <= 57 /\ True)%N -> True) by trivial.
  repeat split.
  - replace (65 <=? c)%N with false by (symmetry; apply N.leb_gt; lia).
    replace (97 <=? c)%N with false by (symmetry; apply N.leb_gt; lia).
    replace (c =? 95)%N with false by (symmetry; apply N.eqb_neq; lia).
    replace (c =? 36)%N with false by (symmetry; apply N.eqb_neq; lia). reflexivity.
  - replace (c =? 32)%N with false by (symmetry; apply N.eqb_neq; lia).
    replace (c =? 12)%N with false by (symmetry; apply N.eqb_neq; lia).
    replace (c =? 10)%N with false by (symmetry; apply N.eqb_neq; lia).
    replace (c =? 13)%N with false by (symmetry; apply N.eqb_neq; lia).
    replace (c =? 9)%N with false by (symmetry; apply N.eqb_neq; lia).
    replace (c =? 11)%N with false by (symmetry; apply N.eqb_neq; lia). reflexivity.
  - replace (48 <=? c)%N with true by (symmetry; apply N.leb_le; lia).
    replace (c <=? 57)%N with true by (symmetry; apply N.leb_le; lia).
    rewrite orb_true_r. reflexivity.
Qed.

(* the shape of an integer token: a digit, then (x|X)? , then hex digits *)
Lemma int_lexeme_shape : forall d tl,
  is_digit d = true ->
  (match tl with
   | c1 :: tl2 => if (N.eqb c1 120 || N.eqb c1 88)%bool then forallb is_hex_digit tl2 = true
                  else forallb is_hex_digit tl = true
   | [] => True
   end) ->
  lexeme (d :: tl) KInteger.
Proof.
  intros d tl Hd Hshape. split; [discriminate|]. intros rest Hstop.
  destruct (is_digit_facts d Hd) as (F1 & F2 & F3).
  assert (Hall : forallb is_ident_next (d :: tl) = true \/ True) by (right; exact I).
  cbn [app lex_from]. rewrite F1, F2, Hd.
  assert (Hw : wordy_end (d :: tl) = true -> stops rest) by exact Hstop.
  assert (Hstop' : stops rest).
  { apply Hw. unfold wordy_end.
    destruct tl as [|c1 tl2]; [cbn; exact F3|].
    assert (Hlast : forall x l, rev (d :: c1 :: tl2) = x :: l -> is_ident_next x = true).
    { intros x l E.
      assert (In x (d :: c1 :: tl2)) by (apply in_rev; rewrite E; left; reflexivity).
      destruct H as [<-|[<-|Hin]]; [exact F3| |].
      - destruct (N.eqb c1 120 || N.eqb c1 88)%bool eqn:Ex.
        + apply orb_true_iff in Ex as [Ex|Ex]; apply N.eqb_eq in Ex; subst; reflexivity.
        + cbn in Hshape. apply andb_true_iff in Hshape as [Hc _]. apply hex_ident_next; exact Hc.
      - apply hex_ident_next.
        destruct (N.eqb c1 120 || N.eqb c1 88)%bool.
        + rewrite forallb_forall in Hshape. apply Hshape; exact Hin.
        + cbn in Hshape. apply andb_true_iff in Hshape as [_ Hs].
          rewrite forallb_forall in Hs. apply Hs; exact Hin. }
    destruct (rev (d :: c1 :: tl2)) as [|x l] eqn:E; [|eapply Hlast; reflexivity].
    apply (f_equal (@List.length N)) in E. rewrite rev_length in E. discriminate. }
  pose proof (stops_not_hex rest Hstop') as Hnh.
  destruct tl as [|c1 tl2].
  - cbn [app]. destruct rest as [|r0 rest'].
    + reflexivity.
    + cbn in Hstop'.
      assert (Hx : (N.eqb r0 120 || N.eqb r0 88)%bool = false).
      { destruct (N.eqb r0 120) eqn:E1; [apply N.eqb_eq in E1; subst; discriminate|].
        destruct (N.eqb r0 88) eqn:E2; [apply N.eqb_eq in E2; subst; discriminate|]. reflexivity. }
      rewrite Hx. cbn [skipn span]. cbn in Hnh. rewrite Hnh. reflexivity.
  - cbn [app]. destruct (N.eqb c1 120 || N.eqb c1 88)%bool eqn:Ex.
    + cbn [skipn]. rewrite (span_app_all is_hex_digit tl2 rest Hshape Hnh). reflexivity.
    + cbn [skipn]. change (c1 :: tl2 ++ rest) with ((c1 :: tl2) ++ rest).
      rewrite (span_app_all is_hex_digit (c1 :: tl2) rest Hshape Hnh). reflexivity.
Qed.

(* what the in-line parser accepts as an array length literal is a single C token, and
   strtoull(.., 0) reads all of it to the same value *)
Lemma py_int_lexeme : forall text n, py_int text = Some n -> lexeme text KInteger.
Proof.
  intros text n H. unfold py_int in H.
  destruct text as [|c0 tl]; [discriminate|].
  destruct (N.eq_dec c0 48) as [->|Hne].
  - destruct tl as [|c1 s2].
    + apply int_lexeme_shape; [reflexivity | exact I].
    + destruct (N.eqb c1 120 || N.eqb c1 88)%bool eqn:Ex.
      * destruct s2 as [|c2 s3]; [discriminate|].
        destruct (all_digits 16 (c2 :: s3)) eqn:Ea; [|discriminate].
        apply int_lexeme_shape; [reflexivity|]. rewrite Ex.
        apply (all_digits_hex 16); [lia | exact Ea].
      * destruct (all_digits 8 (c1 :: s2)) eqn:Ea; [|discriminate].
        apply int_lexeme_shape; [reflexivity|]. rewrite Ex.
        apply (all_digits_hex 8); [lia | exact Ea].
  - assert (H' : (if is_digit c0 && all_digits 10 (c0 :: tl)
                  then Some (fst (digits 10 (c0 :: tl) 0 O)) else None) = Some n).
    { destruct c0 as [|p]; [exact H|].
      do 6 (destruct p as [p|p|]; try exact H). exfalso; apply Hne; reflexivity. }
    clear H. destruct (is_digit c0) eqn:Ed; [|discriminate]. cbn [andb] in H'.
    destruct (all_digits 10 (c0 :: tl)) eqn:Ea; [|discriminate].
    apply int_lexeme_shape; [exact Ed|].
    destruct tl as [|c1 tl2]; [exact I|].
    assert (Hh : forallb is_hex_digit (c1 :: tl2) = true).
    { apply (all_digits_hex 10); [lia|]. cbn in Ea. apply andb_true_iff in Ea as [_ Ea]. exact Ea. }
    destruct (N.eqb c1 120 || N.eqb c1 88)%bool eqn:Ex; [|exact Hh].
    exfalso. cbn in Ea. apply andb_true_iff in Ea as [_ Ea]. apply andb_true_iff in Ea as [Ec _].
    apply orb_true_iff in Ex as [Ex|Ex]; apply N.eqb_eq in Ex; subst; discriminate.
Qed.

Lemma py_int_strtoull : forall text n, py_int text = Some n ->
  strtoull0 text = (n, List.length text).
Proof.
  intros text n H. unfold py_int in H. unfold strtoull0.
  destruct text as [|c0 tl]; [discriminate|].
  destruct (N.eq_dec c0 48) as [->|Hne].
  - destruct tl as [|c1 s2].
    + inversion H; reflexivity.
    + destruct (N.eqb c1 120 || N.eqb c1 88)%bool eqn:Ex.
      * destruct s2 as [|c2 s3]; [discriminate|].
        destruct (all_digits 16 (c2 :: s3)) eqn:Ea; [|discriminate].
        inversion H; subst n; clear H.
        assert (Hc2 : is_hex_digit c2 = true).
        { apply (all_digits_hex 16) in Ea; [|lia]. cbn in Ea. apply andb_true_iff in Ea as [E _]. exact E. }
        rewrite Hc2. cbn [andb].
        destruct (digits_all 16 (c2 :: s3) 0 2%nat Ea) as [A B].
        destruct (digits 16 (c2 :: s3) 0 2) as [v u] eqn:E. cbn in A, B. subst. reflexivity.
      * destruct (all_digits 8 (c1 :: s2)) eqn:Ea; [|discriminate].
        inversion H; subst n; clear H. cbn [andb].
        destruct (digits_all 8 (c1 :: s2) 0 1%nat Ea) as [A B].
        destruct (digits 8 (c1 :: s2) 0 1) as [v u] eqn:E. cbn in A, B. subst. reflexivity.
  - assert (H' : (if is_digit c0 && all_digits 10 (c0 :: tl)
                  then Some (fst (digits 10 (c0 :: tl) 0 O)) else None) = Some n).
    { destruct c0 as [|p]; [exact H|].
      do 6 (destruct p as [p|p|]; try exact H). exfalso; apply Hne; reflexivity. }
    clear H. destruct (is_digit c0 && all_digits 10 (c0 :: tl)) eqn:Ea; [|discriminate].
    apply andb_true_iff in Ea as [_ Ea]. inversion H'; subst n; clear H'.
    assert (G : digits 10 (c0 :: tl) 0 0 = (fst (digits 10 (c0 :: tl) 0 0), List.length (c0 :: tl))).
    { destruct (digits_all 10 (c0 :: tl) 0 O Ea) as [A _].
      destruct (digits 10 (c0 :: tl) 0 0) as [v u]. cbn in *. subst. reflexivity. }
    destruct c0 as [|p]; [exact G|].
    do 6 (destruct p as [p|p|]; try exact G). exfalso; apply Hne; reflexivity.
Qed.
