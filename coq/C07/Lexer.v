(* C07 — lemmas about next_token: a spelled token list is read back token by token.

   `st input i` is the parser state positioned on the i-th token of `input` (i applications of
   next_token after the initial one).  `lexed input toks` says that these states carry the
   kinds and texts of `toks`, then TOK_END for ever.  The main lemma `spell_lexed` shows it for
   `spell wtoks trailing` whenever every token is a lexeme of its kind and adjacent tokens that
   would merge are separated by white space (`sep_ok`). *)
From Coq Require Import List Arith NArith ZArith Lia Bool.
Import ListNotations.
From Cffi Require Import C25.Model C07.Model C07.Realize C07.PyModel.

Local Open Scope nat_scope.

Lemma iter_succ_r {A} (f : A -> A) n x : Nat.iter (S n) f x = Nat.iter n f (f x).
Proof. induction n; cbn in *; [reflexivity | rewrite IHn; reflexivity]. Qed.

Definition st0 (input : str) : tok := mkTok input 0 0 KStart [].
Definition st (input : str) (i : nat) : tok := Nat.iter (S i) next_token (st0 input).

Lemma next_token_with_out t o : next_token (with_out t o) = with_out (next_token t) o.
Proof.
  unfold next_token, with_out; cbn.
  destruct (lex_from (skipn (t_size t) (t_rest t))) as [[k n] kd]; reflexivity.
Qed.

Lemma st_S input i : st input (S i) = next_token (st input i).
Proof. reflexivity. Qed.

Lemma t_out_next t : t_out (next_token t) = t_out t.
Proof.
  unfold next_token. destruct (lex_from (skipn (t_size t) (t_rest t))) as [[k n] kd]; reflexivity.
Qed.

Lemma st_out input i : t_out (st input i) = [].
Proof.
  induction i.
  - unfold st; cbn. rewrite t_out_next. reflexivity.
  - rewrite st_S, t_out_next. exact IHi.
Qed.

(* the parser state: lexer position i, output o *)
Definition T (input : str) (i : nat) (o : list Z) : tok := with_out (st input i) o.

Lemma T_next input i o : next_token (T input i o) = T input (S i) o.
Proof. unfold T. rewrite next_token_with_out. reflexivity. Qed.
Lemma T_out input i o : t_out (T input i o) = o.
Proof. reflexivity. Qed.
Lemma T_kind input i o : t_kind (T input i o) = t_kind (st input i).
Proof. reflexivity. Qed.
Lemma T_text input i o : tok_text (T input i o) = tok_text (st input i).
Proof. reflexivity. Qed.
Lemma T_with_out input i o o' : with_out (T input i o) o' = T input i o'.
Proof. reflexivity. Qed.
Lemma start_tok_T input o : start_tok input o = T input 0 o.
Proof.
  unfold start_tok, T, st, st0. cbn [Nat.iter].
  change (mkTok input 0 0 KStart o) with (with_out (mkTok input 0 0 KStart []) o).
  apply next_token_with_out.
Qed.

(* ---------------------------------------------------------------- lexemes *)
(* s is read as one token of kind k whatever follows, provided what follows does not extend it *)
Definition stops (rest : str) : Prop :=
  match rest with [] => True | c :: _ => is_ident_next c = false end.

Definition lexeme (s : str) (k : kind) : Prop :=
  s <> [] /\
  forall rest, (wordy_end s = true -> stops rest) -> lex_from (s ++ rest) = (0, length s, k).

Lemma lex_skip_ws : forall w x, is_ws w = true ->
  lex_from (w ++ x) = let '(k, n, kd) := lex_from x in (length w + k, n, kd).
Proof.
  induction w as [|c w IH]; intros x Hw.
  - cbn. destruct (lex_from x) as [[k n] kd]; reflexivity.
  - cbn in Hw. apply andb_true_iff in Hw as [Hc Hw].
    cbn [app lex_from].
    assert (Hf : is_ident_first c = false).
    { unfold is_space in Hc. unfold is_ident_first, in_range.
      repeat (apply orb_true_iff in Hc as [Hc|Hc]); apply N.eqb_eq in Hc; subst; reflexivity. }
    rewrite Hf, Hc, (IH x Hw).
    destruct (lex_from x) as [[k n] kd]; reflexivity.
Qed.

Lemma lex_all_ws : forall w, is_ws w = true -> lex_from w = (length w, 0, KEnd).
Proof.
  intros w Hw. rewrite <- (app_nil_r w) at 1. rewrite lex_skip_ws by exact Hw.
  cbn. rewrite Nat.add_0_r. reflexivity.
Qed.

(* ---------------------------------------------------------------- reading a spelled list *)
Fixpoint seps (prev : str) (wtoks : list (str * str)) : Prop :=
  match wtoks with
  | [] => True
  | (w, s) :: rest =>
    is_ws w = true /\ (wordy_end prev = true -> wordy_start s = true -> w <> []) /\ seps s rest
  end.

Lemma sep_ok_seps : forall wtoks prev, sep_ok prev wtoks = true -> seps prev wtoks.
Proof.
  induction wtoks as [|[w s] rest IH]; intros prev H; cbn in *; [exact I|].
  apply andb_true_iff in H as [H H3]. apply andb_true_iff in H as [H1 H2].
  repeat split; auto.
  intros He Hs Hw. subst w. rewrite He, Hs in H2. discriminate.
Qed.

Lemma ws_first_stops : forall w x, is_ws w = true -> w <> [] -> stops (w ++ x).
Proof.
  intros [|c w] x Hw Hne; [congruence|]. cbn in *.
  apply andb_true_iff in Hw as [Hc _].
  unfold is_space in Hc. unfold is_ident_next, is_ident_first, is_digit, in_range.
  repeat (apply orb_true_iff in Hc as [Hc|Hc]); apply N.eqb_eq in Hc; subst; reflexivity.
Qed.

Lemma stops_spell : forall prev wtoks trailing,
  seps prev wtoks -> is_ws trailing = true -> Forall (fun wt => snd wt <> []) wtoks ->
  wordy_end prev = true -> stops (spell wtoks trailing).
Proof.
  intros prev [|[w s] rest] trailing Hs Ht Hne He; unfold spell; cbn.
  - destruct trailing as [|c tr]; [exact I|].
    apply (ws_first_stops (c :: tr) []); [exact Ht | discriminate].
  - destruct Hs as (Hw & Hsep & _).
    destruct w as [|c w].
    + cbn. inversion Hne; subst. cbn in H1. destruct s as [|c s]; [congruence|]. cbn.
      destruct (is_ident_next c) eqn:E; [|reflexivity].
      exfalso. apply (Hsep He); [cbn; exact E | reflexivity].
    + rewrite <- !app_assoc. apply ws_first_stops; [exact Hw | discriminate].
Qed.

Definition kinds_texts := list (kind * str).

Record lexed (input : str) (toks : kinds_texts) : Prop := {
  lx_kind : forall i, t_kind (st input i) = nth i (map fst toks) KEnd;
  lx_text : forall i, i < length toks -> tok_text (st input i) = nth i (map snd toks) [];
  lx_size : forall i, i < length toks -> t_size (st input i) = length (nth i (map snd toks) [])
}.

(* invariant of the scan: the current token is s and what follows is spell more trailing *)
Lemma scan_spelled : forall more s k t trailing,
  t_rest t = s ++ spell more trailing -> t_size t = length s -> t_kind t = k ->
  seps s more -> is_ws trailing = true ->
  Forall (fun wt => exists k', lexeme (snd wt) k') more ->
  forall (kinds : list kind), Forall2 (fun wt k' => lexeme (snd wt) k') more kinds ->
  forall j,
    t_kind (Nat.iter j next_token t) = nth j (k :: kinds) KEnd /\
    (j < S (length more) -> tok_text (Nat.iter j next_token t) = nth j (s :: map snd more) [] /\
                            t_size (Nat.iter j next_token t) = length (nth j (s :: map snd more) [])).
Proof.
  induction more as [|[w s'] more IH]; intros s k t trailing Hr Hsz Hk Hsep Htr Hlex kinds Hk2 j.
  - inversion Hk2; subst kinds.
    assert (Hend : forall j t, t_rest t = skipn 0 (t_rest t) -> t_kind t = KEnd -> t_size t = 0 ->
                               is_ws (t_rest t) = true ->
                               t_kind (Nat.iter j next_token t) = KEnd).
    { clear. induction j; intros t _ Hk Hs Hw; [exact Hk|].
      rewrite iter_succ_r.
      apply IHj; try reflexivity.
      - unfold next_token. rewrite Hs. cbn [skipn]. rewrite (lex_all_ws _ Hw). reflexivity.
      - unfold next_token. rewrite Hs. cbn [skipn]. rewrite (lex_all_ws _ Hw). reflexivity.
      - unfold next_token. rewrite Hs. cbn [skipn]. rewrite (lex_all_ws _ Hw). cbn.
        rewrite skipn_all. reflexivity. }
    destruct j as [|j].
    + cbn. split; [exact Hk|]. intros _. split; [|exact Hsz]. unfold tok_text. rewrite Hr, Hsz.
      unfold spell; cbn. rewrite firstn_app, Nat.sub_diag, firstn_all. cbn. apply app_nil_r.
    + split.
      * rewrite iter_succ_r.
        destruct j; cbn [nth].
        -- cbn. unfold next_token. rewrite Hr, Hsz. unfold spell; cbn.
           rewrite skipn_app, Nat.sub_diag, skipn_all. cbn. rewrite (lex_all_ws _ Htr). reflexivity.
        -- replace (nth j [] KEnd) with KEnd by (destruct j; reflexivity).
           apply Hend; try reflexivity.
           ++ unfold next_token. rewrite Hr, Hsz. unfold spell; cbn.
              rewrite skipn_app, Nat.sub_diag, skipn_all. cbn. rewrite (lex_all_ws _ Htr). reflexivity.
           ++ unfold next_token. rewrite Hr, Hsz. unfold spell; cbn.
              rewrite skipn_app, Nat.sub_diag, skipn_all. cbn. rewrite (lex_all_ws _ Htr). reflexivity.
           ++ unfold next_token. rewrite Hr, Hsz. unfold spell; cbn.
              rewrite skipn_app, Nat.sub_diag, skipn_all. cbn. rewrite (lex_all_ws _ Htr). cbn.
              rewrite skipn_all. reflexivity.
      * cbn. lia.
  - inversion Hk2 as [|? k' ? kinds' Hl Hk2']; subst.
    destruct Hsep as (Hw & Hsep & Hsep').
    inversion Hlex as [|? ? _ Hlex']; subst.
    destruct j as [|j].
    + cbn. split; [first [exact Hk | reflexivity]|]. intros _. split; [|exact Hsz]. unfold tok_text. rewrite Hr, Hsz.
      rewrite firstn_app, Nat.sub_diag, firstn_all. cbn. apply app_nil_r.
    + rewrite iter_succ_r.
      assert (Hnt : next_token t = mkTok (s' ++ spell more trailing) (t_pos t + t_size t + length w)
                                         (length s') k' (t_out t)).
      { unfold next_token. rewrite Hr, Hsz, skipn_app, Nat.sub_diag, skipn_all. cbn [app skipn].
        unfold spell. cbn [map concat fst snd]. rewrite <- !app_assoc.
        rewrite lex_skip_ws by exact Hw.
        destruct Hl as [Hne Hl]. cbn [snd] in *.
        rewrite Hl.
        - rewrite Nat.add_0_r. rewrite skipn_app, Nat.sub_diag, skipn_all. reflexivity.
        - intros He. apply (stops_spell s' more trailing); auto.
          clear - Hlex'. induction Hlex' as [|x l [k'' [Hn _]] _ IHl]; constructor; auto. }
      destruct (IH s' k' (next_token t) trailing) with (kinds := kinds') (j := j) as [H1 H2]; auto.
      * rewrite Hnt. reflexivity.
      * rewrite Hnt. reflexivity.
      * rewrite Hnt. reflexivity.
      * split; [exact H1|]. intros Hj. cbn [length map] in *. apply H2. lia.
Qed.

Theorem spell_lexed : forall wtoks trailing kinds,
  seps [] wtoks -> is_ws trailing = true ->
  Forall2 (fun wt k => lexeme (snd wt) k) wtoks kinds ->
  lexed (spell wtoks trailing) (combine kinds (map snd wtoks)).
Proof.
  intros wtoks trailing kinds Hsep Htr Hk.
  assert (Hlen : length kinds = length wtoks).
  { clear - Hk. induction Hk; cbn; congruence. }
  assert (Hlex : Forall (fun wt => exists k', lexeme (snd wt) k') wtoks).
  { clear - Hk. induction Hk; constructor; eauto. }
  pose proof (scan_spelled wtoks [] KStart (st0 (spell wtoks trailing)) trailing
                eq_refl eq_refl eq_refl Hsep Htr Hlex kinds Hk) as H.
  assert (Hm1 : map fst (combine kinds (map snd wtoks)) = kinds).
  { clear - Hlen. revert wtoks Hlen. induction kinds; intros [|x w] H; cbn in *; try congruence.
    f_equal. apply IHkinds. lia. }
  assert (Hm2 : map snd (combine kinds (map snd wtoks)) = map snd wtoks).
  { clear - Hlen. revert wtoks Hlen. induction kinds; intros [|x w] H; cbn in *; try congruence.
    f_equal. apply IHkinds. lia. }
  constructor.
  - intros i. rewrite Hm1. unfold st. destruct (H (S i)) as [H1 _]. exact H1.
  - intros i Hi. rewrite Hm2. unfold st. destruct (H (S i)) as [_ H2].
    rewrite combine_length, map_length in Hi.
    apply H2. lia.
  - intros i Hi. rewrite Hm2. unfold st. destruct (H (S i)) as [_ H2].
    rewrite combine_length, map_length in Hi.
    apply H2. lia.
Qed.
