(* C07 — the model of parse_complete follows c_spec_run on a lexed token list. *)
From Coq Require Import List Arith NArith ZArith Lia Bool String.
Import ListNotations.
From Cffi Require Import C25.Model C07.Model C07.Realize C07.PyModel C07.Lexer C07.Tokens C07.Specs.

Local Open Scope nat_scope.

Definition is_err {A} (r : res A) : Prop := match r with Err _ _ => True | _ => False end.

Lemma is_err_bind {A B} (r : res A) (f : A -> res B) : is_err r -> is_err (bind r f).
Proof. destruct r; cbn; tauto. Qed.

(* unfolding equations of the mutual fixpoint *)
Section Unfold.
Variable osz : nat.
Variable cx : ctx.

Lemma parse_from_S f input out :
  parse_from osz cx (S f) input out =
  bind (parse_complete osz cx f (start_tok input out)) (fun '(t1, result) =>
    if negb (kind_eqb (t_kind t1) KEnd) then parse_error t1 E_unexpected
    else Ok (t_out t1, result)).
Proof. reflexivity. Qed.

Lemma parse_sequel_S f t outer :
  parse_sequel osz cx (S f) t outer =
  bind (header osz f t outer None) (fun '(t1, outer1, abi) =>
    let '(t2, cfg) := match t_kind t1 with
                      | KIdent => (next_token t1, 0%Z)
                      | _ => (t1, 1%Z)
                      end in
    bind (parens osz cx f t2 PRes 0%Z abi cfg) (fun '(t3, pc, result, abi3) =>
      if match abi3 with Some _ => true | None => false end then parse_error t3 E_lparen
      else
        bind (brackets osz cx f t3 pc result) (fun '(t4, pc4, result4) =>
          bind (retarget t4 pc4 result4 outer1) (fun '(t5, result5) =>
            Ok (t5, GETARG result5))))).
Proof. reflexivity. Qed.

End Unfold.

Section Run.
Variable osz : nat.
Variable cx : ctx.
Variable input : str.
Variable toks : kinds_texts.
Hypothesis L : lexed input toks.

Definition K (i : nat) : kind := nth i (map fst toks) KEnd.
Notation T := (T input).

Lemma kind_T i o : t_kind (T i o) = K i.
Proof. rewrite T_kind. apply (lx_kind _ _ L). Qed.

Definition Kat (i : nat) (l : list kind) : Prop :=
  forall j, j < List.length l -> K (i + j) = nth j l KEnd.

Lemma Kat_cons i k l : Kat i (k :: l) -> K i = k /\ Kat (S i) l.
Proof.
  intros H. split.
  - specialize (H 0). cbn in H. rewrite Nat.add_0_r in H. apply H. lia.
  - intros j Hj. specialize (H (S j)). cbn in H. rewrite Nat.add_succ_r in H. apply H. lia.
Qed.

Lemma Kat_app i a b : Kat i (a ++ b) -> Kat i a /\ Kat (i + List.length a) b.
Proof.
  intros H. split.
  - intros j Hj. rewrite (H j) by (rewrite app_length; lia). apply app_nth1. exact Hj.
  - intros j Hj. rewrite <- Nat.add_assoc. rewrite (H (List.length a + j)) by (rewrite app_length; lia).
    rewrite app_nth2 by lia. f_equal. lia.
Qed.

Definition follower (k : kind) : Prop :=
  k = KEnd \/ (exists c, k = KChar c) \/ k = KKw K_const \/ k = KKw K_volatile.
Definition follower_nq (k : kind) : Prop := k = KEnd \/ (exists c, k = KChar c).

(* ---- qualifiers: *)
Lemma qualifiers_run : forall qs f i o,
  Kat i (map qkind qs) -> K (i + List.length qs) <> KKw K_const -> K (i + List.length qs) <> KKw K_volatile ->
  List.length qs < f ->
  qualifiers f (T i o) = Ok (T (i + List.length qs) o).
Proof.
  induction qs as [|q qs IH]; intros f i o Hk H1 H2 Hf; destruct f as [|f]; try (cbn in Hf; lia).
  - cbn [List.length] in *. rewrite Nat.add_0_r in *. cbn [qualifiers]. rewrite kind_T.
    destruct (K i) as [| | | | |c|[]]; try reflexivity; congruence.
  - cbn [map] in Hk. apply Kat_cons in Hk as [Hq Hk].
    cbn [qualifiers]. rewrite kind_T, Hq, T_next.
    cbn [List.length] in *. rewrite Nat.add_succ_r in *.
    destruct q; cbn [qkind]; apply IH; auto; lia.
Qed.

(* ---- modifiers: *)
Lemma not_follower_word k w : follower k -> k <> wkind w.
Proof.
  intros [->|[[c ->]|[->| ->]]]; destruct w as [[]|[]|]; discriminate.
Qed.

Lemma modifiers_run : forall ws f i o mlen msign,
  Kat i (map wkind ws) -> follower (K (i + List.length ws)) -> List.length ws < f ->
  match c_mods ws mlen msign with
  | Some (n, a, b) =>
    modifiers f (T i o) mlen msign = Ok (T (i + n) o, a, b) /\ n <= List.length ws /\
    (forall w r, skipn n ws = w :: r -> forall m, w <> WM m)
  | None => is_err (modifiers f (T i o) mlen msign)
  end.
Proof.
  induction ws as [|w ws IH]; intros f i o mlen msign Hk Hfol Hf; destruct f as [|f]; try (cbn in Hf; lia).
  - cbn [c_mods List.length] in *. rewrite Nat.add_0_r in *. split; [|split; [lia | intros; discriminate]].
    cbn [modifiers]. rewrite kind_T.
    destruct Hfol as [->|[[c ->]|[->| ->]]]; reflexivity.
  - cbn [map] in Hk. apply Kat_cons in Hk as [Hw Hk].
    cbn [List.length] in *. rewrite Nat.add_succ_r in Hfol.
    assert (Hf' : List.length ws < f) by lia.
    destruct w as [[]|b|].
    + (* signed *)
      cbn [c_mods modifiers]. rewrite kind_T, Hw. cbn [wkind kw_of_word kw_of_mod].
      destruct (negb (msign =? 0)%Z); [exact I|]. rewrite T_next.
      specialize (IH f (S i) o mlen (msign + 1)%Z Hk Hfol Hf').
      destruct (c_mods ws mlen (msign + 1)) as [[[n a] b]|]; [|exact IH].
      destruct IH as (A & B & C). rewrite Nat.add_succ_r. repeat split; [exact A | lia | exact C].
    + cbn [c_mods modifiers]. rewrite kind_T, Hw. cbn [wkind kw_of_word kw_of_mod].
      destruct (negb (msign =? 0)%Z); [exact I|]. rewrite T_next.
      specialize (IH f (S i) o mlen (msign - 1)%Z Hk Hfol Hf').
      destruct (c_mods ws mlen (msign - 1)) as [[[n a] b]|]; [|exact IH].
      destruct IH as (A & B & C). rewrite Nat.add_succ_r. repeat split; [exact A | lia | exact C].
    + cbn [c_mods modifiers]. rewrite kind_T, Hw. cbn [wkind kw_of_word kw_of_mod].
      destruct (negb (mlen =? 0)%Z); [exact I|]. rewrite T_next.
      specialize (IH f (S i) o (mlen - 1)%Z msign Hk Hfol Hf').
      destruct (c_mods ws (mlen - 1) msign) as [[[n a] b]|]; [|exact IH].
      destruct IH as (A & B & C). rewrite Nat.add_succ_r. repeat split; [exact A | lia | exact C].
    + cbn [c_mods modifiers]. rewrite kind_T, Hw. cbn [wkind kw_of_word kw_of_mod].
      destruct (mlen <? 0)%Z; [exact I|]. destruct (mlen >=? 2)%Z; [exact I|]. rewrite T_next.
      specialize (IH f (S i) o (mlen + 1)%Z msign Hk Hfol Hf').
      destruct (c_mods ws (mlen + 1) msign) as [[[n a] b]|]; [|exact IH].
      destruct IH as (A & B & C). rewrite Nat.add_succ_r. repeat split; [exact A | lia | exact C].
    + cbn [c_mods]. rewrite Nat.add_0_r. split; [|split; [lia|]].
      * cbn [modifiers]. rewrite kind_T, Hw. destruct b; reflexivity.
      * intros w r E m. cbn in E. inversion E; subst. discriminate.
    + cbn [c_mods]. rewrite Nat.add_0_r. split; [|split; [lia|]].
      * cbn [modifiers]. rewrite kind_T, Hw. reflexivity.
      * intros w r E m. cbn in E. inversion E; subst. discriminate.
Qed.

Lemma Kat_skipn : forall ws i n w r, Kat i (map wkind ws) -> skipn n ws = w :: r ->
  K (i + n) = wkind w /\ skipn (S n) ws = r /\ n < List.length ws.
Proof.
  intros ws i n w r Hk E.
  assert (Hn : n < List.length ws).
  { destruct (le_lt_dec (List.length ws) n) as [H|H]; [|exact H]. rewrite skipn_all2 in E by exact H. discriminate. }
  assert (Hnth : nth n ws WComplex = w).
  { rewrite <- (firstn_skipn n ws) at 1. rewrite app_nth2; rewrite firstn_length_le by lia; [|lia].
    rewrite Nat.sub_diag, E. reflexivity. }
  split; [|split; [|exact Hn]].
  - rewrite (Hk n) by (rewrite map_length; exact Hn).
    rewrite (nth_indep _ KEnd (wkind WComplex)) by (rewrite map_length; exact Hn).
    rewrite map_nth. rewrite Hnth. reflexivity.
  - clear - E. revert ws E. induction n; intros [|x ws] E; cbn in *; try discriminate.
    + inversion E; reflexivity.
    + apply IHn; exact E.
Qed.

Lemma skipn_nil_len {A} : forall n (l : list A), skipn n l = [] -> n <= List.length l -> n = List.length l.
Proof.
  intros n l E H. destruct (Nat.eq_dec n (List.length l)); [assumption|].
  assert (List.length (skipn n l) = List.length l - n) by apply skipn_length.
  rewrite E in H0. cbn in H0. lia.
Qed.

(* kind tests on followers *)
Lemma follower_is_kw k kw0 : follower k -> kw0 <> K_const -> kw0 <> K_volatile ->
  kind_eqb k (KKw kw0) = false.
Proof.
  intros [->|[[c ->]|[->| ->]]] H1 H2; try reflexivity; destruct kw0; try reflexivity; congruence.
Qed.

(* ---- the whole specifier part of parse_complete *)
Lemma parse_complete_specs : forall q1 ws f i o,
  Kat i (map qkind q1 ++ map wkind ws) -> ws <> [] ->
  follower (K (i + List.length q1 + List.length ws)) ->
  List.length q1 + List.length ws + 2 < f ->
  match c_spec_run ws with
  | Some (op, n) =>
    n <= List.length ws /\
    parse_complete osz cx (S f) (T i o) =
    bind (write_ds osz (T (i + List.length q1 + n) o) op) (fun '(t7, idx) => parse_sequel osz cx f t7 idx)
  | None => is_err (parse_complete osz cx (S f) (T i o))
  end.
Proof.
  intros q1 ws f i o Hk Hne Hfol Hf.
  apply Kat_app in Hk as [Hq Hw]. rewrite map_length in Hw.
  assert (Hq1 : qualifiers f (T i o) = Ok (T (i + List.length q1) o)).
  { destruct ws as [|w0 ws']; [congruence|]. cbn [map] in Hw. apply Kat_cons in Hw as [Hw0 _].
    apply qualifiers_run; auto; try lia; rewrite Hw0; destruct w0 as [[]|[]|]; discriminate. }
  set (p := i + List.length q1) in *.
  pose proof (modifiers_run ws f p o 0%Z 0%Z Hw Hfol ltac:(lia)) as Hm.
  unfold c_spec_run.
  change (parse_complete osz cx (S f) (T i o)) with
    (bind (qualifiers f (T i o)) (fun t1 =>
     bind (modifiers f t1 0%Z 0%Z) (fun '(t2, mlen, msign) =>
     bind (if (negb (mlen =? 0)%Z || negb (msign =? 0)%Z)%bool then
             bind (base_with_modifiers t2 mlen msign) (fun '(t3, op) => Ok (t3, op, 0%Z))
           else
             bind (base_plain cx (parse_from osz cx f) t2) (fun '(t3, op, cplx) => Ok (next_token t3, op, cplx)))
          (fun '(t5, t1op, t1complex) =>
     bind (if is_kw t5 K_Complex then
             if (t1complex =? 0)%Z then parse_error t5 E_complex
             else Ok (next_token t5, t1complex)
           else Ok (t5, t1op)) (fun '(t6, t1op6) =>
     bind (write_ds osz t6 t1op6) (fun '(t7, idx) => parse_sequel osz cx f t7 idx)))))).
  rewrite Hq1. cbn [bind].
  destruct (c_mods ws 0 0) as [[[n1 mlen] msign]|]; [|apply is_err_bind; exact Hm].
  destruct Hm as (Hm & Hn1 & Hnm). rewrite Hm. cbn [bind].
  (* the token after the modifiers *)
  assert (Hcur : match skipn n1 ws with
                 | w :: r => K (p + n1) = wkind w /\ skipn (S n1) ws = r /\ n1 < List.length ws /\ (forall m, w <> WM m)
                 | [] => n1 = List.length ws
                 end).
  { destruct (skipn n1 ws) as [|w r] eqn:E.
    - apply skipn_nil_len; auto.
    - destruct (Kat_skipn ws p n1 w r Hw E) as (A & B & C). repeat split; auto. eapply Hnm; eauto. }
  unfold c_base.
  destruct (negb (mlen =? 0)%Z || negb (msign =? 0)%Z)%bool eqn:Emods.
  - (* with modifiers *)
    unfold base_with_modifiers. rewrite kind_T.
    destruct (skipn n1 ws) as [|w r] eqn:E.
    + subst n1. rewrite skipn_all2 by lia.
      destruct Hfol as [Hf0|[[c Hf0]|[Hf0|Hf0]]]; rewrite Hf0; cbv beta iota; cbn [bind];
        unfold is_kw; rewrite kind_T, Hf0; cbn [kind_eqb kw_eqb bind];
        (split; [lia|]; rewrite Nat.add_0_r; reflexivity).
    + destruct Hcur as (Hk1 & Hr & Hlt & Hnm1). rewrite Hk1.
      destruct w as [m|b|]; [exfalso; eapply Hnm1; reflexivity| |exact I].
      destruct b; cbn [wkind kw_of_word kw_of_base]; try exact I.
      * (* int *)
        cbn [bind]. rewrite T_next. unfold is_kw. rewrite kind_T.
        replace (n1 + 1) with (S n1) by lia.
        destruct (skipn (S n1) ws) as [|w2 r2] eqn:E2.
        -- assert (S n1 = List.length ws) by (apply skipn_nil_len; auto; lia).
           replace (S (p + n1)) with (p + List.length ws) by lia.
           rewrite (follower_is_kw _ K_Complex Hfol) by discriminate. cbn [bind].
           split; [lia|]. replace (p + List.length ws) with (i + List.length q1 + S n1) by (unfold p; lia). reflexivity.
        -- destruct (Kat_skipn ws p (S n1) w2 r2 Hw E2) as (A & B & C).
           replace (S (p + n1)) with (p + S n1) by lia. rewrite A.
           destruct w2 as [[]|[]|]; cbn [wkind kw_of_word kw_of_mod kw_of_base kind_eqb kw_eqb bind];
             try (split; [lia|]; replace (p + S n1) with (i + List.length q1 + S n1) by (unfold p; lia); reflexivity).
           exact I.
      * (* char *)
        destruct (negb (mlen =? 0)%Z); [exact I|].
        cbn [bind]. rewrite T_next. unfold is_kw. rewrite kind_T.
        replace (n1 + 1) with (S n1) by lia.
        destruct (skipn (S n1) ws) as [|w2 r2] eqn:E2.
        -- assert (S n1 = List.length ws) by (apply skipn_nil_len; auto; lia).
           replace (S (p + n1)) with (p + List.length ws) by lia.
           rewrite (follower_is_kw _ K_Complex Hfol) by discriminate. cbn [bind].
           split; [lia|]. replace (p + List.length ws) with (i + List.length q1 + S n1) by (unfold p; lia). reflexivity.
        -- destruct (Kat_skipn ws p (S n1) w2 r2 Hw E2) as (A & B & C).
           replace (S (p + n1)) with (p + S n1) by lia. rewrite A.
           destruct w2 as [[]|[]|]; cbn [wkind kw_of_word kw_of_mod kw_of_base kind_eqb kw_eqb bind];
             try (split; [lia|]; replace (p + S n1) with (i + List.length q1 + S n1) by (unfold p; lia); reflexivity).
           exact I.
      * (* double *)
        destruct (negb (msign =? 0)%Z || negb (mlen =? 1)%Z)%bool; [exact I|].
        cbn [bind]. rewrite T_next. unfold is_kw. rewrite kind_T.
        replace (n1 + 1) with (S n1) by lia.
        destruct (skipn (S n1) ws) as [|w2 r2] eqn:E2.
        -- assert (S n1 = List.length ws) by (apply skipn_nil_len; auto; lia).
           replace (S (p + n1)) with (p + List.length ws) by lia.
           rewrite (follower_is_kw _ K_Complex Hfol) by discriminate. cbn [bind].
           split; [lia|]. replace (p + List.length ws) with (i + List.length q1 + S n1) by (unfold p; lia). reflexivity.
        -- destruct (Kat_skipn ws p (S n1) w2 r2 Hw E2) as (A & B & C).
           replace (S (p + n1)) with (p + S n1) by lia. rewrite A.
           destruct w2 as [[]|[]|]; cbn [wkind kw_of_word kw_of_mod kw_of_base kind_eqb kw_eqb bind];
             try (split; [lia|]; replace (p + S n1) with (i + List.length q1 + S n1) by (unfold p; lia); reflexivity).
           exact I.
  - (* no modifier *)
    unfold base_plain. rewrite kind_T.
    destruct (skipn n1 ws) as [|w r] eqn:E.
    + subst n1.
      destruct Hfol as [Hf0|[[c Hf0]|[Hf0|Hf0]]]; rewrite Hf0; exact I.
    + destruct Hcur as (Hk1 & Hr & Hlt & Hnm1). rewrite Hk1.
      destruct w as [m|b|]; [exfalso; eapply Hnm1; reflexivity| |exact I].
      assert (Hstep : forall op cplx,
        match
          match skipn (n1 + 1) ws with
          | WComplex :: _ => if (cplx =? 0)%Z then None else Some (cplx, S (n1 + 1))
          | _ => Some (op, n1 + 1)
          end
        with
        | Some (op', n) =>
          n <= List.length ws /\
          bind (if is_kw (T (S (p + n1)) o) K_Complex
                then if (cplx =? 0)%Z then parse_error (T (S (p + n1)) o) E_complex
                     else Ok (next_token (T (S (p + n1)) o), cplx)
                else Ok (T (S (p + n1)) o, op))
               (fun '(t6, t1op6) => bind (write_ds osz t6 t1op6) (fun '(t7, idx) => parse_sequel osz cx f t7 idx))
          = bind (write_ds osz (T (i + List.length q1 + n) o) op')
                 (fun '(t7, idx) => parse_sequel osz cx f t7 idx)
        | None =>
          is_err (bind (if is_kw (T (S (p + n1)) o) K_Complex
                        then if (cplx =? 0)%Z then parse_error (T (S (p + n1)) o) E_complex
                             else Ok (next_token (T (S (p + n1)) o), cplx)
                        else Ok (T (S (p + n1)) o, op))
                       (fun '(t6, t1op6) => bind (write_ds osz t6 t1op6)
                                                 (fun '(t7, idx) => parse_sequel osz cx f t7 idx)))
        end).
      { intros op cplx. replace (n1 + 1) with (S n1) by lia.
        unfold is_kw. rewrite kind_T.
        destruct (skipn (S n1) ws) as [|w2 r2] eqn:E2.
        - assert (S n1 = List.length ws) by (apply skipn_nil_len; auto; lia).
          replace (S (p + n1)) with (p + List.length ws) by lia.
          rewrite (follower_is_kw _ K_Complex Hfol) by discriminate. cbn [bind].
          split; [lia|]. replace (p + List.length ws) with (i + List.length q1 + S n1) by (unfold p; lia). reflexivity.
        - destruct (Kat_skipn ws p (S n1) w2 r2 Hw E2) as (A & B & C).
          replace (S (p + n1)) with (p + S n1) by lia. rewrite A.
          destruct w2 as [[]|[]|]; cbn [wkind kw_of_word kw_of_mod kw_of_base kind_eqb kw_eqb bind];
            try (split; [lia|]; replace (p + S n1) with (i + List.length q1 + S n1) by (unfold p; lia); reflexivity).
          destruct (cplx =? 0)%Z; [exact I|]. cbn [bind]. rewrite T_next.
          split; [lia|]. replace (S (p + S n1)) with (i + List.length q1 + S (S n1)) by (unfold p; lia). reflexivity. }
      destruct b; cbn [wkind kw_of_word kw_of_base bind]; rewrite T_next; apply Hstep.
Qed.

End Run.
