(* C07 — the hand-written tables of C07.Model / C07.Realize ARE the ones regenerated into C07/Gen.v from
   src/c/parse_c_type.c, src/cffi/parse_c_type.h, src/cffi/cffi_opcode.py, src/c/realize_c_type.c,
   src/c/ffi_obj.c and src/c/commontypes.c on every run: each lemma below is closed by computation and
   stops compiling when the source table (hence Gen.v) changes. *)
From Coq Require Import List NArith ZArith Bool String.
Import ListNotations.
From Cffi Require Import C25.Model C07.Model C07.Realize C07.Gen.
Local Open Scope Z_scope.

(* next_token()'s keyword switch *)
Lemma gen_keywords_pinned : C07.Gen.keywords = C07.Model.keywords.
Proof. reflexivity. Qed.

Lemma gen_kw_of : forall s, kw_of s = assoc_str C07.Gen.keywords s.
Proof. intros s. unfold kw_of. rewrite gen_keywords_pinned. reflexivity. Qed.

(* the opcode numbers the model uses, by the name they have in parse_c_type.h / cffi_opcode.py *)
Definition model_ops : list (str * Z) :=
  [ (s2l "PRIMITIVE", OP_PRIMITIVE); (s2l "POINTER", OP_POINTER); (s2l "ARRAY", OP_ARRAY);
    (s2l "OPEN_ARRAY", OP_OPEN_ARRAY); (s2l "STRUCT_UNION", OP_STRUCT_UNION); (s2l "ENUM", OP_ENUM);
    (s2l "FUNCTION", OP_FUNCTION); (s2l "FUNCTION_END", OP_FUNCTION_END); (s2l "NOOP", OP_NOOP);
    (s2l "TYPENAME", OP_TYPENAME); (s2l "CONSTANT_INT", OP_CONSTANT_INT) ]%string.

Definition op_row_ok (row : str * Z) : bool :=
  match assoc_str C07.Gen.c_ops (fst row), assoc_str C07.Gen.py_ops (fst row) with
  | Some a, Some b => (a =? snd row) && (b =? snd row)
  | _, _ => false
  end.

Lemma gen_ops_pinned_b : forallb op_row_ok model_ops = true.
Proof. vm_compute. reflexivity. Qed.

Lemma gen_ops_pinned : forall n v, In (n, v) model_ops ->
  assoc_str C07.Gen.c_ops n = Some v /\ assoc_str C07.Gen.py_ops n = Some v.
Proof.
  intros n v H. pose proof (proj1 (forallb_forall _ _) gen_ops_pinned_b _ H) as Hb.
  unfold op_row_ok in Hb. cbn [fst snd] in Hb.
  destruct (assoc_str C07.Gen.c_ops n) as [a|]; [|discriminate].
  destruct (assoc_str C07.Gen.py_ops n) as [b|]; [|discriminate].
  apply andb_true_iff in Hb as [Ha Hb]. apply Z.eqb_eq in Ha, Hb. subst. split; reflexivity.
Qed.

(* _CFFI_OP_* (C header) and OP_* (Python) are the same table *)
Lemma gen_ops_c_eq_py : C07.Gen.c_ops = C07.Gen.py_ops.
Proof. reflexivity. Qed.

(* every opcode number is odd and below 256: _CFFI_GETOP = low byte is faithful *)
Lemma gen_ops_small : forallb (fun row => (0 <? snd row) && (snd row <? 256) && Z.odd (snd row)) C07.Gen.c_ops = true.
Proof. vm_compute. reflexivity. Qed.

(* realize_c_type()'s recursion limit and ffi_obj.c's output buffer size *)
Lemma gen_realize_fuel_pinned : Z.of_nat realize_fuel = realize_recursion_limit.
Proof. vm_compute. reflexivity. Qed.

Lemma gen_complexity_pinned : ffi_complexity_output = 1200.
Proof. reflexivity. Qed.

(* commontypes.c, the rows compiled on non-Windows *)
Lemma gen_common_types_pinned : C07.Gen.common_simple_types = C07.Model.common_simple_types.
Proof. reflexivity. Qed.

Lemma gen_tables_pinned :
  C07.Gen.keywords = C07.Model.keywords /\
  forallb op_row_ok model_ops = true /\
  C07.Gen.c_ops = C07.Gen.py_ops /\
  Z.of_nat realize_fuel = realize_recursion_limit /\
  ffi_complexity_output = 1200 /\
  C07.Gen.common_simple_types = C07.Model.common_simple_types.
Proof.
  split; [exact gen_keywords_pinned|]. split; [exact gen_ops_pinned_b|]. split; [exact gen_ops_c_eq_py|].
  split; [exact gen_realize_fuel_pinned|]. split; [exact gen_complexity_pinned | exact gen_common_types_pinned].
Qed.
