(* C07 — agreement of the two specifier readers (exhaustive check up to 6 keywords + both reject longer lists) *)
From Coq Require Import List Arith NArith ZArith Lia Bool String.
Import ListNotations.
From Cffi Require Import C25.Model C07.Model C07.Realize C07.PyModel C07.Lexer C07.Tokens C07.Specs.
Local Open Scope Z_scope.

Lemma agree_small : forallb agree_on (lists_upto 6) = true.
Proof. vm_compute. reflexivity. Qed.

(* "any ordering of primitive specifiers": both parsers accept the same keyword lists, with the
   same primitive type, and reject the same ones *)
Theorem spec_agree : forall ws, ws <> [] -> sign_ok ws = true ->
  c_spec_abs ws = option_map (OP OP_PRIMITIVE) (py_spec_abs ws).
Proof.
  intros ws Hne Hs.
  destruct (le_lt_dec (List.length ws) 6) as [Hle|Hgt].
  - pose proof agree_small as H. rewrite forallb_forall in H.
    specialize (H ws (lists_upto_complete 6 ws Hle)).
    unfold agree_on in H. destruct ws as [|w ws]; [congruence|].
    rewrite Hs in H. cbn [negb orb] in H.
    destruct (c_spec_abs (w :: ws)) as [a|], (py_spec_abs (w :: ws)) as [b|]; cbn [option_map];
      try discriminate; try reflexivity.
    apply Z.eqb_eq in H. subst a. reflexivity.
  - assert (A : c_spec_abs ws = None).
    { destruct (c_spec_abs ws) eqn:E; [|reflexivity]. apply c_spec_abs_short in E. lia. }
    assert (B : py_spec_abs ws = None).
    { unfold py_spec_abs. destruct (assoc_words py_prims (normalise ws)) eqn:E; [|reflexivity].
      apply py_prims_short in E. pose proof (normalise_length ws). pose proof (sign_ok_count ws Hs). lia. }
    rewrite A, B. reflexivity.
Qed.
