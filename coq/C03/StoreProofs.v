(* C03 — proofs about C03/Store.v (independent of regenerated files). *)
From Coq Require Import ZArith Znumtheory List Bool Lia ZifyBool.
From Cffi Require Export C03.MemProofs.
From Cffi Require Import C03.Store.
Import ListNotations.
Open Scope Z_scope.

(* sizes 1..8 bytes, made concrete so that every power of two is a numeral for lia *)
Lemma size_cases (s : nat) : (1 <= s <= 8)%nat ->
  s = 1%nat \/ s = 2%nat \/ s = 3%nat \/ s = 4%nat \/ s = 5%nat \/ s = 6%nat \/ s = 7%nat \/ s = 8%nat.
Proof. lia. Qed.

Ltac Zify.zify_post_hook ::= Z.to_euclidean_division_equations.

Definition encode_int (T : ity) (v : Z) : list Z := write_raw (isize T) v.

(* ------------------------------------------------------------------ convert_from_object *)

Lemma signed_fits_iff s v : (1 <= s <= 8)%nat -> - 2 ^ 63 <= v < 2 ^ 63 ->
  let n := 8 * Z.of_nat s in
  let u := v mod 2 ^ n in
  (v =? (if u <? 2 ^ (n - 1) then u else u - 2 ^ n)) = ((- 2 ^ (n - 1) <=? v) && (v <=? 2 ^ (n - 1) - 1)).
Proof.
  intros Hs Hv. destruct (size_cases s Hs) as [-> | [-> | [-> | [-> | [-> | [-> | [-> | ->]]]]]]];
    cbv zeta; cbn [Z.of_nat Pos.of_succ_nat Pos.succ Z.mul Pos.mul Z.sub Z.add Z.opp Z.pos_sub Pos.pred_double];
    match goal with |- context [?a mod ?m] =>
      let u := fresh "u" in
      pose proof (Z.mod_pos_bound a m ltac:(lia));
      pose proof (Z.div_mod a m ltac:(lia));
      set (u := a mod m) in *; set (q := a / m) in *; clearbody u q end;
    match goal with |- context [if ?c then _ else _] => destruct c eqn:?E end; lia.
Qed.

Lemma unsigned_fits_iff s v : (1 <= s <= 8)%nat -> 0 <= v < 2 ^ 64 ->
  let n := 8 * Z.of_nat s in
  (v =? v mod 2 ^ n) = ((0 <=? v) && (v <=? 2 ^ n - 1)).
Proof.
  intros Hs Hv. destruct (size_cases s Hs) as [-> | [-> | [-> | [-> | [-> | [-> | [-> | ->]]]]]]];
    cbv zeta; cbn [Z.of_nat Pos.of_succ_nat Pos.succ Z.mul Pos.mul Z.sub Z.add Z.opp Z.pos_sub Pos.pred_double];
    match goal with |- context [?a mod ?m] =>
      pose proof (Z.mod_pos_bound a m ltac:(lia));
      pose proof (Z.div_mod a m ltac:(lia));
      set (u := a mod m) in *; set (q := a / m) in *; clearbody u q end;
    lia.
Qed.

Definition wf_ity (T : ity) : Prop :=
  (1 <= isize T <= 8)%nat /\ (ibool T = true -> isigned T = false).

(* The store is exact: accepted iff in range, then the target holds the encoding of v; otherwise
   OverflowError and the target is untouched. *)
Theorem store_exact T v data : wf_ity T ->
  convert_from_object_int T v data =
  if in_range T v then (Ok tt, encode_int T v) else (Err OverflowError, data).
Proof.
  intros [Hs Hb]. unfold convert_from_object_int, in_range, encode_int, tbits.
  destruct (isigned T) eqn:Hsg.
  - assert (ibool T = false) as -> by (destruct (ibool T); auto; discriminate (Hb eq_refl)).
    unfold as_longlong.
    destruct ((- 2 ^ 63 <=? v) && (v <? 2 ^ 63)) eqn:Hll.
    + rewrite read_signed_write by lia. cbv zeta.
      rewrite signed_fits_iff by lia.
      destruct ((- 2 ^ (8 * Z.of_nat (isize T) - 1) <=? v) && (v <=? 2 ^ (8 * Z.of_nat (isize T) - 1) - 1));
        reflexivity.
    + (* beyond long long: certainly out of T's range *)
      assert (2 ^ (8 * Z.of_nat (isize T) - 1) <= 2 ^ 63) by (apply Z.pow_le_mono_r; lia).
      destruct ((- 2 ^ (8 * Z.of_nat (isize T) - 1) <=? v) && (v <=? 2 ^ (8 * Z.of_nat (isize T) - 1) - 1)) eqn:E;
        [exfalso; lia | reflexivity].
  - unfold as_ulonglong_strict.
    destruct (v <? 0) eqn:Hneg.
    + destruct (ibool T).
      * destruct ((0 <=? v) && (v <=? 1)) eqn:E; [exfalso; lia | reflexivity].
      * destruct ((0 <=? v) && (v <=? 2 ^ (8 * Z.of_nat (isize T)) - 1)) eqn:E; [exfalso; lia | reflexivity].
    + assert (2 ^ (8 * Z.of_nat (isize T)) <= 2 ^ 64) by (apply Z.pow_le_mono_r; lia).
      destruct (v <? 2 ^ 64) eqn:Hbig.
      * destruct (ibool T).
        -- destruct (1 <? v) eqn:E1; destruct ((0 <=? v) && (v <=? 1)) eqn:E2; try reflexivity; exfalso; lia.
        -- rewrite read_unsigned_write by lia.
           rewrite unsigned_fits_iff by lia.
           destruct ((0 <=? v) && (v <=? 2 ^ (8 * Z.of_nat (isize T)) - 1)); reflexivity.
      * destruct (ibool T).
        -- destruct ((0 <=? v) && (v <=? 1)) eqn:E; [exfalso; lia | reflexivity].
        -- destruct ((0 <=? v) && (v <=? 2 ^ (8 * Z.of_nat (isize T)) - 1)) eqn:E; [exfalso; lia | reflexivity].
Qed.

(* reading the stored bytes gives v back *)
Theorem read_encode T v : wf_ity T -> in_range T v = true -> read_int T (encode_int T v) = v.
Proof.
  intros [Hs Hb] Hr. unfold read_int, encode_int, in_range, tbits in *.
  destruct (isigned T) eqn:Hsg.
  - assert (ibool T = false) as Hb' by (destruct (ibool T); auto; discriminate (Hb eq_refl)).
    rewrite Hb' in Hr. rewrite read_signed_write by lia. cbv zeta.
    assert (2 ^ (8 * Z.of_nat (isize T) - 1) <= 2 ^ 63) by (apply Z.pow_le_mono_r; lia).
    pose proof (signed_fits_iff (isize T) v Hs ltac:(lia)) as F. cbv zeta in F.
    rewrite Hr in F. apply Z.eqb_eq in F. symmetry. exact F.
  - rewrite read_unsigned_write by lia.
    assert (2 ^ (8 * Z.of_nat (isize T)) <= 2 ^ 64) by (apply Z.pow_le_mono_r; lia).
    assert (1 < 2 ^ (8 * Z.of_nat (isize T))).
    { apply Z.lt_le_trans with (2 ^ 8); [reflexivity|apply Z.pow_le_mono_r; lia]. }
    apply Z.mod_small. destruct (ibool T); lia.
Qed.


(* ------------------------------------------------------------------ the store inside an object *)

Theorem store_at_frame T v off mem : wf_ity T -> (off + isize T <= List.length mem)%nat ->
  let r := store_at T v off mem in
  List.length (snd r) = List.length mem /\
  (forall j d, (j < off \/ off + isize T <= j)%nat -> nth j (snd r) d = nth j mem d) /\
  (if in_range T v then fst r = Ok tt /\ unit_at off (isize T) (snd r) = encode_int T v
   else r = (Err OverflowError, mem)).
Proof.
  intros Hwf Hlen. cbv zeta. unfold store_at. rewrite store_exact by exact Hwf.
  destruct (in_range T v); cbn [fst snd].
  - assert (List.length (encode_int T v) = isize T) as L by apply write_raw_length.
    repeat split.
    + apply splice_length. lia.
    + intros j d Hj. apply nth_splice_outside; lia.
    + rewrite <- L at 1. apply unit_at_splice. lia.
  - rewrite splice_same by exact Hlen. repeat split; reflexivity.
Qed.

(* what a reader of the location (C code or cffi) gets after an accepted store *)
Corollary store_received T v data bs : wf_ity T ->
  convert_from_object_int T v data = (Ok tt, bs) -> read_int T bs = v /\ in_range T v = true.
Proof.
  intros Hwf E. rewrite store_exact in E by exact Hwf.
  destruct (in_range T v) eqn:R; [|discriminate]. injection E as <-.
  split; [apply read_encode; assumption|reflexivity].
Qed.

(* non-int objects: floats and objects without __int__ are refused with TypeError (target
   unchanged); an object with __int__ behaves exactly like the int it returns *)
Theorem store_obj_exact T o data : wf_ity T ->
  store_obj T o data =
  match o with
  | PInt v | PIntLike v => if in_range T v then (Ok tt, encode_int T v) else (Err OverflowError, data)
  | PFloat | PNoInt => (Err TypeError, data)
  end.
Proof. intros Hwf. destruct o; cbn [store_obj]; try reflexivity; apply store_exact; exact Hwf. Qed.
