(* A deep embedding of the integer C expressions found in cffi's conversion macros and bitfield
   converters, with an evaluator following C11 6.3.1 / 6.5 on an LP64 platform
   (int = 32 bits, long = long long = 64 bits).  `None` = C undefined behaviour (or an unbound
   name / ill-typed literal).  Implementation-defined behaviour is fixed as gcc documents it:
   conversion to a signed type reduces modulo 2^N; >> of a negative value is arithmetic.
   Used by C03 (bounds of _cffi_to_c_SIGNED_FN/_UNSIGNED_FN) and C02 (mask/shift expressions);
   the expressions themselves are regenerated from /repo by tools/props/c03_cexpr.py. *)
From Coq Require Import ZArith String Bool.
Open Scope Z_scope.

Inductive cty := TInt | TUInt | TLL | TULL.
Inductive unop := UNeg | UNot.
Inductive binop := BAdd | BSub | BMul | BShl | BShr | BAnd | BOr
                 | BLt | BGt | BLe | BGe | BEq | BNe | BLAnd | BLOr.
Inductive cexpr :=
| ELit (t : cty) (z : Z)
| EVar (name : string)
| ECast (t : cty) (e : cexpr)
| EUn (o : unop) (e : cexpr)
| EBin (o : binop) (a b : cexpr).

Definition bits (t : cty) : Z := match t with TInt | TUInt => 32 | TLL | TULL => 64 end.
Definition is_signed (t : cty) : bool := match t with TInt | TLL => true | _ => false end.
Definition tmin (t : cty) : Z := if is_signed t then - 2 ^ (bits t - 1) else 0.
Definition tmax (t : cty) : Z := if is_signed t then 2 ^ (bits t - 1) - 1 else 2 ^ bits t - 1.
Definition fits (t : cty) (z : Z) : bool := (tmin t <=? z) && (z <=? tmax t).

(* conversion to type t (C11 6.3.1.3; signed case as gcc defines it) *)
Definition conv (t : cty) (z : Z) : Z :=
  if is_signed t then (z + 2 ^ (bits t - 1)) mod 2 ^ bits t - 2 ^ (bits t - 1)
  else z mod 2 ^ bits t.

(* usual arithmetic conversions (6.3.1.8) among the four types *)
Definition common (a b : cty) : cty :=
  match a, b with
  | TULL, _ | _, TULL => TULL
  | TLL, _ | _, TLL => TLL
  | TUInt, _ | _, TUInt => TUInt
  | TInt, TInt => TInt
  end.

(* result of an arithmetic operation in type t: wraps for unsigned, UB when a signed result
   is not representable *)
Definition arith (t : cty) (z : Z) : option (cty * Z) :=
  if is_signed t then (if fits t z then Some (t, z) else None)
  else Some (t, z mod 2 ^ bits t).

Definition b2z (b : bool) : Z := if b then 1 else 0.

Definition env := string -> option (cty * Z).

Definition eval_bin (o : binop) (ta : cty) (a : Z) (tb : cty) (b : Z) : option (cty * Z) :=
  let t := common ta tb in
  let a' := conv t a in
  let b' := conv t b in
  match o with
  | BAdd => arith t (a' + b')
  | BSub => arith t (a' - b')
  | BMul => arith t (a' * b')
  | BAnd => Some (t, conv t (Z.land a' b'))
  | BOr => Some (t, conv t (Z.lor a' b'))
  | BShl =>   (* 6.5.7: result type is that of the promoted left operand *)
      if (0 <=? b) && (b <? bits ta) then
        if is_signed ta then
          (if (0 <=? a) && fits ta (a * 2 ^ b) then Some (ta, a * 2 ^ b) else None)
        else Some (ta, (a * 2 ^ b) mod 2 ^ bits ta)
      else None
  | BShr =>
      if (0 <=? b) && (b <? bits ta) then Some (ta, Z.shiftr a b) else None
  | BLt => Some (TInt, b2z (a' <? b'))
  | BGt => Some (TInt, b2z (b' <? a'))
  | BLe => Some (TInt, b2z (a' <=? b'))
  | BGe => Some (TInt, b2z (b' <=? a'))
  | BEq => Some (TInt, b2z (a' =? b'))
  | BNe => Some (TInt, b2z (negb (a' =? b')))
  | BLAnd => Some (TInt, b2z (negb (a =? 0) && negb (b =? 0)))
  | BLOr => Some (TInt, b2z (negb (a =? 0) || negb (b =? 0)))
  end.

Fixpoint ceval (rho : env) (e : cexpr) : option (cty * Z) :=
  match e with
  | ELit t z => if fits t z then Some (t, z) else None
  | EVar x => match rho x with
              | Some (t, z) => if fits t z then Some (t, z) else None
              | None => None
              end
  | ECast t e1 => match ceval rho e1 with
                  | Some (_, z) => Some (t, conv t z)
                  | None => None
                  end
  | EUn UNeg e1 => match ceval rho e1 with
                   | Some (t, z) => arith t (- z)
                   | None => None
                   end
  | EUn UNot e1 => match ceval rho e1 with
                   | Some (t, z) => Some (t, conv t (Z.lnot z))
                   | None => None
                   end
  | EBin BLAnd a b =>      (* short-circuit: the right operand is not evaluated when a = 0 *)
      match ceval rho a with
      | Some (_, za) => if za =? 0 then Some (TInt, 0) else
                          match ceval rho b with
                          | Some (_, zb) => Some (TInt, b2z (negb (zb =? 0)))
                          | None => None
                          end
      | None => None
      end
  | EBin BLOr a b =>
      match ceval rho a with
      | Some (_, za) => if negb (za =? 0) then Some (TInt, 1) else
                          match ceval rho b with
                          | Some (_, zb) => Some (TInt, b2z (negb (zb =? 0)))
                          | None => None
                          end
      | None => None
      end
  | EBin o a b => match ceval rho a, ceval rho b with
                  | Some (ta, za), Some (tb, zb) => eval_bin o ta za tb zb
                  | _, _ => None
                  end
  end.

Definition cty_eqb (a b : cty) : bool :=
  match a, b with
  | TInt, TInt | TUInt, TUInt | TLL, TLL | TULL, TULL => true
  | _, _ => false
  end.

(* environments *)
Definition env_empty : env := fun _ => None.
Definition env_set (x : string) (t : cty) (z : Z) (rho : env) : env :=
  fun y => if String.eqb x y then Some (t, z) else rho y.
