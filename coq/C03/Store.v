(* C03 — hand model of the memory store path, independent of regenerated files (also used by C02):
     _my_PyLong_AsLongLong / _my_PyLong_AsUnsignedLongLong      src/c/_cffi_backend.c:833, 869
     convert_from_object, CT_PRIMITIVE_SIGNED / CT_PRIMITIVE_UNSIGNED branches   :1714-1739
     convert_to_object integer branches (what a read returns)                    :1085
   Python ints are Z; a result is Ok, a Python exception class, or UB. *)
From Coq Require Import ZArith List Bool.
From Cffi Require Export C03.Mem.
Import ListNotations.
Open Scope Z_scope.

Inductive exc := OverflowError | TypeError.
Inductive res (A : Type) := Ok (a : A) | Err (e : exc) | UB.
Arguments Ok {A} a.
Arguments Err {A} e.
Arguments UB {A}.

(* ---- CPython conversions of an int object *)
(* PyLong_AsLongLong *)
Definition as_longlong (v : Z) : res Z :=
  if (- 2 ^ 63 <=? v) && (v <? 2 ^ 63) then Ok v else Err OverflowError.
(* _my_PyLong_AsUnsignedLongLong(ob, 1): negative -> OverflowError, else PyLong_AsUnsignedLongLong *)
Definition as_ulonglong_strict (v : Z) : res Z :=
  if v <? 0 then Err OverflowError
  else if v <? 2 ^ 64 then Ok v else Err OverflowError.
(* _my_PyLong_AsUnsignedLongLong(ob, 0): PyLong_AsUnsignedLongLongMask *)
Definition as_ulonglong_mask (v : Z) : res Z := Ok (v mod 2 ^ 64).

(* ---- integer ctypes: size in bytes, CT_PRIMITIVE_SIGNED?, CT_IS_BOOL? (enums = their base type) *)
Record ity := mk_ity { isize : nat; isigned : bool; ibool : bool }.
Definition tbits (T : ity) : Z := 8 * Z.of_nat (isize T).

Definition in_range (T : ity) (v : Z) : bool :=
  if ibool T then (0 <=? v) && (v <=? 1)
  else if isigned T then (- 2 ^ (tbits T - 1) <=? v) && (v <=? 2 ^ (tbits T - 1) - 1)
  else (0 <=? v) && (v <=? 2 ^ tbits T - 1).

(* what reading the location gives (convert_to_object, integer branches) *)
Definition read_int (T : ity) (bs : list Z) : Z :=
  if isigned T then read_raw_signed bs else read_raw_unsigned bs.

(* ---- convert_from_object, integer branches (:1714).  Returns the result and the new content
        of the target (`data`, exactly ct_size bytes). *)
Definition convert_from_object_int (T : ity) (v : Z) (data : list Z) : res unit * list Z :=
  if isigned T then
    match as_longlong v with
    | Ok value =>
        let buf := write_raw (isize T) value in
        if negb (value =? read_raw_signed buf) then (Err OverflowError, data)
        else (Ok tt, write_raw (isize T) value)
    | Err e => (Err e, data)
    | UB => (UB, data)
    end
  else
    match as_ulonglong_strict v with
    | Ok value =>
        if ibool T then
          if 1 <? value then (Err OverflowError, data)
          else (Ok tt, write_raw (isize T) value)
        else
          let buf := write_raw (isize T) value in
          if negb (value =? read_raw_unsigned buf) then (Err OverflowError, data)
          else (Ok tt, write_raw (isize T) value)
    | Err e => (Err e, data)
    | UB => (UB, data)
    end.


(* ---- the same store at byte offset `off` of a larger object (array item, struct field, global,
        argument buffer): convert_from_object(data + off, ct, init) touches ct_size bytes there *)
Definition store_at (T : ity) (v : Z) (off : nat) (mem : list Z) : res unit * list Z :=
  match convert_from_object_int T v (unit_at off (isize T) mem) with
  | (r, d) => (r, splice off d mem)
  end.

(* ---- Python objects other than ints (outside the property's quantifier, modelled because the
        code has explicit branches for them): _my_PyLong_AsLongLong / AsUnsignedLongLong(strict)
        refuse floats (and float cdata) with TypeError, call nb_int on anything else that has it and
        then proceed as for the returned int, and raise TypeError otherwise *)
Inductive pyobj :=
| PInt (v : Z)
| PIntLike (v : Z)      (* not a float; its __int__ returns the int v *)
| PFloat
| PNoInt.               (* no nb_int slot (None, str, an object with only __index__, ...) *)

Definition store_obj (T : ity) (o : pyobj) (data : list Z) : res unit * list Z :=
  match o with
  | PInt v | PIntLike v => convert_from_object_int T v data
  | PFloat | PNoInt => (Err TypeError, data)
  end.
