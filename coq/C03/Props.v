(* C03 — Integer stores accept exactly the type's range and round-trip.  Statements only.

   T ranges over integer ctypes (size in bytes, signedness, _Bool flag; an enum is its base type);
   wf_ity T: 1 <= size <= 8 and _Bool is unsigned.  v ranges over ALL Python ints (Z).
   Memory paths (ffi.new initializer, item, field, global, ABI argument buffer) all go through
   convert_from_object; API-mode arguments through _cffi_to_c_int / _cffi_to_c__Bool whose range
   tests are regenerated from the source text (C03/Gen.v) and evaluated with C semantics. *)
From Coq Require Import ZArith List Bool String Lia.
From Cffi Require Import C03.CExpr C03.Gen C03.Model C03.Proofs.
Import ListNotations.
Open Scope Z_scope.

(* accepted iff in range; then the target holds exactly the little-endian encoding of v;
   rejected => OverflowError and the target bytes are unchanged *)
Theorem C03_store_exact : forall T v data, wf_ity T ->
  convert_from_object_int T v data =
  if in_range T v then (Ok tt, encode_int T v) else (Err OverflowError, data).
Proof. exact store_exact. Qed.
Print Assumptions C03_store_exact.

(* reading the location back yields exactly v *)
Theorem C03_roundtrip : forall T v, wf_ity T -> in_range T v = true ->
  read_int T (encode_int T v) = v.
Proof. exact read_encode. Qed.
Print Assumptions C03_roundtrip.

(* the regenerated macro bounds are 2^(N-1)-1, -2^(N-1) and 2^N-1, of the types the comparison
   with `tmp` needs, for every instantiated SIZE; no C undefined behaviour in evaluating them *)
Theorem C03_gen_signed_bounds : forall N, In N [8; 16; 32; 64] ->
  map (eval_check N) signed_checks =
  [Some (BGt, TLL, 2 ^ (N - 1) - 1); Some (BLt, TLL, - 2 ^ (N - 1))].
Proof. exact gen_signed_bounds. Qed.
Print Assumptions C03_gen_signed_bounds.

Theorem C03_gen_unsigned_bounds : forall N, In N [8; 16; 32; 64] ->
  map (eval_check N) unsigned_checks = [Some (BGt, TULL, 2 ^ N - 1)].
Proof. exact gen_unsigned_bounds. Qed.
Print Assumptions C03_gen_unsigned_bounds.

(* instantiations, dispatch of _cffi_to_c_int, and the export-table slots/casts used by
   _cffi_include.h are consistent with the backend *)
Theorem C03_gen_tables :
  (map snd signed_insts = [8; 16; 32; 64] /\ map snd unsigned_insts = [8; 16; 32; 64] /\
   to_c_int_dispatch = [(1, 8, 8); (2, 16, 16); (4, 32, 32); (8, 64, 64)]) /\
  (forallb cast_ok include_casts = true /\ List.length include_casts = 8%nat /\
   nth 22 backend_exports ""%string = "_cffi_to_c__Bool"%string).
Proof. exact (conj gen_insts gen_exports_consistent). Qed.
Print Assumptions C03_gen_tables.

(* API-mode argument: the C function receives exactly v iff v is in range, else OverflowError
   (never UB, never a wrapped value) *)
Theorem C03_api_arg_exact : forall T v, api_sizes T -> wf_ity T -> (ibool T = true -> isize T = 1%nat) ->
  api_arg T v = if in_range T v then Ok v else Err OverflowError.
Proof. exact api_arg_exact. Qed.
Print Assumptions C03_api_arg_exact.

(* all store paths agree, for every value *)
Theorem C03_paths_agree : forall T v data, api_sizes T -> wf_ity T -> (ibool T = true -> isize T = 1%nat) ->
  match api_arg T v, convert_from_object_int T v data with
  | Ok x, (Ok _, bs) => read_int T bs = x /\ x = v
  | Err e1, (Err e2, bs) => e1 = e2 /\ bs = data
  | _, _ => False
  end.
Proof. exact paths_agree. Qed.
Print Assumptions C03_paths_agree.

(* callback result: the C caller receives v if in range, else the callback's error value E *)
Theorem C03_callback_exact : forall T v E garbage, wf_ity T -> in_range T E = true ->
  List.length garbage = 8%nat ->
  callback_received T v E garbage = Ok (if in_range T v then (v, false) else (E, true)).
Proof. exact callback_exact. Qed.
Print Assumptions C03_callback_exact.

(* non-vacuity: the hypotheses are met by the platform's types, and both outcomes occur *)
Example C03_ex_wf : wf_ity (mk_ity 4 true false) /\ wf_ity (mk_ity 1 false true) /\
                    api_sizes (mk_ity 8 false false).
Proof. unfold wf_ity, api_sizes; cbn; repeat split; try lia; try discriminate; auto. Qed.
Example C03_ex_accept : convert_from_object_int (mk_ity 2 true false) (-32768) [170; 170] = (Ok tt, [0; 128]).
Proof. vm_compute. reflexivity. Qed.
Example C03_ex_reject : convert_from_object_int (mk_ity 2 true false) 32768 [170; 170] = (Err OverflowError, [170; 170]).
Proof. vm_compute. reflexivity. Qed.
Example C03_ex_api : api_arg (mk_ity 4 false false) (2 ^ 32 - 1) = Ok (2 ^ 32 - 1) /\
                     api_arg (mk_ity 4 false false) (2 ^ 32) = Err OverflowError /\
                     api_arg (mk_ity 8 true false) (- 2 ^ 63) = Ok (- 2 ^ 63) /\
                     api_arg (mk_ity 1 false true) 2 = Err OverflowError.
Proof. vm_compute. repeat split. Qed.
Example C03_ex_callback : callback_received (mk_ity 2 true false) 40000 (-7) (repeat 170 8) = Ok (-7, true).
Proof. vm_compute. reflexivity. Qed.
