(* C03 — Integer stores accept exactly the type's range and round-trip.  Statements only.

   T ranges over integer ctypes (size in bytes, signedness, _Bool flag; an enum is its base type);
   wf_ity T: 1 <= size <= 8 and _Bool is unsigned.  v ranges over ALL Python ints (Z).
   Memory paths (ffi.new initializer, item, field, ABI- and API-mode global, ABI argument buffer)
   all call convert_from_object on the address of the location (they differ only in how that
   address is computed, which is C16/C20's subject; C03_store_frame states the store at an
   offset of a larger object); enum ctypes carry CT_PRIMITIVE_SIGNED/UNSIGNED of their base type
   and convert_from_object never looks at CT_IS_ENUM, so an enum is the ity of its base type
   (tied by the correspondence run over five enums); API-mode arguments through _cffi_to_c_int / _cffi_to_c__Bool whose range
   tests are regenerated from the source text (C03/Gen.v) and evaluated with C semantics. *)
From Coq Require Import ZArith List Bool String Lia.
From Cffi Require Import C03.CExpr C03.IR C03.Gen C03.Model C03.Interp C03.Proofs.
Import ListNotations.
Open Scope Z_scope.

(* accepted iff in range; then the target holds exactly the little-endian encoding of v;
   rejected => OverflowError and the target bytes are unchanged *)
Theorem C03_store_exact : forall T v data, wf_ity T ->
  convert_from_object_int T v data =
  if in_range T v then (Ok tt, encode_int T v) else (Err OverflowError, data).
Proof. exact store_exact. Qed.
Print Assumptions C03_store_exact.

(* reading the location back yields exactly v *)
Theorem C03_roundtrip : forall T v, wf_ity T -> in_range T v = true ->
  read_int T (encode_int T v) = v.
Proof. exact read_encode. Qed.
Print Assumptions C03_roundtrip.

(* the store inside a larger object (array item, struct field, global, argument buffer): nothing
   outside the ct_size bytes at the target offset changes, whatever the outcome *)
Theorem C03_store_frame : forall T v off mem, wf_ity T -> (off + isize T <= List.length mem)%nat ->
  let r := store_at T v off mem in
  List.length (snd r) = List.length mem /\
  (forall j d, (j < off \/ off + isize T <= j)%nat -> nth j (snd r) d = nth j mem d) /\
  (if in_range T v then fst r = Ok tt /\ unit_at off (isize T) (snd r) = encode_int T v
   else r = (Err OverflowError, mem)).
Proof. exact store_at_frame. Qed.
Print Assumptions C03_store_frame.

(* "or the value the C function received": whoever reads the stored bytes as a T gets v *)
Theorem C03_store_received : forall T v data bs, wf_ity T ->
  convert_from_object_int T v data = (Ok tt, bs) -> read_int T bs = v /\ in_range T v = true.
Proof. exact store_received. Qed.
Print Assumptions C03_store_received.

(* objects that are not ints (not in the property's quantifier; the code's branches for them):
   floats and objects without __int__ raise TypeError and leave the target unchanged, an object
   with __int__ is treated as the int it returns *)
Theorem C03_store_obj_exact : forall T o data, wf_ity T ->
  store_obj T o data =
  match o with
  | PInt v | PIntLike v => if in_range T v then (Ok tt, encode_int T v) else (Err OverflowError, data)
  | PFloat | PNoInt => (Err TypeError, data)
  end.
Proof. exact store_obj_exact. Qed.
Print Assumptions C03_store_obj_exact.

(* the regenerated macro bounds are 2^(N-1)-1, -2^(N-1) and 2^N-1, of the types the comparison
   with `tmp` needs, for every instantiated SIZE; no C undefined behaviour in evaluating them *)
Theorem C03_gen_signed_bounds : forall N, In N [8; 16; 32; 64] ->
  map (eval_check N) signed_checks =
  [Some (BGt, TLL, 2 ^ (N - 1) - 1); Some (BLt, TLL, - 2 ^ (N - 1))].
Proof. exact gen_signed_bounds. Qed.
Print Assumptions C03_gen_signed_bounds.

Theorem C03_gen_unsigned_bounds : forall N, In N [8; 16; 32; 64] ->
  map (eval_check N) unsigned_checks = [Some (BGt, TULL, 2 ^ N - 1)].
Proof. exact gen_unsigned_bounds. Qed.
Print Assumptions C03_gen_unsigned_bounds.

(* instantiations, dispatch of _cffi_to_c_int, and the export-table slots/casts used by
   _cffi_include.h are consistent with the backend *)
Theorem C03_gen_tables :
  (map snd signed_insts = [8; 16; 32; 64] /\ map snd unsigned_insts = [8; 16; 32; 64] /\
   to_c_int_dispatch = [(1, 8, 8); (2, 16, 16); (4, 32, 32); (8, 64, 64)]) /\
  (forallb cast_ok include_casts = true /\ List.length include_casts = 8%nat /\
   nth 22 backend_exports ""%string = "_cffi_to_c__Bool"%string).
Proof. exact (conj gen_insts gen_exports_consistent). Qed.
Print Assumptions C03_gen_tables.

(* API-mode argument: the C function receives exactly v iff v is in range, else OverflowError
   (never UB, never a wrapped value) *)
Theorem C03_api_arg_exact : forall T v, api_sizes T -> wf_ity T -> (ibool T = true -> isize T = 1%nat) ->
  api_arg T v = if in_range T v then Ok v else Err OverflowError.
Proof. exact api_arg_exact. Qed.
Print Assumptions C03_api_arg_exact.

(* all store paths agree, for every value *)
Theorem C03_paths_agree : forall T v data, api_sizes T -> wf_ity T -> (ibool T = true -> isize T = 1%nat) ->
  match api_arg T v, convert_from_object_int T v data with
  | Ok x, (Ok _, bs) => read_int T bs = x /\ x = v
  | Err e1, (Err e2, bs) => e1 = e2 /\ bs = data
  | _, _ => False
  end.
Proof. exact paths_agree. Qed.
Print Assumptions C03_paths_agree.

(* callback result: the C caller receives v if in range, else the callback's error value E *)
Theorem C03_callback_exact : forall T v E garbage, wf_ity T -> in_range T E = true ->
  List.length garbage = 8%nat ->
  callback_received T v E garbage = Ok (if in_range T v then (v, false) else (E, true)).
Proof. exact callback_exact. Qed.
Print Assumptions C03_callback_exact.

(* the statements of convert_from_object's integer branches as they stand in the source
   (regenerated: which helper and strict flag, every write and its destination, every
   `goto overflow` test, their order), executed, ARE the hand model above — for all T, v, data *)
Theorem C03_gen_store_refines : forall T v data, gen_store T v data = convert_from_object_int T v data.
Proof. exact gen_store_refines. Qed.
Print Assumptions C03_gen_store_refines.

(* the target is written only after the range check succeeded: no statement that can fail follows
   a write to `data`, no test reads `data`; and whenever the executed statements do not succeed
   the target bytes are the old ones *)
Theorem C03_gen_store_writes_after_checks :
  data_written_last store_signed_prog = true /\ data_written_last store_unsigned_prog = true.
Proof. exact gen_store_writes_after_checks. Qed.
Print Assumptions C03_gen_store_writes_after_checks.

Theorem C03_gen_store_failure_pure : forall T v data, wf_ity T ->
  fst (gen_store T v data) <> Ok tt -> snd (gen_store T v data) = data.
Proof. exact gen_store_failure_pure. Qed.
Print Assumptions C03_gen_store_failure_pure.

(* likewise the narrow-result blocks of convert_from_object_fficallback (first conversion only to
   detect overflow, then a whole sign-extended ffi_arg; zero-fill then plain conversion) *)
Theorem C03_gen_fficallback_refines : forall T v result,
  gen_fficallback T v result = convert_from_object_fficallback T v result.
Proof. exact gen_fficallback_refines. Qed.
Print Assumptions C03_gen_fficallback_refines.

(* non-vacuity: the hypotheses are met by the platform's types, and both outcomes occur *)
Example C03_ex_wf : wf_ity (mk_ity 4 true false) /\ wf_ity (mk_ity 1 false true) /\
                    api_sizes (mk_ity 8 false false).
Proof. unfold wf_ity, api_sizes; cbn; repeat split; try lia; try discriminate; auto. Qed.
Example C03_ex_accept : convert_from_object_int (mk_ity 2 true false) (-32768) [170; 170] = (Ok tt, [0; 128]).
Proof. vm_compute. reflexivity. Qed.
Example C03_ex_reject : convert_from_object_int (mk_ity 2 true false) 32768 [170; 170] = (Err OverflowError, [170; 170]).
Proof. vm_compute. reflexivity. Qed.
Example C03_ex_api : api_arg (mk_ity 4 false false) (2 ^ 32 - 1) = Ok (2 ^ 32 - 1) /\
                     api_arg (mk_ity 4 false false) (2 ^ 32) = Err OverflowError /\
                     api_arg (mk_ity 8 true false) (- 2 ^ 63) = Ok (- 2 ^ 63) /\
                     api_arg (mk_ity 1 false true) 2 = Err OverflowError.
Proof. vm_compute. repeat split. Qed.
Example C03_ex_callback : callback_received (mk_ity 2 true false) 40000 (-7) (repeat 170 8) = Ok (-7, true).
Proof. vm_compute. reflexivity. Qed.
Example C03_ex_gen_store : gen_store (mk_ity 1 false false) 261 [255] = (Err OverflowError, [255]) /\
                           gen_store (mk_ity 2 true false) (-2) [0; 0] = (Ok tt, [254; 255]) /\
                           gen_fficallback (mk_ity 2 true false) (-2) (repeat 170 8) = (Ok tt, [254; 255; 255; 255; 255; 255; 255; 255]).
Proof. vm_compute. repeat split. Qed.

(* "one function for all paths" as an obligation on the source: each store path the property names —
   ffi.new initialiser (direct_newp), p[i] = v (cdata_ass_sub), p.f = v (cdata_setattro ->
   convert_field_from_object), struct / array initialisers, ABI-mode and API-mode global setters
   (dl_write_variable; lib_setattr -> write_global_var), the ABI argument loop of cdata_call, callback
   results, and API-mode _cffi_to_c through cffi_exports[] — textually calls convert_from_object, whose
   integer branches are the regenerated store_signed_prog / store_unsigned_prog above.  The facts are
   regenerated from src/c/_cffi_backend.c, lib_obj.c, cglob.c on every run (tools/props/c03_regen.py). *)
Theorem C03_paths_reach_convert_from_object : forallb (fun b : bool => b) all_paths = true.
Proof. exact paths_reach. Qed.
Print Assumptions C03_paths_reach_convert_from_object.
Example C03_ex_paths : List.length all_paths = 12%nat /\ path_direct_newp = true /\ path_global_api = true.
Proof. repeat split. Qed.
