(* C03 — model of the integer store paths of cffi.

   The memory path lives in C03/Mem.v + C03/Store.v (no dependency on regenerated files; shared
   with C02 and C04) and is re-exported here:
     read_raw_*_data / write_raw_integer_data, _my_PyLong_As*, convert_from_object integer
     branches (:1714-1739), convert_to_object integer reads.
   This file adds, hand-transcribed (tied by the correspondence run of tools/props/c03.py):
     _cffi_to_c__Bool                                                            :7750
     convert_from_object_fficallback + the error path of general_invoke_callback :6076, 6235
     Recompiler._convert_funcarg_to_c (error test after the converter)   src/cffi/recompiler.py:527
   and, built on the parts regenerated from the source text on every run (C03/Gen.v): the range
   tests of _cffi_to_c_SIGNED_FN/_UNSIGNED_FN (:7689, :7699) as C expressions evaluated by
   C03/CExpr.v, their instantiations, the _cffi_to_c_int dispatch of _cffi_include.h.

   Python ints are Z.  Memory is a little-endian list of bytes (x86-64).  A result is Ok, a Python
   exception class, or UB (C undefined behaviour / Py_FatalError) — never totalised away. *)
From Coq Require Import ZArith List Bool String.
From Cffi Require Export C03.Mem C03.Store.
From Cffi Require Import C03.CExpr C03.IR C03.Gen.
Import ListNotations.
Open Scope Z_scope.

(* ---- API mode: _cffi_to_c_iN / _cffi_to_c_uN from the regenerated macro parts *)
Definition run_conv (c : conv_fn) (v : Z) : res Z :=
  match c with
  | ConvLL => as_longlong v
  | ConvULL true => as_ulonglong_strict v
  | ConvULL false => as_ulonglong_mask v
  end.

Definition env_size (N : Z) : env := env_set "SIZE" TInt N env_empty.

(* one `tmp OP bound` test: the bound is evaluated by the C-expression evaluator, the comparison
   itself applies the usual arithmetic conversions between tmp's type and the bound's type *)
Definition check_one (N : Z) (tty : cty) (tmp : Z) (c : binop * cexpr) : option bool :=
  match ceval (env_size N) (snd c) with
  | Some (te, ze) =>
      match eval_bin (fst c) tty tmp te ze with
      | Some (_, r) => Some (negb (r =? 0))
      | None => None
      end
  | None => None
  end.

Fixpoint any_check (N : Z) (tty : cty) (tmp : Z) (cs : list (binop * cexpr)) : option bool :=
  match cs with
  | [] => Some false
  | c :: r =>
      match check_one N tty tmp c with
      | None => None
      | Some true => Some true
      | Some false => any_check N tty tmp r
      end
  end.

(* body of the macro: tmp = CONV(obj); if (tests) if (!PyErr_Occurred()) overflow; return (RET)tmp *)
Definition to_c_fn (tty : cty) (cv : conv_fn) (checks : list (binop * cexpr)) (ret : cty) (N : Z) (v : Z)
  : res Z :=
  match run_conv cv v with
  | Ok tmp =>
      match any_check N tty tmp checks with
      | None => UB
      | Some true => Err OverflowError
      | Some false => Ok (conv ret tmp)
      end
  | Err e => Err e          (* tmp = -1 with the error set: the inner `if` keeps that error *)
  | UB => UB
  end.

Definition inst_ret (insts : list (cty * Z)) (N : Z) : option cty :=
  match find (fun p => snd p =? N) insts with
  | Some (r, _) => Some r
  | None => None
  end.

Definition to_c_i (N : Z) (v : Z) : res Z :=
  match inst_ret signed_insts N with
  | Some ret => to_c_fn signed_tmp_type signed_conv signed_checks ret N v
  | None => UB         (* no such function *)
  end.
Definition to_c_u (N : Z) (v : Z) : res Z :=
  match inst_ret unsigned_insts N with
  | Some ret => to_c_fn unsigned_tmp_type unsigned_conv unsigned_checks ret N v
  | None => UB
  end.

(* the final cast `(type)` *)
Definition wrapT (T : ity) (z : Z) : Z :=
  if isigned T then (z + 2 ^ (tbits T - 1)) mod 2 ^ tbits T - 2 ^ (tbits T - 1)
  else z mod 2 ^ tbits T.

(* _cffi_to_c_int(o, type): arm chosen by sizeof(type), converter by ((type)-1) > 0 *)
Definition to_c_int (T : ity) (v : Z) : res Z :=
  match find (fun a => fst (fst a) =? Z.of_nat (isize T)) to_c_int_dispatch with
  | Some (_, nu, ns) =>
      match (if isigned T then to_c_i ns v else to_c_u nu v) with
      | Ok x => Ok (wrapT T x)
      | Err e => Err e
      | UB => UB
      end
  | None => UB          (* Py_FatalError("unsupported size for type") *)
  end.

(* _cffi_to_c__Bool (:7750) *)
Definition to_c_bool (v : Z) : res Z :=
  match as_longlong v with
  | Ok tmp => if tmp =? 0 then Ok 0 else if tmp =? 1 then Ok 1 else Err OverflowError
  | Err e => Err e
  | UB => UB
  end.

(* value received by the C function for an API-mode integer argument
   (recompiler: `x = CONVERTER(arg); if (x == (T)-1 && PyErr_Occurred()) return NULL;`) *)
Definition api_arg (T : ity) (v : Z) : res Z :=
  if ibool T then to_c_bool v else to_c_int T v.

(* API-mode argument given an arbitrary object: both converters start with _my_PyLong_As* *)
Definition api_arg_obj (T : ity) (o : pyobj) : res Z :=
  match o with
  | PInt v | PIntLike v => api_arg T v
  | PFloat | PNoInt => Err TypeError
  end.

(* ---- callback result (:6076).  `result` is an ffi_arg-sized (8 byte) buffer. *)
Definition overwrite (new old : list Z) : list Z := List.app new (skipn (List.length new) old).

Definition convert_from_object_fficallback (T : ity) (v : Z) (result : list Z) : res unit * list Z :=
  if (isize T <? 8)%nat then
    if isigned T then
      (* first conversion only to detect overflows *)
      match convert_from_object_int T v (firstn (isize T) result) with
      | (Ok _, low) =>
          match as_longlong v with
          | Ok value => (Ok tt, write_raw 8 value)      (* a whole, sign-extended ffi_arg *)
          | Err e => (Err e, overwrite low result)
          | UB => (UB, result)
          end
      | (r, _) => (r, result)
      end
    else
      let zeroed := repeat 0 8 in                        (* memset(result, 0, sizeof(ffi_arg)) *)
      match convert_from_object_int T v (firstn (isize T) zeroed) with
      | (Ok _, low) => (Ok tt, overwrite low zeroed)
      | (r, _) => (r, zeroed)
      end
  else
    match convert_from_object_int T v result with
    | (Ok _, bs) => (Ok tt, bs)
    | (r, _) => (r, result)
    end.

(* prepare_callback_info_tuple (:6333): the raw error bytes from `error=E` *)
Definition callback_rawerr (T : ity) (E : Z) : res (list Z) :=
  match convert_from_object_fficallback T E (repeat 0 8) with
  | (Ok _, bs) => Ok bs
  | (Err e, _) => Err e
  | (UB, _) => UB
  end.

(* general_invoke_callback: Python function returned v; on a conversion error the raw error
   bytes are copied over the result.  The C caller reads the low sizeof(T) bytes. *)
Definition callback_received (T : ity) (v E : Z) (garbage : list Z) : res (Z * bool) :=
  match callback_rawerr T E with
  | Ok rawerr =>
      match convert_from_object_fficallback T v garbage with
      | (Ok _, bs) => Ok (read_int T (firstn (isize T) bs), false)
      | (Err _, _) => Ok (read_int T (firstn (isize T) rawerr), true)    (* true: error reported *)
      | (UB, _) => UB
      end
  | Err e => Err e
  | UB => UB
  end.

(* ---- helpers for the correspondence run (tools/props/c03.py) *)
Definition exc_code (e : exc) : Z := match e with OverflowError => 1 | TypeError => 2 end.
(* store: (status, bytes) with status 0 = ok, 1 = OverflowError, 2 = TypeError, 99 = UB *)
Definition store_obs (size : Z) (sg bl : bool) (v : Z) (data : list Z) : Z * list Z :=
  match convert_from_object_int (mk_ity (Z.to_nat size) sg bl) v data with
  | (Ok _, bs) => (0, bs)
  | (Err e, bs) => (exc_code e, bs)
  | (UB, bs) => (99, bs)
  end.
(* same with the old/new target bytes given as little-endian numbers (compact case files) *)
Definition store_obs_z (size : Z) (sg bl : bool) (v : Z) (old : Z) : Z * Z :=
  match store_obs size sg bl v (encode_le (Z.to_nat size) old) with
  | (st, bs) => (st, decode_le bs)
  end.
Definition res_obs (r : res Z) : Z * Z :=
  match r with Ok x => (0, x) | Err e => (exc_code e, 0) | UB => (99, 0) end.
Definition api_obs (size : Z) (sg bl : bool) (v : Z) : Z * Z :=
  res_obs (api_arg (mk_ity (Z.to_nat size) sg bl) v).
Definition callback_obs (size : Z) (sg bl : bool) (v E : Z) : Z * Z :=
  match callback_received (mk_ity (Z.to_nat size) sg bl) v E (repeat 170 8) with
  | Ok (x, false) => (0, x)
  | Ok (x, true) => (1, x)
  | Err e => (10 + exc_code e, 0)
  | UB => (99, 0)
  end.

(* objects: kind code 0 PInt, 1 PIntLike, 2 PFloat, 3 PNoInt *)
Definition obj_of (k v : Z) : pyobj :=
  if k =? 0 then PInt v else if k =? 1 then PIntLike v else if k =? 2 then PFloat else PNoInt.
Definition store_obj_obs_z (size : Z) (sg bl : bool) (k v old : Z) : Z * Z :=
  match store_obj (mk_ity (Z.to_nat size) sg bl) (obj_of k v) (encode_le (Z.to_nat size) old) with
  | (Ok _, bs) => (0, decode_le bs)
  | (Err e, bs) => (exc_code e, decode_le bs)
  | (UB, bs) => (99, decode_le bs)
  end.
Definition api_obj_obs (size : Z) (sg bl : bool) (k v : Z) : Z * Z :=
  res_obs (api_arg_obj (mk_ity (Z.to_nat size) sg bl) (obj_of k v)).
