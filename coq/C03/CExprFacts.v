(* Facts about the C-expression evaluator C03/CExpr.v (shared by C03 and C02). *)
From Coq Require Import ZArith Bool Lia ZifyBool String.
From Cffi Require Import C03.CExpr.
Open Scope Z_scope.

Lemma wrap_signed_small n z : 0 < n -> - 2 ^ (n - 1) <= z < 2 ^ (n - 1) ->
  (z + 2 ^ (n - 1)) mod 2 ^ n - 2 ^ (n - 1) = z.
Proof.
  intros Hn Hz. assert (2 ^ n = 2 * 2 ^ (n - 1)) as E.
  { replace n with (1 + (n - 1)) at 1 by lia. rewrite Z.pow_add_r by lia. reflexivity. }
  rewrite Z.mod_small; lia.
Qed.

Lemma conv_id t z : fits t z = true -> conv t z = z.
Proof.
  unfold fits, conv, tmin, tmax. intros H.
  destruct t; cbn [is_signed bits] in *.
  - apply wrap_signed_small; lia.
  - apply Z.mod_small; lia.
  - apply wrap_signed_small; lia.
  - apply Z.mod_small; lia.
Qed.

Lemma common_same t : common t t = t.
Proof. destruct t; reflexivity. Qed.

