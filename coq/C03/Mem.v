(* Raw little-endian memory access shared by C03, C04 and C02 (no dependency on regenerated files).
   Hand-transcribed from src/c/_cffi_backend.c: read_raw_signed_data (:927), read_raw_unsigned_data (:939),
   write_raw_integer_data (:970).  Memory is a list of bytes (x86-64, little endian). *)
From Coq Require Import ZArith List.
Import ListNotations.
Open Scope Z_scope.

Fixpoint encode_le (n : nat) (z : Z) : list Z :=
  match n with
  | O => []
  | S k => z mod 256 :: encode_le k (z / 256)
  end.
Fixpoint decode_le (bs : list Z) : Z :=
  match bs with
  | [] => 0
  | b :: r => b + 256 * decode_le r
  end.

(* write_raw_integer_data(target, (unsigned long long)source, size): `type r = (type)source` *)
Definition write_raw (size : nat) (source : Z) : list Z := encode_le size (source mod 2 ^ 64).
Definition read_raw_unsigned (bs : list Z) : Z := decode_le bs.
Definition read_raw_signed (bs : list Z) : Z :=
  let n := 8 * Z.of_nat (List.length bs) in
  let u := decode_le bs in
  if u <? 2 ^ (n - 1) then u else u - 2 ^ n.


(* ---- a location inside a larger object: `size` bytes at byte offset `off` of `mem` *)
Definition unit_at (off size : nat) (mem : list Z) : list Z := firstn size (skipn off mem).
(* memcpy of `new` to offset `off` *)
Definition splice (off : nat) (new mem : list Z) : list Z :=
  firstn off mem ++ new ++ skipn (off + List.length new) mem.
