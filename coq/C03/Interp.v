(* C03 — the integer branches of convert_from_object and the narrow-result branches of
   convert_from_object_fficallback as they stand in the source: their statements are regenerated
   (C03/Gen.v: store_signed_prog, store_unsigned_prog, fcb_signed_prog, fcb_zeroext_prog) and
   executed here.  Only the dispatch on CT_PRIMITIVE_SIGNED / CT_PRIMITIVE_UNSIGNED, on
   ct_size < sizeof(ffi_arg), and the `skip:` tail call are written by hand (the shape the
   translator matches before extracting).  C03/Proofs.v shows these equal the hand model. *)
From Coq Require Import ZArith List Bool String.
From Cffi Require Import C03.CExpr C03.IR C03.Gen C03.Model.
Import ListNotations.
Open Scope string_scope.
Open Scope Z_scope.

(* ---- convert_from_object *)
Record sst := mk_sst { s_val : Z; s_err : option exc; s_buf : list Z; s_data : list Z }.

Definition guard_on (T : ity) (g : guard) : bool :=
  match g with GAlways => true | GBool => ibool T | GNotBool => negb (ibool T) end.

Definition s_get (s : sst) (t : target) : list Z := match t with TBuf => s_buf s | TData => s_data s end.
Definition s_set (s : sst) (t : target) (bs : list Z) : sst :=
  match t with
  | TBuf => mk_sst (s_val s) (s_err s) bs (s_data s)
  | TData => mk_sst (s_val s) (s_err s) (s_buf s) bs
  end.

Definition atom_holds (T : ity) (s : sst) (a : atom) : bool :=
  match a with
  | AIsBool => ibool T
  | AGt1 => 1 <? s_val s
  | ANeqRead sg t => negb (s_val s =? (if sg then read_raw_signed (s_get s t) else read_raw_unsigned (s_get s t)))
  end.

(* `goto overflow` = return _convert_overflow(...): OverflowError unless an exception is pending *)
Definition overflow_exit (s : sst) : res unit * list Z :=
  match s_err s with Some e => (Err e, s_data s) | None => (Err OverflowError, s_data s) end.

Fixpoint exec_store (T : ity) (v : Z) (p : list (guard * sstmt)) (s : sst) : res unit * list Z :=
  match p with
  | [] => (UB, s_data s)                      (* control leaves the branch: not a store path *)
  | (g, st) :: r =>
      if negb (guard_on T g) then exec_store T v r s
      else
        match st with
        | SConv c =>
            match run_conv c v with
            | Ok x => exec_store T v r (mk_sst x None (s_buf s) (s_data s))
            | Err e => exec_store T v r (mk_sst (-1) (Some e) (s_buf s) (s_data s))
            | UB => (UB, s_data s)
            end
        | SErrCheck =>
            match s_err s with
            | Some e => (Err e, s_data s)
            | None => exec_store T v r s
            end
        | SWrite t => exec_store T v r (s_set s t (write_raw (isize T) (s_val s)))
        | SOverflowIf c => if forallb (atom_holds T s) c then overflow_exit s else exec_store T v r s
        | SReturn => match s_err s with Some _ => (UB, s_data s) | None => (Ok tt, s_data s) end
        end
  end.

Definition gen_store (T : ity) (v : Z) (data : list Z) : res unit * list Z :=
  exec_store T v (if isigned T then store_signed_prog else store_unsigned_prog)
             (mk_sst 0 None (repeat 0 8) data).

(* the destination is written only by statements after which no test can fail any more *)
Fixpoint data_written_last (p : list (guard * sstmt)) : bool :=
  match p with
  | [] => true
  | (_, SWrite TData) :: r =>
      forallb (fun gs => match snd gs with SReturn | SWrite TData => true | _ => false end) r
  | (_, SOverflowIf c) :: r =>
      forallb (fun a => match a with ANeqRead _ TData => false | _ => true end) c && data_written_last r
  | _ :: r => data_written_last r
  end.

(* ---- convert_from_object_fficallback, narrow result *)
Record fst_ := mk_fst { f_val : Z; f_err : option exc; f_res : list Z; f_env : env }.

Definition tail_conv (T : ity) (v : Z) (result : list Z) : res unit * list Z :=
  match convert_from_object_int T v (firstn (isize T) result) with
  | (Ok _, low) => (Ok tt, overwrite low result)
  | (r, _) => (r, result)
  end.

Definition fcb_env (T : ity) (s : fst_) : env :=
  env_set "value" TLL (f_val s) (env_set "ctype_ct_size" TLL (Z.of_nat (isize T)) (f_env s)).

(* inl = the block returned; inr = control reached the end of the block (falls to `skip:`) *)
Fixpoint exec_fcb (T : ity) (v : Z) (p : list fstmt) (s : fst_) : (res unit * list Z) + list Z :=
  match p with
  | [] => inr (f_res s)
  | st :: r =>
      match st with
      | FConvCheck =>
          match tail_conv T v (f_res s) with
          | (Ok _, res') => exec_fcb T v r (mk_fst (f_val s) (f_err s) res' (f_env s))
          | (e, res') => inl (e, res')
          end
      | FConv c =>
          match run_conv c v with
          | Ok x => exec_fcb T v r (mk_fst x None (f_res s) (f_env s))
          | Err e => exec_fcb T v r (mk_fst (-1) (Some e) (f_res s) (f_env s))
          | UB => inl (UB, f_res s)
          end
      | FErrCheck =>
          match f_err s with
          | Some e => inl (Err e, f_res s)
          | None => exec_fcb T v r s
          end
      | FAssign x e =>
          match ceval (fcb_env T s) e with
          | Some (_, z) => exec_fcb T v r (mk_fst (f_val s) (f_err s) (f_res s) (env_set x TLL (conv TLL z) (f_env s)))
          | None => inl (UB, f_res s)
          end
      | FOverflowIf e =>
          match ceval (fcb_env T s) e with
          | Some (_, z) =>
              if negb (z =? 0)
              then inl (match f_err s with Some e' => Err e' | None => Err OverflowError end, f_res s)
              else exec_fcb T v r s
          | None => inl (UB, f_res s)
          end
      | FWriteFull => exec_fcb T v r (mk_fst (f_val s) (f_err s) (write_raw 8 (f_val s)) (f_env s))
      | FMemset => exec_fcb T v r (mk_fst (f_val s) (f_err s) (repeat 0 8) (f_env s))
      | FReturn => inl (match f_err s with Some _ => UB | None => Ok tt end, f_res s)
      end
  end.

Definition gen_fficallback (T : ity) (v : Z) (result : list Z) : res unit * list Z :=
  if (isize T <? 8)%nat then
    match exec_fcb T v (if isigned T then fcb_signed_prog else fcb_zeroext_prog)
                   (mk_fst 0 None result env_empty) with
    | inl r => r
    | inr result' => tail_conv T v result'
    end
  else
    match convert_from_object_int T v result with
    | (Ok _, bs) => (Ok tt, bs)
    | (r, _) => (r, result)
    end.
