(* C03 — proofs about C03/Model.v (and the regenerated C03/Gen.v). *)
From Coq Require Import ZArith Znumtheory List Bool Lia ZifyBool Ascii String DecimalString.
From Cffi Require Export C03.MemProofs C03.StoreProofs.
From Cffi Require Import C03.CExpr C03.CExprFacts C03.IR C03.Gen C03.Model C03.Interp.
Import ListNotations.
Open Scope Z_scope.

Ltac Zify.zify_post_hook ::= Z.to_euclidean_division_equations.

(* ------------------------------------------------------------------ regenerated bounds *)

Definition eval_check (N : Z) (c : binop * cexpr) : option (binop * cty * Z) :=
  match ceval (env_size N) (snd c) with
  | Some (t, z) => Some (fst c, t, z)
  | None => None
  end.

(* the bound expressions of the macros, evaluated with C semantics for every instantiated SIZE *)
Lemma gen_signed_bounds : forall N, In N [8; 16; 32; 64] ->
  map (eval_check N) signed_checks =
  [Some (BGt, TLL, 2 ^ (N - 1) - 1); Some (BLt, TLL, - 2 ^ (N - 1))].
Proof.
  intros N H. cbn [In] in H.
  destruct H as [<- | [<- | [<- | [<- | []]]]]; vm_compute; reflexivity.
Qed.

Lemma gen_unsigned_bounds : forall N, In N [8; 16; 32; 64] ->
  map (eval_check N) unsigned_checks = [Some (BGt, TULL, 2 ^ N - 1)].
Proof.
  intros N H. cbn [In] in H.
  destruct H as [<- | [<- | [<- | [<- | []]]]]; vm_compute; reflexivity.
Qed.

Lemma gen_insts :
  map snd signed_insts = [8; 16; 32; 64] /\ map snd unsigned_insts = [8; 16; 32; 64] /\
  to_c_int_dispatch = [(1, 8, 8); (2, 16, 16); (4, 32, 32); (8, 64, 64)].
Proof. vm_compute. repeat split. Qed.

Lemma gen_conversions :
  signed_tmp_type = TLL /\ signed_conv = ConvLL /\ unsigned_tmp_type = TULL /\ unsigned_conv = ConvULL true.
Proof. repeat split. Qed.

(* every instantiation returns through a type that can hold all N-bit values of its signedness *)
Lemma gen_rettypes :
  forallb (fun p => (snd p <=? bits (fst p)) && is_signed (fst p)) signed_insts = true /\
  forallb (fun p => if is_signed (fst p) then snd p <? bits (fst p) else snd p <=? bits (fst p)) unsigned_insts = true.
Proof. vm_compute. split; reflexivity. Qed.

(* _cffi_include.h calls each converter through _cffi_exports[K] cast to a function type:
   slot K of the backend's table is that converter and the return types agree *)
Definition cast_ok (c : string * cty * nat) : bool :=
  let '(name, ret, k) := c in
  String.eqb (nth k backend_exports "") (String.append "_cffi_to_c_" name) &&
  match name with
  | String "i"%char _ => existsb (fun p => cty_eqb (fst p) ret &&
                       String.eqb name (String.append "i" (NilEmpty.string_of_uint (N.to_uint (Z.to_N (snd p)))))) signed_insts
  | String "u"%char _ => existsb (fun p => cty_eqb (fst p) ret &&
                       String.eqb name (String.append "u" (NilEmpty.string_of_uint (N.to_uint (Z.to_N (snd p)))))) unsigned_insts
  | _ => false
  end.

Lemma gen_exports_consistent :
  forallb cast_ok include_casts = true /\ List.length include_casts = 8%nat /\
  nth 22 backend_exports ""%string = "_cffi_to_c__Bool"%string.
Proof. vm_compute. repeat split. Qed.

(* ------------------------------------------------------------------ API-mode converters *)

Lemma wrapT_id T v : (1 <= isize T)%nat -> in_range T v = true -> ibool T = false -> wrapT T v = v.
Proof.
  intros Hs Hr Hb. unfold wrapT, in_range in *. rewrite Hb in Hr.
  assert (0 < tbits T) by (unfold tbits; lia).
  destruct (isigned T).
  - apply wrap_signed_small; lia.
  - apply Z.mod_small. lia.
Qed.

Lemma check_one_eval N tty tmp c o hi : eval_check N c = Some (o, tty, hi) ->
  fits tty tmp = true -> fits tty hi = true ->
  check_one N tty tmp c =
  match o with
  | BLt => Some (tmp <? hi) | BGt => Some (hi <? tmp) | BLe => Some (tmp <=? hi) | BGe => Some (hi <=? tmp)
  | _ => check_one N tty tmp c
  end.
Proof.
  unfold eval_check, check_one. destruct (ceval (env_size N) (snd c)) as [[t z]|]; [|discriminate].
  intros H Ht Hh. injection H as <- <- <-.
  destruct (fst c); try reflexivity; unfold eval_bin; rewrite common_same, !conv_id by assumption;
    cbn [b2z]; match goal with |- context [b2z ?b] => destruct b end; reflexivity.
Qed.

Lemma any_check_signed N checks lo hi tmp :
  map (eval_check N) checks = [Some (BGt, TLL, hi); Some (BLt, TLL, lo)] ->
  fits TLL tmp = true -> fits TLL lo = true -> fits TLL hi = true ->
  any_check N TLL tmp checks = Some (negb ((lo <=? tmp) && (tmp <=? hi))).
Proof.
  intros H Ht Hl Hh. destruct checks as [|c1 [|c2 [|]]]; try discriminate.
  cbn [map] in H. injection H as H1 H2. cbn [any_check].
  rewrite (check_one_eval _ _ _ _ _ _ H1), (check_one_eval _ _ _ _ _ _ H2) by assumption.
  destruct (Z.ltb_spec hi tmp), (Z.ltb_spec tmp lo), (Z.leb_spec lo tmp), (Z.leb_spec tmp hi);
    try reflexivity; lia.
Qed.

Lemma any_check_unsigned N checks hi tmp :
  map (eval_check N) checks = [Some (BGt, TULL, hi)] ->
  fits TULL tmp = true -> fits TULL hi = true ->
  any_check N TULL tmp checks = Some (negb (tmp <=? hi)).
Proof.
  intros H Ht Hh. destruct checks as [|c1 [|]]; try discriminate.
  cbn [map] in H. injection H as H1. cbn [any_check].
  rewrite (check_one_eval _ _ _ _ _ _ H1) by assumption.
  destruct (Z.ltb_spec hi tmp), (Z.leb_spec tmp hi); try reflexivity; lia.
Qed.

Ltac eval_inst :=
  match goal with |- context [inst_ret ?l ?n] =>
    let x := eval vm_compute in (inst_ret l n) in change (inst_ret l n) with x end; cbv iota beta.

Lemma to_c_i_exact N v : In N [8; 16; 32; 64] ->
  to_c_i N v = if (- 2 ^ (N - 1) <=? v) && (v <=? 2 ^ (N - 1) - 1) then Ok v else Err OverflowError.
Proof.
  intros HN. pose proof (gen_signed_bounds N HN) as HB. cbn [In] in HN.
  unfold to_c_i, to_c_fn, signed_conv, signed_tmp_type. cbn [run_conv]. unfold as_longlong.
  destruct HN as [<- | [<- | [<- | [<- | []]]]]; eval_inst;
  (destruct ((- 2 ^ 63 <=? v) && (v <? 2 ^ 63)) eqn:Hll;
   [ rewrite (any_check_signed _ _ _ _ _ HB) by (unfold fits, tmin, tmax; cbn [is_signed bits]; lia);
     match goal with |- context [(?a <=? v) && (v <=? ?b)] => destruct ((a <=? v) && (v <=? b)) eqn:Hr end;
     cbn [negb];
     [ rewrite conv_id by (unfold fits, tmin, tmax; cbn [is_signed bits]; lia); reflexivity | reflexivity ]
   | match goal with |- context [(?a <=? v) && (v <=? ?b)] => destruct ((a <=? v) && (v <=? b)) eqn:Hr end;
     [ exfalso; lia | reflexivity ] ]).
Qed.

Lemma to_c_u_exact N v : In N [8; 16; 32; 64] ->
  to_c_u N v = if (0 <=? v) && (v <=? 2 ^ N - 1) then Ok v else Err OverflowError.
Proof.
  intros HN. pose proof (gen_unsigned_bounds N HN) as HB. cbn [In] in HN.
  unfold to_c_u, to_c_fn, unsigned_conv, unsigned_tmp_type. cbn [run_conv]. unfold as_ulonglong_strict.
  destruct HN as [<- | [<- | [<- | [<- | []]]]]; eval_inst;
  (destruct (v <? 0) eqn:Hneg;
   [ match goal with |- context [(?a <=? v) && (v <=? ?b)] => destruct ((a <=? v) && (v <=? b)) eqn:Hr end;
     [ exfalso; lia | reflexivity ]
   | destruct (v <? 2 ^ 64) eqn:Hbig;
     [ rewrite (any_check_unsigned _ _ _ _ HB) by (unfold fits, tmin, tmax; cbn [is_signed bits]; lia);
       match goal with |- context [(?a <=? v) && (v <=? ?b)] => destruct ((a <=? v) && (v <=? b)) eqn:Hr end;
       [ replace (v <=? _) with true by lia; cbn [negb];
         rewrite conv_id by (unfold fits, tmin, tmax; cbn [is_signed bits]; lia); reflexivity
       | replace (v <=? _) with false by lia; reflexivity ]
     | match goal with |- context [(?a <=? v) && (v <=? ?b)] => destruct ((a <=? v) && (v <=? b)) eqn:Hr end;
       [ exfalso; lia | reflexivity ] ] ]).
Qed.

Definition api_sizes (T : ity) : Prop :=
  isize T = 1%nat \/ isize T = 2%nat \/ isize T = 4%nat \/ isize T = 8%nat.

Ltac eval_find :=
  match goal with |- context [find ?f ?l] =>
    let x := eval vm_compute in (find f l) in change (find f l) with x end; cbv iota beta.

Lemma to_c_int_exact T v : api_sizes T -> ibool T = false ->
  to_c_int T v = if in_range T v then Ok v else Err OverflowError.
Proof.
  intros Hs Hb.
  assert (forall x, in_range T x = true -> wrapT T x = x) as W.
  { intros x Hx. apply wrapT_id; try assumption. unfold api_sizes in Hs. lia. }
  revert W. unfold in_range, tbits, api_sizes in *. rewrite Hb.
  destruct T as [s sg bl]; cbn [isize isigned ibool] in *. subst bl. intros W.
  destruct Hs as [-> | [-> | [-> | ->]]]; destruct sg; unfold to_c_int; cbn [isize isigned ibool] in *; eval_find;
    [ rewrite to_c_i_exact by (cbn [In]; tauto) | rewrite to_c_u_exact by (cbn [In]; tauto)
    | rewrite to_c_i_exact by (cbn [In]; tauto) | rewrite to_c_u_exact by (cbn [In]; tauto)
    | rewrite to_c_i_exact by (cbn [In]; tauto) | rewrite to_c_u_exact by (cbn [In]; tauto)
    | rewrite to_c_i_exact by (cbn [In]; tauto) | rewrite to_c_u_exact by (cbn [In]; tauto) ];
    cbn [Z.of_nat Pos.of_succ_nat Pos.succ Z.mul Pos.mul Z.sub Z.add Z.opp Z.pos_sub Pos.pred_double] in *;
    match goal with |- context [(?a <=? v) && (v <=? ?b)] => destruct ((a <=? v) && (v <=? b)) eqn:Hr end;
    try reflexivity; rewrite W by exact Hr; reflexivity.
Qed.

Lemma to_c_bool_exact v :
  to_c_bool v = if (0 <=? v) && (v <=? 1) then Ok v else Err OverflowError.
Proof.
  unfold to_c_bool, as_longlong.
  destruct ((- 2 ^ 63 <=? v) && (v <? 2 ^ 63)) eqn:E.
  - destruct (Z.eqb_spec v 0); [subst; reflexivity|].
    destruct (Z.eqb_spec v 1); [subst; reflexivity|].
    destruct ((0 <=? v) && (v <=? 1)) eqn:E2; [exfalso; lia|reflexivity].
  - destruct ((0 <=? v) && (v <=? 1)) eqn:E2; [exfalso; lia|reflexivity].
Qed.

Theorem api_arg_exact T v : api_sizes T -> wf_ity T -> (ibool T = true -> isize T = 1%nat) ->
  api_arg T v = if in_range T v then Ok v else Err OverflowError.
Proof.
  intros Hs Hwf Hb1. unfold api_arg. destruct (ibool T) eqn:Hb.
  - rewrite to_c_bool_exact. unfold in_range. rewrite Hb. reflexivity.
  - apply to_c_int_exact; assumption.
Qed.

(* all store paths agree *)
Theorem paths_agree T v data : api_sizes T -> wf_ity T -> (ibool T = true -> isize T = 1%nat) ->
  match api_arg T v, convert_from_object_int T v data with
  | Ok x, (Ok _, bs) => read_int T bs = x /\ x = v
  | Err e1, (Err e2, bs) => e1 = e2 /\ bs = data
  | _, _ => False
  end.
Proof.
  intros Hs Hwf Hb1. rewrite api_arg_exact, store_exact by assumption.
  destruct (in_range T v) eqn:E.
  - split; [apply read_encode; assumption|reflexivity].
  - split; reflexivity.
Qed.

(* ------------------------------------------------------------------ callback result *)

Lemma firstn_write_raw_8 s v : (s <= 8)%nat -> firstn s (write_raw 8 v) = write_raw s v.
Proof.
  intros Hs. unfold write_raw. generalize (v mod 2 ^ 64). clear v.
  assert (forall n k z, (k <= n)%nat -> firstn k (encode_le n z) = encode_le k z) as H.
  { induction n; intros k z Hk.
    - assert (k = 0%nat) as -> by lia. reflexivity.
    - destruct k; [reflexivity|]. cbn [encode_le firstn]. f_equal. apply IHn. lia. }
  intros z. apply H. exact Hs.
Qed.

Lemma firstn_overwrite (new old : list Z) : firstn (List.length new) (overwrite new old) = new.
Proof.
  unfold overwrite. rewrite firstn_app, Nat.sub_diag, firstn_O, app_nil_r. apply firstn_all.
Qed.

Lemma fficallback_exact T v result : wf_ity T -> List.length result = 8%nat ->
  let r := convert_from_object_fficallback T v result in
  if in_range T v then fst r = Ok tt /\ firstn (isize T) (snd r) = encode_int T v
  else fst r = Err OverflowError.
Proof.
  intros Hwf Hlen. cbv zeta. unfold convert_from_object_fficallback.
  destruct (isize T <? 8)%nat eqn:Hlt.
  - apply Nat.ltb_lt in Hlt. destruct (isigned T) eqn:Hsg.
    + rewrite store_exact by assumption. destruct (in_range T v) eqn:Hr.
      * unfold in_range, tbits in Hr.
        destruct Hwf as [Hs Hb].
        assert (ibool T = false) as Hb' by (destruct (ibool T); auto; rewrite Hb in Hsg; [discriminate|reflexivity]).
        rewrite Hb', Hsg in Hr.
        assert (2 ^ (8 * Z.of_nat (isize T) - 1) <= 2 ^ 63) by (apply Z.pow_le_mono_r; lia).
        unfold as_longlong.
        destruct ((- 2 ^ 63 <=? v) && (v <? 2 ^ 63)) eqn:E; [|exfalso; lia].
        cbn [fst snd]. split; [reflexivity|]. apply firstn_write_raw_8. lia.
      * reflexivity.
    + rewrite store_exact by assumption. destruct (in_range T v) eqn:Hr.
      * cbn [fst snd]. split; [reflexivity|].
        unfold encode_int.
        rewrite <- (write_raw_length (isize T) v) at 1. apply firstn_overwrite.
      * reflexivity.
  - apply Nat.ltb_ge in Hlt. assert (isize T = 8%nat) as H8 by (destruct Hwf; lia).
    rewrite store_exact by assumption. destruct (in_range T v) eqn:Hr.
    + cbn [fst snd]. split; [reflexivity|]. unfold encode_int. rewrite H8.
      rewrite <- (write_raw_length 8 v) at 1. apply firstn_all.
    + reflexivity.
Qed.

(* a callback returning v: the C caller receives v when v is in range, else the declared error
   value E (and the error is reported) *)
Theorem callback_exact T v E garbage : wf_ity T -> in_range T E = true -> List.length garbage = 8%nat ->
  callback_received T v E garbage = Ok (if in_range T v then (v, false) else (E, true)).
Proof.
  intros Hwf HE Hlen. unfold callback_received, callback_rawerr.
  pose proof (fficallback_exact T E (repeat 0 8) Hwf eq_refl) as HEr. cbv zeta in HEr. rewrite HE in HEr.
  destruct (convert_from_object_fficallback T E (repeat 0 8)) as [rE bE]. cbn [fst snd] in HEr.
  destruct HEr as [-> HbE].
  pose proof (fficallback_exact T v garbage Hwf Hlen) as Hv. cbv zeta in Hv.
  destruct (convert_from_object_fficallback T v garbage) as [rv bv]. cbn [fst snd] in Hv.
  destruct (in_range T v) eqn:Hr.
  - destruct Hv as [-> Hbv]. rewrite Hbv. rewrite read_encode by assumption. reflexivity.
  - rewrite Hv. rewrite HbE. rewrite read_encode by assumption. reflexivity.
Qed.

(* ------------------------------------------------------------------ the source's own statements *)

(* the regenerated statements of convert_from_object's integer branches, executed, are the hand
   model — for every type, value and target content (no hypothesis) *)
Theorem gen_store_refines T v data : gen_store T v data = convert_from_object_int T v data.
Proof.
  unfold gen_store, convert_from_object_int.
  destruct (isigned T).
  - unfold store_signed_prog. cbn [exec_store guard_on negb run_conv].
    destruct (as_longlong v) as [x|e|]; cbn [s_err s_val s_buf s_data s_set s_get]; try reflexivity.
    cbn [forallb atom_holds s_get s_val s_buf andb].
    destruct (negb (x =? read_raw_signed (write_raw (isize T) x))); reflexivity.
  - unfold store_unsigned_prog. cbn [exec_store guard_on negb run_conv].
    destruct (as_ulonglong_strict v) as [x|e|]; cbn [s_err s_val s_buf s_data s_set s_get]; try reflexivity.
    destruct (ibool T); cbn [negb exec_store guard_on forallb atom_holds s_get s_set s_val s_buf s_data s_err andb].
    + destruct (1 <? x); reflexivity.
    + destruct (negb (x =? read_raw_unsigned (write_raw (isize T) x))); reflexivity.
Qed.

(* "the target is written only after the range check succeeded": syntactically, in both branches
   the write to `data` is followed by nothing that can fail, and no test reads `data` *)
Lemma gen_store_writes_after_checks :
  data_written_last store_signed_prog = true /\ data_written_last store_unsigned_prog = true.
Proof. split; reflexivity. Qed.

(* ... hence, semantically: whenever the executed source statements do not succeed, the target
   is untouched (all T, v, data) *)
Theorem gen_store_failure_pure T v data : wf_ity T ->
  fst (gen_store T v data) <> Ok tt -> snd (gen_store T v data) = data.
Proof.
  intros Hwf. rewrite gen_store_refines, store_exact by exact Hwf.
  destruct (in_range T v); cbn [fst snd]; [congruence|reflexivity].
Qed.

(* the regenerated narrow-result blocks of convert_from_object_fficallback are the hand model *)
Theorem gen_fficallback_refines T v result :
  gen_fficallback T v result = convert_from_object_fficallback T v result.
Proof.
  unfold gen_fficallback, convert_from_object_fficallback.
  destruct (isize T <? 8)%nat; [|reflexivity].
  destruct (isigned T).
  - unfold fcb_signed_prog. cbn [exec_fcb f_res f_val f_err f_env]. unfold tail_conv.
    destruct (convert_from_object_int T v (firstn (isize T) result)) as [[u|e|] low];
      cbn [exec_fcb f_res f_val f_err f_env run_conv]; try reflexivity.
    unfold as_longlong. destruct ((- 2 ^ 63 <=? v) && (v <? 2 ^ 63)); cbn [exec_fcb f_res f_val f_err f_env]; reflexivity.
  - unfold fcb_zeroext_prog. cbn [exec_fcb f_res f_val f_err f_env]. reflexivity.
Qed.

(* every store path named in the property textually reaches convert_from_object (regenerated call-site
   facts of C03/Gen.v; a call that disappears from the source turns its fact to false) *)
Lemma paths_reach : forallb (fun b : bool => b) all_paths = true.
Proof. reflexivity. Qed.
