(* C03 — vocabulary for the statement-level facts regenerated from convert_from_object's integer
   branches and convert_from_object_fficallback (tools/props/c03_regen.py).  A branch is a flat
   list of guarded statements: `if (ct->ct_flags & CT_IS_BOOL) { A } else { B }` becomes the
   statements of A guarded by GBool and those of B guarded by GNotBool. *)
From Coq Require Import ZArith String List.
From Cffi Require Import C03.CExpr.

(* which _my_PyLong_As* helper produces the value (ConvULL carries the `strict` argument) *)
Inductive conv_fn := ConvLL | ConvULL (strict : bool).

Inductive target := TBuf | TData.            (* the local scratch `buf` / the destination `data` *)
Inductive guard := GAlways | GBool | GNotBool.

(* atoms of an `if (A && B ...) goto overflow;` *)
Inductive atom :=
| AIsBool                                    (* (ct->ct_flags & CT_IS_BOOL) *)
| AGt1                                       (* value > 1ULL *)
| ANeqRead (signed : bool) (t : target).     (* value != read_raw_{signed,unsigned}_data(t, ct->ct_size) *)

Inductive sstmt :=
| SConv (c : conv_fn)                        (* [unsigned] PY_LONG_LONG value = HELPER(init[, strict]); *)
| SErrCheck                                  (* if (value == -1 && PyErr_Occurred()) return -1; *)
| SWrite (t : target)                        (* write_raw_integer_data(t, value, ct->ct_size); *)
| SOverflowIf (c : list atom)                (* if (c) goto overflow; *)
| SReturn.                                   (* return 0; *)

(* statements of the narrow-result branches of convert_from_object_fficallback *)
Inductive fstmt :=
| FConvCheck                                 (* if (convert_from_object(result, ctype, pyobj) < 0) return -1; *)
| FConv (c : conv_fn)                        (* value = HELPER(pyobj); *)
| FErrCheck                                  (* if (value == -1 && PyErr_Occurred()) return -1; *)
| FAssign (x : string) (e : cexpr)           (* x = e;   (PY_LONG_LONG local) *)
| FOverflowIf (e : cexpr)                    (* if (e) return _convert_overflow(pyobj, ctype->ct_name); *)
| FWriteFull                                 (* write_raw_integer_data(result, value, sizeof(ffi_arg)); *)
| FMemset                                    (* memset(result, 0, sizeof(ffi_arg)); *)
| FReturn.                                   (* return 0; *)
