(* Lemmas about C03/Mem.v (codec and truncating write / read back). *)
From Coq Require Import ZArith Znumtheory List Bool Lia.
From Cffi Require Import C03.Mem.
Import ListNotations.
Open Scope Z_scope.

(* ------------------------------------------------------------------ little-endian codec *)

Lemma length_encode_le n z : List.length (encode_le n z) = n.
Proof. revert z; induction n; intros; cbn [encode_le List.length]; [reflexivity|now rewrite IHn]. Qed.

Lemma decode_encode_le n z : decode_le (encode_le n z) = z mod 2 ^ (8 * Z.of_nat n).
Proof.
  revert z; induction n; intros z.
  - cbn. now rewrite Z.mod_1_r.
  - cbn [encode_le decode_le]. rewrite IHn.
    replace (8 * Z.of_nat (S n)) with (8 + 8 * Z.of_nat n) by lia.
    rewrite Z.pow_add_r by lia. change (2 ^ 8) with 256.
    rewrite Z.rem_mul_r by lia. reflexivity.
Qed.

Lemma encode_le_bytes n z : Forall (fun b => 0 <= b < 256) (encode_le n z).
Proof.
  revert z; induction n; intros; cbn [encode_le]; constructor; auto.
  apply Z.mod_pos_bound; lia.
Qed.

Lemma write_raw_length s v : List.length (write_raw s v) = s.
Proof. apply length_encode_le. Qed.

(* reading back what write_raw_integer_data wrote: reduction modulo 2^(8 size) *)
Lemma read_unsigned_write s v : (s <= 8)%nat ->
  read_raw_unsigned (write_raw s v) = v mod 2 ^ (8 * Z.of_nat s).
Proof.
  intros Hs. unfold read_raw_unsigned, write_raw. rewrite decode_encode_le.
  symmetry. apply Zmod_div_mod; try (apply Z.pow_pos_nonneg; lia).
  exists (2 ^ (64 - 8 * Z.of_nat s)). rewrite <- Z.pow_add_r by lia. f_equal. lia.
Qed.

Lemma read_signed_write s v : (s <= 8)%nat ->
  read_raw_signed (write_raw s v) =
  let n := 8 * Z.of_nat s in
  let u := v mod 2 ^ n in if u <? 2 ^ (n - 1) then u else u - 2 ^ n.
Proof.
  intros Hs. unfold read_raw_signed. rewrite write_raw_length.
  fold (read_raw_unsigned (write_raw s v)). rewrite read_unsigned_write by assumption. reflexivity.
Qed.

