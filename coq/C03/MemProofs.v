(* Lemmas about C03/Mem.v (codec and truncating write / read back). *)
From Coq Require Import ZArith Znumtheory List Bool Lia.
From Cffi Require Import C03.Mem.
Import ListNotations.
Open Scope Z_scope.

(* ------------------------------------------------------------------ little-endian codec *)

Lemma length_encode_le n z : List.length (encode_le n z) = n.
Proof. revert z; induction n; intros; cbn [encode_le List.length]; [reflexivity|now rewrite IHn]. Qed.

Lemma decode_encode_le n z : decode_le (encode_le n z) = z mod 2 ^ (8 * Z.of_nat n).
Proof.
  revert z; induction n; intros z.
  - cbn. now rewrite Z.mod_1_r.
  - cbn [encode_le decode_le]. rewrite IHn.
    replace (8 * Z.of_nat (S n)) with (8 + 8 * Z.of_nat n) by lia.
    rewrite Z.pow_add_r by lia. change (2 ^ 8) with 256.
    rewrite Z.rem_mul_r by lia. reflexivity.
Qed.

Lemma encode_le_bytes n z : Forall (fun b => 0 <= b < 256) (encode_le n z).
Proof.
  revert z; induction n; intros; cbn [encode_le]; constructor; auto.
  apply Z.mod_pos_bound; lia.
Qed.

Lemma write_raw_length s v : List.length (write_raw s v) = s.
Proof. apply length_encode_le. Qed.

(* reading back what write_raw_integer_data wrote: reduction modulo 2^(8 size) *)
Lemma read_unsigned_write s v : (s <= 8)%nat ->
  read_raw_unsigned (write_raw s v) = v mod 2 ^ (8 * Z.of_nat s).
Proof.
  intros Hs. unfold read_raw_unsigned, write_raw. rewrite decode_encode_le.
  symmetry. apply Zmod_div_mod; try (apply Z.pow_pos_nonneg; lia).
  exists (2 ^ (64 - 8 * Z.of_nat s)). rewrite <- Z.pow_add_r by lia. f_equal. lia.
Qed.

Lemma read_signed_write s v : (s <= 8)%nat ->
  read_raw_signed (write_raw s v) =
  let n := 8 * Z.of_nat s in
  let u := v mod 2 ^ n in if u <? 2 ^ (n - 1) then u else u - 2 ^ n.
Proof.
  intros Hs. unfold read_raw_signed. rewrite write_raw_length.
  fold (read_raw_unsigned (write_raw s v)). rewrite read_unsigned_write by assumption. reflexivity.
Qed.


(* ------------------------------------------------------------------ frame lemmas for splice *)

Lemma splice_length off new mem : (off + List.length new <= List.length mem)%nat ->
  List.length (splice off new mem) = List.length mem.
Proof.
  intros H. unfold splice. rewrite !app_length, firstn_length, skipn_length. lia.
Qed.

Lemma nth_splice_outside off new mem j d : (off + List.length new <= List.length mem)%nat ->
  (j < off \/ off + List.length new <= j)%nat -> nth j (splice off new mem) d = nth j mem d.
Proof.
  intros H Hj. unfold splice. destruct Hj as [Hj|Hj].
  - rewrite app_nth1 by (rewrite firstn_length; lia).
    transitivity (nth j (firstn off mem ++ skipn off mem) d); [|rewrite firstn_skipn; reflexivity].
    rewrite app_nth1 by (rewrite firstn_length; lia). reflexivity.
  - rewrite app_nth2 by (rewrite firstn_length; lia). rewrite firstn_length.
    rewrite app_nth2 by lia.
    transitivity (nth j (firstn (off + List.length new) mem ++ skipn (off + List.length new) mem) d);
      [|rewrite firstn_skipn; reflexivity].
    rewrite app_nth2 by (rewrite firstn_length; lia). rewrite firstn_length. f_equal. lia.
Qed.

Lemma unit_at_splice off new mem : (off + List.length new <= List.length mem)%nat ->
  unit_at off (List.length new) (splice off new mem) = new.
Proof.
  intros H. unfold unit_at, splice.
  rewrite skipn_app, firstn_length. replace (off - Nat.min off (List.length mem))%nat with 0%nat by lia.
  rewrite skipn_all2 by (rewrite firstn_length; lia). cbn [app skipn].
  rewrite firstn_app, Nat.sub_diag, firstn_O, app_nil_r. apply firstn_all.
Qed.

Lemma skipn_plus (A : Type) a b (l : list A) : skipn (a + b) l = skipn b (skipn a l).
Proof. revert l; induction a; intros l; [reflexivity|]. destruct l; cbn [skipn plus]; [now rewrite skipn_nil|apply IHa]. Qed.

Lemma splice_same off size mem : (off + size <= List.length mem)%nat ->
  splice off (unit_at off size mem) mem = mem.
Proof.
  intros H. unfold splice, unit_at.
  assert (List.length (firstn size (skipn off mem)) = size) as L
    by (rewrite firstn_length, skipn_length; lia).
  rewrite L. rewrite <- (firstn_skipn off mem) at 4. f_equal.
  rewrite <- (firstn_skipn size (skipn off mem)) at 2. f_equal.
  apply skipn_plus.
Qed.

Lemma unit_at_length off size mem : (off + size <= List.length mem)%nat ->
  List.length (unit_at off size mem) = size.
Proof. intros. unfold unit_at. rewrite firstn_length, skipn_length. lia. Qed.
