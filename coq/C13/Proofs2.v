(* C13 — fb_fill_type's flattening of (multi-dimensional) array fields: the element list handed to libffi
   describes exactly the leaves of the C struct. *)
From Coq Require Import ZArith List Bool Lia ZifyBool.
Import ListNotations.
From Cffi Require Import C13.Gen C13.Model.
Open Scope Z_scope.

Definition wf_field (f : field) : Prop :=
  0 < falign f /\ 0 < fsize f /\ (falign f | fsize f) /\ Forall (fun d => 0 < d) (fdims f).

Lemma fold_mul : forall l x, fold_left (fun flat len => flat * len) l x = x * product l.
Proof.
  induction l as [| d l IH]; intro x; cbn [fold_left product fold_right]; [lia |].
  rewrite IH. fold (product l). lia.
Qed.

(* both regenerated loops compute the product of ALL dimensions *)
Lemma count1_product : forall dims, count1 dims = product dims.
Proof. intro dims. unfold count1, flat1_step, flat1_init. rewrite fold_mul. lia. Qed.

Lemma count2_product : forall dims, count2 dims = product dims.
Proof. intro dims. unfold count2, fill_count, flat2_step, flat2_init. rewrite fold_mul. lia. Qed.

Lemma product_pos : forall dims, Forall (fun d => 0 < d) dims -> 0 < product dims.
Proof.
  induction dims as [| d l IH]; intro H; cbn [product fold_right]; [lia |].
  inversion H; subst. fold (product l). specialize (IH H3). nia.
Qed.

Lemma roundup_divide : forall off a, 0 < a -> (a | roundup off a).
Proof. intros. unfold roundup. apply Z.divide_factor_r. Qed.

Lemma roundup_fix : forall off a, 0 < a -> (a | off) -> roundup off a = off.
Proof.
  intros off a Ha [q ->]. unfold roundup.
  replace ((q * a + a - 1) / a) with q; [reflexivity |].
  apply Z.div_unique with (r := a - 1); lia.
Qed.

(* a run of n equal elements starting at an aligned offset sits at consecutive offsets *)
Lemma run_layout : forall n s a off rest, 0 < a -> (a | s) -> (a | off) ->
  ffi_layout off (repeat (s, a) n ++ rest) =
  (c_leaves off n s ++ fst (ffi_layout (off + Z.of_nat n * s) rest), snd (ffi_layout (off + Z.of_nat n * s) rest)).
Proof.
  induction n as [| n IH]; intros s a off rest Ha Hs Ho.
  - cbn [repeat app c_leaves]. replace (off + Z.of_nat 0 * s) with off by lia. destruct (ffi_layout off rest); reflexivity.
  - cbn [repeat app ffi_layout c_leaves]. rewrite (roundup_fix off a Ha Ho).
    rewrite (IH s a (off + s) rest Ha Hs) by (apply Z.divide_add_r; assumption).
    replace (off + s + Z.of_nat n * s) with (off + Z.of_nat (S n) * s) by lia. reflexivity.
Qed.

Theorem flatten_covers : forall fs off, Forall wf_field fs ->
  ffi_layout off (elements fs) = c_layout off fs.
Proof.
  induction fs as [| f rest IH]; intros off W; [reflexivity |].
  inversion W as [| ? ? (Ha & Hs & Hd & Hp) Wr]; subst.
  unfold elements. cbn [flat_map]. fold (elements rest). cbn [c_layout].
  rewrite count2_product.
  pose proof (product_pos _ Hp) as PP.
  destruct (Z.to_nat (product (fdims f))) as [| n] eqn:E; [lia |].
  cbn [repeat app ffi_layout c_leaves].
  set (o := roundup off (falign f)).
  assert (Do : (falign f | o)) by (apply roundup_divide; exact Ha).
  rewrite (run_layout n (fsize f) (falign f) (o + fsize f) (elements rest) Ha Hd) by (apply Z.divide_add_r; assumption).
  replace (o + fsize f + Z.of_nat n * fsize f) with (o + Z.of_nat (S n) * fsize f) by lia.
  rewrite (IH _ Wr). destruct (c_layout (o + Z.of_nat (S n) * fsize f) rest). reflexivity.
Qed.

(* the second pass writes exactly as many entries as the first pass counted: elements[] (nflat + 1 slots, the last
   one for the NULL terminator) is filled completely and never overrun *)
Theorem flatten_count : forall fs, Forall wf_field fs ->
  Z.of_nat (length (elements fs)) = nflat fs /\ fill_refused fs = false.
Proof.
  intros fs W.
  assert (G : forall fs acc, Forall wf_field fs ->
     fold_left (fun n f => n + count1 (fdims f)) fs acc = acc + Z.of_nat (length (elements fs))).
  { induction fs0 as [| f rest IH]; intros acc W0; [cbn; lia |].
    inversion W0 as [| ? ? (Ha & Hs & Hd & Hp) Wr]; subst.
    cbn [fold_left]. rewrite (IH _ Wr). unfold elements. cbn [flat_map]. rewrite app_length, repeat_length.
    rewrite count1_product, count2_product. pose proof (product_pos _ Hp). lia. }
  split.
  - unfold nflat. rewrite (G fs 0 W). lia.
  - unfold fill_refused. induction fs as [| f rest IH]; [reflexivity |].
    inversion W as [| ? ? (_ & _ & _ & Hp) Wr]; subst. cbn [existsb]. rewrite (IH Wr), orb_false_r.
    rewrite count1_product. pose proof (product_pos _ Hp). unfold flat1_refused. lia.
Qed.
