(* C13 — the exchange-layout statements of fb_build(), as TRANSLATED from src/c/_cffi_backend.c into C13/Gen.v
   (fb_build_prog, ALIGN_TO, ALIGN_ARG), compute exactly C13.Model.fb_build.  A change of the macro bodies, of the
   order/content of the statements, of the index `1 + i`, or of the ffi_arg minimum breaks one of these proofs. *)
From Coq Require Import ZArith List Bool Lia ZifyBool.
Import ListNotations.
From Cffi Require Import C13.FbLang C13.Gen C13.Model.
Open Scope Z_scope.

Definition exec_fb (p : fbprog) (rsize ralign : Z) (args : list (Z * Z)) : option layout :=
  match exec_fb_raw p rsize ralign args with
  | Some (r, rlen, offs, sz) => Some (mklayout r rlen offs sz)
  | None => None
  end.

(* the macros, evaluated, are the model's align_to / align_arg *)
Lemma zev_ALIGN_TO : forall rho n a, zev rho (ALIGN_TO n a) = align_to (zev rho n) (zev rho a).
Proof. reflexivity. Qed.

Lemma zev_ALIGN_ARG : forall rho n, zev rho (ALIGN_ARG n) = align_arg (zev rho n).
Proof. reflexivity. Qed.

Lemma zlist_eqb_refl : forall l, zlist_eqb l l = true.
Proof. induction l as [| x l IH]; cbn; [reflexivity |]. rewrite Z.eqb_refl, IH. reflexivity. Qed.

(* one run of the regenerated loop body *)
Lemma loop_body_step : forall rho st k size al,
  rho = upd (upd (upd (env st) Vi k) Vasize size) Vaalign al ->
  let st' := exec_list (p_loop fb_build_prog) (mkst rho (stores st) (xsize st)) in
  let o := align_arg (align_to (env st Voff) al) in
  env st' Voff = o + size /\ stores st' = stores st ++ [(1 + k, o)] /\ xsize st' = xsize st /\
  env st' Vnargs = env st Vnargs /\ env st' Vralign = env st Vralign /\ env st' Vrsize = env st Vrsize.
Proof.
  intros rho st k size al ->. cbn. repeat split; reflexivity.
Qed.

Lemma loop_spec : forall args k st,
  let st' := exec_loop (p_loop fb_build_prog) k args st in
  env st' Voff = snd (fb_args (env st Voff) args) /\
  stores st' = stores st ++ combine (arg_keys k args) (fst (fb_args (env st Voff) args)) /\
  xsize st' = xsize st.
Proof.
  induction args as [| [size al] rest IH]; intros k st.
  - cbn. rewrite app_nil_r. repeat split; reflexivity.
  - cbn [exec_loop].
    destruct (loop_body_step _ st k size al eq_refl) as (E & S & X & _).
    set (st1 := exec_list (p_loop fb_build_prog) _) in *.
    specialize (IH (k + 1) st1). cbn zeta in IH. destruct IH as (E' & S' & X').
    cbn zeta. rewrite E', S', X', E, S, X.
    cbn [fb_args arg_keys].
    destruct (fb_args (align_arg (align_to (env st Voff) al) + size) rest) as [offs fin].
    cbn [fst snd combine]. rewrite <- app_assoc. repeat split; reflexivity.
Qed.

Lemma fb_args_length : forall args off, length (fst (fb_args off args)) = length args.
Proof.
  induction args as [| [s a] rest IH]; intros off; cbn; [reflexivity |].
  specialize (IH (align_arg (align_to off a) + s)).
  destruct (fb_args (align_arg (align_to off a) + s) rest). cbn in *. lia.
Qed.

Lemma arg_keys_length : forall (A : Type) (args : list A) k, length (arg_keys k args) = length args.
Proof. induction args; intros; cbn; [reflexivity | rewrite IHargs; reflexivity]. Qed.

Lemma map_fst_combine : forall (A B : Type) (l : list A) (m : list B), length l = length m -> map fst (combine l m) = l.
Proof. induction l; destruct m; cbn; intros; try reflexivity; try discriminate. f_equal. apply IHl. lia. Qed.

Lemma map_snd_combine : forall (A B : Type) (l : list A) (m : list B), length l = length m -> map snd (combine l m) = m.
Proof. induction l; destruct m; cbn; intros; try reflexivity; try discriminate. f_equal. apply IHl. lia. Qed.

(* for EVERY signature (no well-formedness needed: the equality is structural) *)
Theorem gen_fb_build_is_model : forall rsize ralign args,
  exec_fb fb_build_prog rsize ralign args = Some (fb_build rsize ralign args).
Proof.
  intros rsize ralign args. unfold exec_fb, exec_fb_raw.
  set (rho0 := fun v : fbvar => match v with Vnargs => Z.of_nat (length args) | Vralign => ralign | Vrsize => rsize | _ => 0 end).
  set (st1 := exec_list (p_pre fb_build_prog) (mkst rho0 [] None)).
  set (off0 := align_arg (align_to (Z.of_nat (length args) * 8) ralign)).
  set (rlen := if rsize <? FFI_ARG then FFI_ARG else rsize).
  assert (P : env st1 Voff = off0 + rlen /\ stores st1 = [(0, off0)] /\ xsize st1 = None).
  { subst st1 rho0 off0 rlen. unfold FFI_ARG. cbn.
    destruct (rsize <? 8) eqn:E; cbn; repeat split; reflexivity. }
  destruct P as (E1 & S1 & X1).
  destruct (loop_spec args 0 st1) as (E2 & S2 & X2). cbn zeta in E2, S2, X2.
  set (st2 := exec_loop (p_loop fb_build_prog) 0 args st1) in *.
  assert (P3 : stores (exec_list (p_post fb_build_prog) st2) = stores st2 /\
               xsize (exec_list (p_post fb_build_prog) st2) = Some (align_arg (env st2 Voff))).
  { cbn. split; reflexivity. }
  destruct P3 as (S3 & X3). rewrite S3, X3, S2, S1, E2, E1. cbn [app].
  rewrite Z.eqb_refl, map_fst_combine, zlist_eqb_refl, map_snd_combine
    by (rewrite arg_keys_length, fb_args_length; reflexivity).
  cbn [length Nat.eqb andb].
  unfold fb_build. fold off0. fold rlen.
  destruct (fb_args (off0 + rlen) args) as [offs fin]. cbn [fst snd].
  f_equal. f_equal. lia.
Qed.

(* consequently everything proved about the model's layout holds of what the translated statements store *)
Corollary gen_fb_build_fields : forall rsize ralign args L, exec_fb fb_build_prog rsize ralign args = Some L ->
  L = fb_build rsize ralign args.
Proof. intros ? ? ? L H. rewrite gen_fb_build_is_model in H. congruence. Qed.

(* ---- the generated wrapper's in-band error values (regenerated: C13.Gen.api_sentinel_prim / _fnptr) are the ones the
   model's sentinel tests use, and an API-mode variadic function is a function-pointer cdata (so that its calls are
   cdata_call's, as the model and the harness assume).  All by computation: a different errvalue in recompiler.py
   makes the two sides differ. *)
Lemma api_sentinels :
  (forall size r, wrapper_check size r = wrapper_check_s size api_sentinel_prim r) /\
  (forall x, api_conv FnPtr x =
             match conv_fnptr x with
             | CErr e => match wrapper_check_s 8 api_sentinel_fnptr (err api_sentinel_fnptr e) with COk _ => CBad | o => o end
             | o => o
             end) /\
  api_variadic_is_cdata = true.
Proof. split; [| split]; [intros; reflexivity | intros; reflexivity | reflexivity]. Qed.
