(* C13 — one obligation per call path: the path textually goes through the converter the model assumes
   (facts regenerated into C13/Gen.v by tools/props/c13_regen.py path_facts; a path that stops calling its
   converter turns its fact into `false` and breaks the obligation). *)
From Coq Require Import List String.
From Cffi Require C03.Gen.
From Cffi Require Import C13.Gen.
Open Scope string_scope.

(* ---- libffi family *)
Lemma path_cdata_call_pointer_args : cdata_call_pointer_args = true. Proof. reflexivity. Qed.
Lemma path_cdata_call_other_args : cdata_call_other_args = true. Proof. reflexivity. Qed.
Lemma path_cdata_call_slots : cdata_call_slots = true. Proof. reflexivity. Qed.
Lemma path_cdata_call_errno : cdata_call_errno = true. Proof. reflexivity. Qed.
Lemma path_cdata_call_result : cdata_call_result = true. Proof. reflexivity. Qed.
Lemma path_cdata_call_variadic : cdata_call_variadic = true. Proof. reflexivity. Qed.
(* the three libffi paths of the property are one family: each yields a function cdata, and calling it is cdata_call *)
Lemma path_addressof : addressof_gives_cdata = true /\ cdata_tp_call = true. Proof. split; reflexivity. Qed.
Lemma path_inline_abi : inline_dlopen_gives_cdata = true /\ cdata_tp_call = true. Proof. split; reflexivity. Qed.
Lemma path_out_of_line_abi : ool_dlopen_gives_cdata = true /\ cdata_tp_call = true. Proof. split; reflexivity. Qed.

(* ---- API family: the generated wrapper *)
Lemma path_api_prim_args : api_prim_args = true. Proof. reflexivity. Qed.
Lemma path_api_struct_args : api_struct_args = true. Proof. reflexivity. Qed.
Lemma path_api_pointer_args : api_pointer_args = true /\ api_array_argument = true. Proof. split; reflexivity. Qed.
Lemma path_api_errno : api_errno = true. Proof. reflexivity. Qed.
Lemma path_api_results : api_results = true. Proof. reflexivity. Qed.

(* the macros of _cffi_include.h used by the wrapper resolve, through _cffi_exports[] (C03/Gen.v backend_exports,
   regenerated from static void *cffi_exports[]), to exactly the backend functions the model shares between paths *)
Definition api_macros_resolve : Prop :=
  nth slot_cffi_to_c C03.Gen.backend_exports "" = "convert_from_object" /\
  nth slot_cffi_to_c_char C03.Gen.backend_exports "" = "_convert_to_char" /\
  nth slot_cffi_to_c_pointer C03.Gen.backend_exports "" = "_cffi_to_c_pointer" /\
  nth slot_cffi_from_c_pointer C03.Gen.backend_exports "" = "_cffi_from_c_pointer" /\
  nth slot_cffi_from_c_deref C03.Gen.backend_exports "" = "convert_to_object" /\
  nth slot_cffi_from_c_struct C03.Gen.backend_exports "" = "convert_struct_to_owning_object" /\
  nth slot_cffi_to_c_long_double C03.Gen.backend_exports "" = "_cffi_to_c_long_double" /\
  nth slot_cffi_to_c__Bool C03.Gen.backend_exports "" = "_cffi_to_c__Bool" /\
  nth slot_cffi_prepare_pointer_call_argument C03.Gen.backend_exports "" = "_prepare_pointer_call_argument" /\
  nth slot_cffi_convert_array_from_object C03.Gen.backend_exports "" = "convert_array_from_object".
Lemma path_api_exports : api_macros_resolve.
Proof. unfold api_macros_resolve. repeat split; reflexivity. Qed.
