(* C13 — the small statement language into which tools/props/c13_regen.py translates the exchange-layout part of
   fb_build() (src/c/_cffi_backend.c), and its evaluator.  Hand-written and fixed; the PROGRAM (fb_build_prog, ALIGN_TO,
   ALIGN_ARG) is regenerated into C13/Gen.v on every run.

   Semantics: mathematical integers (Z).  `&` is Z.land and `~` is Z.lnot on two's-complement integers of unbounded
   width, casts are the identity, `<` yields 1/0.  This is C's meaning of the same text as long as no Py_ssize_t
   operation overflows (total exchange size < 2^63), which is not proved here. *)
From Coq Require Import ZArith List Bool.
Import ListNotations.
Open Scope Z_scope.

(* the C lvalues/rvalues that may occur: exchange_offset, i, nargs, fb->rtype->alignment, fb->rtype->size,
   atype->alignment, atype->size *)
Inductive fbvar := Voff | Vi | Vnargs | Vralign | Vrsize | Vaalign | Vasize.

Inductive fbexpr :=
| FLit (z : Z)
| FVar (v : fbvar)
| FAdd (a b : fbexpr) | FSub (a b : fbexpr) | FMul (a b : fbexpr)
| FAnd (a b : fbexpr) | FNot (a : fbexpr)
| FLt (a b : fbexpr)
| FCast (a : fbexpr).                 (* (Py_ssize_t)e *)

Inductive fbstmt :=
| SSet (v : fbvar) (e : fbexpr)                   (* v = e; *)
| SAdd (v : fbvar) (e : fbexpr)                   (* v += e; *)
| SIfSet (c : fbexpr) (v : fbvar) (e : fbexpr)    (* if (c) v = e; *)
| SStore (idx e : fbexpr)                         (* cif_descr->exchange_offset_arg[idx] = e; *)
| SSize (e : fbexpr).                             (* cif_descr->exchange_size = e; *)

(* the three straight-line blocks of fb_build that run when cif_descr != NULL (second pass of fb_build):
   before the loop (result slot), once per argument, after the loop *)
Record fbprog := mkprog { p_pre : list fbstmt; p_loop : list fbstmt; p_post : list fbstmt }.

Definition fbvar_eqb (a b : fbvar) : bool :=
  match a, b with
  | Voff, Voff | Vi, Vi | Vnargs, Vnargs | Vralign, Vralign | Vrsize, Vrsize | Vaalign, Vaalign | Vasize, Vasize => true
  | _, _ => false
  end.

Definition fbenv := fbvar -> Z.
Definition upd (rho : fbenv) (v : fbvar) (z : Z) : fbenv := fun x => if fbvar_eqb x v then z else rho x.

Fixpoint zev (rho : fbenv) (e : fbexpr) : Z :=
  match e with
  | FLit z => z
  | FVar v => rho v
  | FAdd a b => zev rho a + zev rho b
  | FSub a b => zev rho a - zev rho b
  | FMul a b => zev rho a * zev rho b
  | FAnd a b => Z.land (zev rho a) (zev rho b)
  | FNot a => Z.lnot (zev rho a)
  | FLt a b => if zev rho a <? zev rho b then 1 else 0
  | FCast a => zev rho a
  end.

(* stores: the assignments to exchange_offset_arg[], in execution order, as (index, value) *)
Record fbst := mkst { env : fbenv; stores : list (Z * Z); xsize : option Z }.

Definition exec_stmt (st : fbst) (s : fbstmt) : fbst :=
  match s with
  | SSet v e => mkst (upd (env st) v (zev (env st) e)) (stores st) (xsize st)
  | SAdd v e => mkst (upd (env st) v (env st v + zev (env st) e)) (stores st) (xsize st)
  | SIfSet c v e => if zev (env st) c =? 0 then st
                    else mkst (upd (env st) v (zev (env st) e)) (stores st) (xsize st)
  | SStore i e => mkst (env st) (stores st ++ [(zev (env st) i, zev (env st) e)]) (xsize st)
  | SSize e => mkst (env st) (stores st) (Some (zev (env st) e))
  end.

Definition exec_list (ss : list fbstmt) (st : fbst) : fbst := fold_left exec_stmt ss st.

(* for (i=0; i<nargs; i++) { atype = fb_fill_type(fb, farg_i, 0); <body> }: args = (size, alignment) of each atype *)
Fixpoint exec_loop (body : list fbstmt) (k : Z) (args : list (Z * Z)) (st : fbst) : fbst :=
  match args with
  | [] => st
  | (size, al) :: rest =>
      let rho := upd (upd (upd (env st) Vi k) Vasize size) Vaalign al in
      exec_loop body (k + 1) rest (exec_list body (mkst rho (stores st) (xsize st)))
  end.

(* the indices 1+0, 1+1, ... the argument offsets must have been stored at *)
Fixpoint arg_keys {A} (k : Z) (args : list A) : list Z :=
  match args with [] => [] | _ :: rest => (1 + k) :: arg_keys (k + 1) rest end.

Fixpoint zlist_eqb (a b : list Z) : bool :=
  match a, b with
  | [], [] => true
  | x :: a', y :: b' => (x =? y) && zlist_eqb a' b'
  | _, _ => false
  end.

(* what the run leaves behind: exchange_offset_arg[0], the room reserved behind it before the first argument,
   exchange_offset_arg[1..nargs], exchange_size — or None when the stores are not exactly [0], [1+0], [1+1], ... in order *)
Definition exec_fb_raw (p : fbprog) (rsize ralign : Z) (args : list (Z * Z)) : option (Z * Z * list Z * Z) :=
  let rho0 : fbenv := fun v => match v with
                               | Vnargs => Z.of_nat (length args) | Vralign => ralign | Vrsize => rsize | _ => 0 end in
  let st1 := exec_list (p_pre p) (mkst rho0 [] None) in
  let st2 := exec_loop (p_loop p) 0 args st1 in
  let st3 := exec_list (p_post p) st2 in
  match stores st3, xsize st3 with
  | (k0, r) :: ss, Some sz =>
      if (k0 =? 0) && zlist_eqb (map fst ss) (arg_keys 0 args) && (length (stores st1) =? 1)%nat
      then Some (r, env st1 Voff - r, map snd ss, sz) else None
  | _, _ => None
  end.
