(* C13 — all call paths to a C function agree.   Executable model of the two families of conversion code:

   API mode   generated wrapper _cffi_f_<name>    src/cffi/recompiler.py:527  _convert_funcarg_to_c
                                                  src/cffi/recompiler.py:592  _convert_expr_from_c
              helpers                             src/cffi/_cffi_include.h:  _cffi_to_c_int, _cffi_from_c_int, ...
                                                  src/c/_cffi_backend.c:7700.. _cffi_to_c_i8.._u64, _cffi_to_c__Bool,
                                                                               _cffi_to_c_long_double, _cffi_to_c_wchar_t
   libffi     cdata_call                          src/c/_cffi_backend.c:3045
              convert_from_object                 src/c/_cffi_backend.c:1640
              convert_to_object                   src/c/_cffi_backend.c:1085
              _prepare_pointer_call_argument      src/c/_cffi_backend.c:2961
              convert_array_from_object           src/c/_cffi_backend.c:1476
              fb_build (exchange buffer layout)   src/c/_cffi_backend.c:5730

   Errors reported "in band" by the C helpers (a sentinel return value plus PyErr_Occurred()) are modelled
   as such: a helper returns a [ret] = (C value, pending exception), and the generated wrapper's test
   `if (x == (T)-1 && PyErr_Occurred())` is modelled literally, so that a helper that sets an exception
   without returning the sentinel (the call would go ahead with an exception pending) shows up as [CBad].

   Platform: x86-64 SysV LP64 (sizes of the primitive types are parameters of the type syntax). *)
From Coq Require Import ZArith List Bool Lia.
(* the bound expressions of _cffi_to_c_SIGNED_FN / _cffi_to_c_UNSIGNED_FN are NOT restated here: they are the C
   expressions regenerated from src/c/_cffi_backend.c into C03/Gen.v (tools/props/c03_regen.py, re-run by
   ./check C13), evaluated by the C-expression interpreter C03/CExpr.v *)
From Cffi Require C03.CExpr C03.Gen C03.Model.      (* no Import: qualified names only *)
From Cffi Require Import C13.Gen.                   (* regenerated: the two flattening loops of fb_fill_type *)
Import ListNotations.
Open Scope Z_scope.

(* ------------------------------------------------------------------ types *)
Inductive prim :=
| PI (size : Z) (sg : bool)     (* integer type of 1,2,4,8 bytes *)
| PB                            (* _Bool *)
| PC (size : Z)                 (* char (1), char16_t (2), wchar_t / char32_t (4) *)
| PF32 | PF64 | PF80.           (* float, double, long double *)

(* cffi's primitive ctypes are nominal: 'int8_t' and 'signed char' are different types; nid identifies the name *)
Inductive item := IVoid | IPrim (nid : Z) (p : prim) | IStruct (id : Z) (fields : list prim).

Inductive ctype :=
| Prim (p : prim)
| Ptr (it : item)
| Struct (id : Z) (fields : list prim)
| FnPtr.

Inductive exn := TypeError | OverflowError | ValueError | IndexError | SystemError.

(* ------------------------------------------------------------------ Python values (what the backend distinguishes) *)
Inductive pyval :=
| PyInt (z : Z)
| PyBool (b : bool)
| PyFloat (b64 b32 w64 : Z)    (* a float object: its bits; the bits of (float)v; the bits of (double)(float)v *)
| PyBytes (l : list Z)
| PyStr (l : list Z)            (* code points *)
| PyNone
| PyObj                         (* an object with no number slots *)
| PyIntLike (z : Z)             (* an object whose __int__ returns the int z (no __float__/__index__) *)
| PyList (l : list pyval)       (* list or tuple *)
| PyCPrim (p : prim) (bits : Z) (b64 : Z)
                                (* <cdata 'p'>: object representation as an unsigned number; for the
                                   floating types b64 = bits of the value converted to double *)
| PyCPtr (it : item) (null : bool) (mem : list Z)     (* pointer cdata; bytes it points to *)
| PyCArr (it : item) (mem : list Z)                   (* array cdata *)
| PyCStruct (id : Z) (vals : list Z)                  (* struct cdata: field object representations *)
| PyCFn.                                              (* function-pointer cdata / API-mode builtin *)

(* ------------------------------------------------------------------ C-level outcomes *)
Inductive cval :=
| CInt (size : Z) (v : Z)          (* size bytes holding the unsigned number v *)
| CLD (b64 : Z)                    (* a long double whose conversion to double has these bits *)
| CNull
| CMem (mem : list Z)              (* non-null pointer to these bytes *)
| CStructV (fs : list cval)
| CFun.

Inductive conv := COk (v : cval) | CErr (e : exn)
  | CBad            (* the call would proceed with an exception set *)
  | CUnmodelled.    (* input outside the modelled fragment (ints that are not exactly representable as floats) *)

(* a C helper's in-band error protocol *)
Record ret := mkret { rval : Z; rpend : option exn }.
Definition okr (v : Z) := mkret v None.
Definition err (v : Z) (e : exn) := mkret v (Some e).

Definition wrapU (size z : Z) : Z := z mod 2 ^ (8 * size).
Definition wrapS (size z : Z) : Z :=
  let u := wrapU size z in if u <? 2 ^ (8 * size - 1) then u else u - 2 ^ (8 * size).

(* ------------------------------------------------------------------ CPython / backend number extraction *)
Definition LLMIN := - 2 ^ 63.
Definition LLMAX := 2 ^ 63 - 1.
Definition ULLMAX := 2 ^ 64 - 1.

Definition pylong_as_longlong (z : Z) : ret :=
  if (LLMIN <=? z) && (z <=? LLMAX) then okr z else err (-1) OverflowError.

(* strict branch of _my_PyLong_AsUnsignedLongLong on an int *)
Definition pylong_as_ulonglong_strict (z : Z) : ret :=
  if z <? 0 then err ULLMAX OverflowError
  else if z <=? ULLMAX then okr z else err ULLMAX OverflowError.

Definition is_floatlike (x : pyval) : bool :=
  match x with
  | PyFloat _ _ _ => true
  | PyCPrim PF32 _ _ | PyCPrim PF64 _ _ | PyCPrim PF80 _ _ => true
  | _ => false
  end.

(* tp_as_number->nb_int: None = slot missing; cdata_int _cffi_backend.c:2308 *)
Definition nb_int (x : pyval) : option (Z + exn) :=
  match x with
  | PyIntLike z => Some (inl z)
  | PyCPrim (PI size sg) bits _ => Some (inl (if sg then wrapS size bits else wrapU size bits))
  | PyCPrim PB bits _ => Some (inl bits)
  | PyCPrim (PC size) bits _ => Some (inl (if size =? 4 then wrapS 4 bits else bits))
  | PyCPrim _ _ _ => Some (inr TypeError)
  | PyCPtr _ _ _ | PyCArr _ _ | PyCStruct _ _ | PyCFn => Some (inr TypeError)
  | _ => None
  end.

(* _my_PyLong_AsLongLong  _cffi_backend.c:833 *)
Definition my_as_longlong (x : pyval) : ret :=
  match x with
  | PyInt z => pylong_as_longlong z
  | PyBool b => okr (if b then 1 else 0)
  | _ => if is_floatlike x then err (-1) TypeError
         else match nb_int x with
              | None => err (-1) TypeError
              | Some (inr e) => err (-1) e
              | Some (inl z) => pylong_as_longlong z
              end
  end.

(* _my_PyLong_AsUnsignedLongLong(ob, strict=1)  _cffi_backend.c:869 *)
Definition my_as_ulonglong (x : pyval) : ret :=
  match x with
  | PyInt z => pylong_as_ulonglong_strict z
  | PyBool b => okr (if b then 1 else 0)
  | _ => if is_floatlike x then err ULLMAX TypeError
         else match nb_int x with
              | None => err ULLMAX TypeError
              | Some (inr e) => err ULLMAX e
              | Some (inl z) => pylong_as_ulonglong_strict z
              end
  end.

(* bits of the double / float nearest to a small int (exact for |z| < 2^24) *)
Definition fbits_of_int (mbits ebias : Z) (z : Z) : Z :=
  if z =? 0 then 0 else
  let a := Z.abs z in
  let e := Z.log2 a in
  (if z <? 0 then 2 ^ (mbits + (if mbits =? 52 then 11 else 8)) else 0)
  + (e + ebias) * 2 ^ mbits + (a * 2 ^ (mbits - e) - 2 ^ mbits).

Definition MINUS1_D := 13830554455654793216.     (* bits of -1.0 : 0xBFF0000000000000 *)
Definition MINUS1_F := 3212836864.               (* bits of -1.0f: 0xBF800000 *)

(* a C double together with its float narrowing, all as bit patterns *)
Record dbl := mkdbl { d64 : Z; d32 : Z; dw64 : Z }.
Definition minus1 := mkdbl MINUS1_D MINUS1_F MINUS1_D.

Inductive dres := DOk (d : dbl) | DErr (e : exn) | DUnmodelled.

(* PyFloat_AsDouble: floats; ints (exactly representable ones are modelled; >= 2^1024 overflows);
   cdata via cdata_float (_cffi_backend.c:2352): floating cdata only *)
Definition pyfloat_asdouble (x : pyval) : dres :=
  match x with
  | PyFloat b64 b32 w64 => DOk (mkdbl b64 b32 w64)
  | PyInt z =>
      if Z.abs z <? 2 ^ 24 then DOk (mkdbl (fbits_of_int 52 1023 z) (fbits_of_int 23 127 z) (fbits_of_int 52 1023 z))
      else if 2 ^ 1024 <=? Z.abs z then DErr OverflowError else DUnmodelled
  | PyBool b => let z := if b then 1 else 0 in
      DOk (mkdbl (fbits_of_int 52 1023 z) (fbits_of_int 23 127 z) (fbits_of_int 52 1023 z))
  | PyCPrim PF64 bits b64 => DOk (mkdbl b64 0 b64)          (* narrowing of a double cdata: not modelled (d32 unused for double targets) *)
  | PyCPrim PF32 bits b64 => DOk (mkdbl b64 bits b64)
  | _ => DErr TypeError
  end.

(* ------------------------------------------------------------------ libffi path: convert_from_object on primitives *)
Definition char_ok (size : Z) (x : pyval) : option Z :=
  match x with
  | PyBytes [c] => if size =? 1 then Some c else None
  | PyStr [c] => if size =? 1 then None else if (size =? 2) && (65535 <? c) then None else Some c
  | PyCPrim (PC s) bits _ => if s =? size then Some bits else None
  | _ => None
  end.

Definition ffi_conv_prim (p : prim) (x : pyval) : conv :=
  match p with
  | PI size true =>
      let r := my_as_longlong x in
      match rpend r with
      | Some e => if rval r =? -1 then CErr e else CBad
      | None =>
          (* write_raw_integer_data(buf); if (value != read_raw_signed_data(buf)) goto overflow *)
          if rval r =? wrapS size (rval r) then COk (CInt size (wrapU size (rval r))) else CErr OverflowError
      end
  | PI size false =>
      let r := my_as_ulonglong x in
      match rpend r with
      | Some e => if rval r =? ULLMAX then CErr e else CBad
      | None => if rval r =? wrapU size (rval r) then COk (CInt size (wrapU size (rval r))) else CErr OverflowError
      end
  | PB =>
      let r := my_as_ulonglong x in
      match rpend r with
      | Some e => if rval r =? ULLMAX then CErr e else CBad
      | None => if 1 <? rval r then CErr OverflowError else COk (CInt 1 (rval r))
      end
  | PF32 => match pyfloat_asdouble x with
            | DOk d => COk (CInt 4 (d32 d)) | DErr e => CErr e | DUnmodelled => CUnmodelled end
  | PF64 => match pyfloat_asdouble x with
            | DOk d => COk (CInt 8 (d64 d)) | DErr e => CErr e | DUnmodelled => CUnmodelled end
  | PF80 => match x with
            | PyCPrim PF80 bits b64 => COk (CLD b64)
            | _ => match pyfloat_asdouble x with
                   | DOk d => COk (CLD (d64 d)) | DErr e => CErr e | DUnmodelled => CUnmodelled end
            end
  | PC size => match char_ok size x with        (* stored through a char / char16_t / char32_t lvalue *)
               | Some c => COk (CInt size (wrapU size c)) | None => CErr TypeError end
  end.

(* ------------------------------------------------------------------ API path: the exported helpers *)
(* value of a regenerated bound expression for SIZE = 8*size (0 if its evaluation is undefined in C) *)
Definition src_value (size : Z) (c : C03.CExpr.binop * C03.CExpr.cexpr) : Z :=
  match C03.CExpr.ceval (C03.Model.env_size (8 * size)) (snd c) with Some (_, z) => z | None => 0 end.
Definition no_check : C03.CExpr.binop * C03.CExpr.cexpr := (C03.CExpr.BGt, C03.CExpr.ELit C03.CExpr.TInt 0).
Definition i_hi (size : Z) : Z := src_value size (nth 0 C03.Gen.signed_checks no_check).     (* tmp > (PY_LONG_LONG)((1ULL<<(SIZE-1)) - 1) *)
Definition i_lo (size : Z) : Z := src_value size (nth 1 C03.Gen.signed_checks no_check).     (* tmp < (PY_LONG_LONG)(0ULL-(1ULL<<(SIZE-1))) *)
Definition u_hi (size : Z) : Z := src_value size (nth 0 C03.Gen.unsigned_checks no_check).   (* tmp > ~(((unsigned PY_LONG_LONG)-2) << (SIZE-1)) *)

(* _cffi_to_c_SIGNED_FN(RETURNTYPE, SIZE)  (SIZE in bits = 8*size) *)
Definition to_c_i (size : Z) (x : pyval) : ret :=
  let r := my_as_longlong x in
  let tmp := rval r in
  if ((i_hi size <? tmp) || (tmp <? i_lo size)) then
    match rpend r with
    | None => err (-1) OverflowError            (* return (RETURNTYPE)_convert_overflow(...) *)
    | Some e => mkret tmp (Some e)
    end
  else mkret tmp (rpend r).

(* _cffi_to_c_UNSIGNED_FN *)
Definition to_c_u (size : Z) (x : pyval) : ret :=
  let r := my_as_ulonglong x in
  let tmp := rval r in
  if u_hi size <? tmp then
    match rpend r with
    | None => err (-1) OverflowError
    | Some e => mkret tmp (Some e)
    end
  else mkret tmp (rpend r).

(* _cffi_to_c__Bool *)
Definition to_c_bool (x : pyval) : ret :=
  let r := my_as_longlong x in
  if rval r =? 0 then mkret 0 None          (* note: returns before looking at the error indicator *)
  else if rval r =? 1 then mkret 1 None
  else match rpend r with
       | Some e => mkret 1 (Some e)          (* (_Bool)-1 *)
       | None => err 1 OverflowError
       end.

(* the wrapper's test:  x = (T)helper(o);  if (x == (T)-1 && PyErr_Occurred()) return NULL; *)
Definition wrapper_check_s (size sentinel : Z) (r : ret) : conv :=
  let x := wrapU size (rval r) in
  match rpend r with
  | Some e => if x =? wrapU size sentinel then CErr e else CBad
  | None => COk (CInt size x)
  end.
Definition wrapper_check (size : Z) (r : ret) : conv := wrapper_check_s size (-1) r.

Definition api_conv_prim (p : prim) (x : pyval) : conv :=
  match p with
  | PI size true => wrapper_check size (to_c_i size x)
  | PI size false => wrapper_check size (to_c_u size x)
  | PB =>
      let r := to_c_bool x in
      match rpend r with
      | Some e => if rval r =? 1 then CErr e else CBad         (* (_Bool)-1 == 1 *)
      | None => COk (CInt 1 (rval r))
      end
  | PF32 => match pyfloat_asdouble x with       (* x = (float)PyFloat_AsDouble(o); if (x == (float)-1 && PyErr_Occurred()) *)
            | DOk d => COk (CInt 4 (d32 d))
            | DErr e => if d32 minus1 =? MINUS1_F then CErr e else CBad
            | DUnmodelled => CUnmodelled end
  | PF64 => match pyfloat_asdouble x with
            | DOk d => COk (CInt 8 (d64 d))
            | DErr e => if d64 minus1 =? MINUS1_D then CErr e else CBad
            | DUnmodelled => CUnmodelled end
  | PF80 => match x with                         (* _cffi_to_c_long_double *)
            | PyCPrim PF80 bits b64 => COk (CLD b64)
            | _ => match pyfloat_asdouble x with
                   | DOk d => COk (CLD (d64 d)) | DErr e => CErr e | DUnmodelled => CUnmodelled end
            end
  | PC size =>                                    (* _cffi_to_c_char / _wchar_t / _wchar3216_t: same _convert_to_char* *)
      match char_ok size x with
      | Some c => COk (CInt size (wrapU size c))
      | None => wrapper_check size (err (-1) TypeError)
      end
  end.

(* ------------------------------------------------------------------ pointers, structs: shared backend code *)
Definition prim_size (p : prim) : Z :=
  match p with PI s _ => s | PB => 1 | PC s => s | PF32 => 4 | PF64 => 8 | PF80 => 16 end.

(* natural layout of a struct of primitives (alignment of a primitive = its size) *)
Definition align_up (off a : Z) : Z := (off + a - 1) / a * a.
Fixpoint struct_end (off : Z) (ps : list prim) : Z :=
  match ps with [] => off | p :: ps' => struct_end (align_up off (prim_size p) + prim_size p) ps' end.
Definition struct_align (ps : list prim) : Z := fold_right (fun p a => Z.max (prim_size p) a) 1 ps.
Definition struct_size (ps : list prim) : Z := align_up (struct_end 0 ps) (struct_align ps).

Definition item_size (it : item) : Z :=
  match it with
  | IVoid => -1
  | IPrim _ (PI s _) => s | IPrim _ PB => 1 | IPrim _ (PC s) => s
  | IPrim _ PF32 => 4 | IPrim _ PF64 => 8 | IPrim _ PF80 => 16
  | IStruct _ ps => struct_size ps
  end.

Definition prim_eqb (a b : prim) : bool :=
  match a, b with
  | PI s1 g1, PI s2 g2 => (s1 =? s2) && Bool.eqb g1 g2
  | PB, PB | PF32, PF32 | PF64, PF64 | PF80, PF80 => true
  | PC s1, PC s2 => s1 =? s2
  | _, _ => false
  end.
Fixpoint prims_eqb (a b : list prim) : bool :=
  match a, b with
  | [], [] => true
  | x :: a', y :: b' => prim_eqb x y && prims_eqb a' b'
  | _, _ => false
  end.
Definition item_eqb (a b : item) : bool :=
  match a, b with
  | IVoid, IVoid => true
  | IPrim n p, IPrim m q => (n =? m) && prim_eqb p q
  | IStruct i _, IStruct j _ => i =? j
  | _, _ => false
  end.
Definition is_char1 (it : item) : bool := match it with IPrim _ (PC 1) => true | _ => false end.
Definition is_voidchar (it : item) : bool := match it with IVoid => true | _ => is_char1 it end.

(* convert_from_object, CT_POINTER case, for a cdata initializer of pointer/array type *)
Definition ptr_compat (want have : item) : bool :=
  if item_eqb want have then true
  else match want, have with
       | IVoid, _ | _, IVoid => true
       | _, _ => if is_char1 want || is_char1 have
                 then (item_size want =? 1) && (item_size have =? 1) else false
       end.

Fixpoint le_bytes (n : nat) (v : Z) : list Z :=
  match n with O => [] | S n' => (v mod 256) :: le_bytes n' (v / 256) end.

Definition bytes_of_cval (c : cval) : list Z :=
  match c with
  | CInt size v => le_bytes (Z.to_nat size) v
  | _ => []
  end.

(* list initializer for a temporary array: every item through convert_from_object (in BOTH paths) *)
Fixpoint conv_items (p : prim) (l : list pyval) : conv + list Z :=
  match l with
  | [] => inr []
  | x :: l' =>
      match ffi_conv_prim p x with
      | COk c => match conv_items p l' with inr bs => inr (bytes_of_cval c ++ bs) | inl e => inl e end
      | other => inl other
      end
  end.

Definition all01 (l : list Z) : bool := forallb (fun b => b <=? 1) l.

(* number of UTF-16 units *)
Definition size16 (l : list Z) : Z := fold_right (fun c n => n + (if 65535 <? c then 2 else 1)) 0 l.
Fixpoint enc16 (l : list Z) : list Z :=
  match l with
  | [] => []
  | c :: l' => (if 65535 <? c then le_bytes 2 (55296 + (c - 65536) / 1024) ++ le_bytes 2 (56320 + (c - 65536) mod 1024)
                else le_bytes 2 c) ++ enc16 l'
  end.
Fixpoint enc32 (l : list Z) : list Z :=
  match l with [] => [] | c :: l' => le_bytes 4 c ++ enc32 l' end.

Definition zeros (n : Z) : list Z := repeat 0 (Z.to_nat n).
(* memset(tmp, 0, datasize) then the converted bytes written from offset 0 *)
Definition tmp_array (datasize : Z) (bs : list Z) : list Z :=
  bs ++ zeros (datasize - Z.of_nat (length bs)).

Fixpoint conv_fields (ps : list prim) (xs : list pyval) : conv + list cval :=
  match xs with
  | [] => inr []
  | x :: xs' =>
      match ps with
      | [] => inl (CErr ValueError)               (* too many initializers *)
      | p :: ps' =>
          match ffi_conv_prim p x with
          | COk c => match conv_fields ps' xs' with inr cs => inr (c :: cs) | inl e => inl e end
          | other => inl other
          end
      end
  end.

Fixpoint zero_fields (ps : list prim) : list cval :=
  match ps with [] => [] | p :: ps' => CInt (prim_size p) 0 :: zero_fields ps' end.
Fixpoint pad_fields (ps : list prim) (cs : list cval) : list cval :=
  match ps, cs with
  | _ :: ps', c :: cs' => c :: pad_fields ps' cs'
  | _, [] => zero_fields ps
  | [], _ => []
  end.
Fixpoint struct_vals (ps : list prim) (vs : list Z) : list cval :=
  match ps, vs with
  | p :: ps', v :: vs' => CInt (prim_size p) v :: struct_vals ps' vs'
  | _, _ => []
  end.

(* object representation of a struct whose fields have the C values cs (padding = the zero bytes left by memset) *)
Fixpoint layout_fields (off : Z) (ps : list prim) (cs : list cval) : list Z :=
  match ps, cs with
  | p :: ps', c :: cs' =>
      let o := align_up off (prim_size p) in
      zeros (o - off) ++ bytes_of_cval c ++ layout_fields (o + prim_size p) ps' cs'
  | _, _ => []
  end.
Definition struct_bytes (ps : list prim) (cs : list cval) : list Z :=
  let b := layout_fields 0 ps (pad_fields ps cs) in b ++ zeros (struct_size ps - Z.of_nat (length b)).

(* list initializer for a temporary array of structs: the array has been cleared; every item is a (possibly partial)
   list of field values, or a struct cdata of the same type (copied whole) *)
Fixpoint conv_struct_items (id : Z) (ps : list prim) (l : list pyval) : conv + list Z :=
  match l with
  | [] => inr []
  | x :: l' =>
      let this := match x with
                  | PyList fl => match conv_fields ps fl with inr cs => inr (struct_bytes ps cs) | inl c => inl c end
                  | PyCStruct id' vals => if id =? id' then inr (struct_bytes ps (struct_vals ps vals)) else inl (CErr TypeError)
                  | _ => inl (CErr TypeError)
                  end in
      match this with
      | inr b => match conv_struct_items id ps l' with inr bs => inr (b ++ bs) | inl e => inl e end
      | inl e => inl e
      end
  end.

(* _prepare_pointer_call_argument followed by what both callers do with its answer
   (alloca/malloc + memset + convert_array_from_object). The two callers differ only in where the temporary
   lives (alloca threshold 512 vs 640 bytes), which is not observable by the callee. *)
Definition conv_pointer (it : item) (x : pyval) : conv :=
  match x with
  | PyCPtr have null mem => if ptr_compat it have then COk (if null then CNull else CMem mem) else CErr TypeError
  | PyCArr have mem => if ptr_compat it have then COk (CMem mem) else CErr TypeError
  | PyCPrim _ _ _ | PyCStruct _ _ => CErr TypeError
  | PyCFn => match it with IVoid => COk (CMem []) | _ => CErr TypeError end    (* a function pointer converts to void* *)
  | PyBytes l =>
      if is_voidchar it || (match it with IPrim _ (PI 1 _) => true | IPrim _ PB => true | _ => false end)
      then match it with
           | IPrim _ PB => if all01 l then COk (CMem (l ++ [0])) else CErr ValueError
           | _ => COk (CMem (l ++ [0]))
           end
      else CErr TypeError
  | PyList l =>
      match it with
      | IPrim _ p =>
          let datasize := Z.max 1 (Z.of_nat (length l) * item_size it) in
          match conv_items p l with
          | inr bs => COk (CMem (tmp_array datasize bs))
          | inl c => c
          end
      | IStruct id ps =>
          let datasize := Z.max 1 (Z.of_nat (length l) * item_size it) in
          match conv_struct_items id ps l with
          | inr bs => COk (CMem (tmp_array datasize bs))
          | inl c => c
          end
      | IVoid => CErr TypeError         (* void: ct_size <= 0 -> convert_default *)
      end
  | PyStr l =>
      match it with
      | IVoid => CErr TypeError
      | IPrim _ (PC 2) => COk (CMem (tmp_array ((size16 l + 1) * 2) (enc16 l ++ [0; 0])))
      | IPrim _ (PC 4) => COk (CMem (tmp_array ((Z.of_nat (length l) + 1) * 4) (enc32 l ++ [0; 0; 0; 0])))
      | _ => CErr TypeError
      end
  | _ => CErr TypeError
  end.

(* convert_from_object, CT_STRUCT case: the same function is exported as _cffi_to_c *)
Definition conv_struct (id : Z) (ps : list prim) (x : pyval) : conv :=
  match x with
  | PyCStruct id' vals => if id =? id' then COk (CStructV (struct_vals ps vals)) else CErr TypeError
  | PyList l => match conv_fields ps l with
                | inr cs => COk (CStructV (pad_fields ps cs))   (* both callers clear the destination first: memset *)
                | inl c => c
                end
  | _ => CErr TypeError
  end.

Definition conv_fnptr (x : pyval) : conv :=
  match x with
  | PyCFn => COk CFun
  | PyCPtr IVoid null _ => COk (if null then CNull else CFun)
  | _ => CErr TypeError
  end.

(* ------------------------------------------------------------------ one argument, both paths *)
Definition ffi_conv (t : ctype) (x : pyval) : conv :=
  match t with
  | Prim p => ffi_conv_prim p x
  | Ptr it => conv_pointer it x
  | Struct id ps => conv_struct id ps x
  | FnPtr => conv_fnptr x
  end.

Definition api_conv (t : ctype) (x : pyval) : conv :=
  match t with
  | Prim p => api_conv_prim p x
  | Ptr it => conv_pointer it x          (* _cffi_prepare_pointer_call_argument + _cffi_convert_array_argument *)
  | Struct id ps => conv_struct id ps x  (* _cffi_to_c = convert_from_object *)
  | FnPtr =>                             (* x = (T)_cffi_to_c_pointer(o, type); if (x == (T)NULL && PyErr_Occurred()) *)
      match conv_fnptr x with
      | CErr e => match wrapper_check_s 8 0 (err 0 e) with COk _ => CBad | o => o end
      | o => o
      end
  end.

(* ------------------------------------------------------------------ whole calls *)
Fixpoint conv_args (cv : ctype -> pyval -> conv) (ts : list ctype) (xs : list pyval) : conv + list cval :=
  match ts, xs with
  | [], [] => inr []
  | t :: ts', x :: xs' =>
      match cv t x with
      | COk c => match conv_args cv ts' xs' with inr cs => inr (c :: cs) | inl e => inl e end
      | other => inl other
      end
  | _, _ => inl (CErr TypeError)          (* arity: PyArg_UnpackTuple / METH_O / "expects N arguments" *)
  end.

Definition call_args (api : bool) (ts : list ctype) (xs : list pyval) : conv + list cval :=
  if negb (length ts =? length xs)%nat then inl (CErr TypeError)
  else conv_args (if api then api_conv else ffi_conv) ts xs.

(* what the recording C function writes for one argument (tools/props/c13_common.py rec_code);
   plen = number of pointee bytes recorded for this argument *)
Fixpoint rec_bytes (plen : Z) (c : cval) : list Z :=
  match c with
  | CInt size v => le_bytes (Z.to_nat size) v
  | CLD b64 => le_bytes 8 b64
  | CNull => [0]
  | CMem mem => 1 :: (if plen <=? 64 then firstn (Z.to_nat plen) mem
                      else le_bytes 8 (fold_left (fun h b => (h * 31 + b) mod 2 ^ 64) (firstn (Z.to_nat plen) mem) 0))
  | CStructV fs => (fix go (l : list cval) := match l with [] => [] | f :: l' => rec_bytes 0 f ++ go l' end) fs
  | CFun => [1; 22; 0; 0; 0]               (* c13_helper(3) = 22 *)
  end.

Fixpoint rec_all (plens : list Z) (cs : list cval) : list Z :=
  match cs, plens with
  | c :: cs', n :: plens' => rec_bytes n c ++ rec_all plens' cs'
  | c :: cs', [] => rec_bytes 0 c ++ rec_all [] cs'
  | [], _ => []
  end.

(* exception class, or the bytes the callee records for its arguments *)
Definition exn_code (e : exn) : Z :=
  match e with TypeError => 1 | OverflowError => 2 | ValueError => 3 | IndexError => 4 | SystemError => 5 end.

Definition call_record (api : bool) (ts : list ctype) (xs : list pyval) (plens : list Z) : Z + list Z :=
  match call_args api ts xs with
  | inr cs => inr (rec_all plens cs)
  | inl (CErr e) => inl (exn_code e)
  | inl _ => inl 99
  end.

(* ------------------------------------------------------------------ results *)
Inductive pyres := RInt (z : Z) | RBool (b : bool) | RFloatOf (size bits : Z) | RBytes1 (c : Z) | RStr1 (c : Z)
                 | RNone | RCData | RErr (e : exn).

(* convert_to_object (libffi) on the raw result: `raw` = unsigned number held in the low `size` bytes *)
Definition ffi_result (p : prim) (raw : Z) : pyres :=
  match p with
  | PI size true => RInt (wrapS size raw)      (* read_raw_signed_data; PyLong_FromLong / FromLongLong *)
  | PI size false => RInt (wrapU size raw)     (* FITS_LONG -> PyLong_FromLong((long)value) else FromUnsignedLongLong *)
  | PB => match wrapU 1 raw with 0 => RBool false | 1 => RBool true | _ => RErr ValueError end
  | PF32 => RFloatOf 4 raw | PF64 => RFloatOf 8 raw | PF80 => RCData
  | PC 1 => RBytes1 (wrapU 1 raw)
  | PC s => RStr1 (wrapU s raw)
  end.

(* _cffi_from_c_int(x, type): dispatch on signedness and on sizeof(type) vs sizeof(long) = 8 *)
Definition from_c_int (size : Z) (sg : bool) (raw : Z) : Z :=
  if negb sg then
    if size <? 8 then wrapS 8 (wrapU size raw)      (* PyLong_FromLong((long)x), x unsigned and narrower *)
    else wrapU 8 raw                                 (* PyLong_FromUnsignedLong *)
  else wrapS 8 (wrapS size raw).                     (* PyLong_FromLong((long)x) *)

(* the C compiler has already normalised a _Bool: raw is 0 or 1 for a conforming callee *)
Definition api_result (p : prim) (raw : Z) : pyres :=
  match p with
  | PI size sg => RInt (from_c_int size sg raw)
  | PB => RBool (negb (wrapU 1 raw =? 0))       (* PyBool_FromLong *)
  | PF32 => RFloatOf 4 raw | PF64 => RFloatOf 8 raw | PF80 => RCData
  | PC 1 => RBytes1 (wrapU 1 raw)
  | PC s => RStr1 (wrapU s raw)
  end.

(* ------------------------------------------------------------------ fb_build: the exchange buffer *)
(* #define ALIGN_TO(n, a)  ((n) + ((a)-1)) & ~((a)-1) *)
Definition align_to (n a : Z) : Z := Z.land (n + (a - 1)) (Z.lnot (a - 1)).
Definition align_arg (n : Z) : Z := align_to n 8.
Definition FFI_ARG := 8.

(* args: (size, alignment) of each argument's ffi_type; returns the slot offsets and the running offset *)
Fixpoint fb_args (off : Z) (args : list (Z * Z)) : list Z * Z :=
  match args with
  | [] => ([], off)
  | (size, al) :: rest =>
      let o := align_arg (align_to off al) in
      let (offs, fin) := fb_args (o + size) rest in
      (o :: offs, fin)
  end.

Record layout := mklayout { res_off : Z; res_len : Z; arg_offs : list Z; exchange_size : Z }.

Definition fb_build (rsize ralign : Z) (args : list (Z * Z)) : layout :=
  let nargs := Z.of_nat (length args) in
  let off0 := align_arg (align_to (nargs * 8) ralign) in
  let rlen := if rsize <? FFI_ARG then FFI_ARG else rsize in
  let (offs, fin) := fb_args (off0 + rlen) args in
  mklayout off0 rlen offs (align_arg fin).

(* what cdata_call and ffi_call write: buffer_array[i] (8 bytes at 8*i), each argument (size_i bytes at its
   offset), the result (max(rsize, sizeof(ffi_arg)) bytes at res_off) *)
Definition regions (rsize ralign : Z) (args : list (Z * Z)) : list (Z * Z) :=
  let L := fb_build rsize ralign args in
  (0, Z.of_nat (length args) * 8) :: (res_off L, res_len L) :: combine (arg_offs L) (map fst args).

(* ------------------------------------------------------------------ variadic part (cdata_call:3112) *)
(* only cdata are accepted.  The ctype handed to libffi for a primitive cdata (cdata_call:3116):
       if (ct->ct_flags & (CT_PRIMITIVE_CHAR | CT_PRIMITIVE_UNSIGNED | CT_PRIMITIVE_SIGNED))
           if (ct->ct_size < sizeof(int)) ct = _get_ct_int();
   (_Bool is CT_PRIMITIVE_UNSIGNED); every other primitive keeps its own type — including float *)
Definition variadic_type (p : prim) : prim :=
  match p with
  | PI s sg => if s <? 4 then PI 4 true else PI s sg
  | PB => PI 4 true
  | PC s => if s <? 4 then PI 4 true else PC s
  | other => other
  end.

(* SPEC (C11 6.5.2.2p6-7): the default argument promotions — integer promotions, and float -> double *)
Definition c_default_promotion (p : prim) : prim :=
  match p with
  | PI s sg => if s <? 4 then PI 4 true else PI s sg      (* every type narrower than int fits in int *)
  | PB => PI 4 true
  | PC s => if s <? 4 then PI 4 true else PC s            (* char, char16_t (uint_least16_t); wchar_t/char32_t stay *)
  | PF32 => PF64
  | PF64 => PF64
  | PF80 => PF80
  end.

(* the value is then written by convert_from_object(data, <that ctype>, obj), like a declared argument *)
Definition variadic_conv (x : pyval) : conv :=
  match x with
  | PyCPrim p _ _ => ffi_conv_prim (variadic_type p) x
  | PyCPtr _ null mem => COk (if null then CNull else CMem mem)
  | PyCArr _ mem => COk (CMem mem)                        (* an array cdata is passed as a pointer *)
  | PyCStruct _ vals => COk (CStructV (map (fun v => CInt 0 v) vals))
  | PyCFn => COk CFun
  | _ => CErr TypeError                                   (* "needs to be a cdata object" *)
  end.

Definition is_cdata (x : pyval) : bool :=
  match x with PyCPrim _ _ _ | PyCPtr _ _ _ | PyCArr _ _ | PyCStruct _ _ | PyCFn => true | _ => false end.

(* the types of the variadic part are decided (and can fail) before any argument is converted *)
Fixpoint variadic_types_ok (vs : list pyval) : bool :=
  match vs with
  | [] => true
  | v :: vs' => match variadic_conv v with CErr _ => false | _ => variadic_types_ok vs' end
  end.

Fixpoint conv_var (vs : list pyval) : conv + list cval :=
  match vs with
  | [] => inr []
  | v :: vs' => match variadic_conv v with
                | COk c => match conv_var vs' with inr cs => inr (c :: cs) | inl e => inl e end
                | o => inl o
                end
  end.

Definition call_args_var (ts : list ctype) (xs vs : list pyval) : conv + list cval :=
  if (length xs <? length ts)%nat then inl (CErr TypeError)
  else if negb (variadic_types_ok vs) then inl (CErr TypeError)
  else match conv_args ffi_conv ts xs with
       | inl e => inl e
       | inr cs => match conv_var vs with inr ds => inr (cs ++ ds) | inl e => inl e end
       end.

(* the variadic recording function: a0 (4 bytes), then each variadic argument as its format letter says
   (struct s1 = int + short; pointers with their plen) — fmt itself is not recorded *)
Fixpoint rec_var (plens : list Z) (cs : list cval) : list Z :=
  match cs with
  | [] => []
  | CStructV [CInt _ a; CInt _ b] :: cs' => le_bytes 4 a ++ le_bytes 2 b ++ rec_var (tl plens) cs'
  | c :: cs' => rec_bytes (hd 0 plens) c ++ rec_var (tl plens) cs'
  end.

Definition call_record_var (ts : list ctype) (xs vs : list pyval) (plens : list Z) : Z + list Z :=
  match call_args_var ts xs vs with
  | inr (a0 :: fmt :: rest) => inr (rec_bytes 0 a0 ++ rec_var (tl (tl plens)) rest)
  | inr _ => inl 99
  | inl (CErr e) => inl (exn_code e)
  | inl _ => inl 99
  end.

Definition pyres_eqb (a b : pyres) : bool :=
  match a, b with
  | RInt x, RInt y => x =? y
  | RBool x, RBool y => Bool.eqb x y
  | RFloatOf s x, RFloatOf t y => (s =? t) && (x =? y)
  | RBytes1 x, RBytes1 y => x =? y
  | RStr1 x, RStr1 y => x =? y
  | RNone, RNone => true
  | RCData, RCData => true
  | RErr x, RErr y => exn_code x =? exn_code y
  | _, _ => false
  end.

(* ------------------------------------------------------------------ fb_fill_type: struct fields -> libffi elements[] *)
(* src/c/_cffi_backend.c:5691-5745.  A field is (array dimensions outermost first, leaf size, leaf alignment); the leaf
   is a primitive, a pointer, or a nested struct — which fb_fill_type turns into ONE element by a recursive call
   that builds its own ffi_type (so everything below applies again, one level down).  The loops that count the items
   of a (multi-dimensional) array field are not restated here: flat1_* / flat2_* / fill_count come from C13/Gen.v. *)
Record field := mkfield { fdims : list Z; fsize : Z; falign : Z }.

Definition count1 (dims : list Z) : Z := fold_left flat1_step dims flat1_init.               (* first pass *)
Definition count2 (dims : list Z) : Z := fill_count (fold_left flat2_step dims flat2_init).  (* second pass *)
Definition nflat (fs : list field) : Z := fold_left (fun n f => n + count1 (fdims f)) fs 0.  (* elements[] has nflat+1 slots *)
Definition fill_refused (fs : list field) : bool := existsb (fun f => flat1_refused (count1 (fdims f))) fs.

(* elements[nflat++] = ffifield, fill_count times per field *)
Definition elements (fs : list field) : list (Z * Z) :=
  flat_map (fun f => repeat (fsize f, falign f) (Z.to_nat (count2 (fdims f)))) fs.

Definition roundup (off a : Z) : Z := (off + a - 1) / a * a.

(* what libffi derives from elements[] (ffi_prep_cif / classification walk): every element at the next offset
   aligned to its own alignment.  Result: (offset, size) of every element, and the end offset *)
Fixpoint ffi_layout (off : Z) (elems : list (Z * Z)) : list (Z * Z) * Z :=
  match elems with
  | [] => ([], off)
  | (s, a) :: rest =>
      let o := roundup off a in
      let (ls, e) := ffi_layout (o + s) rest in ((o, s) :: ls, e)
  end.

(* SPEC, written independently: where the C compiler puts the scalar leaves of the struct (natural layout; the code
   refuses packed structs, bitfields and custom field positions before reaching this point) *)
Definition product (dims : list Z) : Z := fold_right Z.mul 1 dims.
Fixpoint c_leaves (off : Z) (n : nat) (s : Z) : list (Z * Z) :=
  match n with O => [] | S n' => (off, s) :: c_leaves (off + s) n' s end.
Fixpoint c_layout (off : Z) (fs : list field) : list (Z * Z) * Z :=
  match fs with
  | [] => ([], off)
  | f :: rest =>
      let o := roundup off (falign f) in
      let n := Z.to_nat (product (fdims f)) in
      let (ls, e) := c_layout (o + Z.of_nat n * fsize f) rest in
      (c_leaves o n (fsize f) ++ ls, e)
  end.
