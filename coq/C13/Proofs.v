(* C13 — proofs: (1) the generated-wrapper conversion and convert_from_object agree on every argument type and
   every Python value; (2) result conversions agree; (3) the exchange buffer layout of fb_build is safe for all
   signatures. *)
From Coq Require Import ZArith List Bool Lia ZifyBool.
Import ListNotations.
From Cffi Require C03.CExpr C03.Gen.
From Cffi Require Import C13.Model.
Open Scope Z_scope.

(* ================================================================== 1. argument conversion *)

Definition wf_size (s : Z) : Prop := s = 1 \/ s = 2 \/ s = 4 \/ s = 8.
Definition wf_prim (p : prim) : Prop :=
  match p with PI s _ => wf_size s | PC s => s = 1 \/ s = 2 \/ s = 4 | _ => True end.
Definition wf_ctype (t : ctype) : Prop :=
  match t with Prim p => wf_prim p | _ => True end.

Lemma longlong_spec : forall x,
  (rpend (my_as_longlong x) = None /\ LLMIN <= rval (my_as_longlong x) <= LLMAX) \/
  (exists e, rpend (my_as_longlong x) = Some e /\ rval (my_as_longlong x) = -1).
Proof.
  assert (H : forall z, (rpend (pylong_as_longlong z) = None /\ LLMIN <= rval (pylong_as_longlong z) <= LLMAX) \/
                        (exists e, rpend (pylong_as_longlong z) = Some e /\ rval (pylong_as_longlong z) = -1)).
  { intro z. unfold pylong_as_longlong, LLMIN, LLMAX.
    destruct ((- 2 ^ 63 <=? z) && (z <=? 2 ^ 63 - 1)) eqn:E; cbn [rpend rval okr err].
    - left. split; [reflexivity | lia].
    - right. eexists; split; reflexivity. }
  intro x. unfold my_as_longlong.
  destruct x; try apply H;
    try (right; eexists; split; reflexivity).
  - left. split; [reflexivity |]. destruct b; unfold LLMIN, LLMAX; cbn; lia.
  - (* PyCPrim *)
    destruct (is_floatlike (PyCPrim p bits b64)); [right; eexists; split; reflexivity |].
    destruct (nb_int (PyCPrim p bits b64)) as [[z | e] |];
      [apply H | right; eexists; split; reflexivity | right; eexists; split; reflexivity].
Qed.

Lemma ulonglong_spec : forall x,
  (rpend (my_as_ulonglong x) = None /\ 0 <= rval (my_as_ulonglong x) <= ULLMAX) \/
  (exists e, rpend (my_as_ulonglong x) = Some e /\ rval (my_as_ulonglong x) = ULLMAX).
Proof.
  assert (H : forall z, (rpend (pylong_as_ulonglong_strict z) = None /\ 0 <= rval (pylong_as_ulonglong_strict z) <= ULLMAX) \/
                        (exists e, rpend (pylong_as_ulonglong_strict z) = Some e /\ rval (pylong_as_ulonglong_strict z) = ULLMAX)).
  { intro z. unfold pylong_as_ulonglong_strict, ULLMAX.
    destruct (z <? 0) eqn:E1; [right; eexists; split; reflexivity |].
    destruct (z <=? 2 ^ 64 - 1) eqn:E2;
      [left; split; [reflexivity | cbn [rpend rval okr err]; lia] | right; eexists; split; reflexivity]. }
  intro x. unfold my_as_ulonglong.
  destruct x; try apply H;
    try (right; eexists; split; reflexivity).
  - left. split; [reflexivity |]. destruct b; unfold ULLMAX; cbn; lia.
  - destruct (is_floatlike (PyCPrim p bits b64)); [right; eexists; split; reflexivity |].
    destruct (nb_int (PyCPrim p bits b64)) as [[z | e] |];
      [apply H | right; eexists; split; reflexivity | right; eexists; split; reflexivity].
Qed.

(* the two extraction functions agree up to the sign of what they refuse *)
Lemma long_vs_ulong : forall x,
  match rpend (my_as_longlong x), rpend (my_as_ulonglong x) with
  | None, None => rval (my_as_longlong x) = rval (my_as_ulonglong x)
  | None, Some e => rval (my_as_longlong x) < 0 /\ e = OverflowError
  | Some e, None => LLMAX < rval (my_as_ulonglong x) /\ e = OverflowError
  | Some e1, Some e2 => e1 = e2
  end.
Proof.
  assert (H : forall z,
    match rpend (pylong_as_longlong z), rpend (pylong_as_ulonglong_strict z) with
    | None, None => rval (pylong_as_longlong z) = rval (pylong_as_ulonglong_strict z)
    | None, Some e => rval (pylong_as_longlong z) < 0 /\ e = OverflowError
    | Some e, None => LLMAX < rval (pylong_as_ulonglong_strict z) /\ e = OverflowError
    | Some e1, Some e2 => e1 = e2
    end).
  { intro z. unfold pylong_as_longlong, pylong_as_ulonglong_strict, LLMIN, LLMAX, ULLMAX.
    destruct ((- 2 ^ 63 <=? z) && (z <=? 2 ^ 63 - 1)) eqn:E1; destruct (z <? 0) eqn:E2;
      destruct (z <=? 2 ^ 64 - 1) eqn:E3; cbn [rpend rval okr err]; repeat split; try reflexivity; lia. }
  intro x. unfold my_as_longlong, my_as_ulonglong.
  destruct x; try apply H; try (cbn; reflexivity).
  all: try (destruct b; reflexivity).
  all: destruct p; cbn; try reflexivity; apply H.
Qed.

Lemma wrapS_id : forall s v, wf_size s -> - 2 ^ (8 * s - 1) <= v <= 2 ^ (8 * s - 1) - 1 -> wrapS s v = v.
Proof.
  intros s v [-> | [-> | [-> | ->]]] H; unfold wrapS, wrapU; cbn in *;
    match goal with |- context [v mod ?m] =>
      pose proof (Z.mod_pos_bound v m ltac:(lia));
      assert (E : v mod m = v \/ v mod m = v + m)
        by (destruct (Z_lt_le_dec v 0);
            [right; symmetry; apply Z.mod_unique with (q := -1); lia
            | left; apply Z.mod_small; lia]);
      destruct E as [E | E]; rewrite E;
      match goal with |- (if ?c then _ else _) = _ => destruct c eqn:C end; lia
    end.
Qed.

Lemma wrapS_range : forall s v, wf_size s -> - 2 ^ (8 * s - 1) <= wrapS s v <= 2 ^ (8 * s - 1) - 1.
Proof.
  intros s v [-> | [-> | [-> | ->]]]; unfold wrapS, wrapU; cbn;
    match goal with |- context [v mod ?m] => pose proof (Z.mod_pos_bound v m ltac:(lia)) end;
    match goal with |- _ <= (if ?c then _ else _) <= _ => destruct c eqn:C end; lia.
Qed.

Lemma wrapU_id : forall s v, 0 <= v < 2 ^ (8 * s) -> wrapU s v = v.
Proof. intros. unfold wrapU. apply Z.mod_small. lia. Qed.

Lemma wrapU_range : forall s v, wf_size s -> 0 <= wrapU s v < 2 ^ (8 * s).
Proof. intros s v [-> | [-> | [-> | ->]]]; unfold wrapU; apply Z.mod_pos_bound; cbn; lia. Qed.

(* the regenerated source bounds, evaluated with C semantics, for every instantiated size *)
Lemma u_hi_val : forall s, wf_size s -> u_hi s = 2 ^ (8 * s) - 1.
Proof. intros s [-> | [-> | [-> | ->]]]; vm_compute; reflexivity. Qed.
Lemma i_hi_val : forall s, wf_size s -> i_hi s = 2 ^ (8 * s - 1) - 1.
Proof. intros s [-> | [-> | [-> | ->]]]; vm_compute; reflexivity. Qed.
Lemma i_lo_val : forall s, wf_size s -> i_lo s = - 2 ^ (8 * s - 1).
Proof. intros s [-> | [-> | [-> | ->]]]; vm_compute; reflexivity. Qed.
(* shape of the regenerated tests: `tmp > hi || tmp < lo` and `tmp > hi`, the sizes they are instantiated at *)
Lemma source_checks_shape :
  map fst C03.Gen.signed_checks = [C03.CExpr.BGt; C03.CExpr.BLt] /\ map fst C03.Gen.unsigned_checks = [C03.CExpr.BGt] /\
  map snd C03.Gen.signed_insts = [8; 16; 32; 64] /\ map snd C03.Gen.unsigned_insts = [8; 16; 32; 64].
Proof. vm_compute. repeat split; reflexivity. Qed.

Lemma wrapU_m1 : forall s, wf_size s -> wrapU s (-1) = 2 ^ (8 * s) - 1.
Proof. intros s [-> | [-> | [-> | ->]]]; vm_compute; reflexivity. Qed.

Lemma wrapU_ullmax : forall s, wf_size s -> wrapU s ULLMAX = 2 ^ (8 * s) - 1.
Proof. intros s [-> | [-> | [-> | ->]]]; vm_compute; reflexivity. Qed.

Lemma pow_bounds : forall s, wf_size s -> 2 ^ (8 * s - 1) <= 2 ^ 63 /\ 2 ^ (8 * s) <= 2 ^ 64 /\ 0 < 2 ^ (8 * s - 1) /\
                                            2 ^ (8 * s) = 2 * 2 ^ (8 * s - 1).
Proof. intros s [-> | [-> | [-> | ->]]]; cbn; lia. Qed.

Lemma signed_agree : forall s x, wf_size s ->
  api_conv_prim (PI s true) x = ffi_conv_prim (PI s true) x.
Proof.
  intros s x W. cbn. unfold to_c_i, wrapper_check, wrapper_check_s.
  rewrite (i_hi_val s W), (i_lo_val s W).
  pose proof (pow_bounds s W) as (P1 & P2 & P3 & P4).
  destruct (longlong_spec x) as [[Hp Hr] | [e [Hp Hr]]]; rewrite Hp.
  - unfold LLMIN, LLMAX in Hr.
    destruct ((2 ^ (8 * s - 1) - 1 <? rval (my_as_longlong x)) || (rval (my_as_longlong x) <? - 2 ^ (8 * s - 1))) eqn:B; cbn.
    + rewrite (wrapU_m1 s W), Z.eqb_refl.
      destruct (rval (my_as_longlong x) =? wrapS s (rval (my_as_longlong x))) eqn:E; [| reflexivity].
      pose proof (wrapS_range s (rval (my_as_longlong x)) W). lia.
    + rewrite (wrapS_id s _ W) by lia. rewrite Z.eqb_refl. reflexivity.
  - rewrite Hr.
    destruct ((2 ^ (8 * s - 1) - 1 <? -1) || (-1 <? - 2 ^ (8 * s - 1))); cbn; rewrite Z.eqb_refl; reflexivity.
Qed.

Lemma unsigned_agree : forall s x, wf_size s ->
  api_conv_prim (PI s false) x = ffi_conv_prim (PI s false) x.
Proof.
  intros s x W. cbn. unfold to_c_u, wrapper_check, wrapper_check_s.
  pose proof (pow_bounds s W) as (P1 & P2 & P3 & P4).
  rewrite (u_hi_val s W).
  destruct (ulonglong_spec x) as [[Hp Hr] | [e [Hp Hr]]]; rewrite Hp.
  - unfold ULLMAX in Hr.
    destruct (2 ^ (8 * s) - 1 <? rval (my_as_ulonglong x)) eqn:B; cbn.
    + rewrite (wrapU_m1 s W), Z.eqb_refl.
      destruct (rval (my_as_ulonglong x) =? wrapU s (rval (my_as_ulonglong x))) eqn:E; [| reflexivity].
      pose proof (wrapU_range s (rval (my_as_ulonglong x)) W). lia.
    + rewrite (wrapU_id s) by lia. rewrite Z.eqb_refl. reflexivity.
  - rewrite Hr, Z.eqb_refl.
    destruct (2 ^ (8 * s) - 1 <? ULLMAX) eqn:B; cbn [rval rpend].
    all: rewrite (wrapU_ullmax s W), (wrapU_m1 s W), Z.eqb_refl; reflexivity.
Qed.

Lemma bool_agree : forall x, api_conv_prim PB x = ffi_conv_prim PB x.
Proof.
  intro x. cbn. unfold to_c_bool.
  pose proof (long_vs_ulong x) as A.
  destruct (longlong_spec x) as [[Hp Hr] | [e [Hp Hr]]];
    destruct (ulonglong_spec x) as [[Hq Hs] | [e' [Hq Hs]]]; rewrite Hp, Hq in A; rewrite ?Hp, ?Hq.
  - rewrite <- A.
    destruct (rval (my_as_longlong x) =? 0) eqn:E0; [cbn; replace (rval (my_as_longlong x)) with 0 by lia; reflexivity |].
    destruct (rval (my_as_longlong x) =? 1) eqn:E1; [cbn; replace (rval (my_as_longlong x)) with 1 by lia; reflexivity |].
    cbn. replace (1 <? rval (my_as_longlong x)) with true by (symmetry; lia). reflexivity.
  - destruct A as [A ->]. rewrite Hs, Z.eqb_refl.
    destruct (rval (my_as_longlong x) =? 0) eqn:E0; [lia |].
    destruct (rval (my_as_longlong x) =? 1) eqn:E1; [lia |].
    reflexivity.
  - destruct A as [A ->]. rewrite Hr. cbn.
    unfold LLMAX in A. replace (1 <? rval (my_as_ulonglong x)) with true by (symmetry; lia). reflexivity.
  - subst e'. rewrite Hr, Hs. cbn. reflexivity.
Qed.

Theorem prim_conv_agree : forall p x, wf_prim p -> api_conv_prim p x = ffi_conv_prim p x.
Proof.
  intros [s [|] | | s | | |] x W.
  - apply signed_agree; exact W.
  - apply unsigned_agree; exact W.
  - apply bool_agree.
  - cbn. destruct (char_ok s x); [reflexivity |].
    unfold wrapper_check, wrapper_check_s; cbn. rewrite Z.eqb_refl. reflexivity.
  - cbn. destruct (pyfloat_asdouble x); reflexivity.
  - cbn. destruct (pyfloat_asdouble x); reflexivity.
  - reflexivity.
Qed.

Theorem conv_agree : forall t x, wf_ctype t -> api_conv t x = ffi_conv t x.
Proof.
  intros [p | it | id ps |] x W; cbn.
  - apply prim_conv_agree; exact W.
  - reflexivity.
  - reflexivity.
  - destruct (conv_fnptr x) eqn:E; try reflexivity.
Qed.

(* no path lets the C call proceed with an exception pending *)
Lemma ffi_prim_not_bad : forall p x, wf_prim p -> ffi_conv_prim p x <> CBad.
Proof.
  intros [s [|] | | s | | |] x W; cbn.
  - destruct (longlong_spec x) as [[Hp Hr] | [e [Hp Hr]]]; rewrite Hp.
    + destruct (_ =? _); discriminate.
    + rewrite Hr. discriminate.
  - destruct (ulonglong_spec x) as [[Hp Hr] | [e [Hp Hr]]]; rewrite Hp.
    + destruct (_ =? _); discriminate.
    + rewrite Hr, Z.eqb_refl. discriminate.
  - destruct (ulonglong_spec x) as [[Hp Hr] | [e [Hp Hr]]]; rewrite Hp.
    + destruct (_ <? _); discriminate.
    + rewrite Hr, Z.eqb_refl. discriminate.
  - destruct (char_ok s x); discriminate.
  - destruct (pyfloat_asdouble x); discriminate.
  - destruct (pyfloat_asdouble x); discriminate.
  - destruct x; try discriminate; try (destruct (pyfloat_asdouble _); discriminate).
    destruct p; try discriminate; cbn; try (destruct (_ <? _); discriminate).
Qed.

Lemma conv_items_not_bad : forall p l, wf_prim p -> conv_items p l <> inl CBad.
Proof.
  intros p l W. induction l as [| x l IH]; cbn; [discriminate |].
  pose proof (ffi_prim_not_bad p x W).
  destruct (ffi_conv_prim p x); try congruence; try discriminate.
  destruct (conv_items p l); congruence.
Qed.

Lemma conv_fields_not_bad : forall ps l, Forall wf_prim ps -> conv_fields ps l <> inl CBad.
Proof.
  intros ps l. revert ps. induction l as [| x l IH]; intros ps W; destruct ps as [| p ps]; cbn; try discriminate.
  inversion W; subst.
  pose proof (ffi_prim_not_bad p x H1).
  destruct (ffi_conv_prim p x); try congruence; try discriminate.
  specialize (IH ps H2). destruct (conv_fields ps l); congruence.
Qed.

Definition wf_item (it : item) : Prop :=
  match it with IPrim _ p => wf_prim p | IStruct _ ps => Forall wf_prim ps | IVoid => True end.

Lemma conv_struct_items_not_bad : forall id ps l, Forall wf_prim ps -> conv_struct_items id ps l <> inl CBad.
Proof.
  intros id ps l W. induction l as [| x l IH]; cbn [conv_struct_items]; [discriminate |].
  destruct x; try discriminate.
  - pose proof (conv_fields_not_bad ps l0 W). destruct (conv_fields ps l0); [congruence |].
    destruct (conv_struct_items id ps l); congruence.
  - destruct (id =? id0); [| discriminate]. destruct (conv_struct_items id ps l); congruence.
Qed.
Definition wf_ctype_deep (t : ctype) : Prop :=
  match t with Prim p => wf_prim p | Ptr it => wf_item it | Struct _ ps => Forall wf_prim ps | FnPtr => True end.

Ltac split_matches :=
  repeat match goal with
         | |- context [match ?v with _ => _ end] => destruct v
         end; try discriminate.

Theorem ffi_conv_not_bad : forall t x, wf_ctype_deep t -> ffi_conv t x <> CBad.
Proof.
  intros [p | it | id ps |] x W; cbn in *.
  - apply ffi_prim_not_bad; exact W.
  - unfold conv_pointer. destruct x; try discriminate.
    + destruct (_ || _); [| discriminate]. split_matches.
    + split_matches.
    + destruct it as [| nid p | sid ps]; try discriminate.
      * pose proof (conv_items_not_bad p l W). destruct (conv_items p l); [congruence | discriminate].
      * pose proof (conv_struct_items_not_bad sid ps l W). destruct (conv_struct_items sid ps l); [congruence | discriminate].
    + split_matches.
    + split_matches.
    + split_matches.
  - unfold conv_struct. destruct x; try discriminate.
    + pose proof (conv_fields_not_bad ps l W). destruct (conv_fields ps l); [congruence | discriminate].
    + split_matches.
  - unfold conv_fnptr. split_matches.
Qed.

Lemma wf_deep_wf : forall t, wf_ctype_deep t -> wf_ctype t.
Proof. intros [] H; cbn in *; auto. Qed.

Theorem api_conv_not_bad : forall t x, wf_ctype_deep t -> api_conv t x <> CBad.
Proof. intros t x W. rewrite conv_agree by (apply wf_deep_wf; exact W). apply ffi_conv_not_bad; exact W. Qed.

(* whole argument tuples: same arity test, same left-to-right order, same first error *)
Lemma conv_args_agree : forall ts xs, Forall wf_ctype ts -> conv_args api_conv ts xs = conv_args ffi_conv ts xs.
Proof.
  induction ts as [| t ts IH]; intros xs W; destruct xs as [| x xs]; cbn; try reflexivity.
  inversion W; subst. rewrite (conv_agree t x H1), (IH xs H2). reflexivity.
Qed.

Theorem call_paths_agree : forall ts xs plens, Forall wf_ctype ts ->
  call_args true ts xs = call_args false ts xs /\
  call_record true ts xs plens = call_record false ts xs plens.
Proof.
  intros ts xs plens W.
  assert (E : call_args true ts xs = call_args false ts xs).
  { unfold call_args. destruct (negb _); [reflexivity |]. apply conv_args_agree; exact W. }
  split; [exact E |]. unfold call_record. rewrite E. reflexivity.
Qed.

(* ================================================================== 2. results *)

Theorem result_agree : forall p raw, wf_prim p ->
  (p = PB -> wrapU 1 raw <= 1) ->             (* a conforming callee returns a normalised _Bool *)
  api_result p raw = ffi_result p raw.
Proof.
  intros [s [|] | | s | | |] raw W HB; cbn; try reflexivity.
  - f_equal. unfold from_c_int. cbn.
    pose proof (wrapS_range s raw W). pose proof (pow_bounds s W) as (P1 & P2 & P3 & P4).
    apply (wrapS_id 8); [right; right; right; reflexivity | cbn; lia].
  - f_equal. unfold from_c_int. cbn.
    pose proof (wrapU_range s raw W). pose proof (pow_bounds s W) as (P1 & P2 & P3 & P4).
    destruct (s <? 8) eqn:E.
    + apply (wrapS_id 8); [right; right; right; reflexivity |].
      destruct W as [-> | [-> | [-> | ->]]]; cbn in *; lia.
    + assert (s = 8) by (destruct W as [-> | [-> | [-> | ->]]]; cbn in E; try discriminate; reflexivity).
      subst s. reflexivity.
  - specialize (HB eq_refl).
    assert (0 <= wrapU 1 raw) by (unfold wrapU; apply Z.mod_pos_bound; cbn; lia).
    assert (C : wrapU 1 raw = 0 \/ wrapU 1 raw = 1) by lia.
    destruct C as [-> | ->]; reflexivity.
Qed.

(* ================================================================== 3. fb_build: exchange buffer layout *)

Definition pow2 (a : Z) : Prop := exists k, 0 <= k /\ a = 2 ^ k.

Lemma align_to_div : forall n k, 0 <= k -> align_to n (2 ^ k) = (n + 2 ^ k - 1) / 2 ^ k * 2 ^ k.
Proof.
  intros n k Hk. unfold align_to.
  replace (2 ^ k - 1) with (Z.ones k) by (rewrite Z.ones_equiv; lia).
  rewrite <- Z.ldiff_land, Z.ldiff_ones_r by lia.
  rewrite Z.shiftl_mul_pow2, Z.shiftr_div_pow2 by lia.
  rewrite Z.ones_equiv. f_equal. f_equal. lia.
Qed.

Lemma align_to_spec : forall n a, pow2 a -> n <= align_to n a < n + a /\ align_to n a mod a = 0.
Proof.
  intros n a [k [Hk ->]]. rewrite (align_to_div n k Hk).
  assert (D : 0 < 2 ^ k) by (apply Z.pow_pos_nonneg; lia).
  set (d := 2 ^ k) in *. set (m := n + d - 1).
  pose proof (Z.mul_div_le m d D). pose proof (Z.mul_succ_div_gt m d D).
  split; [| apply Z.mod_mul; lia].
  unfold m in *. nia.
Qed.

Lemma pow2_8 : pow2 8.
Proof. exists 3. split; [lia | reflexivity]. Qed.

Lemma align_fix : forall n a, pow2 a -> n mod a = 0 -> align_to n a = n.
Proof.
  intros n a P H. destruct (align_to_spec n a P) as [[L U] M].
  destruct P as [k [Hk ->]]. assert (D : 0 < 2 ^ k) by (apply Z.pow_pos_nonneg; lia).
  set (d := 2 ^ k) in *.
  apply Z.mod_divide in H; [| lia]. apply Z.mod_divide in M; [| lia].
  destruct H as [q Hq]. destruct M as [r Hr]. rewrite Hr, Hq in *.
  assert (q <= r) by nia. assert (r < q + 1) by nia. replace r with q by lia. reflexivity.
Qed.

Lemma pow2_mod_trans : forall x a b, pow2 a -> pow2 b -> a <= b -> x mod b = 0 -> x mod a = 0.
Proof.
  intros x a b [j [Hj ->]] [k [Hk ->]] Hle H.
  assert (j <= k) by (apply (Z.pow_le_mono_r_iff 2); lia).
  assert (D1 : 0 < 2 ^ j) by (apply Z.pow_pos_nonneg; lia).
  assert (D2 : 0 < 2 ^ k) by (apply Z.pow_pos_nonneg; lia).
  apply Z.mod_divide; [lia |]. apply Z.mod_divide in H; [| lia].
  eapply Z.divide_trans; [| exact H].
  exists (2 ^ (k - j)). rewrite <- Z.pow_add_r by lia. f_equal. lia.
Qed.

(* slot offset chosen for an argument: ALIGN_TO(off, alignment) then ALIGN_ARG *)
Lemma slot_spec : forall off a, pow2 a ->
  let o := align_arg (align_to off a) in off <= o /\ o mod a = 0 /\ o mod 8 = 0.
Proof.
  intros off a P. cbn. unfold align_arg.
  destruct (align_to_spec off a P) as [[L1 _] M1].
  destruct (align_to_spec (align_to off a) 8 pow2_8) as [[L2 _] M2].
  split; [lia |]. split; [| exact M2].
  destruct (Z_le_gt_dec a 8).
  - apply (pow2_mod_trans _ a 8 P pow2_8); assumption.
  - rewrite (align_fix _ 8 pow2_8); [exact M1 |].
    apply (pow2_mod_trans _ 8 a pow2_8 P); [lia | exact M1].
Qed.

(* consecutive regions: each starts at or after the end of the previous one *)
Fixpoint chain (lo : Z) (rs : list (Z * Z)) (hi : Z) : Prop :=
  match rs with
  | [] => lo <= hi
  | (o, n) :: rs' => lo <= o /\ 0 <= n /\ chain (o + n) rs' hi
  end.

Lemma chain_weaken : forall rs lo hi hi', chain lo rs hi -> hi <= hi' -> chain lo rs hi'.
Proof.
  induction rs as [| [o n] rs IH]; cbn; intros; [lia |].
  destruct H as (A & B & C). repeat split; try assumption. eapply IH; eassumption.
Qed.

Lemma chain_le : forall rs lo hi, chain lo rs hi -> lo <= hi.
Proof.
  induction rs as [| [o n] rs IH]; cbn; intros; [lia |].
  destruct H as (A & B & C). apply IH in C. lia.
Qed.

Lemma chain_inside : forall rs lo hi, chain lo rs hi ->
  Forall (fun r => lo <= fst r /\ 0 <= snd r /\ fst r + snd r <= hi) rs.
Proof.
  induction rs as [| [o n] rs IH]; cbn; intros lo hi H; [constructor |].
  destruct H as (A & B & C). constructor.
  - cbn. pose proof (chain_le _ _ _ C). lia.
  - specialize (IH _ _ C). eapply Forall_impl; [| exact IH]. cbn. intros [o' n'] ?. cbn in *. lia.
Qed.

Definition disjoint (r1 r2 : Z * Z) : Prop := fst r1 + snd r1 <= fst r2 \/ fst r2 + snd r2 <= fst r1.

Lemma chain_disjoint : forall rs lo hi, chain lo rs hi -> ForallOrdPairs disjoint rs.
Proof.
  induction rs as [| [o n] rs IH]; cbn; intros lo hi H; [constructor |].
  destruct H as (A & B & C). constructor.
  - pose proof (chain_inside _ _ _ C) as I. eapply Forall_impl; [| exact I].
    intros [o' n'] ?. left. cbn in *. lia.
  - eapply IH; exact C.
Qed.

Definition wf_args (args : list (Z * Z)) : Prop := Forall (fun sa => 0 <= fst sa /\ pow2 (snd sa)) args.

Lemma fb_args_spec : forall args off, wf_args args ->
  let offs := fst (fb_args off args) in
  let fin := snd (fb_args off args) in
  chain off (combine offs (map fst args)) fin /\
  length offs = length args /\
  Forall2 (fun o sa => o mod snd sa = 0 /\ o mod 8 = 0) offs args.
Proof.
  induction args as [| [size al] rest IH]; intros off W; cbn.
  - repeat split; [lia | constructor].
  - inversion W as [| ? ? [Hs Hp] W']; subst. cbn in Hs, Hp.
    destruct (slot_spec off al Hp) as (L & M1 & M2).
    specialize (IH (align_arg (align_to off al) + size) W').
    destruct (fb_args (align_arg (align_to off al) + size) rest) as [offs fin] eqn:E. cbn in *.
    destruct IH as (C & Len & F).
    repeat split; try assumption; try lia.
    constructor; [split; assumption | exact F].
Qed.

Definition wf_sig (rsize ralign : Z) (args : list (Z * Z)) : Prop :=
  0 <= rsize /\ pow2 ralign /\ wf_args args.

Theorem exchange_layout_safe : forall rsize ralign args, wf_sig rsize ralign args ->
  let L := fb_build rsize ralign args in
  let R := regions rsize ralign args in
  (* inside the buffer *)
  Forall (fun r => 0 <= fst r /\ 0 <= snd r /\ fst r + snd r <= exchange_size L) R /\
  (* pairwise disjoint: the array of argument pointers, the result slot, every argument slot *)
  ForallOrdPairs disjoint R /\
  (* alignment *)
  res_off L mod ralign = 0 /\ res_off L mod 8 = 0 /\
  length (arg_offs L) = length args /\
  Forall2 (fun o sa => o mod snd sa = 0 /\ o mod 8 = 0) (arg_offs L) args /\
  (* the result slot can hold an ffi_arg *)
  FFI_ARG <= res_len L /\ rsize <= res_len L /\
  exchange_size L mod 8 = 0.
Proof.
  intros rsize ralign args (Hr & Hp & Wa). cbn zeta.
  unfold regions, fb_build.
  set (nargs := Z.of_nat (length args)).
  set (off0 := align_arg (align_to (nargs * 8) ralign)).
  set (rlen := if rsize <? FFI_ARG then FFI_ARG else rsize).
  pose proof (fb_args_spec args (off0 + rlen) Wa) as S. cbn zeta in S.
  destruct (fb_args (off0 + rlen) args) as [offs fin] eqn:E. cbn [fst snd] in S.
  destruct S as (C & Len & F). cbn [res_off res_len arg_offs exchange_size].
  destruct (slot_spec (nargs * 8) ralign Hp) as (L0 & M1 & M2). fold off0 in L0, M1, M2.
  assert (RL : FFI_ARG <= rlen /\ rsize <= rlen) by (unfold rlen, FFI_ARG; destruct (rsize <? 8) eqn:Q; lia).
  destruct (align_to_spec fin 8 pow2_8) as [[Lf _] Mf].
  assert (CH : chain 0 ((0, nargs * 8) :: (off0, rlen) :: combine offs (map fst args)) (align_arg fin)).
  { cbn. unfold FFI_ARG in RL. repeat split; try lia.
    eapply chain_weaken; [exact C | exact Lf]. }
  split; [| split].
  - pose proof (chain_inside _ _ _ CH) as I. eapply Forall_impl; [| exact I]. cbn. intros [o n] ?. cbn in *. lia.
  - eapply chain_disjoint; exact CH.
  - repeat split; try assumption; try lia; exact Mf.
Qed.

(* ================================================================== 4. the variadic part *)

Theorem variadic_rejects_non_cdata : forall x, is_cdata x = false -> variadic_conv x = CErr TypeError.
Proof. intros [] H; cbn in *; try reflexivity; discriminate. Qed.

(* the ctype cdata_call hands to libffi is C's default argument promotion of the cdata's type — except float *)
Theorem variadic_promotion_is_C : forall p, p <> PF32 -> variadic_type p = c_default_promotion p.
Proof. intros [] H; cbn; try reflexivity; congruence. Qed.

Theorem variadic_float_refuted : variadic_type PF32 <> c_default_promotion PF32.
Proof. discriminate. Qed.

(* integer value of a primitive cdata (what int(cd) gives) *)
Definition cdata_int_value (p : prim) (bits : Z) : Z :=
  match p with PI s true => wrapS s bits | _ => bits end.

Definition narrow (p : prim) : Prop :=
  p = PB \/ p = PC 1 \/ p = PC 2 \/ exists s sg, (s = 1 \/ s = 2) /\ p = PI s sg.

(* a cdata narrower than int arrives as an int holding the same value *)
Theorem variadic_narrow_promoted : forall p bits b64, narrow p -> 0 <= bits < 2 ^ (8 * prim_size p) ->
  let v := cdata_int_value p bits in
  variadic_conv (PyCPrim p bits b64) = COk (CInt 4 (wrapU 4 v)) /\ wrapS 4 (wrapU 4 v) = v /\ - 2 ^ 15 <= v < 2 ^ 16.
Proof.
  intros p bits b64 N B.
  assert (W4 : wf_size 4) by (right; right; left; reflexivity).
  assert (R : forall v, - 2 ^ 15 <= v < 2 ^ 16 ->
     ffi_conv_prim (PI 4 true) (PyIntLike v) = COk (CInt 4 (wrapU 4 v)) /\ wrapS 4 (wrapU 4 v) = v).
  { intros v Hv. cbn. unfold pylong_as_longlong, LLMIN, LLMAX.
    replace ((- 2 ^ 63 <=? v) && (v <=? 2 ^ 63 - 1)) with true by (symmetry; lia). cbn [rpend rval okr].
    rewrite (wrapS_id 4 v W4) by (cbn; lia). rewrite Z.eqb_refl. split; [reflexivity |].
    unfold wrapS, wrapU. rewrite Z.mod_mod by (cbn; lia).
    apply (wrapS_id 4 v W4). cbn; lia. }
  assert (E : forall q v, nb_int (PyCPrim q bits b64) = Some (inl v) -> is_floatlike (PyCPrim q bits b64) = false ->
     ffi_conv_prim (PI 4 true) (PyCPrim q bits b64) = ffi_conv_prim (PI 4 true) (PyIntLike v)).
  { intros q v H1 H2. cbn [ffi_conv_prim]. unfold my_as_longlong. rewrite H2, H1. reflexivity. }
  destruct N as [-> | [-> | [-> | [s [sg [Hs ->]]]]]]; cbn [prim_size] in B; cbn [cdata_int_value].
  - destruct (R bits ltac:(cbn in B; lia)) as [R1 R2].
    split; [| split; [exact R2 | cbn in B; lia]]. cbn [variadic_conv variadic_type]. rewrite (E PB bits); auto.
  - destruct (R bits ltac:(cbn in B; lia)) as [R1 R2].
    split; [| split; [exact R2 | cbn in B; lia]]. cbn [variadic_conv variadic_type].
    replace (1 <? 4) with true by reflexivity. rewrite (E (PC 1) bits); auto.
  - destruct (R bits ltac:(cbn in B; lia)) as [R1 R2].
    split; [| split; [exact R2 | cbn in B; lia]]. cbn [variadic_conv variadic_type].
    replace (2 <? 4) with true by reflexivity. rewrite (E (PC 2) bits); auto.
  - assert (Ws : wf_size s) by (destruct Hs as [-> | ->]; [left | right; left]; reflexivity).
    assert (V : - 2 ^ 15 <= (if sg then wrapS s bits else bits) < 2 ^ 16).
    { destruct sg; [| destruct Hs as [-> | ->]; cbn in B; lia].
      pose proof (wrapS_range s bits Ws). destruct Hs as [-> | ->]; cbn in *; lia. }
    assert (U : wrapU s bits = bits) by (apply wrapU_id; exact B).
    destruct (R _ V) as [R1 R2].
    assert (C : cdata_int_value (PI s sg) bits = (if sg then wrapS s bits else bits)) by (destruct sg; reflexivity).
    cbn [cdata_int_value] in *. 
    split; [| split].
    + cbn [variadic_conv variadic_type]. replace (s <? 4) with true by (destruct Hs as [-> | ->]; reflexivity).
      rewrite (E (PI s sg) (if sg then wrapS s bits else bits)); [destruct sg; exact R1 | | reflexivity].
      cbn. rewrite U. reflexivity.
    + destruct sg; exact R2.
    + destruct sg; exact V.
Qed.
