(* C19 — the regenerated bodies of minibuffer.h (C19/Gen.v) compute exactly the functions of
   C19/Model.v, hence refine the bytearray specification (proofs; statements in Props.v). *)
From Coq Require Import ZArith List Bool Lia.
Import ListNotations.
From Cffi Require Import C19.Types C19.Gen C19.Model C19.Spec C19.MbSem C19.Proofs.
Open Scope Z_scope.

Lemma zlen_nonneg : forall l : list Z, 0 <=? zlen l = true.
Proof. intros. apply Z.leb_le. unfold zlen. lia. Qed.

Lemma firstn_zlen : forall l : list Z, firstn (Z.to_nat (zlen l)) l = l.
Proof. intros. unfold zlen. rewrite Nat2Z.id. apply firstn_all. Qed.

Lemma leb_0_m1 : (0 <=? -1) = false.
Proof. reflexivity. Qed.

Local Opaque Z.sub Z.add Z.ltb Z.leb Z.eqb.

Lemma gen_mb_item_is_model : forall mem off n idx,
  exec_item gen_mb_item mem off n idx = mb_item mem off n idx.
Proof.
  intros. unfold exec_item, gen_mb_item, mb_item. cbn.
  destruct ((idx <? 0) || (n <=? idx)); reflexivity.
Qed.

Ltac atom_cond :=
  match goal with |- context [if (?a <? ?b) then _ else _] =>
    lazymatch a with context [if _ then _ else _] => fail | zlen _ => fail | _ => idtac end;
    lazymatch b with context [if _ then _ else _] => fail | _ => idtac end;
    destruct (a <? b)
  end.
Ltac split_bounds := repeat (cbn; atom_cond); cbn.

Lemma gen_mb_slice_is_model : forall mem off n left right,
  exec_slice gen_mb_slice mem off n left right = Ok (mb_slice mem off n left right).
Proof.
  intros. unfold exec_slice, gen_mb_slice, mb_slice. cbn.
  split_bounds; reflexivity.
Qed.

Lemma gen_mb_ass_item_is_model : forall mem off n idx other,
  exec_ass_item gen_mb_ass_item mem off n idx other = mb_ass_item mem off n idx other.
Proof.
  intros. unfold exec_ass_item, gen_mb_ass_item, mb_ass_item. cbn.
  destruct ((idx <? 0) || (n <=? idx)); reflexivity.
Qed.

Ltac length_test bs :=
  let E := fresh "E" in
  match goal with |- context [?a =? zlen bs] => destruct (a =? zlen bs) eqn:E end; cbn;
  [ apply Z.eqb_eq in E; rewrite E, Z.ltb_irrefl, firstn_zlen; reflexivity | reflexivity ].

Lemma gen_mb_ass_slice_is_model : forall mem off n left right other,
  exec_ass_slice gen_mb_ass_slice mem off n left right other = mb_ass_slice mem off n left right other.
Proof.
  intros. unfold exec_ass_slice, gen_mb_ass_slice, mb_ass_slice.
  destruct other as [bs | bs | bs | ]; cbn; try reflexivity.
  - rewrite zlen_nonneg. cbn. split_bounds; length_test bs.
  - rewrite zlen_nonneg. cbn. split_bounds; length_test bs.
  - rewrite leb_0_m1. cbn. split_bounds; reflexivity.
Qed.

Local Transparent Z.sub Z.add Z.ltb Z.leb Z.eqb.

(* any four bodies that compute the model's functions give the model's buffer object *)
Definition bodies_ok (P : progs) : Prop :=
  (forall mem off n idx, exec_item (p_item P) mem off n idx = mb_item mem off n idx) /\
  (forall mem off n l r, exec_slice (p_slice P) mem off n l r = Ok (mb_slice mem off n l r)) /\
  (forall mem off n idx v, exec_ass_item (p_ass_item P) mem off n idx v = mb_ass_item mem off n idx v) /\
  (forall mem off n l r v, exec_ass_slice (p_ass_slice P) mem off n l r v = mb_ass_slice mem off n l r v).

Lemma step_g_is_step : forall P, bodies_ok P -> forall off n mem o, step_g P off n mem o = step off n mem o.
Proof.
  intros P (H1 & H2 & H3 & H4) off n mem o. destruct o as [k | k v | ]; cbn; try reflexivity.
  - destruct k as [i | a b s | ]; cbn; try reflexivity.
    + destruct (negb (ssize_ok i)); [reflexivity | rewrite H1; reflexivity].
    + destruct (slice_unpack a b s) as [[[a' b'] s'] | e]; [ | reflexivity].
      destruct (adjust n a' b' s') as [st sp]. destruct (s' =? 1); [rewrite H2 | ]; reflexivity.
  - destruct v as [v | ]; [ | reflexivity]. destruct k as [i | a b s | ]; cbn; try reflexivity.
    + destruct (negb (ssize_ok i)); [reflexivity | rewrite H3; reflexivity].
    + destruct (slice_unpack a b s) as [[[a' b'] s'] | e]; [ | reflexivity].
      destruct (adjust n a' b' s') as [st sp]. destruct (s' =? 1); [rewrite H4 | ]; reflexivity.
Qed.

Lemma run_g_is_run : forall P, bodies_ok P -> forall ops off n mem, run_g P off n mem ops = run off n mem ops.
Proof.
  intros P HP. induction ops as [ | o r IH]; intros; cbn; [reflexivity | ].
  rewrite (step_g_is_step P HP). destruct (step off n mem o) as [m1 out]. rewrite IH. reflexivity.
Qed.

Definition gen_progs : progs := mk_progs gen_mb_item gen_mb_slice gen_mb_ass_item gen_mb_ass_slice.

Lemma gen_bodies_ok : bodies_ok gen_progs.
Proof.
  unfold bodies_ok, gen_progs; simpl p_item; simpl p_slice; simpl p_ass_item; simpl p_ass_slice.
  split; [exact gen_mb_item_is_model | ].
  split; [exact gen_mb_slice_is_model | ].
  split; [exact gen_mb_ass_item_is_model | exact gen_mb_ass_slice_is_model].
Qed.

Lemma gen_buffer_history : forall mem off n ops,
  0 <= off -> 0 <= n <= SSIZE_MAX -> off + n <= zlen mem ->
  exists w' outs, spec_run (window mem off n) ops = (w', outs) /\ zlen w' = n /\
                  run_g gen_progs off n mem ops = (splice mem off n w', outs).
Proof.
  intros. rewrite (run_g_is_run _ gen_bodies_ok). apply buffer_history; assumption.
Qed.

(* ---- sources that alias the destination memory *)
Lemma copy_alias_memmove : forall mem dest src n,
  0 <= dest -> 0 <= src -> 0 <= n -> src + n <= zlen mem -> dest + n <= zlen mem ->
  copy_alias Memmove mem dest src n = Ok (py_memmove mem dest src n).
Proof.
  intros. pose proof (memmove_is_copy_through_temporary mem dest src n) as M.
  destruct M as [M _]; try assumption. unfold memmove in M.
  replace (n <? 0) with false in M by (symmetry; apply Z.ltb_ge; lia). exact M.
Qed.

Lemma copy_alias_memcpy_disjoint : forall mem dest src n,
  0 <= dest -> 0 <= src -> 0 <= n -> src + n <= zlen mem -> dest + n <= zlen mem ->
  disjoint dest src n = true ->
  copy_alias Memcpy mem dest src n = Ok (py_memmove mem dest src n).
Proof.
  intros. unfold copy_alias. rewrite H4. apply (copy_alias_memmove mem dest src n); assumption.
Qed.

Lemma copy_alias_memcpy_overlap_undefined :
  copy_alias Memcpy [1; 2; 3; 4; 5] 0 1 3 = Err OutOfModel /\
  copy_alias Memmove [1; 2; 3; 4; 5] 0 1 3 = Ok [2; 3; 4; 4; 5].
Proof. split; reflexivity. Qed.

Lemma alias_copy_defined : forall f mem dest src n,
  0 <= dest -> 0 <= src -> 0 <= n -> src + n <= zlen mem -> dest + n <= zlen mem ->
  f = Memmove \/ disjoint dest src n = true ->
  copy_alias f mem dest src n = Ok (py_memmove mem dest src n).
Proof.
  intros f mem dest src n H0 H1 H2 H3 H4 [Hf | Hd].
  - subst f. apply copy_alias_memmove; assumption.
  - destruct f; [apply copy_alias_memcpy_disjoint | apply copy_alias_memmove]; assumption.
Qed.

Lemma gen_ass_slice_has_copy : exists f, copy_of gen_mb_ass_slice = Some f.
Proof. eexists. reflexivity. Qed.

(* the copy primitive of mb_ass_slice as regenerated: memmove (since 2519df6), so an aliasing source is
   copied as if through a temporary for EVERY overlap *)
Definition gen_copy_alias (mem : list Z) (dest src n : Z) : res (list Z) :=
  match copy_of gen_mb_ass_slice with Some f => copy_alias f mem dest src n | None => Err OutOfModel end.

Lemma gen_ass_slice_copy_is_memmove : copy_of gen_mb_ass_slice = Some Memmove.
Proof. reflexivity. Qed.

Lemma gen_alias_copy_total : forall mem dest src n,
  0 <= dest -> 0 <= src -> 0 <= n -> src + n <= zlen mem -> dest + n <= zlen mem ->
  gen_copy_alias mem dest src n = Ok (py_memmove mem dest src n).
Proof.
  intros. unfold gen_copy_alias. rewrite gen_ass_slice_copy_is_memmove.
  apply copy_alias_memmove; assumption.
Qed.
