(* C19 — model of the minibuffer object (src/c/minibuffer.h: mb_item :21, mb_slice :30, mb_ass_item :40,
   mb_ass_slice :62, mb_subscript :210, mb_ass_subscript :244) with CPython's PySlice_Unpack /
   PySlice_AdjustIndices (Objects/sliceobject.c), of the size rules of b_buffer_new
   (src/c/_cffi_backend.c:7018) and direct_from_buffer (:7205), and of b_memmove (:7333).
   The memory is the whole underlying allocation (list of bytes); a buffer object is a window
   (mb_data = offset off, mb_size = n) into it.  Definitions only. *)
From Coq Require Import ZArith List Bool.
Import ListNotations.
From Cffi Require Import C19.Types.      (* condition language of the regenerated fast-path test *)
Open Scope Z_scope.

Definition SSIZE_MAX : Z := 2 ^ 63 - 1.
Definition SSIZE_MIN : Z := - 2 ^ 63.
Definition ssize_ok (z : Z) : bool := (SSIZE_MIN <=? z) && (z <=? SSIZE_MAX).

Inductive exn := IndexError | TypeError | ValueError | ZeroDivisionError
             | OutOfModel.   (* a pointer source with fewer modelled bytes than the slice: no claim *)
Inductive res (A : Type) := Ok (a : A) | Err (e : exn).
Arguments Ok {A} a.
Arguments Err {A} e.

(* ---------------------------------------------------------------- raw memory accesses *)
Definition zlen (l : list Z) : Z := Z.of_nat (length l).
(* PyBytes_FromStringAndSize(p + pos, len) *)
Definition read (mem : list Z) (pos len : Z) : list Z :=
  firstn (Z.to_nat len) (skipn (Z.to_nat pos) mem).
(* memcpy(p + pos, bs, length bs) *)
Definition write (mem : list Z) (pos : Z) (bs : list Z) : list Z :=
  firstn (Z.to_nat pos) mem ++ bs ++ skipn (Z.to_nat pos + length bs) mem.

(* ---------------------------------------------------------------- CPython slice protocol *)
(* _PyEval_SliceIndex: any Python int, clamped to Py_ssize_t *)
Definition clamp (z : Z) : Z := Z.max SSIZE_MIN (Z.min z SSIZE_MAX).

(* PySlice_Unpack *)
Definition slice_unpack (start stop step : option Z) : res (Z * Z * Z) :=
  let st := match step with
            | None => Ok 1
            | Some s => let s := clamp s in
                        if s =? 0 then Err ValueError     (* "slice step cannot be zero" *)
                        else Ok (Z.max s (- SSIZE_MAX))
            end in
  match st with
  | Err e => Err e
  | Ok st =>
      let a := match start with
               | None => if st <? 0 then SSIZE_MAX else 0
               | Some v => clamp v
               end in
      let b := match stop with
               | None => if st <? 0 then SSIZE_MIN else SSIZE_MAX
               | Some v => clamp v
               end in
      Ok (a, b, st)
  end.

(* PySlice_AdjustIndices(length, &start, &stop, step): new start, stop (slicelength is unused by
   minibuffer.h) *)
Definition adjust1 (length v step : Z) : Z :=
  if v <? 0 then
    (let v' := v + length in if v' <? 0 then (if step <? 0 then -1 else 0) else v')
  else if length <=? v then (if step <? 0 then length - 1 else length)
  else v.
Definition adjust (length start stop step : Z) : Z * Z :=
  (adjust1 length start step, adjust1 length stop step).

(* ---------------------------------------------------------------- the buffer object *)
(* Python values offered on the right-hand side *)
Inductive pyval :=
| VBytes (bs : list Z)        (* a bytes object *)
| VBuf (bs : list Z)          (* another contiguous buffer exporter: bytearray, memoryview, array.array;
                                 also an ARRAY cdata: _fetch_as_buffer gives it its byte length (feea9b6) *)
| VPtrSrc (bs : list Z)       (* a POINTER cdata: length unknown (view->len = -1), the slice length is
                                 trusted; bs = the bytes found behind the pointer *)
| VOther.                     (* anything without the buffer interface: str, int, list, None ... *)

Definition mb_item (mem : list Z) (off n idx : Z) : res (list Z) :=
  if (idx <? 0) || (n <=? idx) then Err IndexError
  else Ok (read mem (off + idx) 1).

Definition mb_slice (mem : list Z) (off n left right : Z) : list Z :=
  let left := if left <? 0 then 0 else left in
  let right := if n <? right then n else right in
  let left := if right <? left then right else left in
  read mem (off + left) (right - left).

Definition mb_ass_item (mem : list Z) (off n idx : Z) (other : pyval) : res (list Z) :=
  if (idx <? 0) || (n <=? idx) then Err IndexError
  else match other with
       | VBytes [b] => Ok (write mem (off + idx) [b])
       | _ => Err TypeError
       end.

Definition mb_ass_slice (mem : list Z) (off n left right : Z) (other : pyval) : res (list Z) :=
  match other with
  | VOther => Err TypeError                                   (* _fetch_as_buffer fails *)
  | VBytes bs | VBuf bs =>
      let left := if left <? 0 then 0 else left in
      let right := if n <? right then n else right in
      let left := if right <? left then right else left in
      let count := right - left in
      if negb (count =? zlen bs) then Err ValueError
      else Ok (write mem (off + left) bs)
  | VPtrSrc bs =>
      let left := if left <? 0 then 0 else left in
      let right := if n <? right then n else right in
      let left := if right <? left then right else left in
      let count := right - left in
      (* src_view.len = -1: no length test; memcpy(mb_data + left, p, count) *)
      if zlen bs <? count then Err OutOfModel
      else Ok (write mem (off + left) (firstn (Z.to_nat count) bs))
  end.

(* a cdata on the right-hand side, as _fetch_as_buffer presents it to mb_ass_slice: `e` is the
   regenerated computation of view->len, sd what the helper sees of the cdata, bs the bytes found at
   its address (for an array: its real contents).  len = -1: length unknown, the slice length is
   trusted (VPtrSrc); len = the real number of bytes: an ordinary buffer (VBuf); a len that is neither
   is a defect of the helper: no pyval of this model describes it *)
Definition cdata_source (e : lenexpr) (sd : srcdesc) (bs : list Z) : option pyval :=
  let len := src_len e sd in
  if len <? 0 then Some (VPtrSrc bs)
  else if len =? zlen bs then Some (VBuf bs)
  else None.

(* subscripts: an integer or a slice(start, stop, step) of optional integers *)
Inductive key := KInt (i : Z) | KSlice (start stop step : option Z) | KOther.

Definition mb_subscript (mem : list Z) (off n : Z) (k : key) : res (list Z) :=
  match k with
  | KInt i =>
      if negb (ssize_ok i) then Err IndexError        (* PyNumber_AsSsize_t(item, PyExc_IndexError) *)
      else mb_item mem off n (if i <? 0 then i + n else i)
  | KSlice a b s =>
      match slice_unpack a b s with
      | Err e => Err e
      | Ok (a', b', s') =>
          let '(start, stop) := adjust n a' b' s' in
          if s' =? 1 then Ok (mb_slice mem off n start stop) else Err TypeError
      end
  | KOther => Err TypeError
  end.

(* value = None stands for `del buf[key]` *)
Definition mb_ass_subscript (mem : list Z) (off n : Z) (k : key) (value : option pyval)
  : res (list Z) :=
  match value with
  | None => Err TypeError
  | Some v =>
    match k with
    | KInt i =>
        if negb (ssize_ok i) then Err IndexError
        else mb_ass_item mem off n (if i <? 0 then i + n else i) v
    | KSlice a b s =>
        match slice_unpack a b s with
        | Err e => Err e
        | Ok (a', b', s') =>
            let '(start, stop) := adjust n a' b' s' in
            if s' =? 1 then mb_ass_slice mem off n start stop v else Err TypeError
        end
    | KOther => Err TypeError
    end
  end.

(* ---------------------------------------------------------------- histories *)
Inductive op := OGet (k : key) | OSet (k : key) (v : option pyval) | OLen.
Inductive outcome := RBytes (l : list Z) | RDone | RInt (z : Z) | RErr (e : exn).

Definition step (off n : Z) (mem : list Z) (o : op) : list Z * outcome :=
  match o with
  | OGet k => match mb_subscript mem off n k with
              | Ok l => (mem, RBytes l)
              | Err e => (mem, RErr e)
              end
  | OSet k v => match mb_ass_subscript mem off n k v with
                | Ok mem' => (mem', RDone)
                | Err e => (mem, RErr e)
                end
  | OLen => (mem, RInt n)
  end.

Fixpoint run (off n : Z) (mem : list Z) (ops : list op) : list Z * list outcome :=
  match ops with
  | [] => (mem, [])
  | o :: r => let '(m1, out) := step off n mem o in
              let '(m2, outs) := run off n m1 r in (m2, out :: outs)
  end.

(* ---------------------------------------------------------------- b_buffer_new :7018: the window size *)
Inductive cdkind := CPointer | CArray (len : Z) | CNeither.
(* size = explicit size argument (None or negative: not given); var_size = _cdata_var_byte_size
   (-1 unless an owned struct with a variable-length array); isz = item size (-1 = opaque) *)
Definition buffer_size (k : cdkind) (isz var_size : Z) (size : option Z) : res Z :=
  let size0 := match size with Some s => if s <? 0 then var_size else s | None => var_size end in
  match k with
  | CNeither => Err TypeError
  | CPointer => let s := if size0 <? 0 then isz else size0 in
                if s <? 0 then Err TypeError else Ok s
  | CArray len => let s := if size0 <? 0 then len * isz else size0 in
                  if s <? 0 then Err TypeError else Ok s
  end.

(* ---------------------------------------------------------------- direct_from_buffer :7205 *)
Inductive fbtype :=
| FPointer                    (* 'T*' *)
| FOpenArray (isz : Z)        (* 'T[]' *)
| FFixedArray (len isz : Z)   (* 'T[len]', ct_size = len * isz *)
| FNotPtrArray.
(* result: the array length recorded in the new cdata (for 'T*' the byte count, unused) *)
Definition from_buffer_length (t : fbtype) (is_unicode has_buffer : bool) (buflen : Z) : res Z :=
  match t with
  | FNotPtrArray => Err TypeError
  | _ =>
    if is_unicode then Err TypeError
    else if negb has_buffer then Err TypeError
    else match t with
         | FPointer => Ok buflen
         | FFixedArray len isz => if buflen <? len * isz then Err ValueError else Ok len
         | FOpenArray isz =>
             if isz =? 1 then Ok buflen
             else if 0 <? isz then Ok (Z.quot buflen isz)
             else Err ZeroDivisionError
         | FNotPtrArray => Err TypeError
         end
  end.

(* the code of the open-array branch, with its fast-path test `fast` (regenerated from the source into
   C19/Gen.v): if (fast) arraylength = view->len; else if (ct_size > 0) view->len / ct_size; else
   ZeroDivisionError *)
Definition from_buffer_open_code (fast : cond) (it : item) (buflen : Z) : res Z :=
  if cond_holds fast it then Ok buflen
  else if 0 <? it_size it then Ok (Z.quot buflen (it_size it))
  else Err ZeroDivisionError.

(* the item types the backend can build (flags as set by new_primitive_type / new_pointer_type / ...;
   aggregates and arrays for a range of sizes, 0 included) *)
Definition prim_items : list item :=
  [mk_item 1 [F_CHAR]; mk_item 2 [F_CHAR]; mk_item 4 [F_CHAR];
   mk_item 1 [F_SIGNED]; mk_item 2 [F_SIGNED]; mk_item 4 [F_SIGNED]; mk_item 8 [F_SIGNED];
   mk_item 1 [F_UNSIGNED]; mk_item 2 [F_UNSIGNED]; mk_item 4 [F_UNSIGNED]; mk_item 8 [F_UNSIGNED];
   mk_item 1 [F_UNSIGNED; F_BOOL];
   mk_item 4 [F_FLOAT]; mk_item 8 [F_FLOAT]; mk_item 16 [F_FLOAT; F_LONGDOUBLE];
   mk_item 8 [F_COMPLEX]; mk_item 16 [F_COMPLEX];
   mk_item 4 [F_SIGNED; F_ENUM]; mk_item 4 [F_UNSIGNED; F_ENUM]; mk_item 8 [F_SIGNED; F_ENUM];
   mk_item 8 [F_UNSIGNED; F_ENUM]; mk_item 8 [F_POINTER]; mk_item 8 [F_FUNCTIONPTR]].
Definition aggregate_sizes : list Z := [0; 1; 2; 3; 4; 5; 6; 7; 8; 12; 16; 24; 32; 64].
Definition all_items : list item :=
  prim_items ++ map (fun s => mk_item s [F_STRUCT]) aggregate_sizes
             ++ map (fun s => mk_item s [F_UNION]) aggregate_sizes
             ++ map (fun s => mk_item s [F_ARRAY]) aggregate_sizes.

(* ---------------------------------------------------------------- b_memmove :7333 *)
(* dest and src are offsets into one memory (they may overlap); C's memmove copies as if through a
   temporary array (C11 7.24.2.2) *)
Definition memmove (mem : list Z) (dest src n : Z) : res (list Z) :=
  if n <? 0 then Err ValueError
  else Ok (write mem dest (read mem src n)).

(* a byte-by-byte forward copy, NOT what the code does: for comparison *)
Fixpoint forward_copy (mem : list Z) (dest src : Z) (n : nat) : list Z :=
  match n with
  | O => mem
  | S n' => forward_copy (write mem dest (read mem src 1)) (dest + 1) (src + 1) n'
  end.

(* ---------------------------------------------------------------- boolean equalities (harness) *)
Fixpoint zlist_eqb (x y : list Z) : bool :=
  match x, y with
  | [], [] => true
  | a :: x', b :: y' => (a =? b) && zlist_eqb x' y'
  | _, _ => false
  end.
Definition exn_eqb (a b : exn) : bool :=
  match a, b with
  | IndexError, IndexError | TypeError, TypeError | ValueError, ValueError
  | ZeroDivisionError, ZeroDivisionError | OutOfModel, OutOfModel => true
  | _, _ => false
  end.
Definition outcome_eqb (a b : outcome) : bool :=
  match a, b with
  | RBytes x, RBytes y => zlist_eqb x y
  | RDone, RDone => true
  | RInt x, RInt y => x =? y
  | RErr x, RErr y => exn_eqb x y
  | _, _ => false
  end.
Fixpoint outcomes_eqb (x y : list outcome) : bool :=
  match x, y with
  | [], [] => true
  | a :: x', b :: y' => outcome_eqb a b && outcomes_eqb x' y'
  | _, _ => false
  end.
Definition run_eqb (a b : list Z * list outcome) : bool :=
  zlist_eqb (fst a) (fst b) && outcomes_eqb (snd a) (snd b).
Definition resz_eqb (a b : res Z) : bool :=
  match a, b with Ok x, Ok y => x =? y | Err x, Err y => exn_eqb x y | _, _ => false end.
Definition resl_eqb (a b : res (list Z)) : bool :=
  match a, b with Ok x, Ok y => zlist_eqb x y | Err x, Err y => exn_eqb x y | _, _ => false end.
