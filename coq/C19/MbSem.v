(* C19 — semantics of the statement lists of C19/Types.v (the regenerated bodies of mb_item, mb_slice,
   mb_ass_item, mb_ass_slice of src/c/minibuffer.h), over the memory/window vocabulary of C19/Model.v,
   and the buffer object built from four such bodies (run_g).  Definitions only. *)
From Coq Require Import ZArith List Bool.
Import ListNotations.
From Cffi Require Import C19.Types C19.Model.
Open Scope Z_scope.

Record menv := mk_env { e_idx : Z; e_left : Z; e_right : Z; e_size : Z; e_count : Z }.
Definition env_get (e : menv) (v : mvar) : Z :=
  match v with Vidx => e_idx e | Vleft => e_left e | Vright => e_right e | Vsize => e_size e | Vcount => e_count e end.
Definition env_set (e : menv) (v : mvar) (z : Z) : menv :=
  match v with
  | Vidx => mk_env z (e_left e) (e_right e) (e_size e) (e_count e)
  | Vleft => mk_env (e_idx e) z (e_right e) (e_size e) (e_count e)
  | Vright => mk_env (e_idx e) (e_left e) z (e_size e) (e_count e)
  | Vsize => mk_env (e_idx e) (e_left e) (e_right e) z (e_count e)
  | Vcount => mk_env (e_idx e) (e_left e) (e_right e) (e_size e) z
  end.

(* n = self->mb_size; slen = src_view.len (meaningful after SFetch) *)
Fixpoint eval (n slen : Z) (e : menv) (x : mexpr) : Z :=
  match x with
  | EV v => env_get e v
  | ESelfSize => n
  | ESrcLen => slen
  | EConst z => z
  | ESub a b => eval n slen e a - eval n slen e b
  end.
Fixpoint test (n slen : Z) (e : menv) (t : mtest) : bool :=
  match t with
  | TLt a b => eval n slen e a <? eval n slen e b
  | TGt a b => eval n slen e b <? eval n slen e a
  | TGe a b => eval n slen e b <=? eval n slen e a
  | TLe a b => eval n slen e a <=? eval n slen e b
  | TEq a b => eval n slen e a =? eval n slen e b
  | TNe a b => negb (eval n slen e a =? eval n slen e b)
  | TOr s t => test n slen e s || test n slen e t
  | TAnd s t => test n slen e s && test n slen e t
  end.
Definition exn_of (x : mexn) : exn :=
  match x with XIndex => IndexError | XType => TypeError | XValue => ValueError end.

(* what _fetch_as_buffer leaves in src_view: (len, the bytes behind buf); None = it failed (TypeError) *)
Definition fetch (other : pyval) : option (Z * list Z) :=
  match other with
  | VBytes bs | VBuf bs => Some (zlen bs, bs)
  | VPtrSrc bs => Some (-1, bs)
  | VOther => None
  end.

(* the result of a body: the bytes returned (getters) or the memory afterwards (setters).  A body that
   falls off its end, or copies more bytes than the model knows behind a pointer, is OutOfModel.
   The source of SCopy is a value (its bytes are not part of mem), so memcpy and memmove agree here;
   sources that alias the destination memory: copy_alias below *)
Fixpoint exec (p : list mstmt) (mem : list Z) (off n : Z) (other : pyval) (src : Z * list Z) (e : menv)
  : res (list Z) :=
  match p with
  | [] => Err OutOfModel
  | s :: r =>
      match s with
      | SAssign v x => exec r mem off n other src (env_set e v (eval n (fst src) e x))
      | SIfAssign t v x =>
          exec r mem off n other src (if test n (fst src) e t then env_set e v (eval n (fst src) e x) else e)
      | SIfRaise t x => if test n (fst src) e t then Err (exn_of x) else exec r mem off n other src e
      | SFetch => match fetch other with None => Err TypeError | Some sv => exec r mem off n other sv e end
      | SRetBytes pos len => Ok (read mem (off + eval n (fst src) e pos) (eval n (fst src) e len))
      | SStoreByte pos =>
          match other with
          | VBytes [b] => Ok (write mem (off + eval n (fst src) e pos) [b])
          | _ => Err TypeError
          end
      | SCopy _ pos cnt =>
          let c := eval n (fst src) e cnt in
          if zlen (snd src) <? c then Err OutOfModel
          else Ok (write mem (off + eval n (fst src) e pos) (firstn (Z.to_nat c) (snd src)))
      end
  end.

Definition env0 (idx left right : Z) : menv := mk_env idx left right 0 0.
Definition nosrc : Z * list Z := (0, []).
Definition exec_item (p : list mstmt) mem off n idx := exec p mem off n VOther nosrc (env0 idx 0 0).
Definition exec_slice (p : list mstmt) mem off n left right := exec p mem off n VOther nosrc (env0 0 left right).
Definition exec_ass_item (p : list mstmt) mem off n idx other := exec p mem off n other nosrc (env0 idx 0 0).
Definition exec_ass_slice (p : list mstmt) mem off n left right other :=
  exec p mem off n other nosrc (env0 0 left right).

(* the copy primitive of a body (the first SCopy) *)
Fixpoint copy_of (p : list mstmt) : option copyfn :=
  match p with
  | [] => None
  | SCopy f _ _ :: _ => Some f
  | _ :: r => copy_of r
  end.

(* a source that lives in the SAME memory (another ffi.buffer / memoryview / cdata over it): dest, src
   absolute offsets.  memmove copies as if through a temporary (C11 7.24.2.2); memcpy between
   overlapping objects is undefined (C11 7.24.2.1): no claim *)
Definition disjoint (dest src cnt : Z) : bool := (cnt <=? 0) || (dest + cnt <=? src) || (src + cnt <=? dest).
Definition copy_alias (f : copyfn) (mem : list Z) (dest src cnt : Z) : res (list Z) :=
  match f with
  | Memmove => Ok (write mem dest (read mem src cnt))
  | Memcpy => if disjoint dest src cnt then Ok (write mem dest (read mem src cnt)) else Err OutOfModel
  end.

(* ---------------------------------------------------------------- the buffer object over four bodies *)
Record progs := mk_progs { p_item : list mstmt; p_slice : list mstmt; p_ass_item : list mstmt; p_ass_slice : list mstmt }.

(* mb_subscript / mb_ass_subscript (minibuffer.h, hand-written glue as in Model.v) calling the bodies *)
Definition mb_subscript_g (P : progs) (mem : list Z) (off n : Z) (k : key) : res (list Z) :=
  match k with
  | KInt i =>
      if negb (ssize_ok i) then Err IndexError
      else exec_item (p_item P) mem off n (if i <? 0 then i + n else i)
  | KSlice a b s =>
      match slice_unpack a b s with
      | Err e => Err e
      | Ok (a', b', s') =>
          let '(start, stop) := adjust n a' b' s' in
          if s' =? 1 then exec_slice (p_slice P) mem off n start stop else Err TypeError
      end
  | KOther => Err TypeError
  end.

Definition mb_ass_subscript_g (P : progs) (mem : list Z) (off n : Z) (k : key) (value : option pyval)
  : res (list Z) :=
  match value with
  | None => Err TypeError
  | Some v =>
    match k with
    | KInt i =>
        if negb (ssize_ok i) then Err IndexError
        else exec_ass_item (p_ass_item P) mem off n (if i <? 0 then i + n else i) v
    | KSlice a b s =>
        match slice_unpack a b s with
        | Err e => Err e
        | Ok (a', b', s') =>
            let '(start, stop) := adjust n a' b' s' in
            if s' =? 1 then exec_ass_slice (p_ass_slice P) mem off n start stop v else Err TypeError
        end
    | KOther => Err TypeError
    end
  end.

Definition step_g (P : progs) (off n : Z) (mem : list Z) (o : op) : list Z * outcome :=
  match o with
  | OGet k => match mb_subscript_g P mem off n k with
              | Ok l => (mem, RBytes l)
              | Err e => (mem, RErr e)
              end
  | OSet k v => match mb_ass_subscript_g P mem off n k v with
                | Ok mem' => (mem', RDone)
                | Err e => (mem, RErr e)
                end
  | OLen => (mem, RInt n)
  end.

Fixpoint run_g (P : progs) (off n : Z) (mem : list Z) (ops : list op) : list Z * list outcome :=
  match ops with
  | [] => (mem, [])
  | o :: r => let '(m1, out) := step_g P off n mem o in
              let '(m2, outs) := run_g P off n m1 r in (m2, out :: outs)
  end.
