(* C19 — specification, written independently of the model: the semantics of a Python bytearray of
   length n for reads, item assignment and length-preserving slice assignment (step 1), plus the
   readings recorded in DESIGN.md: extended slices are refused with TypeError (a zero step with
   ValueError, as bytearray does), length-changing assignments with ValueError, deletions with
   TypeError.  Items are read as length-1 bytes and assigned from length-1 bytes objects. *)
From Coq Require Import ZArith List Bool.
Import ListNotations.
From Cffi Require Import C19.Model.   (* only for the shared vocabulary: key, pyval, op, outcome, exn *)
Open Scope Z_scope.

Definition znth (w : list Z) (i : Z) : list Z := firstn 1 (skipn (Z.to_nat i) w).

(* w[i] for a Python int i *)
Definition py_index (w : list Z) (i : Z) : option Z :=
  let n := zlen w in
  if (- n <=? i) && (i <? n) then Some (if i <? 0 then i + n else i) else None.

(* slice.indices(n) for step 1: a bound x (None or any int) becomes an index in [0, n] *)
Definition py_bound (n : Z) (x : option Z) (dflt : Z) : Z :=
  match x with
  | None => dflt
  | Some v => if v <? 0 then Z.max 0 (v + n) else Z.min v n
  end.

Definition zfirstn (k : Z) (l : list Z) := firstn (Z.to_nat k) l.
Definition zskipn (k : Z) (l : list Z) := skipn (Z.to_nat k) l.

(* w[start:stop] *)
Definition py_getslice (w : list Z) (start stop : option Z) : list Z :=
  let n := zlen w in
  let lo := py_bound n start 0 in
  let hi := py_bound n stop n in
  zfirstn (hi - lo) (zskipn lo w).

(* w[start:stop] = <the first (stop-start) bytes found behind a pointer>: cffi's extension for pointer
   cdata sources, which have no length of their own (always length-preserving) *)
Definition py_setslice_ptr (w : list Z) (start stop : option Z) (bs : list Z) : option (list Z) :=
  let n := zlen w in
  let lo := py_bound n start 0 in
  let hi := Z.max lo (py_bound n stop n) in
  if zlen bs <? hi - lo then None else Some (zfirstn lo w ++ zfirstn (hi - lo) bs ++ zskipn hi w).

(* w[start:stop] = bs, allowed only when it preserves the length *)
Definition py_setslice (w : list Z) (start stop : option Z) (bs : list Z) : option (list Z) :=
  let n := zlen w in
  let lo := py_bound n start 0 in
  let hi := Z.max lo (py_bound n stop n) in
  if zlen bs =? hi - lo then Some (zfirstn lo w ++ bs ++ zskipn hi w) else None.

Definition step_ok (s : option Z) : res unit :=
  match s with
  | None => Ok tt
  | Some s => if s =? 0 then Err ValueError else if s =? 1 then Ok tt else Err TypeError
  end.

(* one operation on the window *)
Definition spec_step (w : list Z) (o : op) : list Z * outcome :=
  match o with
  | OLen => (w, RInt (zlen w))
  | OGet (KInt i) =>
      match py_index w i with Some j => (w, RBytes (znth w j)) | None => (w, RErr IndexError) end
  | OGet (KSlice a b s) =>
      match step_ok s with Err e => (w, RErr e) | Ok _ => (w, RBytes (py_getslice w a b)) end
  | OGet KOther => (w, RErr TypeError)
  | OSet _ None => (w, RErr TypeError)                         (* del *)
  | OSet (KInt i) (Some v) =>
      match py_index w i with
      | None => (w, RErr IndexError)
      | Some j => match v with
                  | VBytes [b] => (zfirstn j w ++ [b] ++ zskipn (j + 1) w, RDone)
                  | _ => (w, RErr TypeError)
                  end
      end
  | OSet (KSlice a b s) (Some v) =>
      match step_ok s with
      | Err e => (w, RErr e)
      | Ok _ =>
          match v with
          | VOther => (w, RErr TypeError)
          | VBytes bs | VBuf bs =>
              match py_setslice w a b bs with
              | Some w' => (w', RDone)
              | None => (w, RErr ValueError)
              end
          | VPtrSrc bs =>
              match py_setslice_ptr w a b bs with
              | Some w' => (w', RDone)
              | None => (w, RErr OutOfModel)
              end
          end
      end
  | OSet KOther (Some _) => (w, RErr TypeError)
  end.

Fixpoint spec_run (w : list Z) (ops : list op) : list Z * list outcome :=
  match ops with
  | [] => (w, [])
  | o :: r => let '(w1, out) := spec_step w o in
              let '(w2, outs) := spec_run w1 r in (w2, out :: outs)
  end.

(* the n-byte window at offset off of a memory, and the memory with that window replaced *)
Definition window (mem : list Z) (off n : Z) : list Z := zfirstn n (zskipn off mem).
Definition splice (mem : list Z) (off n : Z) (w : list Z) : list Z :=
  zfirstn off mem ++ w ++ zskipn (off + n) mem.

(* memmove as Python would write it: the source slice is evaluated first *)
Definition py_memmove (mem : list Z) (dest src n : Z) : list Z :=
  zfirstn dest mem ++ zfirstn n (zskipn src mem) ++ zskipn (dest + n) mem.
