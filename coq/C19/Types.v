(* C19 — vocabulary for the regenerated fast-path condition of direct_from_buffer (coq/C19/Gen.v):
   a small language of tests on the item type descriptor (ct->ct_itemdescr) and its evaluator. *)
From Coq Require Import ZArith List Bool.
Import ListNotations.
Open Scope Z_scope.

Inductive flag :=
| F_CHAR | F_SIGNED | F_UNSIGNED | F_FLOAT | F_COMPLEX          (* CT_PRIMITIVE_xxx *)
| F_BOOL | F_ENUM | F_LONGDOUBLE                               (* CT_IS_xxx *)
| F_POINTER | F_FUNCTIONPTR | F_STRUCT | F_UNION | F_ARRAY | F_VOID | F_OPAQUE.

Definition flag_eqb (a b : flag) : bool :=
  match a, b with
  | F_CHAR, F_CHAR | F_SIGNED, F_SIGNED | F_UNSIGNED, F_UNSIGNED | F_FLOAT, F_FLOAT | F_COMPLEX, F_COMPLEX
  | F_BOOL, F_BOOL | F_ENUM, F_ENUM | F_LONGDOUBLE, F_LONGDOUBLE | F_POINTER, F_POINTER
  | F_FUNCTIONPTR, F_FUNCTIONPTR | F_STRUCT, F_STRUCT | F_UNION, F_UNION | F_ARRAY, F_ARRAY
  | F_VOID, F_VOID | F_OPAQUE, F_OPAQUE => true
  | _, _ => false
  end.

(* an item type: ct_size and the flags set in ct_flags *)
Record item := mk_item { it_size : Z; it_flags : list flag }.

Inductive atom :=
| ASizeEq (n : Z)           (* ct->ct_itemdescr->ct_size == n *)
| ASizeLe (n : Z)           (* ... <= n *)
| ASizeGt (n : Z)           (* ... > n *)
| AFlag (f : flag)          (* ct->ct_itemdescr->ct_flags & CT_f *)
| ANotFlag (f : flag).      (* !(... & CT_f) *)

Inductive cond := CAtom (a : atom) | CAnd (c1 c2 : cond) | COr (c1 c2 : cond).

Definition has_flag (it : item) (f : flag) : bool := existsb (flag_eqb f) (it_flags it).

Definition atom_holds (a : atom) (it : item) : bool :=
  match a with
  | ASizeEq n => it_size it =? n
  | ASizeLe n => it_size it <=? n
  | ASizeGt n => n <? it_size it
  | AFlag f => has_flag it f
  | ANotFlag f => negb (has_flag it f)
  end.

Fixpoint cond_holds (c : cond) (it : item) : bool :=
  match c with
  | CAtom a => atom_holds a it
  | CAnd c1 c2 => cond_holds c1 it && cond_holds c2 it
  | COr c1 c2 => cond_holds c1 it || cond_holds c2 it
  end.

(* ---------------------------------------------------------------- _fetch_as_buffer: length of a cdata source *)
(* what the helper can see of a cdata source x: whether its ctype is an array, ct->ct_size of that
   ctype (total bytes of a fixed 'T[n]', -1 for an open 'T[]'), get_array_length(x), the item size *)
Record srcdesc := mk_sd { sd_is_array : bool; sd_ct_size : Z; sd_length : Z; sd_isz : Z }.

Inductive scond := SIsArray | SItemSizeKnown | SAnd (a b : scond).
Inductive lenexpr :=
| LUnknown                    (* -1 *)
| LCtSize                     (* ct->ct_size *)
| LLenTimesItem               (* get_array_length(x) * ct->ct_itemdescr->ct_size *)
| LIf (c : scond) (a b : lenexpr).

Fixpoint scond_holds (c : scond) (sd : srcdesc) : bool :=
  match c with
  | SIsArray => sd_is_array sd
  | SItemSizeKnown => 0 <=? sd_isz sd
  | SAnd a b => scond_holds a sd && scond_holds b sd
  end.

(* view->len as computed by the code *)
Fixpoint src_len (e : lenexpr) (sd : srcdesc) : Z :=
  match e with
  | LUnknown => -1
  | LCtSize => sd_ct_size sd
  | LLenTimesItem => sd_length sd * sd_isz sd
  | LIf c a b => if scond_holds c sd then src_len a sd else src_len b sd
  end.

(* ---------------------------------------------------------------- minibuffer.h: the bodies of mb_item,
   mb_slice, mb_ass_item, mb_ass_slice as statement lists (regenerated into C19/Gen.v by
   tools/props/c19_regen.py; semantics in C19/MbSem.v) *)
Inductive mvar := Vidx | Vleft | Vright | Vsize | Vcount.
Inductive mexpr :=
| EV (v : mvar)             (* a parameter or local of type Py_ssize_t *)
| ESelfSize                 (* self->mb_size *)
| ESrcLen                   (* src_view.len *)
| EConst (z : Z)
| ESub (a b : mexpr).       (* a - b *)
Inductive mtest :=
| TLt (a b : mexpr) | TGt (a b : mexpr) | TGe (a b : mexpr) | TLe (a b : mexpr)
| TEq (a b : mexpr) | TNe (a b : mexpr)
| TOr (s t : mtest) | TAnd (s t : mtest).
Inductive mexn := XIndex | XType | XValue.
Inductive copyfn := Memcpy | Memmove.
Inductive mstmt :=
| SAssign (v : mvar) (e : mexpr)                (* [Py_ssize_t] v = e; *)
| SIfAssign (t : mtest) (v : mvar) (e : mexpr)  (* if (t) v = e; *)
| SIfRaise (t : mtest) (x : mexn)               (* if (t) { [PyBuffer_Release(&src_view);] PyErr_SetString(PyExc_x, ...); return NULL / -1; } *)
| SFetch                                        (* if (_fetch_as_buffer(other, &src_view, 0) < 0) return -1; *)
| SRetBytes (pos len : mexpr)                   (* return PyBytes_FromStringAndSize(self->mb_data + pos, len); *)
| SStoreByte (pos : mexpr)                      (* if (PyBytes_Check(other) && PyBytes_GET_SIZE(other) == 1) { self->mb_data[pos] =
                                                   PyBytes_AS_STRING(other)[0]; return 0; } else { TypeError; return -1; } *)
| SCopy (f : copyfn) (pos cnt : mexpr).         (* f(self->mb_data + pos, src_view.buf, cnt); PyBuffer_Release(&src_view); return 0; *)
