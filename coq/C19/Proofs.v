(* C19 — proofs: the minibuffer model refines the bytearray specification on its window and
   changes nothing outside it. *)
From Coq Require Import ZArith List Bool Lia.
Import ListNotations.
From Cffi Require Import C19.Types C19.Gen C19.Model C19.Spec.
Open Scope Z_scope.

(* ---------------------------------------------------------------- lists *)
Lemma skipn_app_len : forall (A X : list Z) j, skipn (length A + j) (A ++ X) = skipn j X.
Proof.
  induction A as [|a A IH]; intros X j; [reflexivity|]. cbn. apply IH.
Qed.

Lemma firstn_app_len : forall (A X : list Z) j, firstn (length A + j) (A ++ X) = A ++ firstn j X.
Proof.
  induction A as [|a A IH]; intros X j; [reflexivity|]. cbn. f_equal. apply IH.
Qed.

Lemma firstn_app_le : forall (X C : list Z) k, (k <= length X)%nat -> firstn k (X ++ C) = firstn k X.
Proof.
  intros X C k H. rewrite firstn_app. replace (k - length X)%nat with 0%nat by lia.
  cbn. apply app_nil_r.
Qed.

Lemma skipn_app_le : forall (X C : list Z) k, (k <= length X)%nat -> skipn k (X ++ C) = skipn k X ++ C.
Proof.
  intros X C k H. rewrite skipn_app. replace (k - length X)%nat with 0%nat by lia. reflexivity.
Qed.

Lemma zlen_nonneg : forall l, 0 <= zlen l.
Proof. intros. unfold zlen. lia. Qed.

Lemma zlen_app : forall a b, zlen (a ++ b) = zlen a + zlen b.
Proof. intros. unfold zlen. rewrite app_length. lia. Qed.

(* reads and writes that fall inside the middle part W of A ++ W ++ C *)
Lemma read_mid : forall A W C p k, 0 <= p -> 0 <= k -> p + k <= zlen W ->
  read (A ++ W ++ C) (zlen A + p) k = zfirstn k (zskipn p W).
Proof.
  intros A W C p k Hp Hk H. unfold read, zfirstn, zskipn, zlen in *.
  rewrite Z2Nat.inj_add, Nat2Z.id by lia. rewrite skipn_app_len.
  rewrite skipn_app_le by lia. apply firstn_app_le. rewrite skipn_length. lia.
Qed.

Lemma write_mid : forall A W C p bs, 0 <= p -> p + zlen bs <= zlen W ->
  write (A ++ W ++ C) (zlen A + p) bs = A ++ (zfirstn p W ++ bs ++ zskipn (p + zlen bs) W) ++ C.
Proof.
  intros A W C p bs Hp H. unfold write, zfirstn, zskipn, zlen in *.
  rewrite Z2Nat.inj_add, Nat2Z.id by lia.
  rewrite firstn_app_len. rewrite firstn_app_le by lia.
  rewrite <- Nat.add_assoc. rewrite skipn_app_len. rewrite skipn_app_le by lia.
  rewrite Z2Nat.inj_add, Nat2Z.id by lia.
  rewrite <- !app_assoc. reflexivity.
Qed.

Lemma zlen_write_mid : forall W p bs, 0 <= p -> p + zlen bs <= zlen W ->
  zlen (zfirstn p W ++ bs ++ zskipn (p + zlen bs) W) = zlen W.
Proof.
  intros W p bs Hp H. unfold zfirstn, zskipn, zlen in *.
  rewrite !app_length, firstn_length, skipn_length. lia.
Qed.

Lemma firstn_skipn_id : forall p (W : list Z), zfirstn p W ++ zskipn p W = W.
Proof. intros. apply firstn_skipn. Qed.

(* ---------------------------------------------------------------- slice bounds *)
Lemma adjust1_bound : forall n v, 0 <= n <= SSIZE_MAX ->
  adjust1 n (clamp v) 1 = py_bound n (Some v) 0.
Proof.
  intros n v Hn. unfold adjust1, clamp, py_bound, SSIZE_MAX, SSIZE_MIN in *.
  change (1 <? 0) with false. cbn iota.
  destruct (Z.ltb_spec v 0).
  - destruct (Z.ltb_spec (Z.max (- 2 ^ 63) (Z.min v (2 ^ 63 - 1))) 0); [|lia].
    destruct (Z.ltb_spec (Z.max (- 2 ^ 63) (Z.min v (2 ^ 63 - 1)) + n) 0); lia.
  - destruct (Z.ltb_spec (Z.max (- 2 ^ 63) (Z.min v (2 ^ 63 - 1))) 0); [lia|].
    destruct (Z.leb_spec n (Z.max (- 2 ^ 63) (Z.min v (2 ^ 63 - 1)))); lia.
Qed.

Lemma adjust1_range : forall n v, 0 <= n -> 0 <= adjust1 n v 1 <= n.
Proof.
  intros n v Hn. unfold adjust1. change (1 <? 0) with false. cbn iota.
  destruct (Z.ltb_spec v 0).
  - destruct (Z.ltb_spec (v + n) 0); lia.
  - destruct (Z.leb_spec n v); lia.
Qed.

Lemma adjust1_none_start : forall n, 0 <= n -> adjust1 n 0 1 = 0.
Proof.
  intros n Hn. unfold adjust1. cbn. destruct (Z.leb_spec n 0); lia.
Qed.

Lemma adjust1_none_stop : forall n, 0 <= n <= SSIZE_MAX -> adjust1 n SSIZE_MAX 1 = n.
Proof.
  intros n Hn. unfold adjust1.
  destruct (Z.ltb_spec SSIZE_MAX 0); [unfold SSIZE_MAX in *; lia|].
  destruct (Z.leb_spec n SSIZE_MAX); [reflexivity|lia].
Qed.

(* PySlice_Unpack + PySlice_AdjustIndices agree with slice.indices for step 1 / None *)
Lemma unpack_adjust_step1 : forall n a b s, 0 <= n <= SSIZE_MAX -> step_ok s = Ok tt ->
  exists a' b', slice_unpack a b s = Ok (a', b', 1) /\
    adjust n a' b' 1 = (py_bound n a 0, py_bound n b n).
Proof.
  intros n a b s Hn Hs.
  assert (s = None \/ s = Some 1) as Hs'.
  { destruct s as [s|]; [|auto]. right. unfold step_ok in Hs.
    destruct (Z.eqb_spec s 0); [discriminate|]. destruct (Z.eqb_spec s 1); [subst; reflexivity|discriminate]. }
  assert (forall x dm ds, adjust1 n dm 1 = ds ->
            adjust1 n (match x with None => dm | Some v => clamp v end) 1 = py_bound n x ds) as Hb.
  { intros x dm ds Hd. destruct x as [v|]; [|exact Hd].
    rewrite adjust1_bound by assumption. reflexivity. }
  assert (slice_unpack a b s =
          Ok (match a with None => 0 | Some v => clamp v end,
              match b with None => SSIZE_MAX | Some v => clamp v end, 1)) as Hu.
  { destruct Hs' as [-> | ->]; reflexivity. }
  do 2 eexists. split; [exact Hu|]. unfold adjust. f_equal.
  - apply Hb. apply adjust1_none_start. lia.
  - apply Hb. apply adjust1_none_stop. assumption.
Qed.

Lemma py_bound_range : forall n x d, 0 <= n -> 0 <= d <= n -> 0 <= py_bound n x d <= n.
Proof.
  intros n x d Hn Hd. unfold py_bound. destruct x as [v|]; [|lia].
  destruct (Z.ltb_spec v 0); lia.
Qed.

(* a refused step is refused by the model with the same exception, whatever the bounds *)
Lemma unpack_step_refused : forall a b s e, step_ok s = Err e ->
  (slice_unpack a b s = Err e /\ e = ValueError) \/
  (e = TypeError /\ exists a' b' s', slice_unpack a b s = Ok (a', b', s') /\ (s' =? 1) = false).
Proof.
  intros a b s e H. destruct s as [s|]; [|discriminate]. unfold step_ok in H.
  destruct (Z.eqb_spec s 0) as [->|H0].
  - inversion H; subst. left. split; reflexivity.
  - destruct (Z.eqb_spec s 1) as [->|H1]; [discriminate|]. inversion H; subst. right. split; [reflexivity|].
    unfold slice_unpack.
    assert (clamp s <> 0) as Hc by (unfold clamp, SSIZE_MAX, SSIZE_MIN; lia).
    destruct (Z.eqb_spec (clamp s) 0); [contradiction|].
    do 3 eexists. split; [reflexivity|].
    apply Z.eqb_neq. unfold clamp, SSIZE_MAX, SSIZE_MIN. lia.
Qed.

(* ---------------------------------------------------------------- one operation *)
Lemma py_index_model : forall W i, zlen W <= SSIZE_MAX ->
  match py_index W i with
  | Some j => ssize_ok i = true /\ j = (if i <? 0 then i + zlen W else i) /\ 0 <= j < zlen W
  | None => ssize_ok i = false \/
            (let j := if i <? 0 then i + zlen W else i in ((j <? 0) || (zlen W <=? j)) = true)
  end.
Proof.
  intros W i Hn. unfold py_index. pose proof (zlen_nonneg W) as Hp.
  destruct (Z.leb_spec (- zlen W) i); destruct (Z.ltb_spec i (zlen W)); cbn [andb].
  - split; [unfold ssize_ok, SSIZE_MIN, SSIZE_MAX in *; apply andb_true_intro; split;
            [apply Z.leb_le|apply Z.leb_le]; lia|].
    split; [reflexivity|]. destruct (Z.ltb_spec i 0); lia.
  - right. cbn zeta. destruct (Z.ltb_spec i 0); [lia|].
    apply orb_true_intro. right. apply Z.leb_le. lia.
  - right. cbn zeta. destruct (Z.ltb_spec i 0); [|lia].
    apply orb_true_intro. left. apply Z.ltb_lt. lia.
  - lia.
Qed.

Lemma step_refines : forall A W C o, zlen W <= SSIZE_MAX ->
  exists w' out, spec_step W o = (w', out) /\ zlen w' = zlen W /\
                 step (zlen A) (zlen W) (A ++ W ++ C) o = (A ++ w' ++ C, out).
Proof.
  intros A W C o Hn. pose proof (zlen_nonneg W) as Hp.
  destruct o as [k|k v|].
  - (* reads *)
    destruct k as [i|a b s|].
    + cbn [spec_step step mb_subscript].
      pose proof (py_index_model W i Hn) as H. destruct (py_index W i) as [j|].
      * destruct H as [Hi [Hj Hr]]. rewrite Hi. cbn [negb]. rewrite <- Hj.
        unfold mb_item. destruct (Z.ltb_spec j 0); [lia|]. destruct (Z.leb_spec (zlen W) j); [lia|].
        cbn [orb]. rewrite read_mid by lia. do 2 eexists. repeat split.
      * do 2 eexists. split; [reflexivity|]. split; [reflexivity|].
        destruct H as [H|H]; [rewrite H; reflexivity|].
        destruct (ssize_ok i); [|reflexivity]. cbn [negb]. unfold mb_item. cbn zeta in H. rewrite H.
        reflexivity.
    + cbn [spec_step step mb_subscript].
      destruct (step_ok s) as [[]|e] eqn:Es.
      * destruct (unpack_adjust_step1 (zlen W) a b s ltac:(lia) Es) as [a' [b' [Hu Ha]]].
        rewrite Hu, Ha. cbn [Z.eqb Pos.eqb].
        pose proof (py_bound_range (zlen W) a 0 Hp ltac:(lia)) as Rlo.
        pose proof (py_bound_range (zlen W) b (zlen W) Hp ltac:(lia)) as Rhi.
        set (lo := py_bound (zlen W) a 0) in *. set (hi := py_bound (zlen W) b (zlen W)) in *.
        do 2 eexists. split; [reflexivity|]. split; [reflexivity|]. f_equal. f_equal.
        unfold mb_slice, py_getslice. fold lo hi.
        destruct (Z.ltb_spec lo 0); [lia|]. destruct (Z.ltb_spec (zlen W) hi); [lia|].
        destruct (Z.ltb_spec hi lo).
        -- rewrite read_mid by lia. unfold zfirstn.
           replace (Z.to_nat (hi - hi)) with 0%nat by lia. replace (Z.to_nat (hi - lo)) with 0%nat by lia.
           reflexivity.
        -- rewrite read_mid by lia. reflexivity.
      * do 2 eexists. split; [reflexivity|]. split; [reflexivity|].
        destruct (unpack_step_refused a b s e Es) as [[Hu _]|[-> [a' [b' [s' [Hu Hs']]]]]].
        -- rewrite Hu. reflexivity.
        -- rewrite Hu. destruct (adjust (zlen W) a' b' s'). rewrite Hs'. reflexivity.
    + do 2 eexists. repeat split.
  - (* assignments *)
    destruct v as [v|]; [|destruct k; do 2 eexists; repeat split].
    destruct k as [i|a b s|].
    + cbn [spec_step step mb_ass_subscript].
      pose proof (py_index_model W i Hn) as H. destruct (py_index W i) as [j|].
      * destruct H as [Hi [Hj Hr]]. rewrite Hi. cbn [negb]. rewrite <- Hj.
        unfold mb_ass_item. destruct (Z.ltb_spec j 0); [lia|]. destruct (Z.leb_spec (zlen W) j); [lia|].
        cbn [orb].
        destruct v as [bs|bs|bs|]; try (do 2 eexists; repeat split; fail).
        destruct bs as [|b0 [|b1 r]]; try (do 2 eexists; repeat split; fail).
        rewrite write_mid by (cbn; lia). change (zlen [b0]) with 1.
        do 2 eexists. split; [reflexivity|]. split; [|reflexivity].
        apply (zlen_write_mid W j [b0]); cbn; lia.
      * do 2 eexists. split; [reflexivity|]. split; [reflexivity|].
        destruct H as [H|H]; [rewrite H; reflexivity|].
        destruct (ssize_ok i); [|reflexivity]. cbn [negb]. unfold mb_ass_item. cbn zeta in H. rewrite H.
        reflexivity.
    + cbn [spec_step step mb_ass_subscript].
      destruct (step_ok s) as [[]|e] eqn:Es.
      * destruct (unpack_adjust_step1 (zlen W) a b s ltac:(lia) Es) as [a' [b' [Hu Ha]]].
        rewrite Hu, Ha. cbn [Z.eqb Pos.eqb].
        pose proof (py_bound_range (zlen W) a 0 Hp ltac:(lia)) as Rlo.
        pose proof (py_bound_range (zlen W) b (zlen W) Hp ltac:(lia)) as Rhi.
        assert (forall bs,
          exists w' out,
            match py_setslice W a b bs with Some w' => (w', RDone) | None => (W, RErr ValueError) end
              = (w', out) /\ zlen w' = zlen W /\
            match (let left := if py_bound (zlen W) a 0 <? 0 then 0 else py_bound (zlen W) a 0 in
                   let right := if zlen W <? py_bound (zlen W) b (zlen W) then zlen W
                                else py_bound (zlen W) b (zlen W) in
                   let left0 := if right <? left then right else left in
                   let count := right - left0 in
                   if negb (count =? zlen bs) then Err ValueError
                   else Ok (write (A ++ W ++ C) (zlen A + left0) bs)) with
            | Ok mem' => (mem', RDone)
            | Err e => (A ++ W ++ C, RErr e)
            end = (A ++ w' ++ C, out)) as Hcore.
        { intros bs. unfold py_setslice.
          set (lo := py_bound (zlen W) a 0) in *. set (hi := py_bound (zlen W) b (zlen W)) in *.
          cbn zeta.
          destruct (Z.ltb_spec lo 0); [lia|]. destruct (Z.ltb_spec (zlen W) hi); [lia|].
          pose proof (zlen_nonneg bs) as Hbs.
          destruct (Z.ltb_spec hi lo).
          - rewrite Z.max_l by lia. replace (hi - hi) with 0 by lia. replace (lo - lo) with 0 by lia.
            rewrite (Z.eqb_sym 0 (zlen bs)).
            destruct (Z.eqb_spec (zlen bs) 0) as [E|E]; cbn [negb].
            + assert (bs = []) as -> by (destruct bs; [reflexivity|unfold zlen in E; cbn in E; lia]).
              rewrite write_mid by (cbn; lia). change (zlen []) with 0. rewrite Z.add_0_r.
              cbn [app]. rewrite !firstn_skipn_id.
              do 2 eexists. repeat split.
            + do 2 eexists. repeat split.
          - rewrite Z.max_r by lia. rewrite (Z.eqb_sym (hi - lo) (zlen bs)).
            destruct (Z.eqb_spec (zlen bs) (hi - lo)) as [E|E]; cbn [negb].
            + rewrite write_mid by lia. replace (lo + zlen bs) with hi by lia.
              do 2 eexists. split; [reflexivity|]. split; [|reflexivity].
              replace hi with (lo + zlen bs) by lia. apply zlen_write_mid; lia.
            + do 2 eexists. repeat split. }
        assert (forall bs,
          exists w' out,
            match py_setslice_ptr W a b bs with Some w' => (w', RDone) | None => (W, RErr OutOfModel) end
              = (w', out) /\ zlen w' = zlen W /\
            match (let left := if py_bound (zlen W) a 0 <? 0 then 0 else py_bound (zlen W) a 0 in
                   let right := if zlen W <? py_bound (zlen W) b (zlen W) then zlen W
                                else py_bound (zlen W) b (zlen W) in
                   let left0 := if right <? left then right else left in
                   let count := right - left0 in
                   if zlen bs <? count then Err OutOfModel
                   else Ok (write (A ++ W ++ C) (zlen A + left0) (firstn (Z.to_nat count) bs))) with
            | Ok mem' => (mem', RDone)
            | Err e => (A ++ W ++ C, RErr e)
            end = (A ++ w' ++ C, out)) as Hptr.
        { intros bs. unfold py_setslice_ptr.
          set (lo := py_bound (zlen W) a 0) in *. set (hi := py_bound (zlen W) b (zlen W)) in *.
          cbn zeta.
          destruct (Z.ltb_spec lo 0); [lia|]. destruct (Z.ltb_spec (zlen W) hi); [lia|].
          pose proof (zlen_nonneg bs) as Hbs.
          destruct (Z.ltb_spec hi lo).
          - rewrite Z.max_l by lia. replace (hi - hi) with 0 by lia. replace (lo - lo) with 0 by lia.
            destruct (Z.ltb_spec (zlen bs) 0); [lia|].
            change (Z.to_nat 0) with 0%nat. unfold zfirstn at 2. change (Z.to_nat 0) with 0%nat.
            cbn [firstn]. rewrite write_mid by (cbn; lia). change (zlen []) with 0. rewrite Z.add_0_r.
            cbn [app]. rewrite !firstn_skipn_id. do 2 eexists. repeat split.
          - rewrite Z.max_r by lia.
            destruct (Z.ltb_spec (zlen bs) (hi - lo)); [do 2 eexists; repeat split|].
            assert (zlen (firstn (Z.to_nat (hi - lo)) bs) = hi - lo) as Hl.
            { unfold zlen in *. rewrite firstn_length. lia. }
            rewrite write_mid by lia. rewrite Hl. replace (lo + (hi - lo)) with hi by lia.
            do 2 eexists. split; [reflexivity|]. split; [|reflexivity].
            unfold zfirstn at 2.
            set (bs' := firstn (Z.to_nat (hi - lo)) bs) in *.
            replace hi with (lo + zlen bs') by lia.
            apply zlen_write_mid; lia. }
        unfold mb_ass_slice.
        destruct v as [bs|bs|bs|]; [apply Hcore|apply Hcore|apply Hptr|do 2 eexists; repeat split].
      * do 2 eexists. split; [reflexivity|]. split; [reflexivity|].
        destruct (unpack_step_refused a b s e Es) as [[Hu _]|[-> [a' [b' [s' [Hu Hs']]]]]].
        -- rewrite Hu. reflexivity.
        -- rewrite Hu. destruct (adjust (zlen W) a' b' s'). rewrite Hs'. reflexivity.
    + do 2 eexists. repeat split.
  - do 2 eexists. repeat split.
Qed.

(* ---------------------------------------------------------------- histories *)
Lemma run_refines : forall ops A W C, zlen W <= SSIZE_MAX ->
  exists w' outs, spec_run W ops = (w', outs) /\ zlen w' = zlen W /\
                  run (zlen A) (zlen W) (A ++ W ++ C) ops = (A ++ w' ++ C, outs).
Proof.
  induction ops as [|o r IH]; intros A W C Hn.
  - exists W, []. repeat split.
  - destruct (step_refines A W C o Hn) as [w1 [out [Hs [Hl Hm]]]].
    destruct (IH A w1 C ltac:(lia)) as [w2 [outs [Hs2 [Hl2 Hm2]]]].
    rewrite Hl in Hm2.
    exists w2, (out :: outs). cbn [spec_run run]. rewrite Hs, Hs2, Hm, Hm2.
    split; [reflexivity|]. split; [lia|reflexivity].
Qed.

(* decomposition of a memory around a window *)
Lemma decompose : forall mem off n, 0 <= off -> 0 <= n -> off + n <= zlen mem ->
  mem = zfirstn off mem ++ window mem off n ++ zskipn (off + n) mem /\
  zlen (zfirstn off mem) = off /\ zlen (window mem off n) = n.
Proof.
  intros mem off n Ho Hn H. unfold window, zfirstn, zskipn, zlen in *.
  split; [|split].
  - rewrite Z2Nat.inj_add by lia.
    rewrite <- (firstn_skipn (Z.to_nat off) mem) at 1. f_equal.
    rewrite <- (firstn_skipn (Z.to_nat n) (skipn (Z.to_nat off) mem)) at 1. f_equal.
    clear. revert mem. induction (Z.to_nat off) as [|k IH]; intros mem; [reflexivity|].
    destruct mem; [destruct (Z.to_nat n); reflexivity|]. cbn [skipn Nat.add]. apply IH.
  - rewrite firstn_length. lia.
  - rewrite firstn_length, skipn_length. lia.
Qed.

Lemma firstn_len_app : forall (A X : list Z), firstn (length A) (A ++ X) = A.
Proof. induction A as [|a A IH]; intros X; [reflexivity|]. cbn. f_equal. apply IH. Qed.

Lemma skipn_len_app : forall (A X : list Z), skipn (length A) (A ++ X) = X.
Proof. induction A as [|a A IH]; intros X; [reflexivity|]. cbn. apply IH. Qed.

Lemma zfirstn_parts : forall A X, zfirstn (zlen A) (A ++ X) = A.
Proof. intros. unfold zfirstn, zlen. rewrite Nat2Z.id. apply firstn_len_app. Qed.

Lemma zskipn_parts : forall A W X, zskipn (zlen A + zlen W) (A ++ W ++ X) = X.
Proof.
  intros. unfold zskipn, zlen. rewrite <- Nat2Z.inj_add, Nat2Z.id, <- app_length, app_assoc.
  apply skipn_len_app.
Qed.

Lemma window_of_parts : forall A W C, window (A ++ W ++ C) (zlen A) (zlen W) = W.
Proof.
  intros. unfold window, zskipn. unfold zlen at 2. rewrite Nat2Z.id, skipn_len_app.
  apply zfirstn_parts.
Qed.

Lemma splice_of_parts : forall A W C w', splice (A ++ W ++ C) (zlen A) (zlen W) w' = A ++ w' ++ C.
Proof. intros. unfold splice. rewrite zfirstn_parts, zskipn_parts. reflexivity. Qed.

(* main theorem: any history through a buffer over [off, off+n) of a memory behaves as the same
   history on a bytearray holding the window, and rewrites the memory only inside the window *)
Theorem buffer_history : forall mem off n ops,
  0 <= off -> 0 <= n <= SSIZE_MAX -> off + n <= zlen mem ->
  exists w' outs, spec_run (window mem off n) ops = (w', outs) /\ zlen w' = n /\
                  run off n mem ops = (splice mem off n w', outs).
Proof.
  intros mem off n ops Ho Hn H.
  destruct (decompose mem off n Ho ltac:(lia) H) as [Hd [HA HW]].
  remember (zfirstn off mem) as A eqn:EA. remember (window mem off n) as W eqn:EW.
  remember (zskipn (off + n) mem) as C eqn:EC. clear EA EW EC.
  subst mem off n.
  destruct (run_refines ops A W C ltac:(lia)) as [w' [outs [Hs [Hl Hr]]]].
  exists w', outs. split; [exact Hs|]. split; [exact Hl|].
  rewrite Hr, splice_of_parts. reflexivity.
Qed.

(* frame: nothing outside the window changes, the size of the memory is preserved, and the window of
   the new memory is what the bytearray history produced *)
Theorem buffer_frame : forall mem off n ops mem' outs,
  0 <= off -> 0 <= n <= SSIZE_MAX -> off + n <= zlen mem ->
  run off n mem ops = (mem', outs) ->
  zfirstn off mem' = zfirstn off mem /\ zskipn (off + n) mem' = zskipn (off + n) mem /\
  zlen mem' = zlen mem /\
  spec_run (window mem off n) ops = (window mem' off n, outs).
Proof.
  intros mem off n ops mem' outs Ho Hn H Hrun.
  destruct (buffer_history mem off n ops Ho Hn H) as [w' [outs' [Hs [Hl Hr]]]].
  rewrite Hr in Hrun. inversion Hrun; subst mem' outs'; clear Hrun.
  destruct (decompose mem off n Ho ltac:(lia) H) as [Hd [HA HW]].
  remember (zfirstn off mem) as A eqn:EA. remember (window mem off n) as W eqn:EW.
  remember (zskipn (off + n) mem) as C eqn:EC.
  assert (splice mem off n w' = A ++ w' ++ C) as Hsp.
  { rewrite Hd. rewrite <- HA at 1. rewrite <- HW at 1. apply splice_of_parts. }
  rewrite Hsp.
  assert (zfirstn off (A ++ w' ++ C) = A) as H1.
  { rewrite <- HA at 1. apply zfirstn_parts. }
  assert (zskipn (off + n) (A ++ w' ++ C) = C) as H2.
  { rewrite <- HA at 1. rewrite <- Hl at 1. apply zskipn_parts. }
  assert (window (A ++ w' ++ C) off n = w') as H3.
  { rewrite <- HA, <- Hl. apply window_of_parts. }
  rewrite H1, H2, H3. repeat split; auto.
  rewrite Hd. rewrite !zlen_app. lia.
Qed.

(* ---------------------------------------------------------------- from_buffer *)
Theorem from_buffer_open_array : forall isz buflen, 0 < isz -> 0 <= buflen ->
  from_buffer_length (FOpenArray isz) false true buflen = Ok (buflen / isz).
Proof.
  intros isz buflen Hs Hb. unfold from_buffer_length. cbn [negb].
  destruct (Z.eqb_spec isz 1) as [->|H1]; [rewrite Z.div_1_r; reflexivity|].
  destruct (Z.ltb_spec 0 isz); [|lia]. rewrite Z.quot_div_nonneg by lia. reflexivity.
Qed.

Theorem from_buffer_fixed_array : forall len isz buflen,
  from_buffer_length (FFixedArray len isz) false true buflen =
  if buflen <? len * isz then Err ValueError else Ok len.
Proof. reflexivity. Qed.

(* the regenerated fast-path test is taken only for items of size 1 (decided over every item type) *)
Definition fast_only_size1 (c : cond) : bool :=
  forallb (fun it => implb (cond_holds c it) (it_size it =? 1)) all_items.

Lemma gen_fast_only_size1 : fast_only_size1 gen_from_buffer_fast = true.
Proof. vm_compute. reflexivity. Qed.

(* hence the code computes len // size for every item type, whatever test passes the check *)
Theorem from_buffer_code_is_len_div_size : forall c it buflen,
  fast_only_size1 c = true -> In it all_items -> 0 <= buflen ->
  from_buffer_open_code c it buflen =
  if 0 <? it_size it then Ok (buflen / it_size it) else Err ZeroDivisionError.
Proof.
  intros c it buflen Hc Hin Hb. unfold fast_only_size1 in Hc. rewrite forallb_forall in Hc.
  specialize (Hc it Hin). unfold from_buffer_open_code.
  destruct (cond_holds c it); cbn [implb] in Hc.
  - apply Z.eqb_eq in Hc. rewrite Hc. cbn. rewrite Z.div_1_r. reflexivity.
  - destruct (Z.ltb_spec 0 (it_size it)); [|reflexivity]. rewrite Z.quot_div_nonneg by lia. reflexivity.
Qed.

Theorem from_buffer_code_matches_model : forall it buflen, In it all_items -> 0 < it_size it -> 0 <= buflen ->
  from_buffer_open_code gen_from_buffer_fast it buflen
  = from_buffer_length (FOpenArray (it_size it)) false true buflen.
Proof.
  intros it buflen Hin Hs Hb.
  rewrite (from_buffer_code_is_len_div_size _ _ _ gen_fast_only_size1 Hin Hb).
  destruct (Z.ltb_spec 0 (it_size it)); [|lia].
  unfold from_buffer_length. cbn [negb].
  destruct (Z.eqb_spec (it_size it) 1) as [->|H1]; [rewrite Z.div_1_r; reflexivity|].
  destruct (Z.ltb_spec 0 (it_size it)); [|lia]. rewrite Z.quot_div_nonneg by lia. reflexivity.
Qed.

(* a test on the character flag instead of the size would be wrong for wchar_t / char16_t / char32_t *)
Theorem char_flag_fast_path_refuted : fast_only_size1 (CAtom (AFlag F_CHAR)) = false /\
  from_buffer_open_code (CAtom (AFlag F_CHAR)) (mk_item 4 [F_CHAR]) 16 = Ok 16.
Proof. split; vm_compute; reflexivity. Qed.

(* ---------------------------------------------------------------- _fetch_as_buffer: length of cdata sources *)
(* what a cdata source can be: item size known, and for an array the ctype records either its total size
   (fixed T[n]) or -1 (open T[]: slices p[a:b], ffi.new('T[]', n), from_buffer('T[]', obj)) *)
Definition wf_sd (sd : srcdesc) : Prop :=
  0 <= sd_isz sd /\ 0 <= sd_length sd /\
  (sd_is_array sd = true -> sd_ct_size sd = sd_length sd * sd_isz sd \/ sd_ct_size sd = -1).

(* the branch of a length expression selected for an array / a pointer source (item size known) *)
Fixpoint scond_static (c : scond) (is_array : bool) : bool :=
  match c with
  | SIsArray => is_array
  | SItemSizeKnown => true
  | SAnd a b => scond_static a is_array && scond_static b is_array
  end.
Fixpoint resolve (e : lenexpr) (is_array : bool) : lenexpr :=
  match e with
  | LIf c a b => if scond_static c is_array then resolve a is_array else resolve b is_array
  | leaf => leaf
  end.
(* decidable check of the regenerated expression: arrays get get_array_length * itemsize, pointers -1 *)
Definition lenexpr_ok (e : lenexpr) : bool :=
  match resolve e true, resolve e false with
  | LLenTimesItem, LUnknown => true
  | _, _ => false
  end.

Lemma scond_static_ok : forall c sd, 0 <= sd_isz sd ->
  scond_holds c sd = scond_static c (sd_is_array sd).
Proof.
  induction c as [| |a IHa b IHb]; intros sd H; cbn.
  - reflexivity.
  - apply Z.leb_le. exact H.
  - rewrite IHa, IHb by assumption. reflexivity.
Qed.

Lemma resolve_ok : forall e sd, 0 <= sd_isz sd ->
  src_len e sd = src_len (resolve e (sd_is_array sd)) sd.
Proof.
  induction e as [| | |c a IHa b IHb]; intros sd H; cbn [src_len resolve]; try reflexivity.
  rewrite scond_static_ok by assumption.
  destruct (scond_static c (sd_is_array sd)); auto.
Qed.

Lemma gen_fetch_len_ok : lenexpr_ok gen_fetch_len = true.
Proof. vm_compute. reflexivity. Qed.

(* the length handed to mb_ass_slice / memmove for an ARRAY cdata is its real byte length, whether the
   array type is fixed or open; for a POINTER it is -1 (unknown) *)
Theorem fetch_len_is_real_length : forall e sd, lenexpr_ok e = true -> wf_sd sd ->
  src_len e sd = if sd_is_array sd then sd_length sd * sd_isz sd else -1.
Proof.
  intros e sd Hok [Hs [Hl Hc]]. rewrite resolve_ok by assumption. unfold lenexpr_ok in Hok.
  destruct (sd_is_array sd).
  - destruct (resolve e true); try discriminate. reflexivity.
  - destruct (resolve e true); try discriminate. destruct (resolve e false); try discriminate. reflexivity.
Qed.

(* hence an array cdata source is an ordinary buffer of its real contents, a pointer a trusted one *)
Theorem cdata_source_spec : forall e sd bs, lenexpr_ok e = true -> wf_sd sd ->
  (sd_is_array sd = true -> zlen bs = sd_length sd * sd_isz sd) ->
  cdata_source e sd bs = Some (if sd_is_array sd then VBuf bs else VPtrSrc bs).
Proof.
  intros e sd bs Hok Hwf Hb. unfold cdata_source. rewrite (fetch_len_is_real_length e sd Hok Hwf).
  pose proof Hwf as [Hs [Hl _]].
  destruct (sd_is_array sd).
  - rewrite <- (Hb eq_refl). pose proof (zlen_nonneg bs).
    destruct (Z.ltb_spec (zlen bs) 0); [lia|]. rewrite Z.eqb_refl. reflexivity.
  - reflexivity.
Qed.

(* taking the size recorded in the array TYPE instead is wrong for every open array *)
Theorem ct_size_length_refuted :
  lenexpr_ok (LIf SIsArray LCtSize LUnknown) = false /\
  src_len (LIf SIsArray LCtSize LUnknown) (mk_sd true (-1) 6 1) = -1.
Proof. split; vm_compute; reflexivity. Qed.

(* ---------------------------------------------------------------- memmove *)
Theorem memmove_is_copy_through_temporary : forall mem dest src n,
  0 <= dest -> 0 <= src -> 0 <= n -> src + n <= zlen mem -> dest + n <= zlen mem ->
  memmove mem dest src n = Ok (py_memmove mem dest src n) /\
  zlen (py_memmove mem dest src n) = zlen mem /\
  window (py_memmove mem dest src n) dest n = window mem src n /\
  zfirstn dest (py_memmove mem dest src n) = zfirstn dest mem /\
  zskipn (dest + n) (py_memmove mem dest src n) = zskipn (dest + n) mem.
Proof.
  intros mem dest src n Hd Hs Hn H1 H2.
  assert (zlen (zfirstn n (zskipn src mem)) = n) as Hl.
  { unfold zfirstn, zskipn, zlen in *. rewrite firstn_length, skipn_length. lia. }
  assert (memmove mem dest src n = Ok (py_memmove mem dest src n)) as Hm.
  { unfold memmove, py_memmove. destruct (Z.ltb_spec n 0); [lia|]. f_equal.
    unfold write, read, zfirstn, zskipn. do 2 f_equal.
    f_equal. unfold zfirstn, zskipn, zlen in Hl. rewrite Z2Nat.inj_add by lia.
    f_equal. lia. }
  split; [exact Hm|].
  destruct (decompose mem dest n Hd Hn H2) as [Hdec [HA HW]].
  assert (py_memmove mem dest src n
          = zfirstn dest mem ++ window mem src n ++ zskipn (dest + n) mem) as Hp by reflexivity.
  rewrite Hp. fold (window mem src n) in Hl.
  remember (zfirstn dest mem) as A eqn:EA. remember (window mem src n) as T eqn:ET.
  remember (zskipn (dest + n) mem) as C eqn:EC. remember (window mem dest n) as W eqn:EW.
  split; [rewrite Hdec; rewrite !zlen_app; lia|].
  split.
  { replace (window (A ++ T ++ C) dest n) with (window (A ++ T ++ C) (zlen A) (zlen T))
      by (rewrite HA, Hl; reflexivity). apply window_of_parts. }
  split.
  - replace (zfirstn dest (A ++ T ++ C)) with (zfirstn (zlen A) (A ++ T ++ C)) by (rewrite HA; reflexivity).
    apply zfirstn_parts.
  - replace (zskipn (dest + n) (A ++ T ++ C)) with (zskipn (zlen A + zlen T) (A ++ T ++ C))
      by (rewrite HA, Hl; reflexivity).
    apply zskipn_parts.
Qed.

(* a naive forward byte copy is not a memmove when the destination overlaps the source from above *)
Theorem forward_copy_refuted : exists mem dest src n,
  Ok (forward_copy mem dest src (Z.to_nat n)) <> memmove mem dest src n.
Proof. exists [1; 2; 3; 4; 5], 1, 0, 3. vm_compute. discriminate. Qed.

(* ---------------------------------------------------------------- ffi.buffer size *)
Theorem buffer_size_explicit : forall k isz vs n, k <> CNeither -> 0 <= n ->
  buffer_size k isz vs (Some n) = Ok n.
Proof.
  intros k isz vs n Hk Hn. unfold buffer_size.
  assert ((n <? 0) = false) as E by (apply Z.ltb_ge; lia).
  destruct k; [| |contradiction]; cbn zeta; rewrite !E; cbn iota; rewrite ?E; reflexivity.
Qed.

Theorem buffer_size_default_array : forall len isz, 0 <= len -> 0 <= isz ->
  buffer_size (CArray len) isz (-1) None = Ok (len * isz).
Proof.
  intros len isz Hl Hs. unfold buffer_size. cbn. destruct (Z.ltb_spec (len * isz) 0); [nia|reflexivity].
Qed.
