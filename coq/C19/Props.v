(* C19 — Buffers, from_buffer and memmove match a byte-array model.
   Statements only; proofs in C19/Proofs.v.  Spec.v (bytearray semantics with firstn/skipn) is written
   independently of Model.v (minibuffer.h + CPython's slice protocol). *)
From Coq Require Import ZArith List Bool.
Import ListNotations.
From Cffi Require Import C19.Types C19.Gen C19.Model C19.Spec C19.MbSem C19.Proofs C19.ProofsMb.
Open Scope Z_scope.

(* Scope of the specification (recorded reading, DESIGN.md Appendix B): C19/Spec.v is the semantics of
   a Python bytearray of length n MINUS extended slices and MINUS length-changing assignments: a
   step other than 1/None is refused with TypeError (step 0 with ValueError, as bytearray does), a
   slice assignment of a different length with ValueError, `del` with TypeError; items are read as
   length-1 bytes and assigned from length-1 bytes objects; right-hand sides must be bytes-like.  A
   refusal changes no byte.  That Spec.v agrees with CPython's bytearray on everything else is
   checked on every run: tools/props/c19.py evaluates spec_run and a real bytearray on the same
   histories (correspondence "C19.Spec.spec_run vs CPython bytearray").

   History theorem.  A buffer over the n bytes at offset off of any memory, any sequence of
   operations (reads by index or slice, item and slice assignments from any Python value, deletions,
   len; any Python ints/None as bounds and steps): the outcomes (values, exception classes) are those
   of the same history on a Python bytearray holding the window, and the memory afterwards is the old
   memory with the window replaced by that bytearray's content. *)
Theorem C19_buffer_history : forall mem off n ops,
  0 <= off -> 0 <= n <= SSIZE_MAX -> off + n <= zlen mem ->
  exists w' outs, spec_run (window mem off n) ops = (w', outs) /\ zlen w' = n /\
                  run off n mem ops = (splice mem off n w', outs).
Proof. exact buffer_history. Qed.
Print Assumptions C19_buffer_history.

(* ... in particular nothing outside the window ever changes and no operation changes a length *)
Theorem C19_buffer_frame : forall mem off n ops mem' outs,
  0 <= off -> 0 <= n <= SSIZE_MAX -> off + n <= zlen mem ->
  run off n mem ops = (mem', outs) ->
  zfirstn off mem' = zfirstn off mem /\ zskipn (off + n) mem' = zskipn (off + n) mem /\
  zlen mem' = zlen mem /\
  spec_run (window mem off n) ops = (window mem' off n, outs).
Proof. exact buffer_frame. Qed.
Print Assumptions C19_buffer_frame.

(* The four sequence slots of the buffer object as they are in the source.  The bodies of mb_item,
   mb_slice, mb_ass_item and mb_ass_slice (src/c/minibuffer.h) are translated statement by statement
   into C19/Gen.v on every run (gen_mb_item, ..., language C19/Types.v, interpreter C19/MbSem.v: exec);
   each computes, for ALL memories, windows, indices / bounds (any Z: negative, beyond the size,
   left > right) and right-hand sides, exactly the function of C19/Model.v used by the history
   theorem above: the index test, the three clamps, the length test (skipped when src_view.len < 0),
   the exception classes, the address and count of the copy. *)
Theorem C19_gen_mb_item : forall mem off n idx,
  exec_item gen_mb_item mem off n idx = mb_item mem off n idx.
Proof. exact gen_mb_item_is_model. Qed.
Print Assumptions C19_gen_mb_item.

Theorem C19_gen_mb_slice : forall mem off n left right,
  exec_slice gen_mb_slice mem off n left right = Ok (mb_slice mem off n left right).
Proof. exact gen_mb_slice_is_model. Qed.
Print Assumptions C19_gen_mb_slice.

Theorem C19_gen_mb_ass_item : forall mem off n idx other,
  exec_ass_item gen_mb_ass_item mem off n idx other = mb_ass_item mem off n idx other.
Proof. exact gen_mb_ass_item_is_model. Qed.
Print Assumptions C19_gen_mb_ass_item.

Theorem C19_gen_mb_ass_slice : forall mem off n left right other,
  exec_ass_slice gen_mb_ass_slice mem off n left right other = mb_ass_slice mem off n left right other.
Proof. exact gen_mb_ass_slice_is_model. Qed.
Print Assumptions C19_gen_mb_ass_slice.

(* ... so the buffer object built from the REGENERATED bodies (run_g gen_progs: mb_subscript /
   mb_ass_subscript glue + CPython's slice protocol, calling the four translated bodies) refines the
   bytearray specification for every history: a source edit to a bound, a clamp, the length test, an
   exception class or the copy's address/count breaks this proof. *)
Theorem C19_gen_buffer_history : forall mem off n ops,
  0 <= off -> 0 <= n <= SSIZE_MAX -> off + n <= zlen mem ->
  exists w' outs, spec_run (window mem off n) ops = (w', outs) /\ zlen w' = n /\
                  run_g gen_progs off n mem ops = (splice mem off n w', outs).
Proof. exact gen_buffer_history. Qed.
Print Assumptions C19_gen_buffer_history.

(* Right-hand sides that ALIAS the destination memory (another ffi.buffer / memoryview / cdata over the
   same allocation, `ffi.buffer(p, 8)[0:4] = ffi.buffer(p + 1, 4)`): in the theorems above a source is
   a value, i.e. its bytes are read before any byte is written (what Python's `w[a:b] = bytes(w[c:d])`
   means).  The copy primitive of mb_ass_slice is regenerated (copy_of gen_mb_ass_slice); it is memmove
   since 2519df6 (finding ass_slice_memcpy_overlap, fixed), so for EVERY pair of ranges inside the
   memory, overlapping or not, the destination receives the OLD source bytes and nothing else changes
   (py_memmove, Spec.v; frame and length: C19_memmove).  If the source goes back to memcpy the first
   two theorems no longer compile; memcpy is defined for disjoint ranges only (C11 7.24.2.1: undefined
   otherwise, modelled as OutOfModel = no claim): C19_alias_copy_defined.  The harness runs the
   overlapping stream on the real code natively and under AddressSanitizer. *)
Theorem C19_gen_ass_slice_copy_is_memmove : copy_of gen_mb_ass_slice = Some Memmove.
Proof. exact gen_ass_slice_copy_is_memmove. Qed.
Print Assumptions C19_gen_ass_slice_copy_is_memmove.

Theorem C19_gen_alias_copy_total : forall mem dest src n,
  0 <= dest -> 0 <= src -> 0 <= n -> src + n <= zlen mem -> dest + n <= zlen mem ->
  gen_copy_alias mem dest src n = Ok (py_memmove mem dest src n).
Proof. exact gen_alias_copy_total. Qed.
Print Assumptions C19_gen_alias_copy_total.

Theorem C19_alias_copy_defined : forall f mem dest src n,
  0 <= dest -> 0 <= src -> 0 <= n -> src + n <= zlen mem -> dest + n <= zlen mem ->
  f = Memmove \/ disjoint dest src n = true ->
  copy_alias f mem dest src n = Ok (py_memmove mem dest src n).
Proof. exact alias_copy_defined. Qed.
Print Assumptions C19_alias_copy_defined.

Theorem C19_gen_ass_slice_has_copy : exists f, copy_of gen_mb_ass_slice = Some f.
Proof. exact gen_ass_slice_has_copy. Qed.
Print Assumptions C19_gen_ass_slice_has_copy.

Example C19_alias_memcpy_overlap_undefined :
  copy_alias Memcpy [1; 2; 3; 4; 5] 0 1 3 = Err OutOfModel /\
  copy_alias Memmove [1; 2; 3; 4; 5] 0 1 3 = Ok [2; 3; 4; 4; 5].
Proof. exact copy_alias_memcpy_overlap_undefined. Qed.

(* CPython's PySlice_Unpack + PySlice_AdjustIndices compute slice.indices() for step 1 / None, for
   arbitrary Python ints (also beyond Py_ssize_t) *)
Theorem C19_slice_bounds : forall n a b s, 0 <= n <= SSIZE_MAX -> step_ok s = Ok tt ->
  exists a' b', slice_unpack a b s = Ok (a', b', 1) /\
    adjust n a' b' 1 = (py_bound n a 0, py_bound n b n).
Proof. exact unpack_adjust_step1. Qed.
Print Assumptions C19_slice_bounds.

(* ffi.from_buffer("T[]", obj): len(obj) // sizeof(T) items; "T[k]": ValueError when too small.
   The two boolean arguments of from_buffer_length are is_unicode (obj is a str: refused) and
   has_buffer (obj exports a contiguous buffer); the theorems fix them to false / true = a bytes-like
   object.  That the resulting cdata ALIASES obj's memory (same address, writes visible both ways)
   is not a statement about this model; it is checked on the real objects by the harness only. *)
Theorem C19_from_buffer_open_array : forall isz buflen, 0 < isz -> 0 <= buflen ->
  from_buffer_length (FOpenArray isz) false true buflen = Ok (buflen / isz).
Proof. exact from_buffer_open_array. Qed.
Print Assumptions C19_from_buffer_open_array.

(* The open-array branch as it is in the source: its fast-path test is regenerated from
   direct_from_buffer into C19/Gen.v on every run.  Obligation: over every item type the backend can
   build (all primitive kinds incl. wchar_t/char16_t/char32_t, _Bool, enums, floats, long double,
   complex, pointers; structs/unions/arrays of sizes 0..64) the fast path is taken only when the item
   size is 1 — so the code gives len(obj) // sizeof(T) items for every item type (ZeroDivisionError for
   size 0) and agrees with the size-only model above. *)
Theorem C19_from_buffer_fast_path_only_size1 : fast_only_size1 gen_from_buffer_fast = true.
Proof. exact gen_fast_only_size1. Qed.
Print Assumptions C19_from_buffer_fast_path_only_size1.

Theorem C19_from_buffer_code_is_len_div_size : forall c it buflen,
  fast_only_size1 c = true -> In it all_items -> 0 <= buflen ->
  from_buffer_open_code c it buflen =
  if 0 <? it_size it then Ok (buflen / it_size it) else Err ZeroDivisionError.
Proof. exact from_buffer_code_is_len_div_size. Qed.
Print Assumptions C19_from_buffer_code_is_len_div_size.

Theorem C19_from_buffer_code_matches_model : forall it buflen,
  In it all_items -> 0 < it_size it -> 0 <= buflen ->
  from_buffer_open_code gen_from_buffer_fast it buflen
  = from_buffer_length (FOpenArray (it_size it)) false true buflen.
Proof. exact from_buffer_code_matches_model. Qed.
Print Assumptions C19_from_buffer_code_matches_model.

(* testing the character flag instead would give char32_t[] four times too many items *)
Theorem C19_char_flag_fast_path_refuted : fast_only_size1 (CAtom (AFlag F_CHAR)) = false /\
  from_buffer_open_code (CAtom (AFlag F_CHAR)) (mk_item 4 [F_CHAR]) 16 = Ok 16.
Proof. exact char_flag_fast_path_refuted. Qed.
Print Assumptions C19_char_flag_fast_path_refuted.

Theorem C19_from_buffer_fixed_array : forall len isz buflen,
  from_buffer_length (FFixedArray len isz) false true buflen =
  if buflen <? len * isz then Err ValueError else Ok len.
Proof. exact from_buffer_fixed_array. Qed.
Print Assumptions C19_from_buffer_fixed_array.

(* cdata on the right-hand side of a buffer slice assignment (and as memmove operand) goes through
   _fetch_as_buffer, whose computation of view->len is regenerated from the source into C19/Gen.v.
   Obligation (decidable check lenexpr_ok, proved sound for every source): an ARRAY cdata is presented
   with its real byte length get_array_length * itemsize whether its type is a fixed T[n] or an open
   T[] (cdata slices, ffi.new('T[]', n), ffi.from_buffer('T[]', obj)); a POINTER with -1 = unknown. *)
Theorem C19_fetch_len_generated_ok : lenexpr_ok gen_fetch_len = true.
Proof. exact gen_fetch_len_ok. Qed.
Print Assumptions C19_fetch_len_generated_ok.

Theorem C19_fetch_len_is_real_length : forall e sd, lenexpr_ok e = true -> wf_sd sd ->
  src_len e sd = if sd_is_array sd then sd_length sd * sd_isz sd else -1.
Proof. exact fetch_len_is_real_length. Qed.
Print Assumptions C19_fetch_len_is_real_length.

(* so in the history theorem an array cdata source is the buffer VBuf of its real contents (length
   checked against the slice) and a pointer source is VPtrSrc (slice length trusted) *)
Theorem C19_cdata_source : forall e sd bs, lenexpr_ok e = true -> wf_sd sd ->
  (sd_is_array sd = true -> zlen bs = sd_length sd * sd_isz sd) ->
  cdata_source e sd bs = Some (if sd_is_array sd then VBuf bs else VPtrSrc bs).
Proof. exact cdata_source_spec. Qed.
Print Assumptions C19_cdata_source.

Theorem C19_ct_size_length_refuted :
  lenexpr_ok (LIf SIsArray LCtSize LUnknown) = false /\
  src_len (LIf SIsArray LCtSize LUnknown) (mk_sd true (-1) 6 1) = -1.
Proof. exact ct_size_length_refuted. Qed.
Print Assumptions C19_ct_size_length_refuted.

(* ffi.memmove(dst, src, n): dest and src are offsets into ONE flat memory (operands in different
   objects are the non-overlapping special case); which kinds of operands (cdata pointers, array
   views, memoryviews, bytes) reach the same memmove call is covered by the harness.  Any overlap: the n destination bytes become the OLD n
   source bytes, everything else is unchanged *)
Theorem C19_memmove : forall mem dest src n,
  0 <= dest -> 0 <= src -> 0 <= n -> src + n <= zlen mem -> dest + n <= zlen mem ->
  memmove mem dest src n = Ok (py_memmove mem dest src n) /\
  zlen (py_memmove mem dest src n) = zlen mem /\
  window (py_memmove mem dest src n) dest n = window mem src n /\
  zfirstn dest (py_memmove mem dest src n) = zfirstn dest mem /\
  zskipn (dest + n) (py_memmove mem dest src n) = zskipn (dest + n) mem.
Proof. exact memmove_is_copy_through_temporary. Qed.
Print Assumptions C19_memmove.

(* a forward byte-by-byte copy would not do *)
Theorem C19_forward_copy_refuted : exists mem dest src n,
  Ok (forward_copy mem dest src (Z.to_nat n)) <> memmove mem dest src n.
Proof. exact forward_copy_refuted. Qed.
Print Assumptions C19_forward_copy_refuted.

(* ffi.buffer(p, n): the window has exactly n bytes; ffi.buffer(array): len * itemsize *)
Theorem C19_buffer_size_explicit : forall k isz vs n, k <> CNeither -> 0 <= n ->
  buffer_size k isz vs (Some n) = Ok n.
Proof. exact buffer_size_explicit. Qed.
Print Assumptions C19_buffer_size_explicit.

Theorem C19_buffer_size_default_array : forall len isz, 0 <= len -> 0 <= isz ->
  buffer_size (CArray len) isz (-1) None = Ok (len * isz).
Proof. exact buffer_size_default_array. Qed.
Print Assumptions C19_buffer_size_default_array.

(* non-vacuity: a 4-byte window at offset 2 of a 8-byte memory *)
Example C19_example :
  let mem := [10; 11; 12; 13; 14; 15; 16; 17] in
  run 2 4 mem [OGet (KInt (-1)); OGet (KSlice (Some (-3)) None None); OSet (KSlice (Some 1) (Some 3) None) (Some (VBuf [1; 2]));
               OSet (KSlice (Some 1) (Some 3) None) (Some (VBytes [1])); OGet (KSlice None None (Some 2));
               OSet (KInt 4) (Some (VBytes [9])); OSet (KInt (-4)) (Some (VBytes [9])); OGet (KSlice (Some 3) (Some 1) None);
               OSet (KSlice (Some 3) (Some 1) None) (Some (VBytes [])); OGet (KSlice None None (Some 0))]
  = ([10; 11; 9; 1; 2; 15; 16; 17],
     [RBytes [15]; RBytes [13; 14; 15]; RDone; RErr ValueError; RErr TypeError; RErr IndexError; RDone; RBytes [];
      RDone; RErr ValueError]).
Proof. vm_compute. reflexivity. Qed.
