(* C14 — syntax of the statement tree into which tools/props/c14_regen.py translates the body of
   general_invoke_callback() (src/c/_cffi_backend.c) on every run (C14/Gen.v: gic_prog).  Only syntax here: the
   meaning of every constructor is given by exec_gic in C14/Model.v.  Each constructor stands for ONE exact C
   statement / condition text (whitespace-normalised); a statement or condition of the function that is not in
   the translator's table makes the translation fail (closed). *)
From Coq Require Import List.
Import ListNotations.

Inductive glabel := LDone | LError.

Inductive gcond :=
| CAllocFailed     (* py_args == NULL                                   (PyTuple_New failed: outside the model, false) *)
| CDecode          (* decode_args_from_libffi *)
| CArgDeref        (* a_ct->ct_flags & (CT_IS_LONGDOUBLE | CT_STRUCT | CT_UNION) *)
| CArgNull         (* a == NULL                                         (convert_to_object of an argument failed) *)
| CBodyNull        (* py_res == NULL *)
| CConvBody        (* convert_from_object_fficallback(result, SIGNATURE(1), py_res, decode_args_from_libffi) < 0 *)
| CSizePos         (* SIGNATURE(1)->ct_size > 0 *)
| COnerrNone       (* onerror_cb == Py_None *)
| CRes1NotNull     (* res1 != NULL *)
| CRes1NotNone     (* res1 != Py_None *)
| CConvRes1        (* convert_from_object_fficallback(result, SIGNATURE(1), res1, decode_args_from_libffi) < 0 *)
| CNoErr           (* !PyErr_Occurred() *)
| CAnd (a b : gcond).   (* a && b, short-circuit *)

Inductive gstmt :=
| SSkip
| SNop             (* no effect on (result area, pending exception, reports): declarations, reference counting, loads of
                      borrowed tuple items, a_src arithmetic, PyTuple_SET_ITEM, extra_error_line = "...",
                      _cffi_start/stop_error_capture, PyErr_NormalizeException *)
| SConvertArg      (* a = convert_to_object(a_src, a_ct); *)
| SCallBody        (* py_res = PyObject_Call(py_ob, py_args, NULL); *)
| SMemcpyErr       (* memcpy(result, PyBytes_AS_STRING(py_rawerr), PyBytes_GET_SIZE(py_rawerr)); *)
| SFetch           (* PyErr_Fetch(&x, &y, &z); *)
| SWriteUnraisable (* _my_PyErr_WriteUnraisable(...); *)
| SCallOnerror     (* res1 = PyObject_CallFunctionObjArgs(onerror_cb, exc1 ? exc1 : Py_None, ..., NULL); *)
| SGoto (l : glabel)
| SReturn
| SFor (body : gstmt)          (* for (i=0; i<n; i++) body *)
| SIf (c : gcond) (t e : gstmt)
| SSeq (a b : gstmt).

(* the function body = blocks in source order; a block starts at a label (the first one at the function's start) *)
Definition gprog := list (option glabel * gstmt).
