(* C14 — vocabulary shared by the regenerated code (Gen.v) and the hand model (Model.v):
   the part of cffi/model.py's type objects that recompiler._extern_python_decl looks at. *)
From Coq Require Import ZArith NArith List Bool.
Import ListNotations.
Open Scope Z_scope.

Definition pname := list N.      (* a C type name as code points, e.g. 'long double' *)

Inductive xtype :=
| XVoid                                  (* model.VoidType *)
| XPrim (name : pname) (size : Z)        (* model.PrimitiveType: tp.name, and sizeof on the platform *)
| XStruct (size : Z)                     (* model.StructType (complete): sizeof *)
| XUnion (size : Z)                      (* model.UnionType (complete): sizeof;  both are model.StructOrUnion *)
| XPointer                               (* model.PointerType / FunctionPtrType / NamedPointerType: sizeof = 8 *)
| XEnum (size : Z).                      (* model.EnumType *)

Definition isinstance_PrimitiveType (t : xtype) : bool := match t with XPrim _ _ => true | _ => false end.
Definition isinstance_StructOrUnion (t : xtype) : bool := match t with XStruct _ | XUnion _ => true | _ => false end.
Definition isinstance_StructType (t : xtype) : bool := match t with XStruct _ => true | _ => false end.
Definition isinstance_UnionType (t : xtype) : bool := match t with XUnion _ => true | _ => false end.
Definition isinstance_VoidType (t : xtype) : bool := match t with XVoid => true | _ => false end.

Fixpoint name_eqb (a b : pname) : bool :=
  match a, b with
  | [], [] => true
  | x :: a', y :: b' => N.eqb x y && name_eqb a' b'
  | _, _ => false
  end.

(* tp.name == 'literal'  (only evaluated on PrimitiveType objects in the source, guarded by isinstance) *)
Definition tp_name_is (t : xtype) (lit : pname) : bool :=
  match t with XPrim n _ => name_eqb n lit | _ => false end.

(* sizeof(T) as the C compiler evaluates it in the generated code *)
Definition sizeof (t : xtype) : Z :=
  match t with
  | XVoid => 0
  | XPrim _ s => s
  | XStruct s => s
  | XUnion s => s
  | XPointer => 8
  | XEnum s => s
  end.

Definition LONG_DOUBLE : pname := [108;111;110;103;32;100;111;117;98;108;101]%N.                       (* 'long double' *)
Definition DOUBLE_COMPLEX : pname :=
  [95;99;102;102;105;95;100;111;117;98;108;101;95;99;111;109;112;108;101;120;95;116]%N.                 (* '_cffi_double_complex_t' *)

Lemma name_eqb_eq : forall a b, name_eqb a b = true <-> a = b.
Proof.
  induction a as [| x a IH]; destruct b as [| y b]; cbn; split; intro H; try reflexivity; try discriminate.
  - apply andb_prop in H. destruct H as [H1 H2]. apply N.eqb_eq in H1. apply IH in H2. subst. reflexivity.
  - inversion H; subst. rewrite N.eqb_refl. cbn. apply IH. reflexivity.
Qed.
