(* C14 — proofs about the REGENERATED statement tree of general_invoke_callback (C14/Gen.v: gic_prog, executed by
   C14/Model.v: exec_gic): no exception pending at its return, for every input; agreement with the hand state
   machine `invoke`, so that the protocol theorems speak about regenerated code. *)
From Coq Require Import ZArith NArith List Bool Lia ZifyBool.
Import ListNotations.
From Cffi Require Import C14.Spec C14.Gic C14.Gen C14.Model C14.Proofs.
Open Scope Z_scope.

Ltac gic_simpl :=
  repeat (progress (cbn -[fficallback_full Nat.ltb overwrite]; unfold eval_conv)).
Ltac gic_norm :=
  repeat (progress (gic_simpl; unfold write, set_exc, fetch, write_unraisable; cbn [buf pending printed])).
Ltac gic_step :=
  gic_norm;
  repeat (match goal with
          | |- context [fficallback_full ?e ?k ?x] => destruct (fficallback_full e k x)
          | |- context [Nat.ltb 0 ?n] => destruct (Nat.ltb 0 n)
          end; gic_norm).

(* PyErr_Occurred() is false when the regenerated general_invoke_callback returns — and it does return — whatever
   the convention, the result type, the error value, the body (returns anything / raises / an argument cannot be
   converted) and onerror do *)
Theorem gen_no_escape : forall encode k eb b oe buf0,
  pending (exec_gic gic_prog encode k eb b oe buf0) = false.
Proof.
  intros encode k eb b oe buf0. unfold exec_gic, gic_prog.
  destruct encode, b as [x | |], oe as [| | y |]; gic_step; reflexivity.
Qed.

(* ---- agreement with the hand state machine *)
Lemma overwrite_nil : forall b, overwrite b [] = b.
Proof. reflexivity. Qed.

Lemma skipn_skipn' : forall (A : Type) c a (l : list A), skipn a (skipn c l) = skipn (c + a) l.
Proof.
  induction c as [| c IH]; intros a l; [reflexivity |].
  destruct l as [| h t]; [cbn; destruct a; reflexivity | cbn; apply IH].
Qed.

Lemma overwrite_shadow : forall b p w, (length p <= length w)%nat -> overwrite (overwrite b p) w = overwrite b w.
Proof.
  intros b p w H. unfold overwrite. f_equal.
  rewrite skipn_app, skipn_all2 by exact H. cbn [app].
  rewrite skipn_skipn'. f_equal. lia.
Qed.

(* the bytes a failed conversion has already written: nothing, or the memset of one ffi_arg *)
Lemma partial_le8 : forall encode k x p, fficallback_full encode k x = FFail p -> (length p <= 8)%nat.
Proof.
  intros encode k x p F.
  assert (L : forall s, (length (if Nat.ltb s FFI_ARG && encode then repeat 0 FFI_ARG else []) <= 8)%nat).
  { intro s. destruct (Nat.ltb s FFI_ARG && encode); [rewrite repeat_length; unfold FFI_ARG; lia | cbn; lia]. }
  destruct k as [| s | s | s]; destruct x as [| z | bs |]; unfold fficallback_full in F;
    repeat match type of F with
           | context [if ?c then _ else _] => destruct c
           end;
    try discriminate; inversion F; subst; try apply L; cbn; lia.
Qed.

(* a result type of size 0 is void (the only ctype with ct_size = 0 a callback can return), where nothing is
   written by a failed conversion *)
Definition wf_rkind (k : rkind) : Prop := rsize k = 0%nat -> k = RVoid.

Lemma partial_void : forall encode x p, fficallback_full encode RVoid x = FFail p -> p = [].
Proof. intros encode x p F. destruct x; cbn in F; congruence. Qed.

(* running the regenerated general_invoke_callback = the hand state machine, whenever the error value has the
   length prepare_callback_info_tuple gives it (at least one ffi_arg).  Without the two hypotheses the hand model
   drops the partial write of a failed BODY conversion, which is harmless only because the error-value memcpy
   covers it. *)
Theorem gen_agrees_with_invoke : forall encode k eb b oe buf0,
  wf_rkind k -> (8 <= length eb)%nat ->
  exec_gic gic_prog encode k eb b oe buf0 = invoke encode k eb b oe buf0.
Proof.
  intros encode k eb b oe buf0 WF LEN.
  unfold exec_gic, gic_prog, invoke, fficallback.
  destruct b as [x | |].
  - (* the body returned x *)
    destruct (fficallback_full encode k x) as [w | p] eqn:F.
    + destruct encode, oe; repeat (progress (gic_simpl; rewrite ?F)); reflexivity.
    + assert (P8 : (length p <= length eb)%nat) by (pose proof (partial_le8 _ _ _ _ F); lia).
      assert (PV : Nat.ltb 0 (rsize k) = false -> p = []).
      { intro Q. apply Nat.ltb_ge in Q. assert (k = RVoid) by (apply WF; lia). subst k.
        eapply partial_void; exact F. }
      destruct encode, oe as [| | y |]; repeat (progress (gic_simpl; rewrite ?F));
        (destruct (Nat.ltb 0 (rsize k)) eqn:Q; [| rewrite (PV eq_refl) in * ]);
        gic_norm; rewrite ?overwrite_shadow, ?overwrite_nil by exact P8;
        try reflexivity;
        destruct (fficallback_full _ k y); gic_norm; rewrite ?Q; gic_norm;
        rewrite ?overwrite_shadow, ?overwrite_nil by exact P8; reflexivity.
  - (* the body raised *)
    destruct encode, oe as [| | y |]; gic_step; reflexivity.
  - (* an argument could not be converted *)
    destruct encode, oe as [| | y |]; gic_step; reflexivity.
Qed.

(* hence the theorems about `invoke` hold of the regenerated code *)
Theorem gen_error_value_received : forall encode k error eb b oe buf0,
  rawerr encode k error = Some eb -> (0 < rsize k)%nat ->
  body_value encode k b = None ->
  (oe = ONone \/ oe = OReturnsNone \/ oe = ORaises \/ exists x, oe = OReturns x /\ fficallback encode k x = None) ->
  c_receives k (exec_gic gic_prog encode k eb b oe buf0) = firstn (rsize k) eb.
Proof.
  intros encode k error eb b oe buf0 HE Hs HB Hoe.
  destruct (error_value_received encode k error eb b oe buf0 HE Hs HB Hoe) as [R L].
  rewrite gen_agrees_with_invoke; [exact R | intro Q; lia | rewrite L; unfold FFI_ARG; lia].
Qed.

(* the backend's slot arithmetic is the regenerated one *)
Lemma backend_slot_regenerated : forall i, backend_slot i = i * 8.
Proof. reflexivity. Qed.
