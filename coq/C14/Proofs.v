(* C14 — proofs about the regenerated extern "Python" wrapper arithmetic (Gen.v) against the backend's slot
   protocol (Model.v), the widening of small results, and the error/onerror protocol. *)
From Coq Require Import ZArith NArith List Bool Lia ZifyBool.
Import ListNotations.
From Cffi Require Import C14.Spec C14.Gen C14.Model.
Open Scope Z_scope.

(* ================================================================== 1. generator and backend agree on the protocol *)

Lemma byref_agrees : forall t, arg_by_reference t = backend_deref t.
Proof.
  intros []; try reflexivity.
  unfold arg_by_reference, backend_deref, may_need_128_bits, gic_deref_longdouble, gic_deref_other.
  cbn [isinstance_StructOrUnion isinstance_PrimitiveType tp_name_is orb andb]. rewrite orb_false_r. reflexivity.
Qed.

(* the regenerated flag set of the dereference test, spelled out per type *)
Lemma backend_deref_table : forall t,
  backend_deref t = match t with
                    | XPrim n _ => name_eqb n LONG_DOUBLE
                    | XStruct _ | XUnion _ => true
                    | _ => false
                    end.
Proof.
  intros []; try reflexivity.
  unfold backend_deref, gic_deref_longdouble, gic_deref_other. cbn [andb]. apply orb_false_r.
Qed.

Lemma slot_agrees : forall i, slot_offset i = backend_slot i.
Proof. reflexivity. Qed.

Lemma store_read_agree : forall t, store_bytes t = backend_read_bytes t.
Proof. intro t. unfold store_bytes, backend_read_bytes. rewrite byref_agrees. reflexivity. Qed.

(* ================================================================== 2. buffer safety *)

Lemma size_of_a_num_lower : forall n r, Z.max (n * 8) 8 <= size_of_a_num n r.
Proof.
  intros n r. unfold size_of_a_num.
  destruct (orb _ _); lia.
Qed.

Lemma size_of_a_lower : forall n r, Z.max (n * 8) 8 <= size_of_a n r /\ size_of_a_num n r <= size_of_a n r.
Proof.
  intros n r. unfold size_of_a. pose proof (size_of_a_num_lower n r).
  destruct (isinstance_StructOrUnion r); [destruct (sizeof r >? size_of_a_num n r) eqn:E |]; lia.
Qed.

Lemma tp_name_is_spec : forall n s lit, tp_name_is (XPrim n s) lit = true <-> n = lit.
Proof. intros. cbn. apply name_eqb_eq. Qed.

Lemma store_bytes_le8 : forall t, wf_xtype t -> is_double_complex t = false -> 0 <= store_bytes t <= 8.
Proof.
  intros t W NC. unfold store_bytes. rewrite byref_agrees, backend_deref_table.
  destruct t as [| n s | s | s | | s]; cbn in *; try lia.
  destruct (name_eqb n LONG_DOUBLE) eqn:E1; [lia |].
  destruct W as (W1 & W2 & W3).
  assert (N1 : n <> LONG_DOUBLE) by (intro Q; apply name_eqb_eq in Q; congruence).
  assert (N2 : n <> DOUBLE_COMPLEX) by (intro Q; apply name_eqb_eq in Q; unfold is_double_complex in NC; cbn in NC; congruence).
  specialize (W3 N1 N2). lia.
Qed.

Lemma result_fits : forall n r, 0 <= n -> wf_xtype r ->
  result_write_bytes r <= size_of_a n r /\ size_of_result r <= size_of_a n r.
Proof.
  intros n r Hn W.
  pose proof (size_of_a_lower n r) as [L1 L2].
  unfold result_write_bytes, size_of_result.
  destruct r as [| nm s | s | s | | s]; cbn [isinstance_VoidType sizeof] in *; try lia.
  - (* primitive *)
    destruct W as (W1 & W2 & W3).
    destruct (name_eqb nm LONG_DOUBLE) eqn:E1; [| destruct (name_eqb nm DOUBLE_COMPLEX) eqn:E2].
    + assert (s <= 16) by (apply W2; left; apply name_eqb_eq; exact E1).
      assert (16 <= size_of_a_num n (XPrim nm s)).
      { unfold size_of_a_num, may_need_128_bits. cbn. fold LONG_DOUBLE. rewrite E1. cbn. lia. }
      lia.
    + assert (s <= 16) by (apply W2; right; apply name_eqb_eq; exact E2).
      assert (16 <= size_of_a_num n (XPrim nm s)).
      { unfold size_of_a_num, may_need_128_bits. cbn. fold LONG_DOUBLE. fold DOUBLE_COMPLEX. rewrite E1, E2. cbn. lia. }
      lia.
    + assert (s <= 8).
      { apply W3; intro H; apply name_eqb_eq in H; congruence. }
      lia.
  - (* struct *)
    unfold size_of_a in *. cbn [isinstance_StructOrUnion sizeof] in *.
    destruct (s >? size_of_a_num n (XStruct s)) eqn:E; lia.
  - (* union *)
    unfold size_of_a in *. cbn [isinstance_StructOrUnion sizeof] in *.
    destruct (s >? size_of_a_num n (XUnion s)) eqn:E; lia.
  - (* enum *) cbn in W. lia.
Qed.

Theorem externpy_buffer_safe : forall args res,
  Forall wf_xtype args -> wf_xtype res ->
  Forall (fun a => is_double_complex a = false) args ->
  let A := size_of_a (Z.of_nat (length args)) res in
  (forall i a, nth_error args i = Some a ->
       0 <= slot_offset (Z.of_nat i) /\
       slot_offset (Z.of_nat i) + store_bytes a <= A /\                      (* inside char a[size_of_a] *)
       slot_offset (Z.of_nat i) + store_bytes a <= slot_offset (Z.of_nat (S i))) /\   (* does not reach the next slot *)
  result_write_bytes res <= A /\ size_of_result res <= A.
Proof.
  intros args res Wa Wr NC A. split.
  - intros i a H.
    assert (Hi : (i < length args)%nat) by (apply nth_error_Some; congruence).
    pose proof (nth_error_In _ _ H) as IN.
    rewrite Forall_forall in Wa, NC.
    pose proof (store_bytes_le8 a (Wa a IN) (NC a IN)) as B.
    pose proof (size_of_a_lower (Z.of_nat (length args)) res) as [L1 L2]. fold A in L1.
    unfold slot_offset. repeat split; lia.
  - apply result_fits; [lia | exact Wr].
Qed.

(* the statement without the hypothesis on double _Complex arguments is false *)
Theorem externpy_args_refuted :
  exists args res i a, Forall wf_xtype args /\ wf_xtype res /\ nth_error args i = Some a /\
    size_of_a (Z.of_nat (length args)) res < slot_offset (Z.of_nat i) + store_bytes a.
Proof.
  exists [XPrim DOUBLE_COMPLEX 16], XVoid, 0%nat, (XPrim DOUBLE_COMPLEX 16).
  split; [repeat constructor; cbn; try lia; intros; try congruence; discriminate |].
  split; [exact I |]. split; [reflexivity |]. vm_compute. reflexivity.
Qed.

Theorem externpy_args_overlap_refuted :
  exists args res i a, Forall wf_xtype args /\ wf_xtype res /\ nth_error args i = Some a /\
    slot_offset (Z.of_nat (S i)) < slot_offset (Z.of_nat i) + store_bytes a /\ (S i < length args)%nat.
Proof.
  exists [XPrim DOUBLE_COMPLEX 16; XPointer], XVoid, 0%nat, (XPrim DOUBLE_COMPLEX 16).
  split; [repeat constructor; cbn; try lia; intros; try congruence; discriminate |].
  split; [exact I |]. split; [reflexivity |]. split; [vm_compute; reflexivity | cbn; lia].
Qed.

(* ================================================================== 3. widening of small results *)

Lemma decode_le_bytes : forall n v, 0 <= v -> decode (le_bytes n v) = v mod 2 ^ (8 * Z.of_nat n).
Proof.
  induction n as [| n IH]; intros v Hv.
  - cbn. rewrite Z.mod_1_r. reflexivity.
  - cbn [le_bytes decode]. rewrite IH by (apply Z.div_pos; lia).
    replace (2 ^ (8 * Z.of_nat (S n))) with (256 * 2 ^ (8 * Z.of_nat n)).
    + rewrite Z.rem_mul_r by (try lia; apply Z.pow_nonzero; lia). reflexivity.
    + replace (8 * Z.of_nat (S n)) with (8 + 8 * Z.of_nat n) by lia.
      rewrite Z.pow_add_r by lia. reflexivity.
Qed.

Lemma decode_zeros : forall m, decode (repeat 0 m) = 0.
Proof. induction m as [| m IHm]; [reflexivity |]. cbn [repeat decode]. rewrite IHm. reflexivity. Qed.

Lemma decode_app_zeros : forall l m, decode (l ++ repeat 0 m) = decode l.
Proof.
  induction l as [| b l IH]; intro m.
  - cbn [app]. apply decode_zeros.
  - cbn [app decode]. rewrite IH. reflexivity.
Qed.

Lemma firstn_le_bytes : forall n m v, firstn n (le_bytes (n + m) v) = le_bytes n v.
Proof.
  induction n as [| n IH]; intros m v; cbn; [reflexivity |]. rewrite IH. reflexivity.
Qed.

Lemma le_bytes_length : forall n v, length (le_bytes n v) = n.
Proof. induction n; intro v; cbn; [reflexivity | rewrite IHn; reflexivity]. Qed.

Definition small (s : nat) : Prop := s = 1%nat \/ s = 2%nat \/ s = 4%nat.

(* signed results smaller than an ffi_arg, libffi convention: the whole ffi_arg holds the sign extension of v,
   and its low `s` bytes are v's own representation *)
Theorem widening_signed : forall s v w, small s -> in_range (RSigned s) v = true ->
  fficallback true (RSigned s) (RetInt v) = Some w ->
  length w = 8%nat /\
  decode w = v mod 2 ^ 64 /\                                   (* = (unsigned long)(long)v : sign extension *)
  (if decode w <? 2 ^ 63 then decode w else decode w - 2 ^ 64) = v /\
  decode (firstn s w) = v mod 2 ^ (8 * Z.of_nat s).
Proof.
  intros s v w S R H. unfold fficallback, fficallback_full in H. rewrite R in H.
  assert (L : Nat.ltb s FFI_ARG = true) by (destruct S as [-> | [-> | ->]]; reflexivity).
  rewrite L in H. cbn [andb] in H. cbv iota beta in H.
  assert (Hw : w = le_bytes FFI_ARG (v mod 2 ^ 64)) by congruence. subst w. clear H.
  assert (P : 0 <= v mod 2 ^ 64 < 2 ^ 64) by (apply Z.mod_pos_bound; lia).
  split; [apply le_bytes_length |].
  assert (D : decode (le_bytes FFI_ARG (v mod 2 ^ 64)) = v mod 2 ^ 64).
  { rewrite decode_le_bytes by lia. cbn. apply Z.mod_small. exact P. }
  rewrite D. split; [reflexivity |].
  assert (B : - 2 ^ 31 <= v < 2 ^ 31).
  { destruct S as [-> | [-> | ->]]; cbn in R; lia. }
  split.
  - destruct (Z_lt_le_dec v 0).
    + assert (E : v mod 2 ^ 64 = v + 2 ^ 64) by (symmetry; apply Z.mod_unique with (q := -1); lia).
      rewrite E. destruct (v + 2 ^ 64 <? 2 ^ 63) eqn:C; lia.
    + rewrite Z.mod_small by lia. destruct (v <? 2 ^ 63) eqn:C; lia.
  - replace FFI_ARG with (s + (8 - s))%nat by (destruct S as [-> | [-> | ->]]; reflexivity).
    rewrite firstn_le_bytes, decode_le_bytes by lia.
    destruct S as [-> | [-> | ->]]; cbn;
      rewrite <- Znumtheory.Zmod_div_mod; try lia;
      try (exists (2 ^ 56); reflexivity); try (exists (2 ^ 48); reflexivity); try (exists (2 ^ 32); reflexivity).
Qed.

(* unsigned / _Bool / character results: zero extension *)
Theorem widening_unsigned : forall s v w, small s -> in_range (RZeroExt s) v = true ->
  fficallback true (RZeroExt s) (RetInt v) = Some w ->
  length w = 8%nat /\ decode w = v /\ decode (firstn s w) = v.
Proof.
  intros s v w S R H. unfold fficallback, fficallback_full in H. rewrite R in H.
  assert (L : Nat.ltb s FFI_ARG = true) by (destruct S as [-> | [-> | ->]]; reflexivity).
  rewrite L in H. cbn [andb] in H. cbv iota beta in H.
  assert (Hw : w = le_bytes s v ++ repeat 0 (FFI_ARG - s)) by congruence. subst w. clear H.
  assert (V : 0 <= v < 2 ^ (8 * Z.of_nat s)) by (unfold in_range in R; lia).
  split; [| split].
  - rewrite app_length, le_bytes_length, repeat_length. destruct S as [-> | [-> | ->]]; reflexivity.
  - rewrite decode_app_zeros, decode_le_bytes by lia. apply Z.mod_small; exact V.
  - rewrite firstn_app, le_bytes_length, Nat.sub_diag. cbn [firstn]. rewrite app_nil_r.
    rewrite <- (le_bytes_length s v) at 1. rewrite firstn_all, decode_le_bytes by lia. apply Z.mod_small; exact V.
Qed.

(* without widening (extern "Python"; and results at least as large as an ffi_arg): exactly the value's bytes *)
Theorem no_widening : forall k v w, fficallback false k (RetInt v) = Some w ->
  length w = rsize k /\ decode w = v mod 2 ^ (8 * Z.of_nat (rsize k)) .
Proof.
  intros k v w H. destruct k as [| s | s | s]; unfold fficallback, fficallback_full in H; try discriminate.
  - destruct (in_range (RSigned s) v) eqn:R; [| discriminate]. rewrite andb_false_r in H. cbv iota beta in H.
    assert (Hw : w = le_bytes s (v mod 2 ^ (8 * Z.of_nat s))) by congruence. subst w. clear H.
    split; [apply le_bytes_length |]. cbn [rsize].
    rewrite decode_le_bytes by (apply Z.mod_pos_bound; apply Z.pow_pos_nonneg; lia).
    apply Z.mod_mod. apply Z.pow_nonzero; lia.
  - destruct (in_range (RZeroExt s) v) eqn:R; [| discriminate]. rewrite andb_false_r in H. cbv iota beta in H.
    assert (Hw : w = le_bytes s v) by congruence. subst w. clear H.
    split; [apply le_bytes_length |]. cbn [rsize]. apply decode_le_bytes. unfold in_range in R. lia.
Qed.

(* ================================================================== 4. the error / onerror protocol *)

(* no Python exception is left set when control returns to the C caller, whatever the body and onerror do *)
Theorem no_exception_escapes : forall encode k eb b oe buf0,
  pending (invoke encode k eb b oe buf0) = false.
Proof.
  intros. unfold invoke.
  destruct (match b with BReturns x => fficallback encode k x | BRaises | BArgFail => None end); [reflexivity |].
  destruct oe; destruct (Nat.ltb 0 (rsize k)); cbn; try reflexivity;
    destruct (fficallback_full encode k x); reflexivity.
Qed.

(* what the C caller gets, as a table over (body outcome, error=, onerror outcome) *)
Definition body_value (encode : bool) (k : rkind) (b : body) : option (list Z) :=
  match b with BReturns x => fficallback encode k x | BRaises | BArgFail => None end.

Theorem protocol_table : forall encode k eb b oe buf0,
  let s := invoke encode k eb b oe buf0 in
  let errbuf := if Nat.ltb 0 (rsize k) then overwrite buf0 eb else buf0 in
  match body_value encode k b with
  | Some w => buf s = overwrite buf0 w /\ printed s = 0%nat                 (* the converted return value, silently *)
  | None =>
      match oe with
      | ONone => buf s = errbuf /\ printed s = 1%nat                         (* error value, one report *)
      | OReturnsNone => buf s = errbuf /\ printed s = 0%nat                  (* error value, handled by onerror *)
      | ORaises => buf s = errbuf /\ printed s = 2%nat                       (* error value, both exceptions reported *)
      | OReturns x =>
          match fficallback_full encode k x with
          | FOk w' => buf s = overwrite errbuf w' /\ printed s = 0%nat      (* onerror's value *)
          | FFail partial =>                    (* both reported; the error value is put back *)
              buf s = (if Nat.ltb 0 (rsize k) then overwrite (overwrite errbuf partial) eb else overwrite errbuf partial)
              /\ printed s = 2%nat
          end
      end
  end.
Proof.
  intros. subst s errbuf. unfold invoke, body_value.
  destruct (match b with BReturns x => fficallback encode k x | BRaises | BArgFail => None end); [split; reflexivity |].
  destruct oe; destruct (Nat.ltb 0 (rsize k)); cbn; try (split; reflexivity);
    destruct (fficallback_full encode k x); split; reflexivity.
Qed.

(* the error value as the C caller reads it: when the result is at least one byte and err_bytes comes from
   prepare_callback_info_tuple, the first rsize bytes are the declared error value (or zeros) *)
Lemma firstn_overwrite : forall n buf w, (n <= length w)%nat -> firstn n (overwrite buf w) = firstn n w.
Proof.
  intros. unfold overwrite. rewrite firstn_app. replace (n - length w)%nat with 0%nat by lia.
  cbn. apply app_nil_r.
Qed.

Lemma fficallback_length : forall encode k e w, fficallback encode k e = Some w ->
  (length w <= Nat.max (rsize k) FFI_ARG)%nat.
Proof.
  intros encode k e w F. destruct k as [| s | s | s]; unfold fficallback, fficallback_full in F; destruct e; try discriminate.
  - assert (w = []) by congruence. subst. cbn. lia.
  - destruct (in_range (RSigned s) z); [| discriminate].
    destruct (Nat.ltb s FFI_ARG && encode) eqn:Q.
    + assert (Hw : w = le_bytes FFI_ARG (z mod 2 ^ 64)) by congruence. subst w. rewrite le_bytes_length. cbn [rsize]. lia.
    + assert (Hw : w = le_bytes s (z mod 2 ^ (8 * Z.of_nat s))) by congruence. subst w. rewrite le_bytes_length. cbn [rsize]. lia.
  - destruct (in_range (RZeroExt s) z); [| discriminate].
    destruct (Nat.ltb s FFI_ARG && encode) eqn:Q.
    + assert (Hw : w = le_bytes s z ++ repeat 0 (FFI_ARG - s)) by congruence. subst w.
      rewrite app_length, le_bytes_length, repeat_length. apply andb_prop in Q. destruct Q as [Q _].
      apply Nat.ltb_lt in Q. cbn [rsize]. lia.
    + assert (Hw : w = le_bytes s z) by congruence. subst w. rewrite le_bytes_length. cbn [rsize]. lia.
  - destruct (Nat.eqb (length bs) s) eqn:Q; [| discriminate].
    assert (w = bs) by congruence. subst. apply Nat.eqb_eq in Q. cbn [rsize]. lia.
Qed.

Theorem error_value_received : forall encode k error eb b oe buf0,
  rawerr encode k error = Some eb -> (0 < rsize k)%nat ->
  body_value encode k b = None ->
  (oe = ONone \/ oe = OReturnsNone \/ oe = ORaises \/ exists x, oe = OReturns x /\ fficallback encode k x = None) ->
  c_receives k (invoke encode k eb b oe buf0) = firstn (rsize k) eb /\
  length eb = Nat.max (rsize k) FFI_ARG.
Proof.
  intros encode k error eb b oe buf0 HE Hs HB Hoe.
  assert (LEN : length eb = Nat.max (rsize k) FFI_ARG).
  { unfold rawerr in HE. destruct error as [e |].
    - destruct (fficallback encode k e) as [w |] eqn:F; [| discriminate].
      assert (eb = overwrite (repeat 0 (Nat.max (rsize k) FFI_ARG)) w) by congruence. subst eb.
      pose proof (fficallback_length _ _ _ _ F).
      unfold overwrite. rewrite app_length, skipn_length, repeat_length. lia.
    - assert (eb = repeat 0 (Nat.max (rsize k) FFI_ARG)) by congruence. subst eb. apply repeat_length. }
  split; [| exact LEN].
  pose proof (protocol_table encode k eb b oe buf0) as T. cbn zeta in T. rewrite HB in T.
  assert (Hlt : Nat.ltb 0 (rsize k) = true) by (apply Nat.ltb_lt; exact Hs). rewrite Hlt in T.
  unfold c_receives.
  destruct Hoe as [-> | [-> | [-> | [x [-> HX]]]]].
  - destruct T as [T _]; rewrite T; apply firstn_overwrite; lia.
  - destruct T as [T _]; rewrite T; apply firstn_overwrite; lia.
  - destruct T as [T _]; rewrite T; apply firstn_overwrite; lia.
  - unfold fficallback in HX. destruct (fficallback_full encode k x) as [w | partial]; [discriminate |].
    destruct T as [T _]; rewrite T; apply firstn_overwrite; lia.
Qed.

(* ================================================================== 5. extern "Python": arguments arrive exactly *)
(* byte-addressed memory of the wrapper's `char a[]`; the wrapper stores argument i (its object representation, or
   the address of a by-reference argument) at slot_offset i, in order; the backend then reads backend_read_bytes
   bytes at backend_slot i. *)
Definition bmem := Z -> Z.
Definition bwrite (m : bmem) (off : Z) (bs : list Z) : bmem :=
  fun a => if (off <=? a) && (a <? off + Z.of_nat (length bs)) then nth (Z.to_nat (a - off)) bs 0 else m a.
Definition bread (m : bmem) (off : Z) (n : nat) : list Z := map (fun k => m (off + Z.of_nat k)) (seq 0 n).

Fixpoint wrapper_stores (m : bmem) (i : nat) (args : list (list Z)) : bmem :=
  match args with
  | [] => m
  | bs :: rest => wrapper_stores (bwrite m (slot_offset (Z.of_nat i)) bs) (S i) rest
  end.

Lemma map_nth_seq0 : forall (bs : list Z), map (fun k => nth k bs 0) (seq 0 (length bs)) = bs.
Proof.
  induction bs as [| b bs IH]; [reflexivity |].
  cbn [length seq map nth]. f_equal. rewrite <- seq_shift, map_map. exact IH.
Qed.

Lemma bread_bwrite_same : forall m off bs, bread (bwrite m off bs) off (length bs) = bs.
Proof.
  intros m off bs. unfold bread. rewrite <- (map_nth_seq0 bs) at 2.
  apply map_ext_in. intros k Hk. apply in_seq in Hk. unfold bwrite.
  replace ((off <=? off + Z.of_nat k) && (off + Z.of_nat k <? off + Z.of_nat (length bs))) with true by (symmetry; lia).
  replace (off + Z.of_nat k - off) with (Z.of_nat k) by lia. rewrite Nat2Z.id. reflexivity.
Qed.

Lemma stores_above_frame : forall args m i a, a < slot_offset (Z.of_nat i) ->
  wrapper_stores m i args a = m a.
Proof.
  induction args as [| bs rest IH]; intros m i a Ha; cbn [wrapper_stores]; [reflexivity |].
  rewrite IH by (unfold slot_offset in *; lia).
  unfold bwrite. replace (slot_offset (Z.of_nat i) <=? a) with false by (symmetry; lia). reflexivity.
Qed.

Lemma bread_ext : forall m m' off n, (forall a, off <= a < off + Z.of_nat n -> m a = m' a) -> bread m off n = bread m' off n.
Proof.
  intros m m' off n H. unfold bread. apply map_ext_in. intros k Hk. apply in_seq in Hk. apply H. lia.
Qed.

Theorem externpy_args_exact : forall args m k i bs,
  Forall (fun b => Z.of_nat (length b) <= 8) args ->       (* every store is at most one slot: store_bytes <= 8 *)
  nth_error args i = Some bs ->
  bread (wrapper_stores m k args) (backend_slot (Z.of_nat (k + i))) (length bs) = bs.
Proof.
  induction args as [| b rest IH]; intros m k i bs W H; [destruct i; discriminate |].
  inversion W as [| ? ? Wb Wrest]; subst.
  destruct i as [| i]; cbn [nth_error wrapper_stores] in *.
  - inversion H; subst bs. rewrite Nat.add_0_r. change (backend_slot (Z.of_nat k)) with (slot_offset (Z.of_nat k)).
    rewrite (bread_ext _ (bwrite m (slot_offset (Z.of_nat k)) b)).
    + apply bread_bwrite_same.
    + intros a Ha. apply stores_above_frame. unfold slot_offset in *. lia.
  - replace (k + S i)%nat with (S k + i)%nat by lia. apply IH; assumption.
Qed.

(* ================================================================== 6. every path goes through the modelled converter *)
(* facts regenerated into C14/Gen.v (tools/props/c14_regen.py path_facts): a path that stops calling its converter
   turns its fact into `false` and breaks its obligation here *)
Lemma path_callback_args : gic_args_libffi = true /\ gic_arg_convert = true. Proof. split; reflexivity. Qed.
Lemma path_externpy_args : gic_args_externpy = true /\ gic_arg_convert = true. Proof. split; reflexivity. Qed.
Lemma path_result : gic_result = true /\ fficallback_shape = true. Proof. split; reflexivity. Qed.
Lemma path_error_value : gic_error_value = true /\ prepare_rawerr = true. Proof. split; reflexivity. Qed.
Lemma path_onerror : gic_onerror = true. Proof. reflexivity. Qed.
Lemma path_no_escape : gic_no_escape = true. Proof. reflexivity. Qed.
Lemma path_entry_ffi_callback : path_ffi_callback = true. Proof. reflexivity. Qed.
Lemma path_entry_extern_python : path_extern_python = true. Proof. reflexivity. Qed.
