(* C14 — callbacks and extern "Python": hand model of the backend side.

   general_invoke_callback            src/c/_cffi_backend.c:6191  (argument decoding for both conventions,
                                                                   the error / onerror protocol)
   convert_from_object_fficallback    src/c/_cffi_backend.c:6088  (widening of small results to an ffi_arg)
   prepare_callback_info_tuple        src/c/_cffi_backend.c:6313  (encoding of the error value)
   cffi_call_python                   src/c/call_python.c:205     (extern "Python": args buffer = result buffer)

   The generator side of extern "Python" (the wrapper emitted by recompiler._extern_python_decl) is NOT modelled
   by hand: it is regenerated into C14/Gen.v on every run. *)
From Coq Require Import ZArith NArith List Bool Lia.
Import ListNotations.
From Cffi Require Import C14.Spec C14.Gic C14.Gen.
Open Scope Z_scope.

(* ------------------------------------------------------------------ extern "Python": the 8-byte slot protocol *)

(* general_invoke_callback, decode_args_from_libffi == 0:
       a_src = args + i * 8;
       if (a_ct->ct_flags & (CT_IS_LONGDOUBLE | CT_STRUCT | CT_UNION)) a_src = [load a pointer from a_src]      *)
(* the stride and the flag set are REGENERATED from that statement (C14/Gen.v: gic_slot_stride, gic_deref_longdouble etc.);
   which types carry which flag is new_primitive_type / new_struct_or_union_type's business (hand-written here):
   CT_IS_LONGDOUBLE is set for the primitive named "long double", CT_STRUCT / CT_UNION for struct / union types *)
Definition backend_slot (i : Z) : Z := i * gic_slot_stride.
Definition backend_deref (t : xtype) : bool :=
  match t with
  | XPrim n _ => (gic_deref_longdouble && name_eqb n LONG_DOUBLE) || gic_deref_other
  | XStruct _ => gic_deref_struct || gic_deref_other
  | XUnion _ => gic_deref_union || gic_deref_other
  | _ => gic_deref_other
  end.
(* bytes the backend reads at the slot: a pointer, or the value itself (convert_to_object reads ct_size bytes) *)
Definition backend_read_bytes (t : xtype) : Z := if backend_deref t then 8 else sizeof t.

(* bytes the generated wrapper stores at slot_offset i: the value a_i through a T pointer, or the address of a_i *)
Definition store_bytes (t : xtype) : Z := if arg_by_reference t then 8 else sizeof t.

(* bytes written into the result area `args` (= char a[size_of_a]) by the backend:
     success              convert_from_object writes sizeof(result) bytes
     error / bad result   memcpy(result, rawerr, max(sizeof(result), sizeof(ffi_arg)))   when ct_size > 0
     no @def_extern yet   memset(args, 0, externpy->size_of_result)                                          *)
Definition result_write_bytes (t : xtype) : Z :=
  if isinstance_VoidType t then 0 else Z.max (sizeof t) 8.

Record xsig := mksig { xargs : list xtype; xres : xtype }.

(* platform facts about the types that can occur (checked against ffi.sizeof on every run) *)
Definition wf_xtype (t : xtype) : Prop :=
  match t with
  | XVoid => True
  | XPrim n s => 1 <= s /\ (n = LONG_DOUBLE \/ n = DOUBLE_COMPLEX -> s <= 16) /\
                 (n <> LONG_DOUBLE -> n <> DOUBLE_COMPLEX -> s <= 8)
  | XStruct s | XUnion s => 1 <= s
  | XPointer => True
  | XEnum s => 1 <= s <= 8
  end.
Definition is_double_complex (t : xtype) : bool := tp_name_is t DOUBLE_COMPLEX.

(* ------------------------------------------------------------------ result conversion and widening *)

Fixpoint le_bytes (n : nat) (v : Z) : list Z :=
  match n with O => [] | S n' => (v mod 256) :: le_bytes n' (v / 256) end.
Fixpoint decode (l : list Z) : Z :=
  match l with [] => 0 | b :: l' => b + 256 * decode l' end.

(* the C type of the result, as far as convert_from_object_fficallback distinguishes *)
Inductive rkind :=
| RVoid
| RSigned (size : nat)             (* CT_PRIMITIVE_SIGNED *)
| RZeroExt (size : nat)            (* unsigned, _Bool, char kinds, pointers: zero-extended when smaller than ffi_arg *)
| ROther (size : nat).             (* float, double, long double, complex, struct *)

Definition rsize (k : rkind) : nat :=
  match k with RVoid => 0%nat | RSigned s | RZeroExt s | ROther s => s end.

(* what the Python function returned, as far as conversion goes *)
Inductive pyret :=
| RetNone
| RetInt (z : Z)                   (* converts to the C integer / character / address z (if in range) *)
| RetBytes (bs : list Z)           (* converts to an object of the result type with these bytes *)
| RetBad.                          (* not convertible to the result type *)

Definition in_range (k : rkind) (z : Z) : bool :=
  match k with
  | RSigned s => (- 2 ^ (8 * Z.of_nat s - 1) <=? z) && (z <? 2 ^ (8 * Z.of_nat s - 1))
  | RZeroExt s => (0 <=? z) && (z <? 2 ^ (8 * Z.of_nat s))
  | _ => false
  end.

Definition FFI_ARG : nat := 8.

(* outcome of convert_from_object_fficallback: the bytes written from offset 0 of the result area.
   FFail = a Python exception is set; the bytes are what had ALREADY been written when the conversion failed:
   in the libffi convention the zero-extending kinds do memset(result, 0, sizeof(ffi_arg)) before converting. *)
Inductive fcres := FOk (w : list Z) | FFail (partial : list Z).

Definition fficallback_full (encode : bool) (k : rkind) (x : pyret) : fcres :=
  match k with
  | RVoid => match x with RetNone => FOk [] | _ => FFail [] end
  | RSigned s =>
      match x with
      | RetInt z =>
          if in_range k z then
            if (Nat.ltb s FFI_ARG) && encode
            then FOk (le_bytes FFI_ARG (z mod 2 ^ 64))          (* write_raw_integer_data(result, value, sizeof(ffi_arg)) *)
            else FOk (le_bytes s (z mod 2 ^ (8 * Z.of_nat s)))
          else FFail []                                          (* the first, checking conversion fails before writing *)
      | _ => FFail []
      end
  | RZeroExt s =>
      let pre := if (Nat.ltb s FFI_ARG) && encode then repeat 0 FFI_ARG else [] in     (* the memset comes first *)
      match x with
      | RetInt z =>
          if in_range k z then
            if (Nat.ltb s FFI_ARG) && encode
            then FOk (le_bytes s z ++ repeat 0 (FFI_ARG - s))
            else FOk (le_bytes s z)
          else FFail pre
      | _ => FFail pre
      end
  | ROther s => match x with RetBytes bs => if Nat.eqb (length bs) s then FOk bs else FFail [] | _ => FFail [] end
  end.

(* successful conversions only *)
Definition fficallback (encode : bool) (k : rkind) (x : pyret) : option (list Z) :=
  match fficallback_full encode k x with FOk w => Some w | FFail _ => None end.

(* prepare_callback_info_tuple: size = max(ct_size, sizeof(ffi_arg)) zero bytes, then the encoded error value.
   None = ffi.callback()/def_extern() itself raises *)
Definition overwrite (buf w : list Z) : list Z := w ++ skipn (length w) buf.

Definition rawerr (encode : bool) (k : rkind) (error : option pyret) : option (list Z) :=
  let zero := repeat 0 (Nat.max (rsize k) FFI_ARG) in
  match error with
  | None => Some zero
  | Some e => match fficallback encode k e with Some w => Some (overwrite zero w) | None => None end
  end.

(* ------------------------------------------------------------------ the error / onerror protocol *)
Inductive body := BReturns (x : pyret) | BRaises
                | BArgFail.                (* convert_to_object of a C argument failed (`goto error` before the call) *)
Inductive onerr := ONone                   (* no onerror= *)
                 | OReturnsNone | OReturns (x : pyret) | ORaises.

(* interpreter state followed through general_invoke_callback *)
Record st := mkst { buf : list Z;          (* the result area *)
                    pending : bool;        (* PyErr_Occurred() *)
                    printed : nat }.       (* reports through sys.unraisablehook / stderr *)

Definition set_exc (s : st) := mkst (buf s) true (printed s).
Definition fetch (s : st) := mkst (buf s) false (printed s).                   (* PyErr_Fetch *)
(* _my_PyErr_WriteUnraisable: PyErr_Restore; _PyErr_WriteUnraisableMsg (reports and clears); PyErr_Clear *)
Definition write_unraisable (s : st) := mkst (buf s) false (S (printed s)).
Definition write (s : st) (w : list Z) := mkst (overwrite (buf s) w) (pending s) (printed s).

Definition invoke (encode : bool) (k : rkind) (err_bytes : list Z) (b : body) (oe : onerr) (buf0 : list Z) : st :=
  let s0 := mkst buf0 false 0 in
  (* py_res = PyObject_Call(...); convert_from_object_fficallback(result, ...) *)
  let attempt := match b with BReturns x => fficallback encode k x | BRaises | BArgFail => None end in
  match attempt with
  | Some w => write s0 w                                  (* done: *)
  | None =>
      let s1 := set_exc s0 in                             (* error: *)
      let s2 := if Nat.ltb 0 (rsize k) then write s1 err_bytes else s1 in     (* if (SIGNATURE(1)->ct_size > 0) memcpy *)
      match oe with
      | ONone => write_unraisable (fetch s2)
      | _ =>
          let s3 := fetch s2 in                           (* PyErr_Fetch(&exc1...) *)
          let s4 := match oe with
                    | ORaises => set_exc s3               (* res1 == NULL *)
                    | OReturnsNone => s3
                    | OReturns x => match fficallback_full encode k x with
                                    | FOk w => write s3 w
                                    | FFail partial =>
                                        (* the failed conversion may have cleared the result: the error value is put
                                           back (if ct_size > 0), general_invoke_callback:6280 *)
                                        let s' := write s3 partial in
                                        set_exc (if Nat.ltb 0 (rsize k) then write s' err_bytes else s')
                                    end
                    | ONone => s3
                    end in
          if pending s4
          then write_unraisable (write_unraisable (fetch s4))    (* double exception: two reports *)
          else s4
      end
  end.

(* what the C caller reads back: the first rsize bytes of the result area *)
Definition c_receives (k : rkind) (s : st) : list Z := firstn (rsize k) (buf s).

(* ------------------------------------------------------------------ the REGENERATED general_invoke_callback
   Meaning of the statement tree C14/Gen.v:gic_prog (syntax: C14/Gic.v) over the same state and the same inputs as the
   hand state machine `invoke` above.  C14/Proofs2.v proves that running the regenerated tree leaves no exception
   pending and agrees with `invoke`. *)
Record genv := mkgenv { g_encode : bool; g_k : rkind; g_eb : list Z; g_b : body; g_oe : onerr }.

Inductive outcome := ONormal | OGoto (l : glabel) | OReturned.

(* convert_from_object_fficallback(result, SIGNATURE(1), x, decode_args_from_libffi) < 0, with its effects: the bytes
   written (also the partial ones of a failed conversion) and the exception a failure sets *)
Definition eval_conv (e : genv) (x : pyret) (s : st) : bool * st :=
  match fficallback_full (g_encode e) (g_k e) x with
  | FOk w => (false, write s w)
  | FFail partial => (true, set_exc (write s partial))
  end.

Fixpoint eval_cond (e : genv) (c : gcond) (s : st) : bool * st :=
  match c with
  | CAllocFailed => (false, s)                  (* memory exhaustion is outside the model *)
  | CDecode => (g_encode e, s)
  | CArgDeref => (false, s)                     (* where an argument is read from does not touch this state *)
  | CArgNull => (match g_b e with BArgFail => true | _ => false end, s)
  | CBodyNull => (match g_b e with BReturns _ => false | _ => true end, s)
  | CConvBody => match g_b e with BReturns x => eval_conv e x s | _ => (true, set_exc s) end
  | CSizePos => (Nat.ltb 0 (rsize (g_k e)), s)
  | COnerrNone => (match g_oe e with ONone => true | _ => false end, s)
  | CRes1NotNull => (match g_oe e with ORaises | ONone => false | _ => true end, s)
  | CRes1NotNone => (match g_oe e with OReturns _ => true | _ => false end, s)
  | CConvRes1 => match g_oe e with OReturns x => eval_conv e x s | _ => (true, set_exc s) end
  | CNoErr => (negb (pending s), s)
  | CAnd a c' => let (r, s') := eval_cond e a s in if r then eval_cond e c' s' else (false, s')
  end.

Fixpoint exec_stmt (e : genv) (g : gstmt) (s : st) : outcome * st :=
  match g with
  | SSkip | SNop => (ONormal, s)
  | SConvertArg => (ONormal, match g_b e with BArgFail => set_exc s | _ => s end)
  | SCallBody => (ONormal, match g_b e with BReturns _ => s | _ => set_exc s end)
  | SMemcpyErr => (ONormal, write s (g_eb e))
  | SFetch => (ONormal, fetch s)
  | SWriteUnraisable => (ONormal, write_unraisable s)
  | SCallOnerror => (ONormal, match g_oe e with ORaises | ONone => set_exc s | _ => s end)
  | SGoto l => (OGoto l, s)
  | SReturn => (OReturned, s)
  | SFor body => exec_stmt e body s             (* one representative iteration of the argument loop *)
  | SIf c t f => let (r, s') := eval_cond e c s in if r then exec_stmt e t s' else exec_stmt e f s'
  | SSeq a c => match exec_stmt e a s with (ONormal, s') => exec_stmt e c s' | r => r end
  end.

Definition glabel_eqb (a c : glabel) : bool :=
  match a, c with LDone, LDone | LError, LError => true | _, _ => false end.

(* the blocks from the one labelled l on *)
Fixpoint find_block (l : glabel) (p : gprog) : option gprog :=
  match p with
  | [] => None
  | (Some l', g) :: t => if glabel_eqb l l' then Some p else find_block l t
  | (None, _) :: t => find_block l t
  end.

(* None = no `return;` reached: fell off the end, jumped to a missing label, or more than `fuel` blocks entered *)
Fixpoint run_blocks (e : genv) (whole : gprog) (fuel : nat) (p : gprog) (s : st) : option st :=
  match fuel with
  | O => None
  | S fuel' =>
      match p with
      | [] => None
      | (_, g) :: t =>
          match exec_stmt e g s with
          | (ONormal, s') => run_blocks e whole fuel' t s'
          | (OReturned, s') => Some s'
          | (OGoto l, s') => match find_block l whole with
                             | Some p' => run_blocks e whole fuel' p' s'
                             | None => None
                             end
          end
      end
  end.

(* a program that does not return is reported as a state with an exception pending, so that it cannot satisfy
   C14_gen_no_escape by accident *)
Definition stuck : st := mkst [] true 0.

Definition exec_gic (p : gprog) (encode : bool) (k : rkind) (err_bytes : list Z) (b : body) (oe : onerr)
                    (buf0 : list Z) : st :=
  match run_blocks (mkgenv encode k err_bytes b oe) p 8 p (mkst buf0 false 0) with
  | Some s => s
  | None => stuck
  end.
