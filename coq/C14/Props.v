(* C14 — Callbacks and extern "Python" pass values exactly and contain errors.  Statements only.
   Gen.v is regenerated from recompiler._extern_python_decl on every run; Model.v is the hand model of the
   backend (general_invoke_callback, convert_from_object_fficallback, prepare_callback_info_tuple). *)
From Coq Require Import ZArith NArith List Bool.
Import ListNotations.
From Cffi Require Import C14.Spec C14.Gic C14.Gen C14.Model C14.Proofs C14.Proofs2.
Open Scope Z_scope.

(* the generated wrapper and the backend agree on the slot protocol: same offsets, same by-reference rule,
   hence the backend reads exactly the bytes the wrapper stored *)
Theorem C14_externpy_protocol_agrees : forall t i,
  arg_by_reference t = backend_deref t /\ slot_offset i = backend_slot i /\ store_bytes t = backend_read_bytes t.
Proof. intros t i. split; [apply byref_agrees | split; [apply slot_agrees | apply store_read_agree]]. Qed.
Print Assumptions C14_externpy_protocol_agrees.

(* DESIGN Appendix A.  For ALL signatures: every argument store of the generated wrapper stays inside
   `char a[size_of_a]` and below the next slot, and every write of the backend into the result area (converted
   result, error-value memcpy of max(size, sizeof(ffi_arg)) bytes, the memset of size_of_result bytes when no
   @def_extern is attached) stays inside it.
   The argument half needs the hypothesis that no argument is `double _Complex` (see _refuted below); the result
   half holds for every result type (after the fix of the `double _Complex` result buffer). *)
Theorem C14_externpy_buffer_safe : forall args res,
  Forall wf_xtype args -> wf_xtype res ->
  Forall (fun a => is_double_complex a = false) args ->
  let A := size_of_a (Z.of_nat (length args)) res in
  (forall i a, nth_error args i = Some a ->
       0 <= slot_offset (Z.of_nat i) /\
       slot_offset (Z.of_nat i) + store_bytes a <= A /\
       slot_offset (Z.of_nat i) + store_bytes a <= slot_offset (Z.of_nat (S i))) /\
  result_write_bytes res <= A /\ size_of_result res <= A.
Proof. exact externpy_buffer_safe. Qed.
Print Assumptions C14_externpy_buffer_safe.

(* the unrestricted statement is false: a last `double _Complex` argument is stored 8 bytes past the end of `a`,
   and a non-last one overlaps the next argument's slot.  This is the OPEN finding `double_complex_arg`
   (findings/C14.json; replayed on the implementation on every run, ASan stack-buffer-overflow for the last-argument
   case; not repaired because it needs a protocol change between generated modules and the backend) *)
Theorem C14_externpy_args_refuted :
  exists args res i a, Forall wf_xtype args /\ wf_xtype res /\ nth_error args i = Some a /\
    size_of_a (Z.of_nat (length args)) res < slot_offset (Z.of_nat i) + store_bytes a.
Proof. exact externpy_args_refuted. Qed.
Print Assumptions C14_externpy_args_refuted.

Theorem C14_externpy_args_overlap_refuted :
  exists args res i a, Forall wf_xtype args /\ wf_xtype res /\ nth_error args i = Some a /\
    slot_offset (Z.of_nat (S i)) < slot_offset (Z.of_nat i) + store_bytes a /\ (S i < length args)%nat.
Proof. exact externpy_args_overlap_refuted. Qed.
Print Assumptions C14_externpy_args_overlap_refuted.

(* "passes exactly its argument values", extern "Python", at the level of bytes: after the wrapper has stored every
   argument (object representation, or address for by-reference arguments; each at most one 8-byte slot, which
   C14_externpy_buffer_safe guarantees when no argument is double _Complex), the backend's read of argument i at
   backend_slot i returns exactly the bytes stored for argument i — later stores do not disturb earlier slots.
   NOT covered by a theorem: the value-level conversion bytes -> Python object (convert_to_object; modelled for
   primitives as C13.Model.ffi_result and tied by C13's correspondence), and the argument delivery of ffi.callback(),
   which is libffi's (cffi only dereferences the pointers libffi hands it); both are checked on the implementation
   by the correspondence (the Python function must receive exactly the constants the C caller passed). *)
Theorem C14_externpy_args_exact : forall args m k i bs,
  Forall (fun b => Z.of_nat (length b) <= 8) args ->
  nth_error args i = Some bs ->
  bread (wrapper_stores m k args) (backend_slot (Z.of_nat (k + i))) (length bs) = bs.
Proof. exact externpy_args_exact. Qed.
Print Assumptions C14_externpy_args_exact.

(* "receives exactly the converted Python return value": the theorems below are about the bytes written into the
   result area.  Integer-like results (integers, _Bool, characters, pointers) are modelled from the value (RetInt);
   float, long double, complex and struct results enter as the bytes the object converts to (RetBytes, produced by
   the harness oracle) — their object -> bytes conversion is not modelled here. *)

(* widening (ffi.callback, libffi convention): a result smaller than an ffi_arg fills the whole ffi_arg with its
   sign extension (signed) or zero extension (unsigned, _Bool, characters); the low bytes are the value itself *)
Theorem C14_widening_signed : forall s v w, small s -> in_range (RSigned s) v = true ->
  fficallback true (RSigned s) (RetInt v) = Some w ->
  length w = 8%nat /\ decode w = v mod 2 ^ 64 /\
  (if decode w <? 2 ^ 63 then decode w else decode w - 2 ^ 64) = v /\
  decode (firstn s w) = v mod 2 ^ (8 * Z.of_nat s).
Proof. exact widening_signed. Qed.
Print Assumptions C14_widening_signed.

Theorem C14_widening_unsigned : forall s v w, small s -> in_range (RZeroExt s) v = true ->
  fficallback true (RZeroExt s) (RetInt v) = Some w ->
  length w = 8%nat /\ decode w = v /\ decode (firstn s w) = v.
Proof. exact widening_unsigned. Qed.
Print Assumptions C14_widening_unsigned.

(* extern "Python" convention: exactly the value's own bytes *)
Theorem C14_no_widening : forall k v w, fficallback false k (RetInt v) = Some w ->
  length w = rsize k /\ decode w = v mod 2 ^ (8 * Z.of_nat (rsize k)).
Proof. exact no_widening. Qed.
Print Assumptions C14_no_widening.

(* no Python exception escapes into the C caller: PyErr_Occurred() is false at every exit of
   general_invoke_callback, for every body outcome, error value and onerror outcome *)
Theorem C14_no_exception_escapes : forall encode k eb b oe buf0,
  pending (invoke encode k eb b oe buf0) = false.
Proof. exact no_exception_escapes. Qed.
Print Assumptions C14_no_exception_escapes.

(* what the C caller receives and how many reports are written, over (body, error=, onerror=) *)
Theorem C14_protocol_table : forall encode k eb b oe buf0,
  let s := invoke encode k eb b oe buf0 in
  let errbuf := if Nat.ltb 0 (rsize k) then overwrite buf0 eb else buf0 in
  match body_value encode k b with
  | Some w => buf s = overwrite buf0 w /\ printed s = 0%nat
  | None =>
      match oe with
      | ONone => buf s = errbuf /\ printed s = 1%nat
      | OReturnsNone => buf s = errbuf /\ printed s = 0%nat
      | ORaises => buf s = errbuf /\ printed s = 2%nat
      | OReturns x =>
          match fficallback_full encode k x with
          | FOk w' => buf s = overwrite errbuf w' /\ printed s = 0%nat
          | FFail partial =>
              buf s = (if Nat.ltb 0 (rsize k) then overwrite (overwrite errbuf partial) eb else overwrite errbuf partial)
              /\ printed s = 2%nat
          end
      end
  end.
Proof. exact protocol_table. Qed.
Print Assumptions C14_protocol_table.

Theorem C14_error_value_received : forall encode k error eb b oe buf0,
  rawerr encode k error = Some eb -> (0 < rsize k)%nat ->
  body_value encode k b = None ->
  (oe = ONone \/ oe = OReturnsNone \/ oe = ORaises \/ exists x, oe = OReturns x /\ fficallback encode k x = None) ->
  c_receives k (invoke encode k eb b oe buf0) = firstn (rsize k) eb /\
  length eb = Nat.max (rsize k) FFI_ARG.
Proof. exact error_value_received. Qed.
Print Assumptions C14_error_value_received.

(* ---- the same, about REGENERATED code.  C14/Gen.v:gic_prog is the statement tree of general_invoke_callback
   (src/c/_cffi_backend.c), translated statement by statement on every run by tools/props/c14_regen.py (every statement
   and condition of the function must be in the translator's table, else the translation fails closed);
   C14/Model.v:exec_gic gives each statement its meaning over the state (result area, PyErr_Occurred(), reports).
   `b` ranges over: the Python function returns any object / raises / a C argument cannot be converted
   (convert_to_object fails: `goto error` before the call); the argument loop is run for one representative iteration;
   a failing PyTuple_New is outside the model.

   At the `return;` of the regenerated function — which is reached: a tree that falls off its end, jumps to a missing
   label or loops yields a state with pending = true — no Python exception is pending. *)
Theorem C14_gen_no_escape : forall encode k eb b oe buf0,
  pending (exec_gic gic_prog encode k eb b oe buf0) = false.
Proof. exact gen_no_escape. Qed.
Print Assumptions C14_gen_no_escape.

(* the regenerated function computes exactly what the hand state machine `invoke` computes (result area, pending flag,
   number of reports), for every input, when the result type is void or has a positive size (wf_rkind) and the error
   value is at least one ffi_arg long (which prepare_callback_info_tuple guarantees: C14_error_value_received).
   Hence C14_protocol_table, C14_no_exception_escapes and C14_error_value_received are statements about the regenerated
   code.  (Without the hypotheses `invoke` forgets the memset a failed conversion of the BODY's result has already
   done; the error-value memcpy covers it.) *)
Theorem C14_gen_agrees_with_invoke : forall encode k eb b oe buf0,
  wf_rkind k -> (8 <= length eb)%nat ->
  exec_gic gic_prog encode k eb b oe buf0 = invoke encode k eb b oe buf0.
Proof. exact gen_agrees_with_invoke. Qed.
Print Assumptions C14_gen_agrees_with_invoke.

Theorem C14_gen_error_value_received : forall encode k error eb b oe buf0,
  rawerr encode k error = Some eb -> (0 < rsize k)%nat ->
  body_value encode k b = None ->
  (oe = ONone \/ oe = OReturnsNone \/ oe = ORaises \/ exists x, oe = OReturns x /\ fficallback encode k x = None) ->
  c_receives k (exec_gic gic_prog encode k eb b oe buf0) = firstn (rsize k) eb.
Proof. exact gen_error_value_received. Qed.
Print Assumptions C14_gen_error_value_received.

(* the hand model is one function (invoke / fficallback / rawerr) for both conventions; that both paths of the property
   really run through the modelled code is a checked, regenerated fact: ffi.callback() -> libffi closure ->
   invoke_callback -> general_invoke_callback(1, ...) with the error value encoded with encode = 1; extern "Python" ->
   cffi_call_python -> general_invoke_callback(0, args, args, ...) with encode = 0; inside, every argument goes through
   convert_to_object, the result through convert_from_object_fficallback, failures through the error-value memcpy,
   onerror and the fetch/report sequence *)
Theorem C14_paths_use_modelled_code :
  (gic_args_libffi = true /\ gic_args_externpy = true /\ gic_arg_convert = true) /\
  (gic_result = true /\ fficallback_shape = true) /\ (gic_error_value = true /\ prepare_rawerr = true) /\
  gic_onerror = true /\ gic_no_escape = true /\ path_ffi_callback = true /\ path_extern_python = true.
Proof.
  pose proof path_callback_args; pose proof path_externpy_args; pose proof path_result; pose proof path_error_value;
  pose proof path_onerror; pose proof path_no_escape; pose proof path_entry_ffi_callback; pose proof path_entry_extern_python.
  intuition.
Qed.
Print Assumptions C14_paths_use_modelled_code.

(* ---- non-vacuity *)
Definition T_INT : xtype := XPrim [105;110;116]%N 4.
Definition T_LD : xtype := XPrim LONG_DOUBLE 16.
Definition T_DC : xtype := XPrim DOUBLE_COMPLEX 16.

(* double _Complex f(void): 16 bytes (8 before the fix);  long double f(int, long double, struct{40}) ... *)
Example C14_sizes :
  size_of_a 0 T_DC = 16 /\ size_of_a 1 T_LD = 16 /\ size_of_a 0 XVoid = 8 /\ size_of_a 3 T_INT = 24 /\
  size_of_a 1 (XStruct 40) = 40 /\ size_of_a 7 (XStruct 40) = 56 /\
  map store_bytes [T_INT; T_LD; XStruct 40; XPointer; T_DC; XUnion 4; XUnion 16] = [4; 8; 8; 8; 16; 8; 8] /\
  map arg_by_reference [T_INT; T_LD; XStruct 40; XPointer; T_DC; XUnion 4; XUnion 16] = [false; true; true; false; false; true; true] /\
  size_of_a 0 (XUnion 16) = 16.
Proof. vm_compute. repeat split; reflexivity. Qed.

Example C14_hyps_satisfiable :
  Forall wf_xtype [T_INT; T_LD; XStruct 40; XPointer] /\ wf_xtype T_DC /\
  Forall (fun a => is_double_complex a = false) [T_INT; T_LD; XStruct 40; XPointer].
Proof.
  split; [| split].
  - repeat constructor; cbn; try discriminate; intros; try discriminate;
      try (destruct H; discriminate); try (exfalso; apply H; reflexivity).
  - cbn. repeat split; try discriminate. intros _ H. exfalso. apply H. reflexivity.
  - repeat constructor.
Qed.

(* short f(...) returning -2 through ffi.callback: rax = 0xFFFF...FFFE; error=-1 encodes as 8 bytes of 0xFF *)
Example C14_widening_example :
  fficallback true (RSigned 2) (RetInt (-2)) = Some [254; 255; 255; 255; 255; 255; 255; 255] /\
  fficallback false (RSigned 2) (RetInt (-2)) = Some [254; 255] /\
  fficallback true (RZeroExt 1) (RetInt 200) = Some [200; 0; 0; 0; 0; 0; 0; 0] /\
  fficallback true (RSigned 2) (RetInt 32768) = None /\
  rawerr true (RSigned 2) (Some (RetInt (-1))) = Some [255; 255; 255; 255; 255; 255; 255; 255] /\
  rawerr false (ROther 16) None = Some (repeat 0 16).
Proof. vm_compute. repeat split; reflexivity. Qed.

Example C14_protocol_example :
  let eb := [42; 0; 0; 0; 0; 0; 0; 0] in
  let run b oe := let s := invoke true (RSigned 4) eb b oe (repeat 9 8) in (c_receives (RSigned 4) s, printed s, pending s) in
  run (BReturns (RetInt 7)) ONone = ([7; 0; 0; 0], 0%nat, false) /\
  run BRaises ONone = ([42; 0; 0; 0], 1%nat, false) /\
  run (BReturns RetBad) OReturnsNone = ([42; 0; 0; 0], 0%nat, false) /\
  run BRaises (OReturns (RetInt 5)) = ([5; 0; 0; 0], 0%nat, false) /\
  run BRaises (OReturns RetBad) = ([42; 0; 0; 0], 2%nat, false) /\
  (let s := invoke true (RZeroExt 4) eb BRaises (OReturns RetBad) (repeat 9 8) in c_receives (RZeroExt 4) s) = [42; 0; 0; 0] /\
  run BRaises ORaises = ([42; 0; 0; 0], 2%nat, false).
Proof. vm_compute. repeat split; reflexivity. Qed.

(* the regenerated tree run on concrete inputs; an argument that cannot be converted takes the error path *)
Example C14_gen_example :
  let eb := [42; 0; 0; 0; 0; 0; 0; 0] in
  let run b oe := let s := exec_gic gic_prog true (RSigned 4) eb b oe (repeat 9 8) in (c_receives (RSigned 4) s, printed s, pending s) in
  run (BReturns (RetInt 7)) ONone = ([7; 0; 0; 0], 0%nat, false) /\
  run BArgFail ONone = ([42; 0; 0; 0], 1%nat, false) /\
  run BArgFail (OReturns (RetInt 5)) = ([5; 0; 0; 0], 0%nat, false) /\
  run BRaises (OReturns RetBad) = ([42; 0; 0; 0], 2%nat, false) /\
  run BRaises ORaises = ([42; 0; 0; 0], 2%nat, false) /\
  wf_rkind (RSigned 4) /\ wf_rkind RVoid /\ gic_slot_stride = 8.
Proof. vm_compute. repeat split; try reflexivity; intro; discriminate. Qed.
