(* C15 / C18 — what the wide-character helpers of src/c/wchar_helper_3.h rely on from outside cffi:
   Python exception classes, the C conversions to uint16_t / uint32_t, and the CPython unicode API
   (Objects/unicodeobject.c, CPython >= 3.3).  Written independently of the models; the regenerated
   C15/Gen.v is expressed in these terms.  A str is the list of its code points. *)
From Coq Require Import ZArith List Bool.
Import ListNotations.
Open Scope Z_scope.

(* exception classes seen by C15 and C18, plus three non-Python outcomes:
   FatalError   Py_FatalError (process abort);
   OutOfModel   a read past the end of the modelled memory (C18: no claim is made);
   BufferMisuse the C code fills a freshly allocated str with a number of items different from the
                allocated length (heap overflow / uninitialised tail): undefined behaviour;
   OtherException stands for every exception class not named here (used by the harness only: no
                model function ever returns it). *)
Inductive exn := IndexError | TypeError | ValueError | SystemError | RuntimeError
               | FatalError | OutOfModel | BufferMisuse | OtherException.
Inductive res (A : Type) := Ok (a : A) | Err (e : exn).
Arguments Ok {A} a.
Arguments Err {A} e.

Definition exn_eqb (a b : exn) : bool :=
  match a, b with
  | IndexError, IndexError | TypeError, TypeError | ValueError, ValueError | SystemError, SystemError
  | RuntimeError, RuntimeError | FatalError, FatalError | OutOfModel, OutOfModel
  | BufferMisuse, BufferMisuse | OtherException, OtherException => true
  | _, _ => false
  end.

Definition zlen (l : list Z) : Z := Z.of_nat (length l).

(* conversion to uint32_t / uint16_t (C11 6.3.1.3p2) *)
Definition u32 (x : Z) : Z := x mod 2 ^ 32.
Definition u16 (x : Z) : Z := x mod 2 ^ 16.

(* ---------------------------------------------------------------- CPython *)
Definition MAX_UNICODE : Z := 0x10FFFF.
Definition PyUnicode_1BYTE_KIND : Z := 1.
Definition PyUnicode_2BYTE_KIND : Z := 2.
Definition PyUnicode_4BYTE_KIND : Z := 4.

(* PyUnicode_KIND of a str in canonical (compact) form: decided by its largest code point *)
Definition PyUnicode_KIND (s : list Z) : Z :=
  if existsb (fun c => 0xFFFF <? c) s then PyUnicode_4BYTE_KIND
  else if existsb (fun c => 0xFF <? c) s then PyUnicode_2BYTE_KIND
  else PyUnicode_1BYTE_KIND.

(* PyUnicode_FromKindAndData(kind, buffer, size): a str with exactly the items of the buffer as code
   points - nothing is interpreted, dropped or combined (no BOM, no surrogate handling).  For the
   4-byte kind the largest item is passed to PyUnicode_New, which raises SystemError ("invalid maximum
   character passed to PyUnicode_New") above MAX_UNICODE; 1- and 2-byte items cannot exceed it. *)
Definition PyUnicode_FromKindAndData (kind : Z) (w : list Z) : res (list Z) :=
  if kind =? PyUnicode_4BYTE_KIND then
    if existsb (fun u => MAX_UNICODE <? u) w then Err SystemError else Ok w
  else Ok w.

(* result = PyUnicode_New(n, maxchar), then [data] is written item by item into
   PyUnicode_4BYTE_DATA(result) and result is returned: the str is [data] when exactly n items are
   written; anything else is a memory error *)
Definition PyUnicode_New_filled (n maxchar : Z) (data : list Z) : res (list Z) :=
  if MAX_UNICODE <? maxchar then Err SystemError
  else if negb (zlen data =? n) then Err BufferMisuse
  else Ok data.

(* PyUnicode_AsUCS4(u, buffer, buflen, copy_null): SystemError ("string is longer than the buffer")
   when buflen < len + copy_null; else the code points, followed by a zero when copy_null *)
Definition PyUnicode_AsUCS4 (s : list Z) (buflen : Z) (copy_null : bool) : res (list Z) :=
  if buflen <? zlen s + (if copy_null then 1 else 0) then Err SystemError
  else Ok (if copy_null then s ++ [0] else s).
