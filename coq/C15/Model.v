(* C15 — model of character arrays and strings:
     wchar_helper_3.h: _my_PyUnicode_SizeAsChar16/32, _my_PyUnicode_AsChar16/32 (with the terminator
       fix of commit 2103790), _my_PyUnicode_FromChar16/32;
     _cffi_backend.c: get_new_array_length :1346, convert_array_from_object string branches :1507-1557,
       b_string scans :6759, b_unpack string branch :6906.
   Memory is modelled at the level of units (8/16/32-bit code units; the harness decodes the raw
   little-endian bytes).  A Python str is a list of code points (0..0x10FFFF, lone surrogates
   allowed); a Python bytes a list of byte values.  Definitions only. *)
From Coq Require Import ZArith List Bool.
Import ListNotations.
Open Scope Z_scope.

Inductive exn := IndexError | TypeError | ValueError | SystemError.
Inductive res (A : Type) := Ok (a : A) | Err (e : exn).
Arguments Ok {A} a.
Arguments Err {A} e.

Definition zlen (l : list Z) : Z := Z.of_nat (length l).

(* ---------------------------------------------------------------- wchar_helper_3.h *)
(* _my_PyUnicode_SizeAsChar16: length + number of code points above 0xFFFF *)
Fixpoint size16 (s : list Z) : Z :=
  match s with
  | [] => 0
  | c :: r => (if 0xFFFF <? c then 2 else 1) + size16 r
  end.
Definition size32 (s : list Z) : Z := zlen s.

(* the loop of _my_PyUnicode_AsChar16: units written, or ValueError above 0x10FFFF *)
Fixpoint as_char16_loop (s : list Z) : res (list Z) :=
  match s with
  | [] => Ok []
  | c :: r =>
      if 0xFFFF <? c then
        if 0x10FFFF <? c then Err ValueError
        else match as_char16_loop r with
             | Err e => Err e
             | Ok us => let o := c - 0x10000 in
                        Ok (Z.lor 0xD800 (Z.shiftr o 10) :: Z.lor 0xDC00 (Z.land o 0x3FF) :: us)
             end
      else match as_char16_loop r with
           | Err e => Err e
           | Ok us => Ok (c :: us)
           end
  end.

(* _my_PyUnicode_AsChar16(unicode, result, resultlen): the units stored from result[0] on; a zero
   unit follows when there is room (result < result + resultlen) *)
Definition as_char16 (s : list Z) (resultlen : Z) : res (list Z) :=
  match as_char16_loop s with
  | Err e => Err e
  | Ok us => Ok (if zlen us <? resultlen then us ++ [0] else us)
  end.

(* _my_PyUnicode_AsChar32 = PyUnicode_AsUCS4(u, result, resultlen, copy_null = resultlen > len):
   SystemError when resultlen < len + copy_null *)
Definition as_char32 (s : list Z) (resultlen : Z) : res (list Z) :=
  let copy_null := zlen s <? resultlen in
  if resultlen <? zlen s + (if copy_null then 1 else 0) then Err SystemError
  else Ok (if copy_null then s ++ [0] else s).

Definition is_hi (u : Z) : bool := (0xD800 <=? u) && (u <=? 0xDBFF).
Definition is_lo (u : Z) : bool := (0xDC00 <=? u) && (u <=? 0xDFFF).

Fixpoint count_surrogates (w : list Z) : Z :=
  match w with
  | a :: r => match r with
              | b :: _ => (if is_hi a && is_lo b then 1 else 0) + count_surrogates r
              | [] => 0
              end
  | [] => 0
  end.

Definition join_pair (ch ch2 : Z) : Z :=
  Z.lor (Z.shiftl (Z.land ch 0x3FF) 10) (Z.land ch2 0x3FF) + 0x10000.

Fixpoint join16_loop (w : list Z) : list Z :=
  match w with
  | [] => []
  | a :: r => match r with
              | b :: r' => if is_hi a && is_lo b then join_pair a b :: join16_loop r'
                           else a :: join16_loop r
              | [] => [a]
              end
  end.

(* _my_PyUnicode_FromChar16 *)
Definition from_char16 (w : list Z) : res (list Z) :=
  if count_surrogates w =? 0 then Ok w else Ok (join16_loop w).
(* _my_PyUnicode_FromChar32 (PyUnicode_FromKindAndData refuses > 0x10FFFF with SystemError) *)
Definition from_char32 (w : list Z) : res (list Z) :=
  if existsb (fun u => 0x10FFFF <? u) w then Err SystemError else Ok w.

(* ---------------------------------------------------------------- element types and Python values *)
Inductive ety := E8 | E16 | E32.     (* char (also signed/unsigned char) / char16_t / char32_t, wchar_t *)
Inductive pyval := PBytes (bs : list Z) | PStr (cps : list Z).

Definition ety_eqb (a b : ety) : bool :=
  match a, b with E8, E8 | E16, E16 | E32, E32 => true | _, _ => false end.

(* get_new_array_length :1346 for a bytes / str initializer of ffi.new("T[]", init) *)
Definition new_array_length (t : ety) (v : pyval) : Z :=
  match v with
  | PBytes bs => zlen bs + 1
  | PStr s => (match t with E16 => size16 s | _ => size32 s end) + 1     (* ct_size == 2 ? ... : ... *)
  end.

(* convert_array_from_object :1507-1557: the units stored from data[0] on.
   ct_length = -1 for an open array type T[] *)
Definition convert_array (t : ety) (ct_length : Z) (v : pyval) : res (list Z) :=
  match t, v with
  | E8, PBytes bs =>
      let n := zlen bs in
      if (0 <=? ct_length) && (ct_length <? n) then Err IndexError
      else Ok (if negb (n =? ct_length) then bs ++ [0] else bs)     (* n++ : PyBytes keeps a NUL at the end *)
  | E8, PStr _ => Err TypeError
  | _, PBytes _ => Err TypeError
  | E16, PStr s =>
      let n := size16 s in
      if (0 <=? ct_length) && (ct_length <? n) then Err IndexError
      else as_char16 s (if negb (n =? ct_length) then n + 1 else n)
  | E32, PStr s =>
      let n := size32 s in
      if (0 <=? ct_length) && (ct_length <? n) then Err IndexError
      else as_char32 s (if negb (n =? ct_length) then n + 1 else n)
  end.

(* the memory of an array, in units; a store of [us] at the start of the array *)
Definition store (mem us : list Z) : list Z := us ++ skipn (length us) mem.

(* p.a = v for a field `T a[k]` whose units are mem (length k); x = ffi.new("T[k]", v) is the same
   on zeroed memory *)
Definition assign (t : ety) (mem : list Z) (v : pyval) : res (list Z) :=
  match convert_array t (zlen mem) v with
  | Err e => Err e
  | Ok us => Ok (store mem us)
  end.

Definition zeros (n : Z) : list Z := repeat 0 (Z.to_nat n).

(* ffi.new("T[]", v): allocation of new_array_length units, zero-filled, then the conversion with
   ct_length = -1 *)
Definition new_open_array (t : ety) (v : pyval) : res (list Z) :=
  match convert_array t (-1) v with
  | Err e => Err e
  | Ok us => Ok (store (zeros (new_array_length t v)) us)
  end.

(* ---------------------------------------------------------------- ffi.string / ffi.unpack *)
Fixpoint until_zero (us : list Z) : list Z :=
  match us with
  | [] => []
  | u :: r => if u =? 0 then [] else u :: until_zero r
  end.

Definition of_units (t : ety) (us : list Z) : res pyval :=
  match t with
  | E8 => Ok (PBytes us)
  | E16 => match from_char16 us with Ok s => Ok (PStr s) | Err e => Err e end
  | E32 => match from_char32 us with Ok s => Ok (PStr s) | Err e => Err e end
  end.

(* ffi.string(x, maxlen) for an array cdata x over mem (maxlen < 0: not given -> the array length).
   The scan stops at the first zero unit or after `length` units. *)
Definition string_array (t : ety) (mem : list Z) (maxlen : Z) : res pyval :=
  let length := if maxlen <? 0 then zlen mem else maxlen in
  of_units t (until_zero (firstn (Z.to_nat length) mem)).

(* ffi.string(p, maxlen) for a pointer into mem: without maxlen the scan is unbounded (strlen) *)
Definition string_pointer (t : ety) (mem : list Z) (maxlen : Z) : res pyval :=
  if maxlen <? 0 then of_units t (until_zero mem)
  else of_units t (until_zero (firstn (Z.to_nat maxlen) mem)).

(* ffi.unpack(p, n): exactly n units, zeros included *)
Definition unpack (t : ety) (mem : list Z) (n : Z) : res pyval :=
  if n <? 0 then Err ValueError else of_units t (firstn (Z.to_nat n) mem).

(* ---------------------------------------------------------------- boolean equalities (harness) *)
Fixpoint zlist_eqb (x y : list Z) : bool :=
  match x, y with
  | [], [] => true
  | a :: x', b :: y' => (a =? b) && zlist_eqb x' y'
  | _, _ => false
  end.
Definition exn_eqb (a b : exn) : bool :=
  match a, b with
  | IndexError, IndexError | TypeError, TypeError | ValueError, ValueError | SystemError, SystemError => true
  | _, _ => false
  end.
Definition pyval_eqb (a b : pyval) : bool :=
  match a, b with
  | PBytes x, PBytes y => zlist_eqb x y
  | PStr x, PStr y => zlist_eqb x y
  | _, _ => false
  end.
Definition resl_eqb (a b : res (list Z)) : bool :=
  match a, b with Ok x, Ok y => zlist_eqb x y | Err x, Err y => exn_eqb x y | _, _ => false end.
Definition resv_eqb (a b : res pyval) : bool :=
  match a, b with Ok x, Ok y => pyval_eqb x y | Err x, Err y => exn_eqb x y | _, _ => false end.
