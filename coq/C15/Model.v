(* C15 — model of character arrays and strings:
     wchar_helper_3.h: _my_PyUnicode_SizeAsChar16/32, _my_PyUnicode_AsChar16/32 (with the terminator
       fix of commit 2103790), _my_PyUnicode_FromChar16/32 — NOT written here: they are REGENERATED from
       the C source into C15/Gen.v on every run (tools/props/c15_regen.py; size16, size32, as_char16,
       as_char32, from_char16, from_char32, count_surrogates, join16_loop), on top of the CPython
       specifications of C15/Spec.v (exn, res, zlen, PyUnicode_...);
     _cffi_backend.c: get_new_array_length :1346, convert_array_from_object string branches :1507-1557,
       b_string scans :6759, b_unpack string branch :6906.
   Memory is modelled at the level of units (8/16/32-bit code units; the harness decodes the raw
   little-endian bytes).  A Python str is a list of code points (0..0x10FFFF, lone surrogates
   allowed); a Python bytes a list of byte values.  Definitions only. *)
From Coq Require Import ZArith List Bool.
Import ListNotations.
From Cffi Require Export C15.Spec C15.Gen.
Open Scope Z_scope.

(* ---------------------------------------------------------------- element types and Python values *)
Inductive ety := E8 | E16 | E32.     (* char (also signed/unsigned char) / char16_t / char32_t, wchar_t *)
Inductive pyval := PBytes (bs : list Z) | PStr (cps : list Z).

Definition ety_eqb (a b : ety) : bool :=
  match a, b with E8, E8 | E16, E16 | E32, E32 => true | _, _ => false end.

(* get_new_array_length :1346 for a bytes / str initializer of ffi.new("T[]", init) *)
Definition new_array_length (t : ety) (v : pyval) : Z :=
  match v with
  | PBytes bs => zlen bs + 1
  | PStr s => (match t with E16 => size16 s | _ => size32 s end) + 1     (* ct_size == 2 ? ... : ... *)
  end.

(* convert_array_from_object :1507-1557: the units stored from data[0] on.
   ct_length = -1 for an open array type T[] *)
Definition convert_array (t : ety) (ct_length : Z) (v : pyval) : res (list Z) :=
  match t, v with
  | E8, PBytes bs =>
      let n := zlen bs in
      if (0 <=? ct_length) && (ct_length <? n) then Err IndexError
      else Ok (if negb (n =? ct_length) then bs ++ [0] else bs)     (* n++ : PyBytes keeps a NUL at the end *)
  | E8, PStr _ => Err TypeError
  | _, PBytes _ => Err TypeError
  | E16, PStr s =>
      let n := size16 s in
      if (0 <=? ct_length) && (ct_length <? n) then Err IndexError
      else as_char16 s (if negb (n =? ct_length) then n + 1 else n)
  | E32, PStr s =>
      let n := size32 s in
      if (0 <=? ct_length) && (ct_length <? n) then Err IndexError
      else as_char32 s (if negb (n =? ct_length) then n + 1 else n)
  end.

(* the memory of an array, in units; a store of [us] at the start of the array *)
Definition store (mem us : list Z) : list Z := us ++ skipn (length us) mem.

(* p.a = v for a field `T a[k]` whose units are mem (length k); x = ffi.new("T[k]", v) is the same
   on zeroed memory *)
Definition assign (t : ety) (mem : list Z) (v : pyval) : res (list Z) :=
  match convert_array t (zlen mem) v with
  | Err e => Err e
  | Ok us => Ok (store mem us)
  end.

Definition zeros (n : Z) : list Z := repeat 0 (Z.to_nat n).

(* ffi.new("T[]", v): allocation of new_array_length units, zero-filled, then the conversion with
   ct_length = -1 *)
Definition new_open_array (t : ety) (v : pyval) : res (list Z) :=
  match convert_array t (-1) v with
  | Err e => Err e
  | Ok us => Ok (store (zeros (new_array_length t v)) us)
  end.

(* ---------------------------------------------------------------- ffi.string / ffi.unpack *)
Fixpoint until_zero (us : list Z) : list Z :=
  match us with
  | [] => []
  | u :: r => if u =? 0 then [] else u :: until_zero r
  end.

Definition of_units (t : ety) (us : list Z) : res pyval :=
  match t with
  | E8 => Ok (PBytes us)
  | E16 => match from_char16 us with Ok s => Ok (PStr s) | Err e => Err e end
  | E32 => match from_char32 us with Ok s => Ok (PStr s) | Err e => Err e end
  end.

(* ffi.string(x, maxlen) for an array cdata x over mem (maxlen < 0: not given -> the array length).
   The scan stops at the first zero unit or after `length` units. *)
Definition string_array (t : ety) (mem : list Z) (maxlen : Z) : res pyval :=
  let length := if maxlen <? 0 then zlen mem else maxlen in
  of_units t (until_zero (firstn (Z.to_nat length) mem)).

(* ffi.string(p, maxlen) for a pointer into mem: without maxlen the scan is unbounded (strlen) *)
Definition string_pointer (t : ety) (mem : list Z) (maxlen : Z) : res pyval :=
  if maxlen <? 0 then of_units t (until_zero mem)
  else of_units t (until_zero (firstn (Z.to_nat maxlen) mem)).

(* ffi.unpack(p, n): exactly n units, zeros included *)
Definition unpack (t : ety) (mem : list Z) (n : Z) : res pyval :=
  if n <? 0 then Err ValueError else of_units t (firstn (Z.to_nat n) mem).

(* ---------------------------------------------------------------- boolean equalities (harness) *)
Fixpoint zlist_eqb (x y : list Z) : bool :=
  match x, y with
  | [], [] => true
  | a :: x', b :: y' => (a =? b) && zlist_eqb x' y'
  | _, _ => false
  end.
Definition pyval_eqb (a b : pyval) : bool :=
  match a, b with
  | PBytes x, PBytes y => zlist_eqb x y
  | PStr x, PStr y => zlist_eqb x y
  | _, _ => false
  end.
Definition resl_eqb (a b : res (list Z)) : bool :=
  match a, b with Ok x, Ok y => zlist_eqb x y | Err x, Err y => exn_eqb x y | _, _ => false end.
Definition resv_eqb (a b : res pyval) : bool :=
  match a, b with Ok x, Ok y => pyval_eqb x y | Err x, Err y => exn_eqb x y | _, _ => false end.
