(* C15 — proofs about the string / character-array model. *)
From Coq Require Import ZArith List Bool Lia.
Import ListNotations.
From Cffi Require Import C15.Model C15.WProofs.
Open Scope Z_scope.

Definition zero_free (l : list Z) : Prop := Forall (fun c => c <> 0) l.

(* the size computed by the sizing pass is the number of units the copy loop writes
   (C15/WProofs.v: as_char16_loop_total, as_char16_loop_length, on the regenerated code) *)
Theorem as_char16_loop_size : forall s, valid_str s ->
  exists us, as_char16_loop s = Ok us /\ zlen us = size16 s.
Proof.
  intros s Hv. destruct (as_char16_loop_total s Hv) as [us Hus]. exists us. split; [exact Hus|].
  apply as_char16_loop_length; [|exact Hus].
  eapply Forall_impl; [|exact Hv]. unfold valid_cp. intros; lia.
Qed.

(* decode16 (encode16 s) = s when s has no high surrogate immediately followed by a low one *)
Theorem decode16_encode16 : forall s us, valid_str s -> count_surrogates s = 0 ->
  as_char16_loop s = Ok us -> from_char16 us = Ok s.
Proof. intros s us Hv Hc Hus. apply (decode16_encode16_iff s us Hv Hus). exact Hc. Qed.

(* ... and this is false otherwise (inherent to UTF-16) *)
Theorem decode16_encode16_refuted : exists s us, valid_str s /\
  as_char16_loop s = Ok us /\ from_char16 us <> Ok s.
Proof.
  exists [0xD83D; 0xDE00], [0xD83D; 0xDE00]. split.
  - repeat constructor; unfold valid_cp; lia.
  - split; [reflexivity|]. vm_compute. discriminate.
Qed.

(* units of a zero-free string are non-zero *)
Lemma as_char16_loop_zero_free : forall s us, valid_str s -> zero_free s ->
  as_char16_loop s = Ok us -> zero_free us.
Proof.
  induction s as [|c r IH]; intros us Hv Hz H.
  - inversion H; constructor.
  - inversion Hv as [|? ? Hc Hr]; subst. inversion Hz as [|? ? Hc0 Hz']; subst.
    unfold valid_cp in Hc. rewrite as_char16_loop_cons in H by lia.
    destruct (Z.ltb_spec 0xFFFF c).
    + destruct (Z.ltb_spec 0x10FFFF c); [lia|].
      destruct (as_char16_loop r) as [us0|] eqn:E0; [|discriminate]. inversion H; subst.
      destruct (surrogates_of_astral c ltac:(lia)) as [_ [_ [_ [Hh0 Hl0]]]].
      repeat constructor; auto. apply IH; auto.
    + destruct (as_char16_loop r) as [us0|] eqn:E0; [|discriminate]. inversion H; subst.
      constructor; auto. apply IH; auto.
Qed.

(* ---------------------------------------------------------------- scans *)
Lemma until_zero_app_zero : forall us rest, zero_free us -> until_zero (us ++ 0 :: rest) = us.
Proof.
  induction us as [|u r IH]; intros rest H; [reflexivity|].
  inversion H; subst. cbn [app until_zero]. destruct (Z.eqb_spec u 0); [contradiction|].
  f_equal. apply IH; assumption.
Qed.

Lemma until_zero_all : forall us, zero_free us -> until_zero us = us.
Proof.
  induction us as [|u r IH]; intros H; [reflexivity|].
  inversion H; subst. cbn [until_zero]. destruct (Z.eqb_spec u 0); [contradiction|].
  f_equal. apply IH; assumption.
Qed.

(* ffi.string stops at the first zero unit: the result is a zero-free prefix, followed by a zero or
   by the end of the scanned range *)
Theorem until_zero_spec : forall us, exists rest,
  us = until_zero us ++ rest /\ zero_free (until_zero us) /\
  (rest = [] \/ exists rest', rest = 0 :: rest').
Proof.
  induction us as [|u r IH].
  - exists []. repeat split; [constructor|left; reflexivity].
  - cbn [until_zero]. destruct (Z.eqb_spec u 0) as [->|Hne].
    + exists (0 :: r). repeat split; [constructor|right; eexists; reflexivity].
    + destruct IH as [rest [H1 [H2 H3]]]. exists rest. repeat split.
      * cbn [app]. f_equal. exact H1.
      * constructor; assumption.
      * exact H3.
Qed.

(* ---------------------------------------------------------------- stores *)
Lemma store_zeros : forall us n, zlen us = n -> store (zeros n) us = us.
Proof.
  intros us n H. unfold store, zeros. rewrite skipn_all2; [apply app_nil_r|].
  rewrite repeat_length. unfold zlen in H. lia.
Qed.

Lemma from_char32_valid : forall s, valid_str s -> from_char32 s = Ok s.
Proof.
  intros s H. rewrite from_char32_eq.
  assert (existsb (fun u => 0x10FFFF <? u) s = false) as ->; [|reflexivity].
  induction H as [|c r Hc Hr IH]; [reflexivity|]. cbn [existsb]. rewrite IH.
  unfold valid_cp in Hc. destruct (Z.ltb_spec 0x10FFFF c); [lia|reflexivity].
Qed.

(* what a value is, as units, for an element type *)
Definition units_of (t : ety) (v : pyval) : res (list Z) :=
  match t, v with
  | E8, PBytes bs => Ok bs
  | E16, PStr s => as_char16_loop s
  | E32, PStr s => Ok s
  | _, _ => Err TypeError
  end.

Definition wf_value (t : ety) (v : pyval) : Prop :=
  match t, v with
  | E8, PBytes bs => True
  | E16, PStr s => valid_str s
  | E32, PStr s => valid_str s
  | _, _ => False
  end.

Lemma units_size : forall t v us, wf_value t v -> units_of t v = Ok us ->
  zlen us + 1 = new_array_length t v.
Proof.
  intros t v us Hw Hu. destruct t, v; cbn in Hw; try contradiction; cbn [units_of] in Hu;
    cbn [new_array_length].
  - inversion Hu; subst. reflexivity.
  - destruct (as_char16_loop_size cps Hw) as [us' [E Hl]]. rewrite E in Hu. inversion Hu; subst. lia.
  - inversion Hu; subst. reflexivity.
Qed.

(* the conversion: IndexError when too long, the units alone when they fill the array exactly, the
   units and ONE zero unit otherwise (ct_length = -1: open array) *)
Theorem convert_array_spec : forall t v us k, wf_value t v -> units_of t v = Ok us -> -1 <= k ->
  convert_array t k v =
  if (0 <=? k) && (k <? zlen us) then Err IndexError
  else if zlen us =? k then Ok us
  else Ok (us ++ [0]).
Proof.
  intros t v us k Hw Hu Hk. pose proof (zlen_nonneg us) as Hp.
  destruct t, v; cbn in Hw; try contradiction; cbn [units_of] in Hu; cbn [convert_array].
  - inversion Hu; subst.
    destruct ((0 <=? k) && (k <? zlen us)); [reflexivity|].
    destruct (Z.eqb_spec (zlen us) k); reflexivity.
  - destruct (as_char16_loop_size cps Hw) as [us' [E Hl]]. rewrite E in Hu. inversion Hu; subst us'.
    rewrite <- Hl.
    destruct ((0 <=? k) && (k <? zlen us)); [reflexivity|].
    unfold as_char16. rewrite E.
    destruct (Z.eqb_spec (zlen us) k); cbn [negb].
    + destruct (Z.ltb_spec (zlen us) (zlen us)); [lia|reflexivity].
    + destruct (Z.ltb_spec (zlen us) (zlen us + 1)); [reflexivity|lia].
  - inversion Hu; subst. unfold size32.
    destruct ((0 <=? k) && (k <? zlen us)); [reflexivity|].
    unfold as_char32, PyUnicode_AsUCS4. cbn zeta.
    destruct (Z.eqb_spec (zlen us) k); cbn [negb].
    + destruct (Z.ltb_spec (zlen us) (zlen us)); [lia|].
      destruct (Z.ltb_spec (zlen us) (zlen us + 0)); [lia|reflexivity].
    + destruct (Z.ltb_spec (zlen us) (zlen us + 1)); [|lia].
      destruct (Z.ltb_spec (zlen us + 1) (zlen us + 1)); [lia|reflexivity].
Qed.

(* assignment to a fixed-size array of k units *)
Theorem assign_shorter : forall t mem v us, wf_value t v -> units_of t v = Ok us ->
  zlen us < zlen mem ->
  assign t mem v = Ok (us ++ [0] ++ skipn (length us + 1) mem).
Proof.
  intros t mem v us Hw Hu Hl. unfold assign. pose proof (zlen_nonneg us) as Hp.
  rewrite (convert_array_spec t v us (zlen mem) Hw Hu) by lia.
  destruct (Z.leb_spec 0 (zlen mem)); [|lia]. destruct (Z.ltb_spec (zlen mem) (zlen us)); [lia|].
  cbn [andb]. destruct (Z.eqb_spec (zlen us) (zlen mem)); [lia|].
  unfold store. rewrite app_length. cbn [length]. rewrite <- app_assoc. reflexivity.
Qed.

Theorem assign_exact : forall t mem v us, wf_value t v -> units_of t v = Ok us ->
  zlen us = zlen mem -> assign t mem v = Ok us.
Proof.
  intros t mem v us Hw Hu Hl. unfold assign. pose proof (zlen_nonneg us) as Hp.
  rewrite (convert_array_spec t v us (zlen mem) Hw Hu) by lia.
  destruct (Z.leb_spec 0 (zlen mem)); [|lia]. destruct (Z.ltb_spec (zlen mem) (zlen us)); [lia|].
  cbn [andb]. destruct (Z.eqb_spec (zlen us) (zlen mem)); [|lia].
  unfold store. rewrite skipn_all2 by (unfold zlen in Hl; lia). rewrite app_nil_r. reflexivity.
Qed.

Theorem assign_too_long : forall t mem v us, wf_value t v -> units_of t v = Ok us ->
  zlen mem < zlen us -> assign t mem v = Err IndexError.
Proof.
  intros t mem v us Hw Hu Hl. unfold assign. pose proof (zlen_nonneg mem) as Hp.
  rewrite (convert_array_spec t v us (zlen mem) Hw Hu) by lia.
  destruct (Z.leb_spec 0 (zlen mem)); [|lia]. destruct (Z.ltb_spec (zlen mem) (zlen us)); [|lia].
  reflexivity.
Qed.

(* frame: units after the terminator keep their old value; the terminator is there *)
Theorem assign_shorter_frame : forall t mem v us mem' j, wf_value t v -> units_of t v = Ok us ->
  zlen us < zlen mem -> assign t mem v = Ok mem' ->
  length mem' = length mem /\
  firstn (length us) mem' = us /\ nth_error mem' (length us) = Some 0 /\
  ((length us < j)%nat -> nth_error mem' j = nth_error mem j).
Proof.
  intros t mem v us mem' j Hw Hu Hl H. rewrite (assign_shorter t mem v us Hw Hu Hl) in H.
  inversion H; subst mem'; clear H. unfold zlen in Hl.
  split; [rewrite app_length; cbn [app length]; rewrite skipn_length; lia|].
  split; [rewrite firstn_app, Nat.sub_diag, firstn_all; cbn [firstn]; apply app_nil_r|].
  split; [rewrite nth_error_app2 by lia; rewrite Nat.sub_diag; reflexivity|].
  intros Hj. rewrite nth_error_app2 by lia. cbn [app].
  destruct (j - length us)%nat as [|m] eqn:E; [lia|]. cbn [nth_error].
  clear -E Hj. revert j m E Hj. generalize (length us) as k. intros k.
  revert k. induction mem as [|x mem IH]; intros k j m E Hj.
  - rewrite skipn_nil. destruct m, j; reflexivity.
  - destruct j as [|j]; [lia|]. destruct k as [|k].
    + cbn [skipn Nat.add]. assert (m = j) by lia. subst. reflexivity.
    + cbn [skipn Nat.add nth_error]. apply (IH k j m); lia.
Qed.

(* ---------------------------------------------------------------- round trip through ffi.new *)
Definition roundtrips (t : ety) (v : pyval) : Prop :=
  match t, v with
  | E8, PBytes bs => zero_free bs
  | E16, PStr s => valid_str s /\ zero_free s /\ count_surrogates s = 0
  | E32, PStr s => valid_str s /\ zero_free s
  | _, _ => False
  end.

Theorem string_new_roundtrip : forall t v, roundtrips t v ->
  exists mem, new_open_array t v = Ok mem /\ zlen mem = new_array_length t v /\
              string_array t mem (-1) = Ok v.
Proof.
  intros t v H.
  assert (wf_value t v) as Hw by (destruct t, v; cbn in *; tauto).
  assert (exists us, units_of t v = Ok us /\ zero_free us /\ of_units t us = Ok v) as [us [Hu [Hz Ho]]].
  { destruct t, v; cbn in H; try contradiction; cbn [units_of of_units].
    - eexists. repeat split; [exact H].
    - destruct H as [Hv [Hz Hc]]. destruct (as_char16_loop_size cps Hv) as [us [E _]].
      exists us. split; [exact E|]. split; [eapply as_char16_loop_zero_free; eauto|].
      rewrite (decode16_encode16 cps us Hv Hc E). reflexivity.
    - destruct H as [Hv Hz]. exists cps. repeat split; [exact Hz|].
      rewrite from_char32_valid by assumption. reflexivity. }
  pose proof (units_size t v us Hw Hu) as Hsz. pose proof (zlen_nonneg us) as Hp.
  unfold new_open_array. rewrite (convert_array_spec t v us (-1) Hw Hu) by lia.
  cbn [Z.leb Z.compare andb]. destruct (Z.eqb_spec (zlen us) (-1)); [lia|].
  exists (us ++ [0]). rewrite store_zeros by (rewrite zlen_app; cbn; lia).
  split; [reflexivity|]. split; [rewrite zlen_app; cbn; lia|].
  unfold string_array. cbn [Z.ltb Z.compare].
  unfold zlen. rewrite Nat2Z.id, firstn_all.
  rewrite until_zero_app_zero by assumption. exact Ho.
Qed.

(* ffi.unpack returns exactly n units *)
Theorem unpack_exact : forall mem n, 0 <= n <= zlen mem ->
  exists us, unpack E8 mem n = Ok (PBytes us) /\ zlen us = n /\ us = firstn (Z.to_nat n) mem.
Proof.
  intros mem n H. unfold unpack. destruct (Z.ltb_spec n 0); [lia|].
  eexists. split; [reflexivity|]. split; [|reflexivity].
  unfold zlen in *. rewrite firstn_length. lia.
Qed.

(* ---------------------------------------------------------------- ffi.string / ffi.unpack, top level *)
(* ffi.string(x, maxlen) on an array: the result is made of the units r before the first zero unit among
   the first `length` units (length = maxlen if given, else the array length) *)
Theorem string_array_stops : forall t mem maxlen,
  let length := if maxlen <? 0 then zlen mem else maxlen in
  exists r rest,
    firstn (Z.to_nat length) mem = r ++ rest /\ zero_free r /\
    (rest = [] \/ exists rest', rest = 0 :: rest') /\
    string_array t mem maxlen = of_units t r.
Proof.
  intros t mem maxlen length.
  destruct (until_zero_spec (firstn (Z.to_nat length) mem)) as [rest [H1 [H2 H3]]].
  exists (until_zero (firstn (Z.to_nat length) mem)), rest. repeat split; auto.
Qed.

(* ffi.string(p, maxlen) on a pointer: the same within maxlen units; without maxlen the scan runs to the
   first zero unit of the memory *)
Theorem string_pointer_stops : forall t mem maxlen,
  exists r rest,
    (if maxlen <? 0 then mem else firstn (Z.to_nat maxlen) mem) = r ++ rest /\ zero_free r /\
    (rest = [] \/ exists rest', rest = 0 :: rest') /\
    string_pointer t mem maxlen = of_units t r.
Proof.
  intros t mem maxlen. unfold string_pointer.
  destruct (maxlen <? 0).
  - destruct (until_zero_spec mem) as [rest [H1 [H2 H3]]].
    exists (until_zero mem), rest. repeat split; auto.
  - destruct (until_zero_spec (firstn (Z.to_nat maxlen) mem)) as [rest [H1 [H2 H3]]].
    exists (until_zero (firstn (Z.to_nat maxlen) mem)), rest. repeat split; auto.
Qed.

(* ffi.unpack(p, n), every element kind: exactly the first n units (zeros included) *)
Theorem unpack_exact_all : forall t mem n, 0 <= n <= zlen mem ->
  exists us, us = firstn (Z.to_nat n) mem /\ zlen us = n /\ unpack t mem n = of_units t us.
Proof.
  intros t mem n H. unfold unpack. destruct (Z.ltb_spec n 0); [lia|].
  eexists. split; [reflexivity|]. split; [|reflexivity].
  unfold zlen in *. rewrite firstn_length. lia.
Qed.

(* the hypotheses of string_new_roundtrip are satisfiable for every element type *)
Lemma roundtrips_examples :
  roundtrips E8 (PBytes [104; 105; 255]) /\ roundtrips E16 (PStr [0x1F600; 97; 0xD800; 0x20AC]) /\
  roundtrips E32 (PStr [0x1F600; 0xDC00; 97]).
Proof.
  unfold roundtrips, valid_str, zero_free, valid_cp.
  repeat split; repeat constructor; try lia; try discriminate.
Qed.
