(* C15 / C18 — lemmas about the REGENERATED wide-character helpers (C15/Gen.v, from
   src/c/wchar_helper_3.h).  Everything here is re-proved against the regenerated tests and arithmetic on
   every run; the statements are the interface used by C15/Proofs.v and C18/Proofs.v. *)
From Coq Require Import ZArith List Bool Lia ZifyBool.
Import ListNotations.
From Cffi Require Import C15.Spec C15.Gen.
Open Scope Z_scope.

(* names for the regenerated tests of _my_PyUnicode_FromChar16 *)
Definition is_hi (u : Z) : bool := fc16_hi_test u.
Definition is_lo (u : Z) : bool := fc16_lo_test u.
Definition join_pair (a b : Z) : Z := fc16_join a b.

Definition valid_cp (c : Z) : Prop := 0 <= c <= 0x10FFFF.
Definition valid_str (s : list Z) : Prop := Forall valid_cp s.

Lemma zlen_app : forall a b, zlen (a ++ b) = zlen a + zlen b.
Proof. intros. unfold zlen. rewrite app_length. lia. Qed.
Lemma zlen_cons : forall a l, zlen (a :: l) = 1 + zlen l.
Proof. intros. unfold zlen. cbn [length]. lia. Qed.
Lemma zlen_nonneg : forall l, 0 <= zlen l.
Proof. intros. unfold zlen. lia. Qed.

(* ---------------------------------------------------------------- the regenerated tests are the UTF-16 ranges *)
Lemma is_hi_range : forall u, is_hi u = true <-> 0xD800 <= u <= 0xDBFF.
Proof. intros u. unfold is_hi, fc16_hi_test. lia. Qed.

Lemma is_lo_range : forall u, is_lo u = true <-> 0xDC00 <= u <= 0xDFFF.
Proof. intros u. unfold is_lo, fc16_lo_test. lia. Qed.

(* the test of the counting loop is the conjunction of the two tests of the converting loop *)
Lemma pair_test_eq : forall a b, fc16_pair_test a b = is_hi a && is_lo b.
Proof. intros a b. unfold fc16_pair_test, is_hi, is_lo, fc16_hi_test, fc16_lo_test. lia. Qed.

(* the two ranges are disjoint: the low half of a pair cannot start another pair *)
Lemma hi_not_lo : forall u, is_lo u = true -> is_hi u = false.
Proof.
  intros u H. apply is_lo_range in H. destruct (is_hi u) eqn:E; [|reflexivity].
  apply is_hi_range in E. lia.
Qed.

Lemma u32_small : forall x, 0 <= x < 2 ^ 32 -> u32 x = x.
Proof. intros. unfold u32. apply Z.mod_small. assumption. Qed.
Lemma u16_small : forall x, 0 <= x < 2 ^ 16 -> u16 x = x.
Proof. intros. unfold u16. apply Z.mod_small. assumption. Qed.

Lemma lor_shiftl_add : forall x y, 0 <= x -> 0 <= y < 1024 ->
  Z.lor (Z.shiftl x 10) y = x * 1024 + y.
Proof.
  intros x y Hx Hy.
  assert (Z.land (Z.shiftl x 10) y = 0) as Hd.
  { apply Z.bits_inj'. intros i Hi. rewrite Z.land_spec, Z.bits_0.
    destruct (Z.ltb_spec i 10).
    - rewrite Z.shiftl_spec_low by lia. reflexivity.
    - destruct (Z.eq_dec y 0) as [->|Hne]; [rewrite Z.bits_0; apply andb_false_r|].
      rewrite (Z.bits_above_log2 y i); [apply andb_false_r|lia|].
      apply Z.log2_lt_pow2; [lia|]. apply Z.lt_le_trans with (2 ^ 10); [lia|].
      apply Z.pow_le_mono_r; lia. }
  rewrite <- Z.lxor_lor by assumption. rewrite <- Z.add_nocarry_lxor by assumption.
  rewrite Z.shiftl_mul_pow2 by lia. reflexivity.
Qed.

(* the value built from a pair: the usual UTF-16 formula, no wrap *)
Lemma join_pair_val : forall a b, is_hi a = true -> is_lo b = true ->
  join_pair a b = (a - 0xD800) * 1024 + (b - 0xDC00) + 0x10000.
Proof.
  intros a b Ha Hb. apply is_hi_range in Ha. apply is_lo_range in Hb.
  unfold join_pair, fc16_join.
  change 0x3FF with (Z.ones 10). rewrite !Z.land_ones by lia. change (2 ^ 10) with 1024.
  assert (a mod 1024 = a - 0xD800) as -> by (symmetry; apply Z.mod_unique with (q := 54); lia).
  assert (b mod 1024 = b - 0xDC00) as -> by (symmetry; apply Z.mod_unique with (q := 55); lia).
  rewrite lor_shiftl_add by lia. apply u32_small. change (2 ^ 32) with 4294967296. lia.
Qed.

Lemma join_pair_astral : forall a b, is_hi a = true -> is_lo b = true ->
  0xFFFF < join_pair a b <= 0x10FFFF.
Proof.
  intros a b Ha Hb. rewrite join_pair_val by assumption.
  apply is_hi_range in Ha. apply is_lo_range in Hb. lia.
Qed.

(* ---------------------------------------------------------------- the two loops of FromChar16 *)
Lemma count_surrogates_cons2 : forall a b r,
  count_surrogates (a :: b :: r) = (if is_hi a && is_lo b then 1 else 0) + count_surrogates (b :: r).
Proof. intros. cbn [count_surrogates]. rewrite pair_test_eq. reflexivity. Qed.

Lemma join16_loop_cons2 : forall a b r,
  join16_loop (a :: b :: r) =
  if is_hi a && is_lo b then join_pair a b :: join16_loop r else a :: join16_loop (b :: r).
Proof. reflexivity. Qed.

Lemma count_surrogates_nonneg : forall w, 0 <= count_surrogates w.
Proof.
  induction w as [|x l IHl]; [cbn; lia|].
  destruct l as [|y l']; [cbn; lia|].
  rewrite count_surrogates_cons2. destruct (is_hi x && is_lo y); lia.
Qed.

(* a unit that is not a high surrogate starts no pair *)
Lemma count_surrogates_skip : forall b r, is_hi b = false ->
  count_surrogates (b :: r) = count_surrogates r.
Proof.
  intros b r H. destruct r as [|c r']; [reflexivity|].
  rewrite count_surrogates_cons2, H. cbn [andb]. lia.
Qed.

(* the converting loop writes exactly size - count_surrogates items: the str allocated by
   PyUnicode_New(size - count_surrogates, ...) is filled exactly (needs the disjointness of the two
   ranges: every counted pair is joined and only those) *)
Theorem join16_length : forall w, zlen (join16_loop w) + count_surrogates w = zlen w.
Proof.
  intros w. remember (length w) as n eqn:Hn. revert w Hn.
  induction n as [n IH] using lt_wf_ind. intros w Hn.
  destruct w as [|a r]; [reflexivity|]. destruct r as [|b r']; [reflexivity|].
  rewrite count_surrogates_cons2, join16_loop_cons2.
  destruct (is_hi a && is_lo b) eqn:E.
  - apply andb_prop in E. destruct E as [_ Eb].
    rewrite count_surrogates_skip by (apply hi_not_lo; assumption).
    pose proof (IH (length r') ltac:(subst; cbn; lia) r' eq_refl) as H.
    rewrite !zlen_cons. lia.
  - pose proof (IH (length (b :: r')) ltac:(subst; cbn; lia) (b :: r') eq_refl) as H.
    rewrite (zlen_cons a (b :: r')), zlen_cons. lia.
Qed.

Lemma count_zero_join : forall w, count_surrogates w = 0 -> join16_loop w = w.
Proof.
  intros w. remember (length w) as n eqn:Hn. revert w Hn.
  induction n as [n IH] using lt_wf_ind. intros w Hn Hc.
  destruct w as [|a r]; [reflexivity|]. destruct r as [|b r']; [reflexivity|].
  rewrite count_surrogates_cons2 in Hc. rewrite join16_loop_cons2.
  pose proof (count_surrogates_nonneg (b :: r')) as Hp.
  destruct (is_hi a && is_lo b); [lia|].
  f_equal. apply (IH (length (b :: r'))); [subst; cbn; lia|reflexivity|lia].
Qed.

(* whole-run conversion leaves the units unchanged exactly when no pair is adjacent *)
Theorem join16_fixed_iff : forall w, join16_loop w = w <-> count_surrogates w = 0.
Proof.
  intros w. split; [|apply count_zero_join].
  intros H. pose proof (join16_length w) as L. rewrite H in L. lia.
Qed.

(* an adjacent pair, as a decomposition of the list *)
Definition has_pair (w : list Z) : Prop :=
  exists l1 a b l2, w = l1 ++ a :: b :: l2 /\ is_hi a = true /\ is_lo b = true.

Lemma count_pos_has_pair : forall w, count_surrogates w <> 0 <-> has_pair w.
Proof.
  intros w. split.
  - induction w as [|a r IH]; intros H; [cbn in H; lia|].
    destruct r as [|b r']; [cbn in H; lia|].
    rewrite count_surrogates_cons2 in H.
    destruct (is_hi a && is_lo b) eqn:E.
    + apply andb_prop in E. exists [], a, b, r'. tauto.
    + destruct (IH ltac:(lia)) as [l1 [x [y [l2 [Heq Hxy]]]]].
      exists (a :: l1), x, y, l2. rewrite Heq. tauto.
  - intros [l1 [a [b [l2 [-> [Ha Hb]]]]]].
    induction l1 as [|x l1 IH].
    + cbn [app]. rewrite count_surrogates_cons2, Ha, Hb. cbn [andb].
      pose proof (count_surrogates_nonneg (b :: l2)). lia.
    + cbn [app]. destruct (l1 ++ a :: b :: l2) as [|y t] eqn:E; [destruct l1; discriminate|].
      pose proof (count_surrogates_nonneg (y :: t)).
      rewrite count_surrogates_cons2. destruct (is_hi x && is_lo y); lia.
Qed.

(* _my_PyUnicode_FromChar16 as a whole: never an error (the allocation is exact), the units
   themselves when no pair is adjacent, the joined units otherwise *)
Theorem from_char16_eq : forall w,
  from_char16 w = if count_surrogates w =? 0 then Ok w else Ok (join16_loop w).
Proof.
  intros w. unfold from_char16. destruct (count_surrogates w =? 0); [reflexivity|].
  unfold PyUnicode_New_filled.
  assert ((MAX_UNICODE <? fc16_maxchar) = false) as -> by reflexivity.
  pose proof (join16_length w) as L.
  destruct (Z.eqb_spec (zlen (join16_loop w)) (zlen w - count_surrogates w)); [reflexivity|lia].
Qed.

Lemma from_char16_join : forall w, from_char16 w = Ok (join16_loop w).
Proof.
  intros w. rewrite from_char16_eq. destruct (Z.eqb_spec (count_surrogates w) 0) as [E|E]; [|reflexivity].
  rewrite count_zero_join by assumption. reflexivity.
Qed.

Lemma from_char16_single : forall u, from_char16 [u] = Ok [u].
Proof. intros. reflexivity. Qed.

(* _my_PyUnicode_FromChar32: the identity on code units, or CPython's SystemError above 0x10FFFF *)
Lemma from_char32_eq : forall w,
  from_char32 w = if existsb (fun u => 0x10FFFF <? u) w then Err SystemError else Ok w.
Proof. reflexivity. Qed.

(* ---------------------------------------------------------------- the encoder _my_PyUnicode_AsChar16 *)
Definition hi_of (c : Z) : Z := ac16_hi (ac16_sub c).
Definition lo_of (c : Z) : Z := ac16_lo (ac16_sub c).

Lemma ac16_astral_iff : forall c, ac16_astral_test c = true <-> 0xFFFF < c.
Proof. intros. unfold ac16_astral_test. lia. Qed.
Lemma ac16_range_iff : forall c, ac16_range_test c = true <-> 0x10FFFF < c.
Proof. intros. unfold ac16_range_test. lia. Qed.

Lemma ac16_sub_val : forall c, 0xFFFF < c <= 0x10FFFF -> ac16_sub c = c - 0x10000.
Proof. intros c H. unfold ac16_sub. apply u32_small. change (2 ^ 32) with 4294967296. lia. Qed.

Lemma hi_of_val : forall c, 0xFFFF < c <= 0x10FFFF -> hi_of c = 0xD800 + (c - 0x10000) / 1024.
Proof.
  intros c H. unfold hi_of. rewrite ac16_sub_val by assumption. unfold ac16_hi.
  rewrite Z.shiftr_div_pow2 by lia. change (2 ^ 10) with 1024.
  assert (0 <= (c - 0x10000) / 1024 < 1024) as Hq
    by (split; [apply Z.div_pos; lia|apply Z.div_lt_upper_bound; lia]).
  change 0xD800 with (Z.shiftl 54 10) at 1. rewrite lor_shiftl_add by lia.
  apply u16_small. change (2 ^ 16) with 65536. lia.
Qed.

Lemma lo_of_val : forall c, 0xFFFF < c <= 0x10FFFF -> lo_of c = 0xDC00 + (c - 0x10000) mod 1024.
Proof.
  intros c H. unfold lo_of. rewrite ac16_sub_val by assumption. unfold ac16_lo.
  change 0x3FF with (Z.ones 10). rewrite Z.land_ones by lia. change (2 ^ 10) with 1024.
  pose proof (Z.mod_pos_bound (c - 0x10000) 1024 ltac:(lia)) as Hm.
  change 0xDC00 with (Z.shiftl 55 10) at 1. rewrite lor_shiftl_add by lia.
  apply u16_small. change (2 ^ 16) with 65536. lia.
Qed.

Lemma ac16_bmp_val : forall c, 0 <= c <= 0xFFFF -> ac16_bmp c = c.
Proof. intros c H. unfold ac16_bmp. apply u16_small. change (2 ^ 16) with 65536. lia. Qed.

Lemma surrogates_of_astral : forall c, 0xFFFF < c <= 0x10FFFF ->
  is_hi (hi_of c) = true /\ is_lo (lo_of c) = true /\ join_pair (hi_of c) (lo_of c) = c /\
  hi_of c <> 0 /\ lo_of c <> 0.
Proof.
  intros c H.
  pose proof (Z.mod_pos_bound (c - 0x10000) 1024 ltac:(lia)) as Hm.
  assert (0 <= (c - 0x10000) / 1024 < 1024) as Hq
    by (split; [apply Z.div_pos; lia|apply Z.div_lt_upper_bound; lia]).
  pose proof (Z.div_mod (c - 0x10000) 1024 ltac:(lia)) as Hdm.
  assert (is_hi (hi_of c) = true) as Hh by (apply is_hi_range; rewrite hi_of_val by assumption; lia).
  assert (is_lo (lo_of c) = true) as Hl by (apply is_lo_range; rewrite lo_of_val by assumption; lia).
  split; [exact Hh|]. split; [exact Hl|].
  split; [rewrite join_pair_val by assumption|]; rewrite hi_of_val, lo_of_val by assumption; lia.
Qed.

Lemma as_char16_loop_cons : forall c r, 0 <= c ->
  as_char16_loop (c :: r) =
  if 0xFFFF <? c then
    if 0x10FFFF <? c then Err ValueError
    else match as_char16_loop r with
         | Err e => Err e
         | Ok us => Ok (hi_of c :: lo_of c :: us)
         end
  else match as_char16_loop r with Err e => Err e | Ok us => Ok (c :: us) end.
Proof.
  intros c r Hc. cbn [as_char16_loop].
  destruct (Z.ltb_spec 0xFFFF c) as [H|H].
  - assert (ac16_astral_test c = true) as -> by (apply ac16_astral_iff; lia).
    destruct (Z.ltb_spec 0x10FFFF c) as [H2|H2].
    + assert (ac16_range_test c = true) as -> by (apply ac16_range_iff; lia). reflexivity.
    + destruct (ac16_range_test c) eqn:E; [apply ac16_range_iff in E; lia|]. reflexivity.
  - destruct (ac16_astral_test c) eqn:E; [apply ac16_astral_iff in E; lia|].
    rewrite ac16_bmp_val by lia. reflexivity.
Qed.

(* ---------------------------------------------------------------- _my_PyUnicode_SizeAsChar16 *)
(* the test of the sizing pass is the test of the writing pass *)
Lemma sz16_test_is_ac16_test : forall c, sz16_astral_test c = ac16_astral_test c.
Proof. intros. unfold sz16_astral_test, ac16_astral_test. lia. Qed.

Lemma sz16_count_nonneg : forall s, 0 <= sz16_count s.
Proof. induction s as [|c r IH]; cbn [sz16_count]; [lia|]. destruct (sz16_astral_test c); lia. Qed.

(* strings of the 1- and 2-byte kinds have no code point above 0xFFFF (CPython's invariant, Spec),
   so skipping the loop for them changes nothing *)
Lemma size16_unfold : forall s, size16 s = zlen s + sz16_count s.
Proof.
  intros s. unfold size16, PyUnicode_KIND.
  destruct (existsb (fun c => 0xFFFF <? c) s) eqn:E; [reflexivity|].
  assert (sz16_count s = 0) as ->.
  { induction s as [|c r IH]; [reflexivity|]. cbn [existsb] in E. apply orb_false_iff in E.
    destruct E as [E1 E2]. cbn [sz16_count]. rewrite IH by assumption.
    rewrite sz16_test_is_ac16_test.
    destruct (ac16_astral_test c) eqn:E3; [apply ac16_astral_iff in E3; lia|reflexivity]. }
  destruct (existsb (fun c => 0xFF <? c) s); cbn; lia.
Qed.

Lemma size16_cons : forall c r,
  size16 (c :: r) = (if 0xFFFF <? c then 2 else 1) + size16 r.
Proof.
  intros c r. rewrite !size16_unfold. cbn [sz16_count]. rewrite zlen_cons, sz16_test_is_ac16_test.
  destruct (Z.ltb_spec 0xFFFF c) as [H|H].
  - assert (ac16_astral_test c = true) as -> by (apply ac16_astral_iff; lia). lia.
  - destruct (ac16_astral_test c) eqn:E; [apply ac16_astral_iff in E; lia|]. lia.
Qed.

Lemma size16_nil : size16 [] = 0.
Proof. reflexivity. Qed.

(* the allocation computed by _my_PyUnicode_SizeAsChar16 is exactly the number of units that
   _my_PyUnicode_AsChar16 writes - for EVERY list of code points on which the writer succeeds *)
Theorem as_char16_loop_length : forall s us, Forall (fun c => 0 <= c) s ->
  as_char16_loop s = Ok us -> zlen us = size16 s.
Proof.
  induction s as [|c r IH]; intros us Hv H.
  - inversion H; subst. reflexivity.
  - inversion Hv as [|? ? Hc Hr]; subst. rewrite as_char16_loop_cons in H by assumption.
    rewrite size16_cons.
    destruct (0xFFFF <? c).
    + destruct (0x10FFFF <? c); [discriminate|].
      destruct (as_char16_loop r) as [us0|] eqn:E; [|discriminate]. inversion H; subst.
      rewrite !zlen_cons. rewrite (IH us0 Hr eq_refl). lia.
    + destruct (as_char16_loop r) as [us0|] eqn:E; [|discriminate]. inversion H; subst.
      rewrite zlen_cons. rewrite (IH us0 Hr eq_refl). lia.
Qed.

(* ... and the writer fails exactly on a code point above 0x10FFFF (which no Python str has) *)
Theorem as_char16_loop_total : forall s, valid_str s -> exists us, as_char16_loop s = Ok us.
Proof.
  induction s as [|c r IH]; intros Hv; [eexists; reflexivity|].
  inversion Hv as [|? ? Hc Hr]; subst. destruct (IH Hr) as [us Hus]. unfold valid_cp in Hc.
  rewrite as_char16_loop_cons, Hus by lia.
  destruct (Z.ltb_spec 0xFFFF c); [destruct (Z.ltb_spec 0x10FFFF c); [lia|]|]; eexists; reflexivity.
Qed.

Theorem as_char16_loop_error : forall s e, Forall (fun c => 0 <= c) s ->
  as_char16_loop s = Err e -> e = ValueError /\ exists c, In c s /\ 0x10FFFF < c.
Proof.
  induction s as [|c r IH]; intros e Hv H; [discriminate|].
  inversion Hv as [|? ? Hc Hr]; subst. rewrite as_char16_loop_cons in H by assumption.
  destruct (Z.ltb_spec 0xFFFF c).
  - destruct (Z.ltb_spec 0x10FFFF c).
    + inversion H; subst. split; [reflexivity|]. exists c. split; [left; reflexivity|assumption].
    + destruct (as_char16_loop r) as [us0|e0] eqn:E; [discriminate|]. inversion H; subst.
      destruct (IH e Hr eq_refl) as [He [d [Hd Hd2]]]. split; [exact He|]. exists d. split; [right|]; assumption.
  - destruct (as_char16_loop r) as [us0|e0] eqn:E; [discriminate|]. inversion H; subst.
    destruct (IH e Hr eq_refl) as [He [d [Hd Hd2]]]. split; [exact He|]. exists d. split; [right|]; assumption.
Qed.

(* every unit written is a 16-bit value *)
Lemma as_char16_loop_units16 : forall s us, valid_str s -> as_char16_loop s = Ok us ->
  Forall (fun u => 0 <= u < 0x10000) us.
Proof.
  induction s as [|c r IH]; intros us Hv H.
  - inversion H; constructor.
  - inversion Hv as [|? ? Hc Hr]; subst. unfold valid_cp in Hc. rewrite as_char16_loop_cons in H by lia.
    destruct (Z.ltb_spec 0xFFFF c).
    + destruct (Z.ltb_spec 0x10FFFF c); [lia|].
      destruct (as_char16_loop r) as [us0|] eqn:E; [|discriminate]. inversion H; subst.
      destruct (surrogates_of_astral c ltac:(lia)) as [Hh [Hl _]].
      apply is_hi_range in Hh. apply is_lo_range in Hl.
      constructor; [lia|]. constructor; [lia|]. apply IH; auto.
    + destruct (as_char16_loop r) as [us0|] eqn:E; [|discriminate]. inversion H; subst.
      constructor; [lia|]. apply IH; auto.
Qed.

(* ---------------------------------------------------------------- decode after encode *)
(* head of the encoding of a non-empty string *)
Lemma as_char16_loop_head : forall c r us, valid_cp c -> as_char16_loop (c :: r) = Ok us ->
  exists u us', us = u :: us' /\ (if 0xFFFF <? c then is_lo u = false else u = c).
Proof.
  intros c r us Hc H. unfold valid_cp in Hc. rewrite as_char16_loop_cons in H by lia.
  destruct (Z.ltb_spec 0xFFFF c).
  - destruct (Z.ltb_spec 0x10FFFF c); [lia|].
    destruct (as_char16_loop r) as [us0|]; [|discriminate]. inversion H; subst.
    do 2 eexists. split; [reflexivity|].
    destruct (surrogates_of_astral c ltac:(lia)) as [Hh _].
    destruct (is_lo (hi_of c)) eqn:E; [|reflexivity].
    apply hi_not_lo in E. congruence.
  - destruct (as_char16_loop r) as [us0|]; [|discriminate]. inversion H; subst.
    do 2 eexists. split; reflexivity.
Qed.

(* THE round trip, for every str: decoding the units written by _my_PyUnicode_AsChar16 gives the str
   with every (high surrogate code point, low surrogate code point) adjacent pair - scanned left to
   right - replaced by the astral code point they spell; every other code point, lone surrogates
   included, comes back unchanged and in place *)
Theorem join16_encode : forall s us, valid_str s -> as_char16_loop s = Ok us ->
  join16_loop us = join16_loop s.
Proof.
  intros s. remember (length s) as n eqn:Hn. revert s Hn.
  induction n as [n IH] using lt_wf_ind. intros s Hn us Hv Hus.
  destruct s as [|c r]; [inversion Hus; reflexivity|].
  inversion Hv as [|? ? Hcp Hr]; subst. unfold valid_cp in Hcp.
  pose proof Hus as Hus0. rewrite as_char16_loop_cons in Hus by lia.
  destruct (Z.ltb_spec 0xFFFF c) as [Hc|Hc].
  - (* astral: two units, joined back *)
    destruct (Z.ltb_spec 0x10FFFF c); [lia|].
    destruct (as_char16_loop r) as [us0|] eqn:E0; [|discriminate]. inversion Hus; subst us.
    destruct (surrogates_of_astral c ltac:(lia)) as [Hh [Hl [Hj _]]].
    rewrite join16_loop_cons2, Hh, Hl. cbn [andb]. rewrite Hj.
    assert (is_hi c = false) as Hnh.
    { destruct (is_hi c) eqn:E; [apply is_hi_range in E; lia|reflexivity]. }
    rewrite (IH (length r) ltac:(cbn; lia) r eq_refl us0 Hr E0).
    destruct r as [|d r']; [reflexivity|]. rewrite join16_loop_cons2, Hnh. reflexivity.
  - destruct (as_char16_loop r) as [us0|] eqn:E0; [|discriminate]. inversion Hus; subst us.
    destruct r as [|d r'].
    + inversion E0; subst. reflexivity.
    + inversion Hr as [|? ? Hd Hr']; subst.
      destruct (as_char16_loop_head d r' us0 Hd E0) as [u [us' [-> Hu]]].
      rewrite !join16_loop_cons2.
      destruct (Z.ltb_spec 0xFFFF d) as [Hdd|Hdd].
      * (* next is astral: its first unit is a high surrogate, d itself is no surrogate *)
        assert (is_lo d = false) as Hnl.
        { destruct (is_lo d) eqn:E; [apply is_lo_range in E; lia|reflexivity]. }
        rewrite Hu, Hnl, !andb_false_r. f_equal.
        apply (IH (length (d :: r')) ltac:(cbn; lia) (d :: r') eq_refl); assumption.
      * subst u. destruct (is_hi c && is_lo d) eqn:E.
        -- (* c, d adjacent surrogate code points: joined on both sides *)
           f_equal. unfold valid_cp in Hd. rewrite as_char16_loop_cons in E0 by lia.
           destruct (Z.ltb_spec 0xFFFF d); [lia|].
           destruct (as_char16_loop r') as [us1|] eqn:E1; [|discriminate]. inversion E0; subst us'.
           apply (IH (length r') ltac:(cbn; lia) r' eq_refl); assumption.
        -- f_equal. apply (IH (length (d :: r')) ltac:(cbn; lia) (d :: r') eq_refl); assumption.
Qed.

Theorem decode16_encode16_general : forall s us, valid_str s -> as_char16_loop s = Ok us ->
  from_char16 us = Ok (join16_loop s).
Proof. intros s us Hv H. rewrite from_char16_join, (join16_encode s us Hv H). reflexivity. Qed.

(* exact characterisation of the strings that round-trip through char16_t *)
Theorem decode16_encode16_iff : forall s us, valid_str s -> as_char16_loop s = Ok us ->
  (from_char16 us = Ok s <-> count_surrogates s = 0).
Proof.
  intros s us Hv H. rewrite (decode16_encode16_general s us Hv H). rewrite <- join16_fixed_iff.
  split; [intros E; inversion E; congruence|intros ->; reflexivity].
Qed.

(* ---------------------------------------------------------------- single characters *)
(* storing one char16_t / char32_t (_my_PyUnicode_AsSingleChar16/32) writes the unit that the array
   conversion writes for the same one-character str; astral characters are refused for char16_t *)
Theorem as_single_char16_spec : forall s, valid_str s ->
  as_single_char16 s = match s with
                       | [c] => if 0xFFFF <? c then None else Some c
                       | _ => None
                       end.
Proof.
  intros s Hv. destruct s as [|c [|d r]]; try reflexivity.
  inversion Hv as [|? ? Hc _]; subst. unfold valid_cp in Hc.
  cbn [as_single_char16]. unfold asc16_toobig_test.
  destruct (Z.ltb_spec 0xFFFF c); [reflexivity|].
  rewrite u16_small by (change (2 ^ 16) with 65536; lia). reflexivity.
Qed.

Theorem as_single_char16_agrees : forall s u, valid_str s ->
  as_single_char16 s = Some u -> as_char16_loop s = Ok [u].
Proof.
  intros s u Hv H. rewrite as_single_char16_spec in H by assumption.
  destruct s as [|c [|d r]]; try discriminate.
  inversion Hv as [|? ? Hc _]; subst. unfold valid_cp in Hc.
  rewrite as_char16_loop_cons by lia.
  destruct (0xFFFF <? c); [discriminate|]. inversion H; subst. reflexivity.
Qed.

Theorem as_single_char32_spec : forall s, valid_str s ->
  as_single_char32 s = match s with [c] => Some c | _ => None end.
Proof.
  intros s Hv. destruct s as [|c [|d r]]; try reflexivity.
  inversion Hv as [|? ? Hc _]; subst. unfold valid_cp in Hc.
  cbn [as_single_char32]. rewrite u32_small by (change (2 ^ 32) with 4294967296; lia). reflexivity.
Qed.
