(* C15 — Character arrays and strings round-trip, including the terminator.
   Statements only; proofs in C15/WProofs.v (the regenerated wide-character helpers) and C15/Proofs.v.
   Units are 8/16/32-bit code units; a str is a list of code points (lone surrogates allowed).
   size16, as_char16_loop, from_char16, count_surrogates, join16_loop, as_single_char16/32 are the
   definitions REGENERATED from src/c/wchar_helper_3.h into C15/Gen.v on every run: a changed threshold
   or range test in the source changes Gen.v and these statements are re-proved against it. *)
From Coq Require Import ZArith List Bool.
Import ListNotations.
From Cffi Require Import C15.Model C15.WProofs C15.Proofs.
Open Scope Z_scope.

(* the size computed separately (for the allocation and the length test) is exactly the number of
   units the UTF-16 copy loop writes *)
Theorem C15_size16_is_encoded_length : forall s, valid_str s ->
  exists us, as_char16_loop s = Ok us /\ zlen us = size16 s.
Proof. exact as_char16_loop_size. Qed.
Print Assumptions C15_size16_is_encoded_length.

(* decode16 (encode16 s) = s for every str without a high surrogate immediately followed by a low one *)
Theorem C15_decode16_encode16 : forall s us, valid_str s -> count_surrogates s = 0 ->
  as_char16_loop s = Ok us -> from_char16 us = Ok s.
Proof. exact decode16_encode16. Qed.
Print Assumptions C15_decode16_encode16.

(* the same for EVERY list of non-negative code points on which the writer succeeds (no validity
   assumption): the allocation computed by _my_PyUnicode_SizeAsChar16 is exactly the number of units
   _my_PyUnicode_AsChar16 writes *)
Theorem C15_size16_agrees_with_writer : forall s us, Forall (fun c => 0 <= c) s ->
  as_char16_loop s = Ok us -> zlen us = size16 s.
Proof. exact as_char16_loop_length. Qed.
Print Assumptions C15_size16_agrees_with_writer.

(* the writer fails only with ValueError and only on a code point above 0x10FFFF (no Python str has one) *)
Theorem C15_as_char16_error : forall s e, Forall (fun c => 0 <= c) s ->
  as_char16_loop s = Err e -> e = ValueError /\ exists c, In c s /\ 0x10FFFF < c.
Proof. exact as_char16_loop_error. Qed.
Print Assumptions C15_as_char16_error.

(* every unit written fits a char16_t (the u16 truncation of the store never changes a value) *)
Theorem C15_as_char16_units_are_16bit : forall s us, valid_str s -> as_char16_loop s = Ok us ->
  Forall (fun u => 0 <= u < 0x10000) us.
Proof. exact as_char16_loop_units16. Qed.
Print Assumptions C15_as_char16_units_are_16bit.

(* the regenerated range tests of _my_PyUnicode_FromChar16 are the UTF-16 surrogate ranges, and the
   test of its counting loop is the conjunction of the two tests of its converting loop *)
Theorem C15_regenerated_surrogate_tests : forall a b,
  (fc16_hi_test a = true <-> 0xD800 <= a <= 0xDBFF) /\
  (fc16_lo_test b = true <-> 0xDC00 <= b <= 0xDFFF) /\
  fc16_pair_test a b = fc16_hi_test a && fc16_lo_test b.
Proof. intros a b. split; [apply is_hi_range|]. split; [apply is_lo_range|apply pair_test_eq]. Qed.
Print Assumptions C15_regenerated_surrogate_tests.

(* _my_PyUnicode_FromChar16, every unit list: the converting loop writes exactly
   size - count_surrogates items, i.e. the str allocated by PyUnicode_New is filled exactly (never
   BufferMisuse), and the result is the unit list with every adjacent (high, low) pair joined *)
Theorem C15_from_char16_allocation_exact : forall w,
  zlen (join16_loop w) + count_surrogates w = zlen w.
Proof. exact join16_length. Qed.
Print Assumptions C15_from_char16_allocation_exact.

Theorem C15_from_char16_total : forall w, from_char16 w = Ok (join16_loop w).
Proof. exact from_char16_join. Qed.
Print Assumptions C15_from_char16_total.

(* THE round trip through char16_t for EVERY str s: from_char16 (as_char16 s) is s with every adjacent
   (high surrogate code point, low surrogate code point) pair - scanned left to right - replaced by
   the astral code point the two spell; all other code points, lone surrogates included, come back
   unchanged and in place ... *)
Theorem C15_decode16_encode16_general : forall s us, valid_str s -> as_char16_loop s = Ok us ->
  from_char16 us = Ok (join16_loop s).
Proof. exact decode16_encode16_general. Qed.
Print Assumptions C15_decode16_encode16_general.

(* ... hence s round-trips EXACTLY when it has no high surrogate immediately followed by a low one
   (lone surrogates anywhere else are fine) *)
Theorem C15_decode16_encode16_iff : forall s us, valid_str s -> as_char16_loop s = Ok us ->
  (from_char16 us = Ok s <-> count_surrogates s = 0).
Proof. exact decode16_encode16_iff. Qed.
Print Assumptions C15_decode16_encode16_iff.

Theorem C15_no_pair_iff : forall w, count_surrogates w <> 0 <->
  exists l1 a b l2, w = l1 ++ a :: b :: l2 /\ is_hi a = true /\ is_lo b = true.
Proof. exact count_pos_has_pair. Qed.
Print Assumptions C15_no_pair_iff.

(* single characters (_my_PyUnicode_AsSingleChar16/32): one unit, the one the array conversion writes for
   the same one-character str; astral characters are refused for char16_t *)
Theorem C15_as_single_char16 : forall s, valid_str s ->
  as_single_char16 s = match s with [c] => if 0xFFFF <? c then None else Some c | _ => None end.
Proof. exact as_single_char16_spec. Qed.
Print Assumptions C15_as_single_char16.

Theorem C15_as_single_char16_agrees : forall s u, valid_str s ->
  as_single_char16 s = Some u -> as_char16_loop s = Ok [u].
Proof. exact as_single_char16_agrees. Qed.
Print Assumptions C15_as_single_char16_agrees.

Theorem C15_as_single_char32 : forall s, valid_str s ->
  as_single_char32 s = match s with [c] => Some c | _ => None end.
Proof. exact as_single_char32_spec. Qed.
Print Assumptions C15_as_single_char32.

(* non-vacuity: lone surrogates round-trip (also low before high); an adjacent pair is joined; U+10000
   and U+10FFFF take two units and U+FFFF one *)
Example C15_example_lone_surrogates :
  as_char16_loop [0xD800; 0x41; 0xDC00; 0xDFFF; 0xDBFF] = Ok [0xD800; 0x41; 0xDC00; 0xDFFF; 0xDBFF] /\
  from_char16 [0xD800; 0x41; 0xDC00; 0xDFFF; 0xDBFF] = Ok [0xD800; 0x41; 0xDC00; 0xDFFF; 0xDBFF] /\
  count_surrogates [0xD800; 0x41; 0xDC00; 0xDFFF; 0xDBFF] = 0 /\
  from_char16 [0x41; 0xD83D; 0xDE00; 0xDE00] = Ok [0x41; 0x1F600; 0xDE00] /\
  as_char16_loop [0xFFFF; 0x10000; 0x10FFFF] = Ok [0xFFFF; 0xD800; 0xDC00; 0xDBFF; 0xDFFF] /\
  size16 [0xFFFF; 0x10000; 0x10FFFF] = 5 /\ size16 [0x41; 0xFFFF] = 2 /\
  as_char16_loop [0x41; 0x110000] = Err ValueError.
Proof. vm_compute. repeat split; reflexivity. Qed.

(* ... and not otherwise: two adjacent surrogate code points come back as one astral code point
   (finding "adjacent_surrogates", inherent to UTF-16) *)
Theorem C15_decode16_encode16_refuted : exists s us, valid_str s /\
  as_char16_loop s = Ok us /\ from_char16 us <> Ok s.
Proof. exact decode16_encode16_refuted. Qed.
Print Assumptions C15_decode16_encode16_refuted.

(* ffi.string(ffi.new("T[]", s)) == s: bytes without NUL for char types; str without U+0000 for
   char32_t/wchar_t; and for char16_t when no surrogates are adjacent.  The array has exactly
   len(units) + 1 units. *)
Theorem C15_string_new_roundtrip : forall t v, roundtrips t v ->
  exists mem, new_open_array t v = Ok mem /\ zlen mem = new_array_length t v /\
              string_array t mem (-1) = Ok v.
Proof. exact string_new_roundtrip. Qed.
Print Assumptions C15_string_new_roundtrip.

(* conversion into an array of k units (k = -1: open array): IndexError when the string has more
   than k units, the units alone when they fill it exactly, the units and ONE zero unit otherwise *)
Theorem C15_convert_array : forall t v us k, wf_value t v -> units_of t v = Ok us -> -1 <= k ->
  convert_array t k v =
  if (0 <=? k) && (k <? zlen us) then Err IndexError
  else if zlen us =? k then Ok us
  else Ok (us ++ [0]).
Proof. exact convert_array_spec. Qed.
Print Assumptions C15_convert_array.

(* assigning a shorter string to a fixed-size array (item / field assignment, ffi.new initializer):
   the string, one terminating zero unit, and the later units unchanged *)
Theorem C15_assign_shorter : forall t mem v us, wf_value t v -> units_of t v = Ok us ->
  zlen us < zlen mem ->
  assign t mem v = Ok (us ++ [0] ++ skipn (length us + 1) mem).
Proof. exact assign_shorter. Qed.
Print Assumptions C15_assign_shorter.

Theorem C15_assign_shorter_frame : forall t mem v us mem' j, wf_value t v -> units_of t v = Ok us ->
  zlen us < zlen mem -> assign t mem v = Ok mem' ->
  length mem' = length mem /\
  firstn (length us) mem' = us /\ nth_error mem' (length us) = Some 0 /\
  ((length us < j)%nat -> nth_error mem' j = nth_error mem j).
Proof. exact assign_shorter_frame. Qed.
Print Assumptions C15_assign_shorter_frame.

Theorem C15_assign_exact : forall t mem v us, wf_value t v -> units_of t v = Ok us ->
  zlen us = zlen mem -> assign t mem v = Ok us.
Proof. exact assign_exact. Qed.
Print Assumptions C15_assign_exact.

Theorem C15_assign_too_long : forall t mem v us, wf_value t v -> units_of t v = Ok us ->
  zlen mem < zlen us -> assign t mem v = Err IndexError.
Proof. exact assign_too_long. Qed.
Print Assumptions C15_assign_too_long.

(* ffi.string(x, maxlen) on an array cdata over the units mem: the scan covers the first `length`
   units, length = maxlen if given (>= 0) else the array length; the result is built from the units r
   before the first zero unit in that range (r is zero-free, and is followed by a zero unit or by the
   end of the range) *)
Theorem C15_string_array_stops_at_first_zero : forall t mem maxlen,
  let length := if maxlen <? 0 then zlen mem else maxlen in
  exists r rest,
    firstn (Z.to_nat length) mem = r ++ rest /\ zero_free r /\
    (rest = [] \/ exists rest', rest = 0 :: rest') /\
    string_array t mem maxlen = of_units t r.
Proof. exact string_array_stops. Qed.
Print Assumptions C15_string_array_stops_at_first_zero.

(* ffi.string(p, maxlen) on a pointer: the same within maxlen units; without maxlen up to the first
   zero unit of the memory *)
Theorem C15_string_pointer_stops_at_first_zero : forall t mem maxlen,
  exists r rest,
    (if maxlen <? 0 then mem else firstn (Z.to_nat maxlen) mem) = r ++ rest /\ zero_free r /\
    (rest = [] \/ exists rest', rest = 0 :: rest') /\
    string_pointer t mem maxlen = of_units t r.
Proof. exact string_pointer_stops. Qed.
Print Assumptions C15_string_pointer_stops_at_first_zero.

(* ffi.unpack(p, n), every element kind: built from exactly the first n units, zeros included (for
   char16_t the n units are then decoded as UTF-16, cf. C18) *)
Theorem C15_unpack_exact : forall t mem n, 0 <= n <= zlen mem ->
  exists us, us = firstn (Z.to_nat n) mem /\ zlen us = n /\ unpack t mem n = of_units t us.
Proof. exact unpack_exact_all. Qed.
Print Assumptions C15_unpack_exact.

(* non-vacuity of C15_string_new_roundtrip: values of every element type meet `roundtrips` *)
Example C15_example_roundtrips :
  roundtrips E8 (PBytes [104; 105; 255]) /\ roundtrips E16 (PStr [0x1F600; 97; 0xD800; 0x20AC]) /\
  roundtrips E32 (PStr [0x1F600; 0xDC00; 97]).
Proof. exact roundtrips_examples. Qed.

Example C15_example_roundtrip_run :
  new_open_array E16 (PStr [0x1F600; 97; 0xD800; 0x20AC]) = Ok [0xD83D; 0xDE00; 97; 0xD800; 0x20AC; 0] /\
  string_array E16 [0xD83D; 0xDE00; 97; 0xD800; 0x20AC; 0] (-1) = Ok (PStr [0x1F600; 97; 0xD800; 0x20AC]) /\
  string_array E16 [0xD83D; 0xDE00; 97; 0xD800; 0x20AC; 0] 1 = Ok (PStr [0xD83D]).
Proof. vm_compute. repeat split; reflexivity. Qed.

(* non-vacuity: the witness of the (fixed) terminator defect: a = 'wxyz' then a = 'ab' in char16_t[4]
   and char32_t[4]; an astral character takes two units; U+1F600 round-trips through char16_t *)
Example C15_example_terminator :
  assign E16 [119; 120; 121; 122] (PStr [97; 98]) = Ok [97; 98; 0; 122] /\
  assign E32 [119; 120; 121; 122] (PStr [97; 98]) = Ok [97; 98; 0; 122] /\
  assign E8 [119; 120; 121; 122] (PBytes [97; 98]) = Ok [97; 98; 0; 122] /\
  assign E16 [119; 120; 121; 122] (PStr [0x1F600; 98]) = Ok [0xD83D; 0xDE00; 98; 0] /\
  assign E16 [119; 120; 121; 122] (PStr [0x1F600; 98; 99]) = Ok [0xD83D; 0xDE00; 98; 99] /\
  assign E16 [119; 120; 121; 122] (PStr [0x1F600; 98; 99; 100]) = Err IndexError /\
  string_array E16 [0xD83D; 0xDE00; 98; 0] (-1) = Ok (PStr [0x1F600; 98]).
Proof. vm_compute. repeat split; reflexivity. Qed.
