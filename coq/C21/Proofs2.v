(* C21 — the regenerated tables (C21/Gen.v) against the model's reference edges, finalisation and
   release dispatch; operation results; re-entrant destructors. *)
From Coq Require Import Arith List Bool Lia.
Import ListNotations.
From Cffi Require Import C21.Gen C21.Model C21.Proofs.

(* ---- what the regenerated tables say, spelled out.  Every proof here is a computation on the
   tables of Gen.v: an edited Py_VISIT list, a reordered cdatagcp_finalize, a changed case of
   explicit_release_case / cdata_exit makes it fail. *)
Lemma refs_of_edges o :
  refs_of o =
  if alive o then
    match k o with
    | KOwn | KRaw => []
    | KStructPtr s => [s]
    | KGcp orig dtor => opt_list orig ++ match dtor with Some y => opt_list y | None => [] end
    | KFromBuf src view => if view then [src] else []
    | KHandle x => [x]
    | KPy refs _ => refs
    end
  else [].
Proof. reflexivity. Qed.

Lemma run_dtor_effect o :
  run_dtor o =
  match k o with
  | KGcp _ (Some _) =>
      mkobj (KGcp None None) (alive o) (roots o) (addr o) (S (calls o)) (had o) (cancelled o)
            (released o) (horig o)
  | KGcp _ None => with_k o (KGcp None None)
  | _ => o
  end.
Proof. reflexivity. Qed.

Lemma cancel_effect o :
  cancel o =
  match k o with
  | KGcp orig (Some _) =>
      mkobj (KGcp orig None) (alive o) (roots o) (addr o) (calls o) (had o) true (released o) (horig o)
  | _ => o
  end.
Proof. reflexivity. Qed.

Lemma finalize_order :
  gen_finalize_clears_first = true /\ fin_clears FDestructor = true /\ fin_clears FOrigobj = true /\
  gen_gcp_finalize_calls = 1 /\ gen_dealloc_finalizes = true /\ gen_structptr_owns = true.
Proof. repeat split; reflexivity. Qed.

Lemma release_dispatch s i :
  step s (ORelease i) =
  if usable s i then
    match k (get s i) with
    | KStructPtr st => if is_gcp (get s st) then finalize_at s st else s
    | KFromBuf _ _ => let s1 := release_view s i in set_obj s1 i (mark_released (get s1 i))
    | KGcp _ _ => finalize_at s i
    | _ => s
    end
  else s.
Proof. cbn [step]. rewrite release_cases. reflexivity. Qed.

(* ---- results *)
Lemma release_case_kind s i :
  release_case s i =
  match k (get s i) with
  | KOwn => if own_is_struct s i then None else Some 0
  | KRaw | KStructPtr _ => Some 0
  | KFromBuf _ _ => Some 1
  | KGcp _ _ => Some 2
  | KHandle _ | KPy _ _ => None
  end.
Proof.
  unfold release_case, guard_holds. destruct (k (get s i)); cbn; try reflexivity.
  destruct (own_is_struct s i); reflexivity.
Qed.

Ltac fin_res :=
  repeat match goal with
         | |- _ /\ _ => split
         | |- _ <-> _ => split
         | |- _ -> _ => intro
         end;
  repeat match goal with
         | H : _ \/ _ |- _ => destruct H
         | H : _ /\ _ |- _ => destruct H
         | H : exists _, _ |- _ => destruct H
         end;
  try reflexivity; try discriminate; try congruence;
  try (left; eexists; reflexivity); try (right; split; reflexivity).

Lemma release_result s i : usable s i = true ->
  (out s (ORelease i) = RValueError <->
     (exists y, k (get s i) = KHandle y) \/ (k (get s i) = KOwn /\ own_is_struct s i = true)) /\
  (out s (ORelease i) = RTypeError <-> is_py (get s i) = true) /\
  (out s (ORelease i) = ROk \/ step s (ORelease i) = s).
Proof.
  intros U. rewrite release_dispatch. unfold out, is_py. rewrite U, release_case_kind.
  destruct (k (get s i)) as [| st | orig dtor | | src view | hx | refs ex] eqn:K; cbn;
    try destruct (own_is_struct s i) eqn:O; fin_res; auto.
Qed.

Lemma gcnone_result s w : usable s w = true ->
  (out s (OGcNone w) = RTypeError <-> is_gcp (get s w) = false) /\
  (out s (OGcNone w) = ROk <-> is_gcp (get s w) = true) /\
  (out s (OGcNone w) = ROk \/
   (next (step s (OGcNone w)) = next s /\ forall j, get (step s (OGcNone w)) j = get s j)).
Proof.
  intros U. cbn [out step]. rewrite U.
  assert (E : is_gcp (get s w) = false -> cancel (get s w) = get s w).
  { unfold is_gcp, cancel. destruct (k (get s w)); try reflexivity. discriminate. }
  destruct (is_gcp (get s w)) eqn:G; fin_res; auto.
  right. split; [reflexivity|]. intros j. rewrite get_set, E by reflexivity.
  destruct (Nat.eqb_spec j w); [subst; reflexivity | reflexivity].
Qed.

(* ---- re-entrant destructors *)
Lemma finalize_re_same fuel r o :
  mark_released (finalize_re fuel r o) = mark_released (run_dtor o).
Proof.
  destruct o as [kd al ro ad ca ha cn rl ho].
  destruct kd as [| st | orig [y|] | | src view | hx | refs ex]; destruct fuel as [| [| f]]; destruct r;
    reflexivity.
Qed.

Lemma finalize_at_re_same r s i : finalize_at_re r s i = finalize_at s i.
Proof. unfold finalize_at_re, finalize_at. rewrite finalize_re_same. reflexivity. Qed.

Lemma step2_erase s o : step2 s o = step s (erase o).
Proof.
  destruct o as [o | i r]; [reflexivity|]. cbn [step2 erase step]. unfold release.
  destruct (usable s i); [|reflexivity]. destruct (release_case s i); [|reflexivity].
  unfold do_exit_re, do_exit. rewrite !finalize_at_re_same.
  destruct (exit_action_of n); try reflexivity.
  destruct (k (get s i)); try reflexivity. rewrite finalize_at_re_same. reflexivity.
Qed.

Lemma run2_erase_from ops : forall s, fold_left step2 ops s = fold_left step (map erase ops) s.
Proof. induction ops as [| o ops IH]; intros s; cbn; [reflexivity|]. rewrite step2_erase. apply IH. Qed.

Lemma run2_erase ops : run2 ops = run (map erase ops).
Proof. apply run2_erase_from. Qed.

Lemma at_most_once_reentrant ops i : calls (get (run2 ops) i) <= 1.
Proof. rewrite run2_erase. apply dtor_at_most_once. Qed.

Lemma release_result_run ops i : usable (run ops) i = true ->
  (out (run ops) (ORelease i) = RValueError <->
     (exists y, k (get (run ops) i) = KHandle y) \/
     (k (get (run ops) i) = KOwn /\ own_is_struct (run ops) i = true)) /\
  (out (run ops) (ORelease i) = RTypeError <-> is_py (get (run ops) i) = true) /\
  (out (run ops) (ORelease i) = ROk \/ step (run ops) (ORelease i) = run ops).
Proof. apply release_result. Qed.
