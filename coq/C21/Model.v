(* C21 — ownership, destructors and handles over any history.

   Executable object-table model of the cdata kinds that own or keep something alive
   (all in src/c/_cffi_backend.c):

     KOwn        ffi.new("T[n]") and the struct object behind ffi.new("struct *"): the memory is
                 part of the Python object (allocate_owning_object, freed by cdata_dealloc :1944)
     KStructPtr  the pointer returned by ffi.new("struct *"): strong reference [structobj]
                 (direct_newp :3881, the store at :3964; p[0] returns structobj, cdataowning_subscript)
     KGcp        ffi.gc(p, d) wrappers and everything a custom allocator returns
                 (allocate_gcp_object, allocate_with_allocator, b_gcp :7423):
                 fields origobj, destructor;
                 cdatagcp_finalize :2099 (tp_finalize, also called by release) clears both fields and
                 THEN calls gcp_finalize :2065; cdatagcp_dealloc :2108 calls gcp_finalize on the
                 current fields; gc(p, None) = Py_CLEAR(destructor) :7443
     KRaw        the cdata returned by a user alloc(): identifies one allocation
     KFromBuf    ffi.from_buffer(): Py_buffer view on [src] (direct_from_buffer);
                 PyBuffer_Release on release (cdata_exit :3390), tp_clear :2052, dealloc :2003
     KHandle     ffi.new_handle(x) (newp_handle); from_handle reads structobj (b_from_handle)
     KPy         a plain Python object: handle target, buffer source (with its list of
                 exporters = live Py_buffer views; a bytearray refuses to resize while the list
                 is not empty), attribute references used to build cycles

   cdata_exit :3365 / explicit_release_case :3337 (ffi.release / with-exit): KOwn array nothing;
   KStructPtr whose structobj is a KGcp: cdatagcp_finalize(structobj); KFromBuf: PyBuffer_Release;
   KGcp: cdatagcp_finalize; the struct object p[0], handles: ValueError; not a cdata: TypeError.

   (Line numbers: /repo HEAD 2d93229.)  The reference edges ([refs_of]), what finalisation clears and
   calls ([run_dtor], [cancel]) and the release dispatch ([release_case], [exit_action_of]) are
   DEFINED FROM the tables of C21/Gen.v, which tools/props/c21_regen.py extracts from the C source
   on every run: gen_traverse (Py_VISIT lists), gen_structptr_owns, gen_finalize_cleared,
   gen_finalize_clears_first, gen_gcp_finalize_calls, gen_dealloc_finalizes, gen_gcnone_clears,
   gen_release_case, gen_exit_table.

   Deallocation is an event of the runtime ([OCollect S]): CPython frees a set S of objects
   that nobody outside S refers to and that no variable holds — one object whose reference
   count dropped to zero, a cascade of them, or a garbage cycle found by the collector.  For the
   state modelled here tp_finalize + tp_clear + tp_dealloc (collector) and tp_dealloc alone
   (reference counting) have the same net effect, so one event covers both.  The set is a
   parameter of the event and is only checked ([garbage]); [OCollectAuto] computes the set of
   all unreachable objects, which is what gc.collect() after every step gives on the real
   implementation.

   Ghost fields (not in the C structs): calls, had, cancelled, released, horig. *)
From Coq Require Import Arith List Bool Lia.
Import ListNotations.
From Cffi Require Import C21.Gen.

Inductive kind :=
| KOwn
| KStructPtr (s : nat)
| KGcp (orig : option nat) (dtor : option (option nat))
       (* dtor = Some y: a destructor is installed; y = the object its closure refers to, if any *)
| KRaw
| KFromBuf (src : nat) (view : bool)        (* view = the Py_buffer still holds its export *)
| KHandle (x : nat)
| KPy (refs : list nat) (exporters : list nat).

Record obj := mkobj {
  k : kind; alive : bool; roots : nat;       (* roots = number of program variables holding it *)
  addr : nat;                                (* its address while alive *)
  calls : nat;                               (* ghost: how often its destructor was called *)
  had : bool;                                (* ghost: created with a destructor *)
  cancelled : bool;                          (* ghost: gc(p, None) removed a destructor *)
  released : bool;                           (* ghost: explicitly released *)
  horig : option nat }.                      (* ghost: the object given to new_handle *)

Definition dead_obj := mkobj KOwn false 0 0 0 false false false None.
Definition fresh (kd : kind) (a : nat) (r : nat) (h : bool) (ho : option nat) :=
  mkobj kd true r a 0 h false false ho.

Record state := mkstate { objs : nat -> obj; next : nat }.
Definition init := mkstate (fun _ => dead_obj) 0.

Definition upd (f : nat -> obj) (i : nat) (o : obj) : nat -> obj :=
  fun j => if Nat.eqb j i then o else f j.
Definition set_obj (s : state) (i : nat) (o : obj) := mkstate (upd (objs s) i o) (next s).
Definition get (s : state) (i : nat) := objs s i.

Definition with_k (o : obj) (kd : kind) :=
  mkobj kd (alive o) (roots o) (addr o) (calls o) (had o) (cancelled o) (released o) (horig o).
Definition with_roots (o : obj) (r : nat) :=
  mkobj (k o) (alive o) r (addr o) (calls o) (had o) (cancelled o) (released o) (horig o).

Definition opt_list (x : option nat) : list nat := match x with Some i => [i] | None => [] end.

(* ---- lookups in the regenerated tables (C21/Gen.v) *)
Definition pytype_eqb (a b : pytype) : bool :=
  match a, b with
  | POwning, POwning | POwningGC, POwningGC | PFromBuf, PFromBuf | PGcp, PGcp => true
  | _, _ => false
  end.
Definition ctguard_eqb (a b : ctguard) : bool :=
  match a, b with
  | GAny, GAny | GPtrOrArray, GPtrOrArray | GHandle, GHandle | GCallback, GCallback => true
  | _, _ => false
  end.
Definition gfield_eqb (a b : gfield) : bool :=
  match a, b with
  | FStructobj, FStructobj | FClosureArgs, FClosureArgs | FViewObj, FViewObj
  | FDestructor, FDestructor | FOrigobj, FOrigobj => true
  | _, _ => false
  end.
Definition has_field (f : gfield) (l : list gfield) : bool := existsb (gfield_eqb f) l.

(* tp_traverse of Python type [p] under ctype test [g] gives field [f] to Py_VISIT *)
Definition visits (p : pytype) (g : ctguard) (f : gfield) : bool :=
  existsb (fun e => pytype_eqb (fst (fst e)) p && ctguard_eqb (snd (fst e)) g && has_field f (snd e))
          gen_traverse.

(* strong references held by an object = the edges its type reports to the cyclic collector
   (Gen.gen_traverse, regenerated):
     cdatagcp_traverse :2118        Py_VISIT(destructor); Py_VISIT(origobj)  -- BOTH, independently:
                                    origobj is an edge also when the destructor slot is NULL
                                    (after gc(w, None), or an allocator without free)
     cdataowninggc_traverse :2013   handle: Py_VISIT(structobj)
     cdatafrombuf_traverse :2027    Py_VISIT(view->obj)
   CDataOwning_Type (struct pointer) is not a GC type: it holds structobj by reference count only,
   from the store in direct_newp :3964 to the Py_DECREF in cdataowning_dealloc :1960
   (Gen.gen_structptr_owns).
   [garbage] and [reachable] are computed from these edges: an edge missing from tp_traverse makes
   the real collector leave a cycle alone that the model frees (seen as "still alive" by the run). *)
Definition refs_of (o : obj) : list nat :=
  if alive o then
    match k o with
    | KOwn | KRaw => []
    | KStructPtr s => if gen_structptr_owns then [s] else []
    | KGcp orig dtor =>
        (if visits PGcp GAny FOrigobj then opt_list orig else [])
        ++ (if visits PGcp GAny FDestructor
            then match dtor with Some y => opt_list y | None => [] end else [])
    | KFromBuf src view => if visits PFromBuf GAny FViewObj then (if view then [src] else []) else []
    | KHandle x => if visits POwningGC GHandle FStructobj then [x] else []
    | KPy refs _ => refs
    end
  else [].

Definition mem (i : nat) (l : list nat) : bool := existsb (Nat.eqb i) l.
Definition ids (s : state) : list nat := seq 0 (next s).

(* the program can use what it holds in a variable *)
Definition usable (s : state) (i : nat) : bool :=
  (i <? next s) && alive (get s i) && (0 <? roots (get s i)).
(* malloc does not return the address of a live object (runtime hypothesis, as a guard) *)
Definition addr_free (s : state) (a : nat) : bool :=
  forallb (fun i => negb (alive (get s i) && Nat.eqb (addr (get s i)) a)) (ids s).

Definition alloc (s : state) (o : obj) : state := mkstate (upd (objs s) (next s) o) (S (next s)).

(* cdatagcp_finalize :2099: the fields of Gen.gen_finalize_cleared are set to NULL (both, on the
   unchanged source); the destructor that was there is called by gcp_finalize
   (Gen.gen_gcp_finalize_calls call sites under `destructor != NULL`: one).
   cdatagcp_dealloc :2108 passes the current fields to the same gcp_finalize. *)
Definition fin_clears (f : gfield) : bool := has_field f gen_finalize_cleared.
Definition run_dtor (o : obj) : obj :=
  match k o with
  | KGcp orig (Some y) =>
      mkobj (KGcp (if fin_clears FOrigobj then None else orig)
                  (if fin_clears FDestructor then None else Some y))
            (alive o) (roots o) (addr o) (gen_gcp_finalize_calls + calls o) (had o) (cancelled o)
            (released o) (horig o)
  | KGcp orig None => with_k o (KGcp (if fin_clears FOrigobj then None else orig) None)
  | _ => o
  end.

Definition mark_released (o : obj) : obj :=
  mkobj (k o) (alive o) (roots o) (addr o) (calls o) (had o) (cancelled o) true (horig o).

(* gc(w, None): Py_CLEAR of the fields of Gen.gen_gcnone_clears (b_gcp :7443: the destructor only;
   origobj is kept) *)
Definition gcnone_clears (f : gfield) : bool := has_field f gen_gcnone_clears.
Definition cancel (o : obj) : obj :=
  match k o with
  | KGcp orig (Some y) =>
      mkobj (KGcp (if gcnone_clears FOrigobj then None else orig)
                  (if gcnone_clears FDestructor then None else Some y))
            (alive o) (roots o) (addr o) (calls o) (had o)
            (if gcnone_clears FDestructor then true else cancelled o) (released o) (horig o)
  | _ => o
  end.

Fixpoint remove_id (i : nat) (l : list nat) : list nat :=
  match l with
  | [] => []
  | j :: l' => if Nat.eqb j i then remove_id i l' else j :: remove_id i l'
  end.

(* PyBuffer_Release(view): idempotent; the exporter forgets this view *)
Definition release_view (s : state) (f : nat) : state :=
  match k (get s f) with
  | KFromBuf src true =>
      let s1 := set_obj s f (with_k (get s f) (KFromBuf src false)) in
      match k (get s1 src) with
      | KPy refs ex => set_obj s1 src (with_k (get s1 src) (KPy refs (remove_id f ex)))
      | _ => s1
      end
  | _ => s
  end.

Definition kill (o : obj) : obj :=
  mkobj (k o) false 0 (addr o) (calls o) (had o) (cancelled o) (released o) (horig o).

(* tp_dealloc of one object *)
Definition dealloc (s : state) (i : nat) : state :=
  let s1 := release_view s i in                          (* cdatafrombuf_dealloc *)
  set_obj s1 i (kill (if gen_dealloc_finalizes then run_dtor (get s1 i) else get s1 i)).
                                                         (* cdatagcp_dealloc -> gcp_finalize *)

(* S is a duplicate-free set of live objects that no variable holds and that only members of
   S refer to *)
Fixpoint nodupb (l : list nat) : bool :=
  match l with
  | [] => true
  | i :: l' => negb (mem i l') && nodupb l'
  end.

Definition garbage (s : state) (G : list nat) : bool :=
  nodupb G &&
  forallb (fun i => (i <? next s) && alive (get s i) && Nat.eqb (roots (get s i)) 0) G &&
  forallb (fun j => implb (existsb (fun r => mem r G) (refs_of (get s j))) (mem j G)) (ids s).

Definition collect (s : state) (G : list nat) : state :=
  if garbage s G then fold_left dealloc G s else s.

(* everything reachable from the variables: depth-first marking over a table of the reference
   lists (computed once); the fuel covers every node and every edge *)
Fixpoint dfs (fuel : nat) (table : list (list nat)) (todo visited : list nat) : list nat :=
  match fuel with
  | O => visited
  | S f =>
      match todo with
      | [] => visited
      | i :: rest =>
          if mem i visited then dfs f table rest visited
          else dfs f table (nth i table [] ++ rest) (i :: visited)
      end
  end.
Definition reachable (s : state) : list nat :=
  let objl := map (get s) (ids s) in
  let table := map refs_of objl in
  let rootl := filter (fun i => let o := nth i objl dead_obj in alive o && (0 <? roots o)) (ids s) in
  let fuel := S (length rootl + next s + fold_left (fun n l => n + length l) table 0) in
  dfs fuel table rootl [].
Definition unreachable (s : state) : list nat :=
  filter (fun i => alive (get s i) && negb (mem i (reachable s))) (ids s).

(* the same state with the object table stored as a list (no semantic content: every object
   is unchanged, see Proofs.compact_get; it keeps the evaluation of long histories fast) *)
Definition compact (s : state) : state :=
  mkstate (let l := map (objs s) (seq 0 (next s)) in fun i => nth i l dead_obj) (next s).

Inductive op :=
| ONew (a : nat)                                   (* v = ffi.new("int[4]") *)
| ONewStruct (a1 a2 : nat)                         (* v = ffi.new("struct s *"): struct object, pointer *)
| OAllocNew (a1 a2 : nat) (has_free : bool)        (* v = ffi.new_allocator(alloc, free)("int[4]"):
                                                      the cdata returned by alloc(), the wrapper *)
| OAllocNewStruct (a1 a2 a3 : nat) (has_free : bool)  (* ... ("struct s *"): raw, wrapper, pointer *)
| ONewFail                                         (* ffi.new("int[4]", <rejected initializer>): raises; the cdata
                                                      made before the conversion is released at once *)
| OAllocNewFail (a1 a2 : nat) (has_free : bool)    (* the same through ffi.new_allocator(alloc, free): alloc()
                                                      has been called; the wrapper must die and call free *)
| OAlias (p : nat)                                 (* v = p[0] *)
| OGc (p a : nat) (y : option nat)                 (* v = ffi.gc(p, d); d's closure refers to y *)
| OGcNone (w : nat)                                (* ffi.gc(w, None) *)
| ORelease (o : nat)                               (* ffi.release(o)  /  with o: pass *)
| OHold (o : nat)                                  (* v2 = v *)
| ODrop (o : nat)                                  (* del v *)
| ONewPy (a : nat)                                 (* v = Obj() / bytearray subclass *)
| OSetRef (x y : nat)                              (* x.refs.append(y) *)
| OFromBuffer (src a : nat)                        (* v = ffi.from_buffer(src) *)
| OFromBufferFail (src tag : nat)                  (* ffi.from_buffer(src) that fails on the error path [tag]
                                                      of direct_from_buffer (C21/Gen.v) *)
| ONewHandle (x a : nat)                           (* v = ffi.new_handle(x) *)
| OFromHandle (h : nat)                            (* v = ffi.from_handle(h) *)
| OCollect (G : list nat)                          (* the runtime frees the set G *)
| OCollectAuto.                                    (* gc.collect(): everything unreachable *)

Definition hold (s : state) (i : nat) : state :=
  set_obj s i (with_roots (get s i) (S (roots (get s i)))).

Definition is_gcp (o : obj) : bool := match k o with KGcp _ _ => true | _ => false end.
Definition is_py (o : obj) : bool := match k o with KPy _ _ => true | _ => false end.

Definition finalize_at (s : state) (i : nat) : state :=
  set_obj s i (mark_released (run_dtor (get s i))).

Definition dtor_of (has_free : bool) : option (option nat) := if has_free then Some None else None.

(* direct_from_buffer :7205 leaves through `goto error1` / `goto error2`; error2 releases the
   Py_buffer, error1 only frees the view struct.  A failure path taken AFTER
   PyObject_GetBuffer succeeded that does not pass PyBuffer_Release leaks the export: the
   source stays locked and referenced for ever (a phantom exporter that nobody can release). *)
Definition path_leaks (tag : nat) : bool :=
  match find (fun p => Nat.eqb (fst (fst p)) tag) gen_frombuf_paths with
  | Some (_, after_getbuffer, releases) => after_getbuffer && negb releases
  | None => false
  end.

Definition leak_export (s : state) (src : nat) : state :=
  match k (get s src) with
  | KPy refs ex =>
      let o := get s src in
      set_obj s src (mkobj (KPy refs (next s :: ex)) (alive o) (S (roots o)) (addr o) (calls o) (had o)
                           (cancelled o) (released o) (horig o))
  | _ => s
  end.

(* ---- ffi.release(x) / with x: — explicit_release_case :3337 and cdata_exit :3365, both regenerated
   (Gen.gen_release_case, Gen.gen_exit_table) *)
(* the struct object behind ffi.new("struct s *") (what p[0] returns) has a struct ctype, every other
   KOwn object of the model is an array; ONewStruct creates the pointer right after its struct *)
Definition own_is_struct (s : state) (i : nat) : bool :=
  match k (get s (S i)) with KStructPtr st => Nat.eqb st i | _ => false end.

Definition pytype_of (kd : kind) : option pytype :=
  match kd with
  | KOwn | KRaw | KStructPtr _ => Some POwning
  | KGcp _ _ => Some PGcp
  | KFromBuf _ _ => Some PFromBuf
  | KHandle _ => Some POwningGC
  | KPy _ _ => None                                  (* not a cdata *)
  end.

Definition guard_holds (g : ctguard) (s : state) (i : nat) : bool :=
  match g with
  | GAny => true
  | GPtrOrArray => match k (get s i) with
                   | KOwn => negb (own_is_struct s i)
                   | KPy _ _ => false
                   | _ => true
                   end
  | GHandle => match k (get s i) with KHandle _ => true | _ => false end
  | GCallback => false
  end.

(* Some case, or None = ValueError *)
Definition release_case (s : state) (i : nat) : option nat :=
  match pytype_of (k (get s i)) with
  | Some p =>
      match find (fun e => pytype_eqb (fst (fst e)) p && guard_holds (snd (fst e)) s i) gen_release_case with
      | Some e => Some (snd e)
      | None => None
      end
  | None => None
  end.

Definition exit_action_of (c : nat) : exit_action :=
  match find (fun e => Nat.eqb (fst e) c) gen_exit_table with
  | Some e => snd e
  | None => XNothing
  end.

Definition do_exit (s : state) (i : nat) (a : exit_action) : state :=
  match a with
  | XNothing => s
  | XFinalizeStructobjIfGcp =>
      match k (get s i) with
      | KStructPtr st => if is_gcp (get s st) then finalize_at s st else s
      | _ => s
      end
  | XBufferRelease => let s1 := release_view s i in set_obj s1 i (mark_released (get s1 i))
  | XFinalizeSelf => finalize_at s i
  end.

Definition release (s : state) (i : nat) : state :=
  match release_case s i with
  | Some c => do_exit s i (exit_action_of c)
  | None => s                                          (* ValueError / TypeError: see [out] *)
  end.

Definition step (s : state) (o : op) : state :=
  match o with
  | ONew a =>
      if addr_free s a then alloc s (fresh KOwn a 1 false None) else s
  | ONewStruct a1 a2 =>
      if addr_free s a1 && addr_free s a2 && negb (Nat.eqb a1 a2) then
        let s1 := alloc s (fresh KOwn a1 0 false None) in
        alloc s1 (fresh (KStructPtr (next s)) a2 1 false None)
      else s
  | OAllocNew a1 a2 has_free =>
      if addr_free s a1 && addr_free s a2 && negb (Nat.eqb a1 a2) then
        let s1 := alloc s (fresh KRaw a1 0 false None) in
        alloc s1 (fresh (KGcp (Some (next s)) (dtor_of has_free)) a2 1 has_free None)
      else s
  | OAllocNewStruct a1 a2 a3 has_free =>
      if addr_free s a1 && addr_free s a2 && addr_free s a3
         && negb (Nat.eqb a1 a2) && negb (Nat.eqb a1 a3) && negb (Nat.eqb a2 a3) then
        let s1 := alloc s (fresh KRaw a1 0 false None) in
        let s2 := alloc s1 (fresh (KGcp (Some (next s)) (dtor_of has_free)) a2 0 has_free None) in
        alloc s2 (fresh (KStructPtr (next s1)) a3 1 false None)
      else s
  | ONewFail => s
  | OAllocNewFail a1 a2 has_free =>
      (* direct_newp :3945-3990: allocate_with_allocator succeeded, convert_from_object failed;
         Py_DECREF(cd) frees the wrapper (Gen.gen_newp_fail_decref) - without it the wrapper keeps
         its reference count of 1 for ever *)
      if addr_free s a1 && addr_free s a2 && negb (Nat.eqb a1 a2) then
        let s1 := alloc s (fresh KRaw a1 0 false None) in
        let s2 := alloc s1 (fresh (KGcp (Some (next s)) (dtor_of has_free)) a2
                                  (if gen_newp_fail_decref then 0 else 1) has_free None) in
        if gen_newp_fail_decref then collect s2 [S (next s); next s] else s2
      else s
  | OAlias p =>
      if usable s p then
        match k (get s p) with KStructPtr st => hold s st | _ => s end
      else s
  | OGc p a y =>
      if usable s p && addr_free s a
         && match y with Some yy => usable s yy && is_py (get s yy) | None => true end then
        alloc s (fresh (KGcp (Some p) (Some y)) a 1 true None)
      else s
  | OGcNone w =>
      if usable s w then set_obj s w (cancel (get s w)) else s
  | ORelease i => if usable s i then release s i else s
  | OHold i => if usable s i then hold s i else s
  | ODrop i =>
      if usable s i then set_obj s i (with_roots (get s i) (pred (roots (get s i)))) else s
  | ONewPy a => if addr_free s a then alloc s (fresh (KPy [] []) a 1 false None) else s
  | OSetRef x y =>
      if usable s x && usable s y then
        match k (get s x) with
        | KPy refs ex => set_obj s x (with_k (get s x) (KPy (y :: refs) ex))
        | _ => s
        end
      else s
  | OFromBuffer src a =>
      if usable s src && addr_free s a then
        match k (get s src) with
        | KPy refs ex =>
            let s1 := set_obj s src (with_k (get s src) (KPy refs (next s :: ex))) in
            alloc s1 (fresh (KFromBuf src true) a 1 false None)
        | _ => s
        end
      else s
  | OFromBufferFail src tag =>
      if usable s src && path_leaks tag then leak_export s src else s
  | ONewHandle x a =>
      if usable s x && addr_free s a then alloc s (fresh (KHandle x) a 1 false (Some x)) else s
  | OFromHandle h =>
      if usable s h then
        match k (get s h) with KHandle x => hold s x | _ => s end
      else s
  | OCollect G => collect s G
  | OCollectAuto => compact (collect s (unreachable s))
  end.

Definition run (ops : list op) : state := fold_left step ops init.

(* ---- what the operation returns to the program.  RSkip: the operand is not held by a variable (the
   operation is not executed).  Only release and gc(x, None) can fail in the histories modelled. *)
Inductive res := ROk | RValueError | RTypeError | RSkip.

Definition out (s : state) (o : op) : res :=
  match o with
  | ORelease i =>
      if usable s i then
        match pytype_of (k (get s i)) with
        | None => RTypeError                           (* b_release :7453: not a cdata *)
        | Some _ => match release_case s i with Some _ => ROk | None => RValueError end
        end
      else RSkip
  | OGcNone w =>
      (* b_gcp :7437: TypeError unless CDataGCP_Type (also when x is not a cdata: "O!") *)
      if usable s w then (if is_gcp (get s w) then ROk else RTypeError) else RSkip
  | _ => ROk
  end.

Definition stepr (s : state) (o : op) : state * res := (step s o, out s o).

Definition res_code (r : res) : nat :=
  match r with ROk | RSkip => 0 | RValueError => 1 | RTypeError => 2 end.

Fixpoint outs (s : state) (ops : list op) : list nat :=
  match ops with
  | [] => []
  | o :: ops' => res_code (out s o) :: outs (step s o) ops'
  end.


(* ffi.from_handle applied to an ADDRESS (what C code hands back): the live object at that
   address, if it is a handle, gives its structobj; anything else is the fatal error *)
Definition from_handle_addr (s : state) (a : nat) : option nat :=
  match filter (fun i => alive (get s i) && Nat.eqb (addr (get s i)) a) (ids s) with
  | i :: _ => match k (get s i) with KHandle x => Some x | _ => None end
  | [] => None
  end.

(* what the program can observe: a bytearray refuses to be resized while exported *)
Definition resize_blocked (o : obj) : bool :=
  match k o with KPy _ (_ :: _) => true | _ => false end.

(* observation of one object for the correspondence run: alive, destructor calls,
   resize blocked *)
Definition observe (s : state) : list (bool * nat * bool) :=
  map (fun i => (alive (get s i), calls (get s i), resize_blocked (get s i))) (ids s).

Fixpoint trace (s : state) (ops : list op) : list (list (bool * nat * bool)) :=
  match ops with
  | [] => []
  | o :: ops' => let s' := step s o in observe s' :: trace s' ops'
  end.

(* ---- re-entrant destructors.  A destructor may, while it runs, act on the very wrapper that is
   being finalised: call ffi.release(w) on it, or ffi.gc(w, None).  What makes "at most once" true
   then is the ORDER of cdatagcp_finalize :2099-2105: both fields are set to NULL BEFORE
   gcp_finalize calls the destructor (Gen.gen_finalize_clears_first), so the nested
   cdatagcp_finalize finds no destructor.  [finalize_re] keeps that order explicit:
   read + clear (if the source clears first), call (the nested action happens inside), clear
   (if the source clears afterwards).  The nesting depth is bounded by [fuel] only for the
   hypothetical clears-afterwards source, where the real recursion would not end. *)
Inductive reent := RNothing | RReleaseSelf | RGcNoneSelf.

Definition has_dtor (o : obj) : bool := match k o with KGcp _ (Some _) => true | _ => false end.

Definition clear_fin (o : obj) : obj :=
  match k o with
  | KGcp orig d => with_k o (KGcp (if fin_clears FOrigobj then None else orig)
                                  (if fin_clears FDestructor then None else d))
  | _ => o
  end.

Definition call_dtor (o : obj) : obj :=
  mkobj (k o) (alive o) (roots o) (addr o) (gen_gcp_finalize_calls + calls o) (had o) (cancelled o)
        (released o) (horig o).

Fixpoint finalize_re (fuel : nat) (r : reent) (o : obj) : obj :=
  if has_dtor o then
    let o1 := if gen_finalize_clears_first then clear_fin o else o in
    let o2 := call_dtor o1 in
    let o3 := match r, fuel with
              | RReleaseSelf, S f => mark_released (finalize_re f r o2)
              | RGcNoneSelf, _ => cancel o2
              | _, _ => o2
              end in
    if gen_finalize_clears_first then o3 else clear_fin o3
  else clear_fin o.

Definition finalize_at_re (r : reent) (s : state) (i : nat) : state :=
  set_obj s i (mark_released (finalize_re 2 r (get s i))).

Definition do_exit_re (r : reent) (s : state) (i : nat) (a : exit_action) : state :=
  match a with
  | XNothing => s
  | XFinalizeStructobjIfGcp =>
      match k (get s i) with
      | KStructPtr st => if is_gcp (get s st) then finalize_at_re r s st else s
      | _ => s
      end
  | XBufferRelease => let s1 := release_view s i in set_obj s1 i (mark_released (get s1 i))
  | XFinalizeSelf => finalize_at_re r s i
  end.

(* histories with re-entrant releases: OReleaseRe i r = ffi.release(i) / with i: where the destructor
   that runs performs [r] on the wrapper being finalised *)
Inductive op2 := OBase (o : op) | OReleaseRe (i : nat) (r : reent).

Definition step2 (s : state) (o : op2) : state :=
  match o with
  | OBase o => step s o
  | OReleaseRe i r =>
      if usable s i then
        match release_case s i with
        | Some c => do_exit_re r s i (exit_action_of c)
        | None => s
        end
      else s
  end.

Definition run2 (ops : list op2) : state := fold_left step2 ops init.
Definition erase (o : op2) : op := match o with OBase o => o | OReleaseRe i _ => ORelease i end.

(* observation and results along a history with re-entrant releases (correspondence run) *)
Fixpoint trace2 (s : state) (ops : list op2) : list (list (bool * nat * bool)) :=
  match ops with
  | [] => []
  | o :: ops' => let s' := step2 s o in observe s' :: trace2 s' ops'
  end.

Fixpoint outs2 (s : state) (ops : list op2) : list nat :=
  match ops with
  | [] => []
  | o :: ops' => res_code (out s (erase o)) :: outs2 (step2 s o) ops'
  end.
