(* C21 — ownership, destructors and handles over any history.

   Executable object-table model of the cdata kinds that own or keep something alive
   (all in src/c/_cffi_backend.c):

     KOwn        ffi.new("T[n]") and the struct object behind ffi.new("struct *"): the memory is
                 part of the Python object (allocate_owning_object :3737, freed by cdata_dealloc)
     KStructPtr  the pointer returned by ffi.new("struct *"): strong reference [structobj]
                 (direct_newp :3922-3942; p[0] returns structobj, cdataowning_subscript :2713)
     KGcp        ffi.gc(p, d) wrappers and everything a custom allocator returns
                 (allocate_gcp_object :3784, allocate_with_allocator :3805-3850, b_gcp :7373):
                 fields origobj, destructor;
                 cdatagcp_finalize :2075 (tp_finalize, also called by release) clears both fields and
                 calls gcp_finalize :2041; cdatagcp_dealloc :2084 calls gcp_finalize on the
                 current fields; gc(p, None) = Py_CLEAR(destructor) :7394
     KRaw        the cdata returned by a user alloc(): identifies one allocation
     KFromBuf    ffi.from_buffer(): Py_buffer view on [src] (direct_from_buffer :7205);
                 PyBuffer_Release on release (cdata_exit :3359), tp_clear :2028, dealloc :1979
     KHandle     ffi.new_handle(x) (newp_handle :7125); from_handle reads structobj :7185
     KPy         a plain Python object: handle target, buffer source (with its list of
                 exporters = live Py_buffer views; a bytearray refuses to resize while the list
                 is not empty), attribute references used to build cycles

   cdata_exit :3337 (ffi.release / with-exit): KOwn nothing; KStructPtr whose structobj is a
   KGcp: cdatagcp_finalize(structobj); KFromBuf: PyBuffer_Release; KGcp: cdatagcp_finalize.

   Deallocation is an event of the runtime ([OCollect S]): CPython frees a set S of objects
   that nobody outside S refers to and that no variable holds — one object whose reference
   count dropped to zero, a cascade of them, or a garbage cycle found by the collector.  For the
   state modelled here tp_finalize + tp_clear + tp_dealloc (collector) and tp_dealloc alone
   (reference counting) have the same net effect, so one event covers both.  The set is a
   parameter of the event and is only checked ([garbage]); [OCollectAuto] computes the set of
   all unreachable objects, which is what gc.collect() after every step gives on the real
   implementation.

   Ghost fields (not in the C structs): calls, had, cancelled, released, horig. *)
From Coq Require Import Arith List Bool Lia.
Import ListNotations.
From Cffi Require Import C21.Gen.

Inductive kind :=
| KOwn
| KStructPtr (s : nat)
| KGcp (orig : option nat) (dtor : option (option nat))
       (* dtor = Some y: a destructor is installed; y = the object its closure refers to, if any *)
| KRaw
| KFromBuf (src : nat) (view : bool)        (* view = the Py_buffer still holds its export *)
| KHandle (x : nat)
| KPy (refs : list nat) (exporters : list nat).

Record obj := mkobj {
  k : kind; alive : bool; roots : nat;       (* roots = number of program variables holding it *)
  addr : nat;                                (* its address while alive *)
  calls : nat;                               (* ghost: how often its destructor was called *)
  had : bool;                                (* ghost: created with a destructor *)
  cancelled : bool;                          (* ghost: gc(p, None) removed a destructor *)
  released : bool;                           (* ghost: explicitly released *)
  horig : option nat }.                      (* ghost: the object given to new_handle *)

Definition dead_obj := mkobj KOwn false 0 0 0 false false false None.
Definition fresh (kd : kind) (a : nat) (r : nat) (h : bool) (ho : option nat) :=
  mkobj kd true r a 0 h false false ho.

Record state := mkstate { objs : nat -> obj; next : nat }.
Definition init := mkstate (fun _ => dead_obj) 0.

Definition upd (f : nat -> obj) (i : nat) (o : obj) : nat -> obj :=
  fun j => if Nat.eqb j i then o else f j.
Definition set_obj (s : state) (i : nat) (o : obj) := mkstate (upd (objs s) i o) (next s).
Definition get (s : state) (i : nat) := objs s i.

Definition with_k (o : obj) (kd : kind) :=
  mkobj kd (alive o) (roots o) (addr o) (calls o) (had o) (cancelled o) (released o) (horig o).
Definition with_roots (o : obj) (r : nat) :=
  mkobj (k o) (alive o) r (addr o) (calls o) (had o) (cancelled o) (released o) (horig o).

Definition opt_list (x : option nat) : list nat := match x with Some i => [i] | None => [] end.

(* strong references held by an object = the edges its type reports to the cyclic collector:
     cdatagcp_traverse :2094        Py_VISIT(destructor); Py_VISIT(origobj)  -- BOTH, independently:
                                    origobj is an edge also when the destructor slot is NULL
                                    (after gc(w, None), or an allocator without free)
     cdataowninggc_traverse :1989   handle: Py_VISIT(structobj)
     cdatafrombuf_traverse :2003    Py_VISIT(view->obj)
     CDataOwning_Type (struct pointer) is not a GC type: it holds structobj by reference count only
   [garbage] and [reachable] are computed from these edges: an edge missing from tp_traverse makes
   the real collector leave a cycle alone that the model frees (seen as "still alive" by the run). *)
Definition refs_of (o : obj) : list nat :=
  if alive o then
    match k o with
    | KOwn | KRaw => []
    | KStructPtr s => [s]
    | KGcp orig dtor => opt_list orig ++ match dtor with Some y => opt_list y | None => [] end
    | KFromBuf src view => if view then [src] else []
    | KHandle x => [x]
    | KPy refs _ => refs
    end
  else [].

Definition mem (i : nat) (l : list nat) : bool := existsb (Nat.eqb i) l.
Definition ids (s : state) : list nat := seq 0 (next s).

(* the program can use what it holds in a variable *)
Definition usable (s : state) (i : nat) : bool :=
  (i <? next s) && alive (get s i) && (0 <? roots (get s i)).
(* malloc does not return the address of a live object (runtime hypothesis, as a guard) *)
Definition addr_free (s : state) (a : nat) : bool :=
  forallb (fun i => negb (alive (get s i) && Nat.eqb (addr (get s i)) a)) (ids s).

Definition alloc (s : state) (o : obj) : state := mkstate (upd (objs s) (next s) o) (S (next s)).

(* cdatagcp_finalize: both fields cleared; the destructor, if still there, is called *)
Definition run_dtor (o : obj) : obj :=
  match k o with
  | KGcp _ (Some _) =>
      mkobj (KGcp None None) (alive o) (roots o) (addr o) (S (calls o)) (had o) (cancelled o)
            (released o) (horig o)
  | KGcp _ None => with_k o (KGcp None None)
  | _ => o
  end.

Definition mark_released (o : obj) : obj :=
  mkobj (k o) (alive o) (roots o) (addr o) (calls o) (had o) (cancelled o) true (horig o).

(* gc(w, None): Py_CLEAR(destructor) *)
Definition cancel (o : obj) : obj :=
  match k o with
  | KGcp orig (Some _) =>
      mkobj (KGcp orig None) (alive o) (roots o) (addr o) (calls o) (had o) true (released o) (horig o)
  | _ => o
  end.

Fixpoint remove_id (i : nat) (l : list nat) : list nat :=
  match l with
  | [] => []
  | j :: l' => if Nat.eqb j i then remove_id i l' else j :: remove_id i l'
  end.

(* PyBuffer_Release(view): idempotent; the exporter forgets this view *)
Definition release_view (s : state) (f : nat) : state :=
  match k (get s f) with
  | KFromBuf src true =>
      let s1 := set_obj s f (with_k (get s f) (KFromBuf src false)) in
      match k (get s1 src) with
      | KPy refs ex => set_obj s1 src (with_k (get s1 src) (KPy refs (remove_id f ex)))
      | _ => s1
      end
  | _ => s
  end.

Definition kill (o : obj) : obj :=
  mkobj (k o) false 0 (addr o) (calls o) (had o) (cancelled o) (released o) (horig o).

(* tp_dealloc of one object *)
Definition dealloc (s : state) (i : nat) : state :=
  let s1 := release_view s i in                          (* cdatafrombuf_dealloc *)
  set_obj s1 i (kill (run_dtor (get s1 i))).             (* cdatagcp_dealloc -> gcp_finalize *)

(* S is a duplicate-free set of live objects that no variable holds and that only members of
   S refer to *)
Fixpoint nodupb (l : list nat) : bool :=
  match l with
  | [] => true
  | i :: l' => negb (mem i l') && nodupb l'
  end.

Definition garbage (s : state) (G : list nat) : bool :=
  nodupb G &&
  forallb (fun i => (i <? next s) && alive (get s i) && Nat.eqb (roots (get s i)) 0) G &&
  forallb (fun j => implb (existsb (fun r => mem r G) (refs_of (get s j))) (mem j G)) (ids s).

Definition collect (s : state) (G : list nat) : state :=
  if garbage s G then fold_left dealloc G s else s.

(* everything reachable from the variables: depth-first marking over a table of the reference
   lists (computed once); the fuel covers every node and every edge *)
Fixpoint dfs (fuel : nat) (table : list (list nat)) (todo visited : list nat) : list nat :=
  match fuel with
  | O => visited
  | S f =>
      match todo with
      | [] => visited
      | i :: rest =>
          if mem i visited then dfs f table rest visited
          else dfs f table (nth i table [] ++ rest) (i :: visited)
      end
  end.
Definition reachable (s : state) : list nat :=
  let objl := map (get s) (ids s) in
  let table := map refs_of objl in
  let rootl := filter (fun i => let o := nth i objl dead_obj in alive o && (0 <? roots o)) (ids s) in
  let fuel := S (length rootl + next s + fold_left (fun n l => n + length l) table 0) in
  dfs fuel table rootl [].
Definition unreachable (s : state) : list nat :=
  filter (fun i => alive (get s i) && negb (mem i (reachable s))) (ids s).

(* the same state with the object table stored as a list (no semantic content: every object
   is unchanged, see Proofs.compact_get; it keeps the evaluation of long histories fast) *)
Definition compact (s : state) : state :=
  mkstate (let l := map (objs s) (seq 0 (next s)) in fun i => nth i l dead_obj) (next s).

Inductive op :=
| ONew (a : nat)                                   (* v = ffi.new("int[4]") *)
| ONewStruct (a1 a2 : nat)                         (* v = ffi.new("struct s *"): struct object, pointer *)
| OAllocNew (a1 a2 : nat) (has_free : bool)        (* v = ffi.new_allocator(alloc, free)("int[4]"):
                                                      the cdata returned by alloc(), the wrapper *)
| OAllocNewStruct (a1 a2 a3 : nat) (has_free : bool)  (* ... ("struct s *"): raw, wrapper, pointer *)
| ONewFail                                         (* ffi.new("int[4]", <rejected initializer>): raises; the cdata
                                                      made before the conversion is released at once *)
| OAllocNewFail (a1 a2 : nat) (has_free : bool)    (* the same through ffi.new_allocator(alloc, free): alloc()
                                                      has been called; the wrapper must die and call free *)
| OAlias (p : nat)                                 (* v = p[0] *)
| OGc (p a : nat) (y : option nat)                 (* v = ffi.gc(p, d); d's closure refers to y *)
| OGcNone (w : nat)                                (* ffi.gc(w, None) *)
| ORelease (o : nat)                               (* ffi.release(o)  /  with o: pass *)
| OHold (o : nat)                                  (* v2 = v *)
| ODrop (o : nat)                                  (* del v *)
| ONewPy (a : nat)                                 (* v = Obj() / bytearray subclass *)
| OSetRef (x y : nat)                              (* x.refs.append(y) *)
| OFromBuffer (src a : nat)                        (* v = ffi.from_buffer(src) *)
| OFromBufferFail (src tag : nat)                  (* ffi.from_buffer(src) that fails on the error path [tag]
                                                      of direct_from_buffer (C21/Gen.v) *)
| ONewHandle (x a : nat)                           (* v = ffi.new_handle(x) *)
| OFromHandle (h : nat)                            (* v = ffi.from_handle(h) *)
| OCollect (G : list nat)                          (* the runtime frees the set G *)
| OCollectAuto.                                    (* gc.collect(): everything unreachable *)

Definition hold (s : state) (i : nat) : state :=
  set_obj s i (with_roots (get s i) (S (roots (get s i)))).

Definition is_gcp (o : obj) : bool := match k o with KGcp _ _ => true | _ => false end.
Definition is_py (o : obj) : bool := match k o with KPy _ _ => true | _ => false end.

Definition finalize_at (s : state) (i : nat) : state :=
  set_obj s i (mark_released (run_dtor (get s i))).

Definition dtor_of (has_free : bool) : option (option nat) := if has_free then Some None else None.

(* direct_from_buffer :7205 leaves through `goto error1` / `goto error2`; error2 releases the
   Py_buffer, error1 only frees the view struct.  A failure path taken AFTER
   PyObject_GetBuffer succeeded that does not pass PyBuffer_Release leaks the export: the
   source stays locked and referenced for ever (a phantom exporter that nobody can release). *)
Definition path_leaks (tag : nat) : bool :=
  match find (fun p => Nat.eqb (fst (fst p)) tag) gen_frombuf_paths with
  | Some (_, after_getbuffer, releases) => after_getbuffer && negb releases
  | None => false
  end.

Definition leak_export (s : state) (src : nat) : state :=
  match k (get s src) with
  | KPy refs ex =>
      let o := get s src in
      set_obj s src (mkobj (KPy refs (next s :: ex)) (alive o) (S (roots o)) (addr o) (calls o) (had o)
                           (cancelled o) (released o) (horig o))
  | _ => s
  end.

Definition step (s : state) (o : op) : state :=
  match o with
  | ONew a =>
      if addr_free s a then alloc s (fresh KOwn a 1 false None) else s
  | ONewStruct a1 a2 =>
      if addr_free s a1 && addr_free s a2 && negb (Nat.eqb a1 a2) then
        let s1 := alloc s (fresh KOwn a1 0 false None) in
        alloc s1 (fresh (KStructPtr (next s)) a2 1 false None)
      else s
  | OAllocNew a1 a2 has_free =>
      if addr_free s a1 && addr_free s a2 && negb (Nat.eqb a1 a2) then
        let s1 := alloc s (fresh KRaw a1 0 false None) in
        alloc s1 (fresh (KGcp (Some (next s)) (dtor_of has_free)) a2 1 has_free None)
      else s
  | OAllocNewStruct a1 a2 a3 has_free =>
      if addr_free s a1 && addr_free s a2 && addr_free s a3
         && negb (Nat.eqb a1 a2) && negb (Nat.eqb a1 a3) && negb (Nat.eqb a2 a3) then
        let s1 := alloc s (fresh KRaw a1 0 false None) in
        let s2 := alloc s1 (fresh (KGcp (Some (next s)) (dtor_of has_free)) a2 0 has_free None) in
        alloc s2 (fresh (KStructPtr (next s1)) a3 1 false None)
      else s
  | ONewFail => s
  | OAllocNewFail a1 a2 has_free =>
      (* direct_newp :3945-3990: allocate_with_allocator succeeded, convert_from_object failed;
         Py_DECREF(cd) frees the wrapper (Gen.gen_newp_fail_decref) - without it the wrapper keeps
         its reference count of 1 for ever *)
      if addr_free s a1 && addr_free s a2 && negb (Nat.eqb a1 a2) then
        let s1 := alloc s (fresh KRaw a1 0 false None) in
        let s2 := alloc s1 (fresh (KGcp (Some (next s)) (dtor_of has_free)) a2
                                  (if gen_newp_fail_decref then 0 else 1) has_free None) in
        if gen_newp_fail_decref then collect s2 [S (next s); next s] else s2
      else s
  | OAlias p =>
      if usable s p then
        match k (get s p) with KStructPtr st => hold s st | _ => s end
      else s
  | OGc p a y =>
      if usable s p && addr_free s a
         && match y with Some yy => usable s yy && is_py (get s yy) | None => true end then
        alloc s (fresh (KGcp (Some p) (Some y)) a 1 true None)
      else s
  | OGcNone w =>
      if usable s w then set_obj s w (cancel (get s w)) else s
  | ORelease i =>
      if usable s i then
        match k (get s i) with
        | KOwn => s
        | KStructPtr st => if is_gcp (get s st) then finalize_at s st else s
        | KFromBuf _ _ => let s1 := release_view s i in set_obj s1 i (mark_released (get s1 i))
        | KGcp _ _ => finalize_at s i
        | _ => s                                      (* ValueError *)
        end
      else s
  | OHold i => if usable s i then hold s i else s
  | ODrop i =>
      if usable s i then set_obj s i (with_roots (get s i) (pred (roots (get s i)))) else s
  | ONewPy a => if addr_free s a then alloc s (fresh (KPy [] []) a 1 false None) else s
  | OSetRef x y =>
      if usable s x && usable s y then
        match k (get s x) with
        | KPy refs ex => set_obj s x (with_k (get s x) (KPy (y :: refs) ex))
        | _ => s
        end
      else s
  | OFromBuffer src a =>
      if usable s src && addr_free s a then
        match k (get s src) with
        | KPy refs ex =>
            let s1 := set_obj s src (with_k (get s src) (KPy refs (next s :: ex))) in
            alloc s1 (fresh (KFromBuf src true) a 1 false None)
        | _ => s
        end
      else s
  | OFromBufferFail src tag =>
      if usable s src && path_leaks tag then leak_export s src else s
  | ONewHandle x a =>
      if usable s x && addr_free s a then alloc s (fresh (KHandle x) a 1 false (Some x)) else s
  | OFromHandle h =>
      if usable s h then
        match k (get s h) with KHandle x => hold s x | _ => s end
      else s
  | OCollect G => collect s G
  | OCollectAuto => compact (collect s (unreachable s))
  end.

Definition run (ops : list op) : state := fold_left step ops init.

(* ffi.from_handle applied to an ADDRESS (what C code hands back): the live object at that
   address, if it is a handle, gives its structobj; anything else is the fatal error *)
Definition from_handle_addr (s : state) (a : nat) : option nat :=
  match filter (fun i => alive (get s i) && Nat.eqb (addr (get s i)) a) (ids s) with
  | i :: _ => match k (get s i) with KHandle x => Some x | _ => None end
  | [] => None
  end.

(* what the program can observe: a bytearray refuses to be resized while exported *)
Definition resize_blocked (o : obj) : bool :=
  match k o with KPy _ (_ :: _) => true | _ => false end.

(* observation of one object for the correspondence run: alive, destructor calls,
   resize blocked *)
Definition observe (s : state) : list (bool * nat * bool) :=
  map (fun i => (alive (get s i), calls (get s i), resize_blocked (get s i))) (ids s).

Fixpoint trace (s : state) (ops : list op) : list (list (bool * nat * bool)) :=
  match ops with
  | [] => []
  | o :: ops' => let s' := step s o in observe s' :: trace s' ops'
  end.
