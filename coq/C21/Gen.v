(* C21/Gen.v — REGENERATED on every run by tools/props/c21.py:regen from
     /repo/src/c/_cffi_backend.c   (direct_from_buffer: every `goto errorN`, whether it is taken after
                                    PyObject_GetBuffer succeeded, and whether label errorN passes
                                    PyBuffer_Release(view))
   Do not edit: this committed copy is the snapshot used when the translator fails. *)
From Coq Require Import List.
Import ListNotations.

(* (tag, taken after the buffer was obtained, the label releases the buffer)
   tags: 0 = PyObject_GetBuffer / contiguity failed, 1 = buffer too small, 2 = item size 0, 3 = no memory for the cdata *)
Definition gen_frombuf_paths : list (nat * bool * bool) :=
  [(0, false, false); (2, true, true); (1, true, true); (3, true, true)].

(* direct_newp: the error path after a failed initializer conversion releases the freshly made
   cdata (`if (convert_from_object(...) < 0) { Py_DECREF(cd); return NULL; }`) *)
Definition gen_newp_fail_decref : bool := true.
