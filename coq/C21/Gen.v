(* C21/Gen.v — REGENERATED on every run by tools/props/c21.py:regen from
     /repo/src/c/_cffi_backend.c   (direct_from_buffer: every `goto errorN`, whether it is taken after
                                    PyObject_GetBuffer succeeded, and whether label errorN passes
                                    PyBuffer_Release(view); direct_newp: the DECREF on the failure path;
                                    and, by tools/props/c21_regen.py, the Py_VISIT lists of the three
                                    tp_traverse functions, the statement order of cdatagcp_finalize,
                                    gcp_finalize, cdatagcp_dealloc, the None branch of b_gcp,
                                    explicit_release_case and the switch of cdata_exit)
   Do not edit: this committed copy is the snapshot of the unchanged tree. *)
From Coq Require Import List.
Import ListNotations.

(* (tag, taken after the buffer was obtained, the label releases the buffer)
   tags: 0 = PyObject_GetBuffer / contiguity failed, 1 = buffer too small, 2 = item size 0, 3 = no memory for the cdata *)
Definition gen_frombuf_paths : list (nat * bool * bool) :=
  [(0, false, false); (2, true, true); (1, true, true); (3, true, true)].

(* direct_newp: the error path after a failed initializer conversion releases the freshly made
   cdata (`if (convert_from_object(...) < 0) { Py_DECREF(cd); return NULL; }`) *)
Definition gen_newp_fail_decref : bool := true.

(* ---- GC edges, finalize order, release table (tools/props/c21_regen.py) *)
Inductive pytype := POwning | POwningGC | PFromBuf | PGcp.
Inductive ctguard := GAny | GPtrOrArray | GHandle | GCallback.
Inductive gfield := FStructobj | FClosureArgs | FViewObj | FDestructor | FOrigobj.
Inductive exit_action := XNothing | XFinalizeStructobjIfGcp | XBufferRelease | XFinalizeSelf.

(* tp_traverse: (Python type, ctype test guarding the visits, fields given to Py_VISIT in order) from
   cdataowninggc_traverse, cdatafrombuf_traverse, cdatagcp_traverse and the tp_traverse slots *)
Definition gen_traverse : list (pytype * ctguard * list gfield) :=
  [(POwningGC, GHandle, [FStructobj]); (POwningGC, GCallback, [FClosureArgs]); (PFromBuf, GAny, [FViewObj]); (PGcp, GAny, [FDestructor; FOrigobj])].

(* direct_newp stores the only reference to the struct object into the pointer object, and
   cdataowning_dealloc drops it under CT_IS_PTR_TO_OWNED (CDataOwning_Type is not a GC type) *)
Definition gen_structptr_owns : bool := true.

(* cdatagcp_finalize: fields set to NULL; all of them before gcp_finalize(destructor, origobj) is called *)
Definition gen_finalize_cleared : list gfield := [FDestructor; FOrigobj].
Definition gen_finalize_clears_first : bool := true.
(* gcp_finalize: call sites of the destructor, all under `if (destructor != NULL)` *)
Definition gen_gcp_finalize_calls : nat := 1.
(* cdatagcp_dealloc passes the current fields to gcp_finalize *)
Definition gen_dealloc_finalizes : bool := true.
(* b_gcp, destructor == None: TypeError unless CDataGCP_Type, then Py_CLEAR of these fields *)
Definition gen_gcnone_clears : list gfield := [FDestructor].

(* explicit_release_case: (Python type, ctype guard, case); anything else: ValueError *)
Definition gen_release_case : list (pytype * ctguard * nat) :=
  [(POwning, GPtrOrArray, 0); (PFromBuf, GAny, 1); (PGcp, GAny, 2)].
(* cdata_exit (= ffi.release and with-exit): case -> action *)
Definition gen_exit_table : list (nat * exit_action) :=
  [(0, XFinalizeStructobjIfGcp); (1, XBufferRelease); (2, XFinalizeSelf)].
