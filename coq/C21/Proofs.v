(* C21 — proofs: an invariant of every reachable state, by induction over the history. *)
From Coq Require Import Arith List Bool Lia.
Import ListNotations.
From Cffi Require Import C21.Gen C21.Model.

(* regenerated obligation: in direct_from_buffer every failure taken after PyObject_GetBuffer
   succeeded goes through the label that calls PyBuffer_Release *)
Lemma frombuf_paths_release :
  forallb (fun p => implb (snd (fst p)) (snd p)) gen_frombuf_paths = true.
Proof. vm_compute. reflexivity. Qed.

Lemma no_leak tag : path_leaks tag = false.
Proof.
  unfold path_leaks. pose proof frombuf_paths_release as H.
  destruct (find _ gen_frombuf_paths) as [[[t0 a] r] |] eqn:F; [|reflexivity].
  apply find_some in F. destruct F as (I & _). rewrite forallb_forall in H. specialize (H _ I).
  cbn in H. destruct a, r; cbn in *; try reflexivity; discriminate.
Qed.

(* ------------------------------------------------------------------ the invariant *)
Definition gcp_good (o : obj) : Prop :=
  match k o with
  | KGcp orig (Some _) =>
      had o = true /\ calls o = 0 /\ cancelled o = false /\ released o = false /\ alive o = true
      /\ orig <> None
  | KGcp orig None =>
      ((had o = false /\ calls o = 0 /\ cancelled o = false) \/
       (had o = true /\ cancelled o = true /\ calls o = 0) \/
       (had o = true /\ cancelled o = false /\ calls o = 1 /\ (released o = true \/ alive o = false)))
      /\ (released o = true \/ alive o = false \/ orig <> None)
  | KFromBuf _ true =>
      calls o = 0 /\ had o = false /\ cancelled o = false /\ released o = false
  | _ => calls o = 0 /\ had o = false /\ cancelled o = false
  end.

Record Inv (s : state) : Prop := {
  i_fresh : forall i, next s <= i -> get s i = dead_obj;
  i_gcp : forall i, gcp_good (get s i);
  i_roots : forall i, 0 < roots (get s i) -> alive (get s i) = true;
  i_refs : forall i r, In r (refs_of (get s i)) -> alive (get s r) = true;
  i_addr : forall i j, alive (get s i) = true -> alive (get s j) = true ->
                       addr (get s i) = addr (get s j) -> i = j;
  i_handle : forall h x, k (get s h) = KHandle x -> horig (get s h) = Some x;
  i_view : forall f src, k (get s f) = KFromBuf src true ->
             alive (get s f) = true /\ exists refs ex, k (get s src) = KPy refs ex /\ In f ex;
  i_exp : forall src refs ex f, k (get s src) = KPy refs ex -> In f ex ->
             k (get s f) = KFromBuf src true }.

(* ------------------------------------------------------------------ basics *)
Lemma get_set s i o j : get (set_obj s i o) j = if Nat.eqb j i then o else get s j.
Proof. reflexivity. Qed.
Lemma get_alloc s o j : get (alloc s o) j = if Nat.eqb j (next s) then o else get s j.
Proof. reflexivity. Qed.
Lemma next_set s i o : next (set_obj s i o) = next s.
Proof. reflexivity. Qed.
Lemma next_alloc s o : next (alloc s o) = S (next s).
Proof. reflexivity. Qed.

Lemma alive_lt s i : Inv s -> alive (get s i) = true -> i < next s.
Proof.
  intros H A. destruct (Nat.lt_ge_cases i (next s)) as [L | L]; [exact L|].
  rewrite (i_fresh s H i L) in A. discriminate.
Qed.

Lemma usable_spec s i : usable s i = true ->
  i < next s /\ alive (get s i) = true /\ 0 < roots (get s i).
Proof.
  unfold usable. rewrite !andb_true_iff, Nat.ltb_lt, Nat.ltb_lt. tauto.
Qed.

Lemma mem_In i l : mem i l = true <-> In i l.
Proof.
  unfold mem. rewrite existsb_exists. split.
  - intros (x & Hx & E). apply Nat.eqb_eq in E. subst. exact Hx.
  - intros H. exists i. split; [exact H | apply Nat.eqb_refl].
Qed.

Lemma addr_free_spec s a : Inv s -> addr_free s a = true ->
  forall i, alive (get s i) = true -> addr (get s i) <> a.
Proof.
  intros H F i A E. unfold addr_free in F. rewrite forallb_forall in F.
  specialize (F i). rewrite A, E, Nat.eqb_refl in F. cbn in F.
  assert (In i (ids s)) by (apply in_seq; pose proof (alive_lt s i H A); lia).
  specialize (F H0). discriminate.
Qed.

Lemma In_remove_id f i l : In f (remove_id i l) -> In f l /\ f <> i.
Proof.
  induction l as [| j l IH]; cbn; [tauto|].
  destruct (Nat.eqb_spec j i).
  - intros H. destruct (IH H). split; [right|]; assumption.
  - cbn. intros [-> | H]; [split; [left; reflexivity | assumption]|].
    destruct (IH H). split; [right|]; assumption.
Qed.

Lemma init_inv : Inv init.
Proof.
  constructor; cbn; intros; try reflexivity; try discriminate; try tauto; try (cbn in *; lia);
    try (unfold gcp_good; cbn; auto).
Qed.

(* ------------------------------------------------------------------ local object updates:
   one object is replaced by another with the same liveness and address, whose references are
   alive, that is still gcp_good, and whose kind changes only in ways that keep the
   view / exporter relations *)
Record local_ok (s : state) (o o' : obj) : Prop := {
  l_alive : alive o' = alive o;
  l_roots : 0 < roots o' -> alive o' = true;
  l_addr : addr o' = addr o;
  l_refs : forall r, In r (refs_of o') -> alive (get s r) = true;
  l_good : gcp_good o';
  l_handle : forall x, k o' = KHandle x -> horig o' = Some x;
  l_view : forall src, k o' = KFromBuf src true -> k o = KFromBuf src true;
  l_py : forall refs ex, k o' = KPy refs ex -> exists refs0, k o = KPy refs0 ex;
  l_py2 : forall refs ex, k o = KPy refs ex -> exists refs', k o' = KPy refs' ex;
  l_view2 : forall src, k o = KFromBuf src true -> k o' = KFromBuf src true }.

Ltac eqb_cases :=
  repeat match goal with
         | |- context [Nat.eqb ?a ?b] => destruct (Nat.eqb_spec a b); subst
         | H : context [Nat.eqb ?a ?b] |- _ => destruct (Nat.eqb_spec a b); subst
         end.

Lemma set_local s i o' : Inv s -> i < next s -> local_ok s (get s i) o' -> Inv (set_obj s i o').
Proof.
  intros H Hi L. destruct L.
  constructor; intros; rewrite ?next_set in *.
  - rewrite get_set. destruct (Nat.eqb_spec i0 i); [subst; lia | apply (i_fresh s H); assumption].
  - rewrite get_set. destruct (Nat.eqb_spec i0 i); [assumption | apply (i_gcp s H)].
  - rewrite get_set in *. destruct (Nat.eqb_spec i0 i); [auto | apply (i_roots s H); assumption].
  - rewrite get_set in H0.
    assert (A : alive (get s r) = true).
    { destruct (Nat.eqb_spec i0 i); [auto | eapply (i_refs s H); eassumption]. }
    rewrite get_set. destruct (Nat.eqb_spec r i); [subst; congruence | exact A].
  - rewrite !get_set in *.
    destruct (Nat.eqb_spec i0 i), (Nat.eqb_spec j i); subst; try reflexivity;
      apply (i_addr s H); congruence.
  - rewrite get_set in *. destruct (Nat.eqb_spec h i); [auto | apply (i_handle s H); assumption].
  - rewrite get_set in H0. destruct (Nat.eqb_spec f i).
    + subst. apply l_view0 in H0. destruct (i_view s H i src H0) as (A & refs & ex & K & I).
      split; [rewrite get_set, Nat.eqb_refl; congruence|].
      rewrite get_set. destruct (Nat.eqb_spec src i).
      * subst. congruence.
      * eauto.
    + destruct (i_view s H f src H0) as (A & refs & ex & K & I).
      split; [rewrite get_set; destruct (Nat.eqb_spec f i); [contradiction | exact A]|].
      rewrite get_set. destruct (Nat.eqb_spec src i).
      * subst. destruct (l_py3 refs ex K) as (refs' & K'). eauto.
      * eauto.
  - rewrite get_set in H0. rewrite get_set. destruct (Nat.eqb_spec src i).
    + subst. destruct (l_py0 refs ex H0) as (refs0 & K0).
      pose proof (i_exp s H i refs0 ex f K0 H1) as KF.
      destruct (Nat.eqb_spec f i); [subst; congruence | exact KF].
    + pose proof (i_exp s H src refs ex f H0 H1) as KF.
      destruct (Nat.eqb_spec f i); [subst; auto | exact KF].
Qed.

(* ---- the object updates used by the operations *)
Lemma refs_alive_self s i : Inv s -> forall r, In r (refs_of (get s i)) -> alive (get s r) = true.
Proof. intros H r. apply (i_refs s H). Qed.

Lemma local_roots s i n : Inv s -> (0 < n -> alive (get s i) = true) ->
  local_ok s (get s i) (with_roots (get s i) n).
Proof.
  intros H A. pose proof (i_gcp s H i) as G. pose proof (i_handle s H i) as Hh.
  constructor; cbn; auto; try (intros; eauto);
    try (apply (i_refs s H i); assumption); try (unfold gcp_good in *; cbn; exact G).
Qed.

Lemma refs_run_dtor o r : In r (refs_of (run_dtor o)) -> In r (refs_of o).
Proof.
  unfold run_dtor, refs_of. destruct o as [kd al ro ad ca ha cn rl ho]; cbn.
  destruct kd; cbn; auto. destruct dtor; cbn; destruct al; cbn; tauto.
Qed.

Lemma local_finalize s i : Inv s -> alive (get s i) = true -> is_gcp (get s i) = true ->
  local_ok s (get s i) (mark_released (run_dtor (get s i))).
Proof.
  intros H A Ig. pose proof (i_gcp s H i) as G. pose proof (i_handle s H i) as Hh.
  pose proof (i_roots s H i) as R. pose proof (i_refs s H i) as Rf.
  unfold run_dtor, mark_released, gcp_good, refs_of, is_gcp in *.
  destruct (get s i) as [kd al ro ad ca ha cn rl ho]; cbn in *. subst al.
  destruct kd; try discriminate.
  destruct dtor; constructor; cbn; intros; eauto; try discriminate; try tauto;
    try (destruct G as (A & B & C & D & E & F); split; [right; right; subst; auto | auto]; fail);
    try (destruct G as ([G | [G | G]] & G2); (split; [|auto]);
         [left | right; left | right; right]; intuition; fail).
Qed.

Lemma local_cancel s i : Inv s -> local_ok s (get s i) (cancel (get s i)).
Proof.
  intros H. pose proof (i_gcp s H i) as G. pose proof (i_handle s H i) as Hh.
  pose proof (i_roots s H i) as R. pose proof (i_refs s H i) as Rf.
  unfold cancel, gcp_good, refs_of in *.
  destruct (get s i) as [kd al ro ad ca ha cn rl ho]; cbn in *.
  destruct kd; try (constructor; cbn; intros; eauto; try discriminate; fail).
  destruct dtor; constructor; cbn; intros; eauto; try discriminate.
  - apply Rf. destruct al; [|destruct H0]. apply in_or_app. apply in_app_or in H0.
    destruct H0; [left; assumption | destruct H0].
  - destruct G as (A & B & C & D & E & F). split; [right; left; auto | right; right; exact F].
Qed.

Lemma local_released s i : Inv s -> is_gcp (get s i) = false ->
  (forall src, k (get s i) <> KFromBuf src true) ->
  local_ok s (get s i) (mark_released (get s i)).
Proof.
  intros H Ng Nv. pose proof (i_gcp s H i) as G. pose proof (i_handle s H i) as Hh.
  pose proof (i_roots s H i) as R. pose proof (i_refs s H i) as Rf.
  unfold mark_released, gcp_good, refs_of, is_gcp in *.
  destruct (get s i) as [kd al ro ad ca ha cn rl ho]; cbn in *.
  destruct kd as [| s0 | orig dtor | | src [|] | x | refs ex]; try discriminate;
    try (exfalso; eapply Nv; reflexivity);
    constructor; cbn; intros; eauto; try discriminate.
Qed.

Lemma local_setref s x y refs ex : Inv s -> k (get s x) = KPy refs ex -> alive (get s y) = true ->
  local_ok s (get s x) (with_k (get s x) (KPy (y :: refs) ex)).
Proof.
  intros H K A. pose proof (i_gcp s H x) as G. pose proof (i_roots s H x) as R.
  pose proof (i_refs s H x) as Rf.
  unfold gcp_good, refs_of in *.
  destruct (get s x) as [kd al ro ad ca ha cn rl ho]; cbn in *. subst kd.
  constructor; cbn; intros; eauto; try discriminate.
  - destruct al; [|destruct H0]. destruct H0; [subst; assumption | apply Rf; assumption].
  - inversion H0; subst. eauto.
  - inversion H0; subst. eauto.
Qed.

(* ------------------------------------------------------------------ allocation *)
Lemma alloc_inv s kd a r h ho : Inv s -> addr_free s a = true ->
  (forall x, In x (refs_of (fresh kd a r h ho)) -> alive (get s x) = true) ->
  gcp_good (fresh kd a r h ho) ->
  (forall x, kd = KHandle x -> ho = Some x) ->
  (forall src, kd <> KFromBuf src true) ->
  (forall refs ex, kd = KPy refs ex -> ex = []) ->
  Inv (alloc s (fresh kd a r h ho)).
Proof.
  intros H F R G Hh Hv Hp.
  assert (D : get s (next s) = dead_obj) by (apply (i_fresh s H); lia).
  constructor; intros; rewrite ?next_alloc in *.
  - rewrite get_alloc. destruct (Nat.eqb_spec i (next s)); [lia | apply (i_fresh s H); lia].
  - rewrite get_alloc. destruct (Nat.eqb_spec i (next s)); [exact G | apply (i_gcp s H)].
  - rewrite get_alloc in *. destruct (Nat.eqb_spec i (next s)); [reflexivity | apply (i_roots s H); assumption].
  - rewrite get_alloc in H0.
    assert (A : alive (get s r0) = true).
    { destruct (Nat.eqb_spec i (next s)); [auto | eapply (i_refs s H); eassumption]. }
    rewrite get_alloc. destruct (Nat.eqb_spec r0 (next s)); [reflexivity | exact A].
  - rewrite !get_alloc in *.
    destruct (Nat.eqb_spec i (next s)), (Nat.eqb_spec j (next s)); subst; try reflexivity.
    + cbn in H2. exfalso. eapply (addr_free_spec s a H F j); [assumption | congruence].
    + cbn in H2. exfalso. eapply (addr_free_spec s a H F i); [assumption | congruence].
    + apply (i_addr s H); assumption.
  - rewrite get_alloc in *. destruct (Nat.eqb_spec h0 (next s)); [cbn in *; auto | apply (i_handle s H); assumption].
  - rewrite get_alloc in H0. destruct (Nat.eqb_spec f (next s)).
    + cbn in H0. exfalso. eapply Hv. eassumption.
    + destruct (i_view s H f src H0) as (A & refs & ex & K & I).
      split; [rewrite get_alloc; destruct (Nat.eqb_spec f (next s)); [contradiction | exact A]|].
      rewrite get_alloc. destruct (Nat.eqb_spec src (next s)).
      * subst. rewrite D in K. discriminate.
      * eauto.
  - rewrite get_alloc in H0. rewrite get_alloc. destruct (Nat.eqb_spec src (next s)).
    + cbn in H0. rewrite (Hp refs ex H0) in H1. destruct H1.
    + pose proof (i_exp s H src refs ex f H0 H1) as KF.
      destruct (Nat.eqb_spec f (next s)); [subst; rewrite D in KF; discriminate | exact KF].
Qed.

(* ------------------------------------------------------------------ PyBuffer_Release *)
Lemma release_view_next s f : next (release_view s f) = next s.
Proof.
  unfold release_view. destruct (k (get s f)); try reflexivity. destruct view; try reflexivity.
  cbn. match goal with |- context [match ?x with _ => _ end] => destruct x end; reflexivity.
Qed.

(* pointwise description *)
Definition unview (o : obj) : obj :=
  match k o with KFromBuf src true => with_k o (KFromBuf src false) | _ => o end.
Definition unexport (f : nat) (o : obj) : obj :=
  match k o with KPy refs ex => with_k o (KPy refs (remove_id f ex)) | _ => o end.

Lemma release_view_get s f j : Inv s ->
  get (release_view s f) j =
    if Nat.eqb j f then unview (get s f)
    else match k (get s f) with
         | KFromBuf src true => if Nat.eqb j src then unexport f (get s src) else get s j
         | _ => get s j
         end.
Proof.
  intros H. unfold release_view, unview.
  destruct (k (get s f)) eqn:K; try (destruct (Nat.eqb_spec j f); [subst; reflexivity | reflexivity]).
  destruct view; [|destruct (Nat.eqb_spec j f); [subst; reflexivity | reflexivity]].
  destruct (i_view s H f src K) as (A & refs & ex & K2 & I).
  assert (Ne : src <> f) by (intros ->; congruence).
  unfold unexport. rewrite K2. unfold get, set_obj, upd in *. cbn [objs].
  destruct (Nat.eqb_spec src f); [contradiction|]. rewrite K2. cbn [objs].
  destruct (Nat.eqb_spec j f), (Nat.eqb_spec j src); subst; try contradiction; try reflexivity.
Qed.

(* ------------------------------------------------------------------ weak invariant: while a
   garbage set is being freed, members that are still waiting may refer to freed members *)
Record WInv (s : state) (P : nat -> Prop) : Prop := {
  w_fresh : forall i, next s <= i -> get s i = dead_obj;
  w_gcp : forall i, gcp_good (get s i);
  w_roots : forall i, 0 < roots (get s i) -> alive (get s i) = true;
  w_refs : forall i r, In r (refs_of (get s i)) -> alive (get s r) = true \/ P i;
  w_addr : forall i j, alive (get s i) = true -> alive (get s j) = true ->
                       addr (get s i) = addr (get s j) -> i = j;
  w_handle : forall h x, k (get s h) = KHandle x -> horig (get s h) = Some x;
  w_view : forall f src, k (get s f) = KFromBuf src true ->
             alive (get s f) = true /\ exists refs ex, k (get s src) = KPy refs ex /\ In f ex;
  w_exp : forall src refs ex f, k (get s src) = KPy refs ex -> In f ex ->
             k (get s f) = KFromBuf src true }.

Lemma Inv_WInv s : Inv s -> WInv s (fun _ => False).
Proof. intros []. constructor; auto. intros i r H. left. eauto. Qed.
Lemma WInv_Inv s : WInv s (fun _ => False) -> Inv s.
Proof.
  intros []. constructor; auto. intros i r H. destruct (w_refs0 i r H); [assumption | contradiction].
Qed.

Lemma In_remove_id_conv f i l : In f l -> f <> i -> In f (remove_id i l).
Proof.
  induction l as [| j l IH]; cbn; [tauto|]. intros [-> | H] N.
  - destruct (Nat.eqb_spec f i); [contradiction | left; reflexivity].
  - destruct (Nat.eqb_spec j i); [auto | right; auto].
Qed.

Lemma walive_lt s P i : WInv s P -> alive (get s i) = true -> i < next s.
Proof.
  intros H A. destruct (Nat.lt_ge_cases i (next s)) as [L | L]; [exact L|].
  rewrite (w_fresh s P H i L) in A. discriminate.
Qed.

Lemma release_view_getW s P f j : WInv s P ->
  get (release_view s f) j =
    if Nat.eqb j f then unview (get s f)
    else match k (get s f) with
         | KFromBuf src true => if Nat.eqb j src then unexport f (get s src) else get s j
         | _ => get s j
         end.
Proof.
  intros H. unfold release_view, unview.
  destruct (k (get s f)) eqn:K; try (destruct (Nat.eqb_spec j f); [subst; reflexivity | reflexivity]).
  destruct view; [|destruct (Nat.eqb_spec j f); [subst; reflexivity | reflexivity]].
  destruct (w_view s P H f src K) as (A & refs & ex & K2 & I).
  assert (Ne : src <> f) by (intros ->; congruence).
  unfold unexport. rewrite K2. unfold get, set_obj, upd in *. cbn [objs].
  destruct (Nat.eqb_spec src f); [contradiction|]. rewrite K2. cbn [objs].
  destruct (Nat.eqb_spec j f), (Nat.eqb_spec j src); subst; try contradiction; try reflexivity.
Qed.

(* properties of the two pointwise updates *)
Lemma unview_facts o : alive (unview o) = alive o /\ roots (unview o) = roots o /\
  addr (unview o) = addr o /\ horig (unview o) = horig o /\ calls (unview o) = calls o /\
  had (unview o) = had o /\ cancelled (unview o) = cancelled o /\ released (unview o) = released o /\
  (forall r, In r (refs_of (unview o)) -> In r (refs_of o)) /\
  (gcp_good o -> gcp_good (unview o)) /\
  (forall src, k (unview o) <> KFromBuf src true) /\
  (forall x, k (unview o) = KHandle x -> k o = KHandle x) /\
  (forall a b, k (unview o) = KPy a b -> k o = KPy a b) /\
  (forall a b, k (unview o) = KGcp a b -> k o = KGcp a b).
Proof.
  unfold unview, refs_of, gcp_good. destruct o as [kd al ro ad ca ha cn rl ho]; cbn.
  destruct kd as [| s0 | orig dtor | | src [|] | x | refs ex]; cbn;
    repeat split; auto; try discriminate; try congruence;
    try (destruct al; cbn; tauto).
Qed.

Lemma unexport_facts f o : alive (unexport f o) = alive o /\ roots (unexport f o) = roots o /\
  addr (unexport f o) = addr o /\ horig (unexport f o) = horig o /\ calls (unexport f o) = calls o /\
  had (unexport f o) = had o /\ cancelled (unexport f o) = cancelled o /\
  released (unexport f o) = released o /\
  refs_of (unexport f o) = refs_of o /\
  (gcp_good o -> gcp_good (unexport f o)) /\
  (forall src v, k (unexport f o) = KFromBuf src v -> k o = KFromBuf src v) /\
  (forall x, k (unexport f o) = KHandle x -> k o = KHandle x) /\
  (forall a b, k (unexport f o) = KPy a b -> exists b0, k o = KPy a b0 /\ b = remove_id f b0) /\
  (forall a b, k (unexport f o) = KGcp a b -> k o = KGcp a b).
Proof.
  unfold unexport, refs_of, gcp_good. destruct o as [kd al ro ad ca ha cn rl ho]; cbn.
  destruct kd; cbn; repeat split; auto; try discriminate;
    try (intros a b E; inversion E; subst; eauto); try tauto; intuition.
Qed.

Lemma release_view_winv s P f : WInv s P -> WInv (release_view s f) P.
Proof.
  intros H.
  assert (G : forall j, get (release_view s f) j = _) by (intros j; apply (release_view_getW s P f j H)).
  destruct (k (get s f)) as [| s0 | orig dtor | | src [|] | x | refs0 ex0] eqn:K;
    try (assert (E : forall j, get (release_view s f) j = get s j)
           by (intros j; rewrite G; destruct (Nat.eqb_spec j f); [subst; unfold unview; rewrite K; reflexivity | reflexivity]);
         destruct H; constructor; intros; rewrite ?release_view_next, ?E in *; eauto; fail).
  destruct (w_view s P H f src K) as (Af & refs & ex & K2 & If).
  assert (Ne : src <> f) by (intros ->; congruence).
  pose proof (unview_facts (get s f)) as (U1 & U2 & U3 & U4 & U5 & U6 & U7 & U8 & U9 & U10 & U11 & U12 & U13 & U14).
  pose proof (unexport_facts f (get s src)) as (X1 & X2 & X3 & X4 & X5 & X6 & X7 & X8 & X9 & X10 & X11 & X12 & X13 & X14).
  assert (Al : forall j, alive (get (release_view s f) j) = alive (get s j)).
  { intros j. rewrite G. destruct (Nat.eqb_spec j f); [subst; auto|].
    destruct (Nat.eqb_spec j src); [subst; auto | reflexivity]. }
  assert (Rf : forall j r, In r (refs_of (get (release_view s f) j)) -> In r (refs_of (get s j))).
  { intros j r. rewrite G. destruct (Nat.eqb_spec j f); [subst; auto|].
    destruct (Nat.eqb_spec j src); [subst; rewrite X9; auto | auto]. }
  constructor; intros; rewrite ?release_view_next in *.
  - rewrite G. pose proof (walive_lt s P f H Af).
    assert (As : src < next s).
    { destruct (Nat.lt_ge_cases src (next s)); [assumption|].
      rewrite (w_fresh s P H src H2) in K2. discriminate. }
    destruct (Nat.eqb_spec i f); [lia|]. destruct (Nat.eqb_spec i src); [lia|].
    apply (w_fresh s P H); assumption.
  - rewrite G. destruct (Nat.eqb_spec i f); [subst; apply U10, (w_gcp s P H)|].
    destruct (Nat.eqb_spec i src); [subst; apply X10, (w_gcp s P H) | apply (w_gcp s P H)].
  - rewrite Al. apply (w_roots s P H). revert H0. rewrite G.
    destruct (Nat.eqb_spec i f); [subst; rewrite U2; auto|].
    destruct (Nat.eqb_spec i src); [subst; rewrite X2; auto | auto].
  - rewrite Al. apply (w_refs s P H i r). apply Rf. assumption.
  - rewrite Al in *. apply (w_addr s P H); try assumption. revert H2. rewrite !G.
    destruct (Nat.eqb_spec i f), (Nat.eqb_spec j f), (Nat.eqb_spec i src), (Nat.eqb_spec j src);
      subst; try contradiction; rewrite ?U3, ?X3; auto.
  - revert H0. rewrite !G. destruct (Nat.eqb_spec h f).
    + subst. intros E. apply U12 in E. rewrite U4. apply (w_handle s P H); assumption.
    + destruct (Nat.eqb_spec h src).
      * subst. intros E. apply X12 in E. rewrite X4. apply (w_handle s P H); assumption.
      * apply (w_handle s P H).
  - revert H0. rewrite Al. rewrite G. destruct (Nat.eqb_spec f0 f).
    + subst. intros E. exfalso. eapply U11. eassumption.
    + destruct (Nat.eqb_spec f0 src).
      * subst. intros E. apply X11 in E. congruence.
      * intros E. destruct (w_view s P H f0 src0 E) as (A0 & r0 & e0 & K0 & I0).
        split; [assumption|]. rewrite G. destruct (Nat.eqb_spec src0 f); [subst; congruence|].
        destruct (Nat.eqb_spec src0 src).
        -- subst. unfold unexport. rewrite K2. cbn. rewrite K2 in K0. inversion K0; subst.
           exists r0, (remove_id f e0). split; [reflexivity | apply In_remove_id_conv; assumption].
        -- eauto.
  - revert H0. rewrite !G. destruct (Nat.eqb_spec src0 f).
    + subst. intros E. apply U13 in E. congruence.
    + destruct (Nat.eqb_spec src0 src).
      * subst. intros E. apply X13 in E. destruct E as (b0 & E1 & E2). subst ex0.
        apply In_remove_id in H1. destruct H1 as (I1 & N1).
        pose proof (w_exp s P H src refs0 b0 f0 E1 I1) as KF.
        destruct (Nat.eqb_spec f0 f); [contradiction|].
        destruct (Nat.eqb_spec f0 src); [subst; congruence | exact KF].
      * intros E. pose proof (w_exp s P H src0 refs0 ex0 f0 E H1) as KF.
        destruct (Nat.eqb_spec f0 f); [subst; congruence|].
        destruct (Nat.eqb_spec f0 src); [subst; congruence | exact KF].
Qed.

Lemma release_view_inv s f : Inv s -> Inv (release_view s f).
Proof. intros H. apply WInv_Inv, release_view_winv, Inv_WInv, H. Qed.

(* ------------------------------------------------------------------ freeing a garbage set *)
Lemma release_view_pointwise s P f : WInv s P -> forall j,
  alive (get (release_view s f) j) = alive (get s j) /\
  roots (get (release_view s f) j) = roots (get s j) /\
  (forall r, In r (refs_of (get (release_view s f) j)) -> In r (refs_of (get s j))) /\
  (j = f -> forall src, k (get (release_view s f) j) <> KFromBuf src true).
Proof.
  intros H j. rewrite (release_view_getW s P f j H).
  pose proof (unview_facts (get s f)) as (U1 & U2 & U3 & U4 & U5 & U6 & U7 & U8 & U9 & U10 & U11 & U12 & U13 & U14).
  destruct (Nat.eqb_spec j f).
  - subst. repeat split; auto.
  - destruct (k (get s f)) as [| s0 | orig dtor | | src [|] | x | refs0 ex0] eqn:K;
      try (repeat split; auto; intros; contradiction).
    pose proof (unexport_facts f (get s src)) as (X1 & X2 & X3 & X4 & X5 & X6 & X7 & X8 & X9 & X10 & X11 & X12 & X13 & X14).
    destruct (Nat.eqb_spec j src); [subst; rewrite X9|]; repeat split; auto; intros; contradiction.
Qed.

Record CInv (s : state) (G rest : list nat) : Prop := {
  c_w : WInv s (fun i => In i rest);
  c_closed : forall i r, In r (refs_of (get s i)) -> In r G -> In i G;
  c_done : forall i, In i G -> alive (get s i) = true -> In i rest;
  c_rest : forall i, In i rest -> In i G /\ roots (get s i) = 0 /\ i < next s;
  c_nodup : NoDup rest }.

Lemma cinv_release_view s G rest f : CInv s G rest -> CInv (release_view s f) G rest.
Proof.
  intros [W C D R N].
  pose proof (release_view_pointwise s _ f W) as PW.
  constructor; intros.
  - apply release_view_winv, W.
  - destruct (PW i) as (_ & _ & Rf & _). eapply C; eauto.
  - destruct (PW i) as (A & _). rewrite A in H0. auto.
  - destruct (PW i) as (_ & Ro & _). rewrite Ro, release_view_next. auto.
  - exact N.
Qed.

Lemma good_kill o : gcp_good o -> gcp_good (kill (run_dtor o)).
Proof.
  unfold gcp_good, kill, run_dtor. destruct o as [kd al ro ad ca ha cn rl ho]; cbn.
  destruct kd as [| s0 | orig [y|] | | src [|] | x | refs ex]; cbn; auto.
  - intros (A & B & C & D & E & F). split; [right; right; subst; auto | right; left; reflexivity].
  - intros ([A | [A | A]] & G2); (split; [| right; left; reflexivity]);
      [left | right; left | right; right]; intuition.
Qed.

Lemma kind_kill o : (forall src v, k (kill (run_dtor o)) = KFromBuf src v -> k o = KFromBuf src v) /\
  (forall x, k (kill (run_dtor o)) = KHandle x -> k o = KHandle x) /\
  (forall a b, k (kill (run_dtor o)) = KPy a b -> k o = KPy a b) /\
  (forall a b, k o = KPy a b -> k (kill (run_dtor o)) = KPy a b) /\
  horig (kill (run_dtor o)) = horig o /\ alive (kill (run_dtor o)) = false /\
  roots (kill (run_dtor o)) = 0.
Proof.
  unfold kill, run_dtor. destruct o as [kd al ro ad ca ha cn rl ho]; cbn.
  destruct kd as [| s0 | orig [y|] | | src v | x | refs ex]; cbn; repeat split; auto; discriminate.
Qed.

Lemma cinv_kill s G g rest : CInv s G (g :: rest) ->
  (forall src, k (get s g) <> KFromBuf src true) ->
  CInv (set_obj s g (kill (run_dtor (get s g)))) G rest.
Proof.
  intros [W C D R N] NV.
  pose proof (kind_kill (get s g)) as (K1 & K2 & K3 & K4 & K5 & K6 & K7).
  destruct (R g (or_introl eq_refl)) as (gG & gR & gL).
  inversion N as [| ? ? Ng Nr]; subst.
  assert (RefsG : refs_of (kill (run_dtor (get s g))) = []) by (unfold refs_of; rewrite K6; reflexivity).
  constructor.
  - constructor; intros; rewrite ?next_set in *.
    + rewrite get_set. destruct (Nat.eqb_spec i g); [subst; lia | apply (w_fresh _ _ W); assumption].
    + rewrite get_set. destruct (Nat.eqb_spec i g); [apply good_kill|]; apply (w_gcp _ _ W).
    + rewrite get_set in *. destruct (Nat.eqb_spec i g); [subst; rewrite K7 in H; lia | apply (w_roots _ _ W); assumption].
    + rewrite get_set in H. destruct (Nat.eqb_spec i g); [subst; rewrite RefsG in H; destruct H|].
      rewrite get_set. destruct (Nat.eqb_spec r g).
      * subst. right.
        assert (iG : In i G) by (eapply C; eauto).
        assert (iA : alive (get s i) = true).
        { unfold refs_of in H. destruct (alive (get s i)); [reflexivity | destruct H]. }
        destruct (D i iG iA); [subst; contradiction | assumption].
      * destruct (w_refs _ _ W i r H) as [A | [E | I]]; [left; assumption | subst; contradiction | right; assumption].
    + rewrite !get_set in *.
      destruct (Nat.eqb_spec i g), (Nat.eqb_spec j g); subst; try reflexivity;
        try (rewrite K6 in *; discriminate). apply (w_addr _ _ W); assumption.
    + rewrite get_set in *. destruct (Nat.eqb_spec h g).
      * subst. rewrite K5. apply (w_handle _ _ W). apply K2. assumption.
      * apply (w_handle _ _ W). assumption.
    + rewrite get_set in H. destruct (Nat.eqb_spec f g).
      * subst. apply K1 in H. exfalso. eapply NV. eassumption.
      * destruct (w_view _ _ W f src H) as (A & refs & ex & K & I).
        split; [rewrite get_set; destruct (Nat.eqb_spec f g); [contradiction | exact A]|].
        rewrite get_set. destruct (Nat.eqb_spec src g); [subst; rewrite (K4 _ _ K); eauto | eauto].
    + rewrite get_set in H. rewrite get_set. destruct (Nat.eqb_spec src g).
      * subst. apply K3 in H. pose proof (w_exp _ _ W g refs ex f H H0) as KF.
        destruct (Nat.eqb_spec f g); [subst; congruence | exact KF].
      * pose proof (w_exp _ _ W src refs ex f H H0) as KF.
        destruct (Nat.eqb_spec f g); [subst; exfalso; eapply NV; eassumption | exact KF].
  - intros i r H I. rewrite get_set in H. destruct (Nat.eqb_spec i g); [subst; assumption | eapply C; eauto].
  - intros i I A. rewrite get_set in A. destruct (Nat.eqb_spec i g); [subst; rewrite K6 in A; discriminate|].
    destruct (D i I A); [subst; contradiction | assumption].
  - intros i I. destruct (R i (or_intror I)) as (A & B & L). rewrite get_set, next_set.
    destruct (Nat.eqb_spec i g); [subst; contradiction | auto].
  - exact Nr.
Qed.

Lemma cinv_dealloc s G g rest : CInv s G (g :: rest) -> CInv (dealloc s g) G rest.
Proof.
  intros H. unfold dealloc. apply cinv_kill.
  - apply cinv_release_view. exact H.
  - destruct H as [W _ _ _ _].
    destruct (release_view_pointwise s _ g W g) as (_ & _ & _ & NV). exact (NV eq_refl).
Qed.

Lemma cinv_fold rest : forall s G, CInv s G rest -> CInv (fold_left dealloc rest s) G [].
Proof.
  induction rest as [| g rest IH]; intros s G H; cbn; [exact H|].
  apply IH. apply cinv_dealloc. exact H.
Qed.

Lemma nodupb_spec l : nodupb l = true -> NoDup l.
Proof.
  induction l as [| i l IH]; cbn; [constructor|].
  rewrite andb_true_iff, negb_true_iff. intros [M N]. constructor; [|auto].
  intros I. apply mem_In in I. congruence.
Qed.

Lemma collect_inv s G : Inv s -> Inv (collect s G).
Proof.
  intros H. unfold collect. destruct (garbage s G) eqn:Gb; [|exact H].
  unfold garbage in Gb. rewrite !andb_true_iff in Gb. destruct Gb as [[N M] C].
  rewrite forallb_forall in M, C.
  assert (CI : CInv s G G).
  { constructor.
    - destruct H. constructor; auto. intros i r I. left. eauto.
    - intros i r I IG.
      assert (A : alive (get s i) = true).
      { unfold refs_of in I. destruct (alive (get s i)); [reflexivity | destruct I]. }
      specialize (C i ltac:(apply in_seq; pose proof (alive_lt s i H A); lia)).
      apply mem_In. destruct (mem i G); [reflexivity|]. exfalso.
      assert (E : existsb (fun r0 => mem r0 G) (refs_of (get s i)) = true).
      { apply existsb_exists. exists r. split; [assumption | apply mem_In; assumption]. }
      rewrite E in C. discriminate.
    - auto.
    - intros i I. specialize (M i I). rewrite !andb_true_iff, Nat.ltb_lt, Nat.eqb_eq in M. tauto.
    - apply nodupb_spec. exact N. }
  apply cinv_fold in CI. destruct CI as [W _ _ _ _]. apply WInv_Inv.
  destruct W. constructor; auto.
Qed.

(* ------------------------------------------------------------------ from_buffer *)
Lemma frombuf_inv s src a refs ex : Inv s -> usable s src = true -> addr_free s a = true ->
  k (get s src) = KPy refs ex ->
  Inv (alloc (set_obj s src (with_k (get s src) (KPy refs (next s :: ex))))
             (fresh (KFromBuf src true) a 1 false None)).
Proof.
  intros H U F K. destruct (usable_spec s src U) as (L & A & R).
  assert (D : get s (next s) = dead_obj) by (apply (i_fresh s H); lia).
  set (o1 := with_k (get s src) (KPy refs (next s :: ex))).
  set (o2 := fresh (KFromBuf src true) a 1 false None).
  assert (G : forall j, get (alloc (set_obj s src o1) o2) j =
                        if Nat.eqb j (next s) then o2 else if Nat.eqb j src then o1 else get s j).
  { intros j. rewrite get_alloc, next_set, get_set. reflexivity. }
  assert (Ns : src <> next s) by lia.
  assert (R1 : refs_of o1 = refs_of (get s src)).
  { unfold o1, refs_of, with_k. cbn. rewrite K. reflexivity. }
  assert (Al : forall j, j <> next s -> alive (get (alloc (set_obj s src o1) o2) j) = alive (get s j)).
  { intros j N. rewrite G. destruct (Nat.eqb_spec j (next s)); [contradiction|].
    destruct (Nat.eqb_spec j src); [subst; reflexivity | reflexivity]. }
  constructor; intros; rewrite ?next_alloc, ?next_set in *.
  - rewrite G. destruct (Nat.eqb_spec i (next s)); [lia|]. destruct (Nat.eqb_spec i src); [lia|].
    apply (i_fresh s H). lia.
  - rewrite G. destruct (Nat.eqb_spec i (next s)); [unfold gcp_good; cbn; auto|].
    destruct (Nat.eqb_spec i src); [|apply (i_gcp s H)].
    subst. pose proof (i_gcp s H src) as Gs. unfold gcp_good, o1 in *. cbn. rewrite K in Gs. exact Gs.
  - rewrite G in *. destruct (Nat.eqb_spec i (next s)); [reflexivity|].
    destruct (Nat.eqb_spec i src); [subst; exact A | apply (i_roots s H); assumption].
  - assert (Ar : alive (get s r) = true).
    { rewrite G in H0. destruct (Nat.eqb_spec i (next s)).
      - cbn in H0. destruct H0 as [<- | []]. exact A.
      - destruct (Nat.eqb_spec i src); [subst; rewrite R1 in H0|]; eapply (i_refs s H); eassumption. }
    rewrite Al; [exact Ar|]. intros ->. rewrite D in Ar. discriminate.
  - rewrite !G in *.
    assert (Old : forall x, x <> next s ->
              alive (if Nat.eqb x src then o1 else get s x) = true ->
              alive (get s x) = true /\ addr (if Nat.eqb x src then o1 else get s x) = addr (get s x)).
    { intros x Nx Ax. destruct (Nat.eqb_spec x src) as [-> | Nxs]; [split; [exact A | reflexivity] | split; [exact Ax | reflexivity]]. }
    destruct (Nat.eqb_spec i (next s)) as [Ei | Ni], (Nat.eqb_spec j (next s)) as [Ej | Nj].
    + congruence.
    + exfalso. destruct (Old j Nj H1) as (Aj & Adj). rewrite Adj in H2.
      eapply (addr_free_spec s a H F j Aj). symmetry. exact H2.
    + exfalso. destruct (Old i Ni H0) as (Ai & Adi). rewrite Adi in H2.
      eapply (addr_free_spec s a H F i Ai). exact H2.
    + destruct (Old i Ni H0) as (Ai & Adi). destruct (Old j Nj H1) as (Aj & Adj).
      rewrite Adi, Adj in H2. apply (i_addr s H); assumption.
  - rewrite G in *. destruct (Nat.eqb_spec h (next s)); [discriminate|].
    destruct (Nat.eqb_spec h src); [subst; discriminate | apply (i_handle s H); assumption].
  - rewrite G in H0. destruct (Nat.eqb_spec f (next s)).
    + subst. cbn in H0. inversion H0; subst src0. split; [rewrite G, Nat.eqb_refl; reflexivity|].
      rewrite G. destruct (Nat.eqb_spec src (next s)); [contradiction|]. rewrite Nat.eqb_refl.
      exists refs, (next s :: ex). split; [reflexivity | left; reflexivity].
    + destruct (Nat.eqb_spec f src); [subst; discriminate|].
      destruct (i_view s H f src0 H0) as (Af & r0 & e0 & K0 & I0).
      split; [rewrite Al; assumption|]. rewrite G.
      destruct (Nat.eqb_spec src0 (next s)); [subst; rewrite D in K0; discriminate|].
      destruct (Nat.eqb_spec src0 src).
      * subst. rewrite K in K0. inversion K0; subst. exists r0, (next s :: e0).
        split; [reflexivity | right; assumption].
      * eauto.
  - rewrite G in H0. rewrite G. destruct (Nat.eqb_spec src0 (next s)); [discriminate|].
    destruct (Nat.eqb_spec src0 src).
    + subst. cbn in H0. inversion H0; subst. destruct H1 as [<- | I].
      * rewrite Nat.eqb_refl. reflexivity.
      * pose proof (i_exp s H src refs0 ex f K I) as KF.
        destruct (Nat.eqb_spec f (next s)); [subst; rewrite D in KF; discriminate|].
        destruct (Nat.eqb_spec f src); [subst; congruence | exact KF].
    + pose proof (i_exp s H src0 refs0 ex0 f H0 H1) as KF.
      destruct (Nat.eqb_spec f (next s)); [subst; rewrite D in KF; discriminate|].
      destruct (Nat.eqb_spec f src); [subst; congruence | exact KF].
Qed.

(* ------------------------------------------------------------------ compact *)
Lemma compact_get_lt s i : i < next s -> get (compact s) i = get s i.
Proof.
  intros L. unfold compact, get. cbn [objs].
  rewrite (nth_indep _ dead_obj (objs s 0)) by (rewrite map_length, seq_length; exact L).
  rewrite map_nth, seq_nth by exact L. reflexivity.
Qed.

Lemma compact_get s i : Inv s -> get (compact s) i = get s i.
Proof.
  intros H. destruct (Nat.lt_ge_cases i (next s)) as [L | L]; [apply compact_get_lt; exact L|].
  rewrite (i_fresh s H i L). unfold compact, get. cbn [objs].
  apply nth_overflow. rewrite map_length, seq_length. exact L.
Qed.

Lemma compact_inv s : Inv s -> Inv (compact s).
Proof.
  intros H. pose proof (compact_get s) as E.
  assert (N : next (compact s) = next s) by reflexivity.
  destruct H. constructor; intros; rewrite ?N in *;
    repeat match goal with
           | X : context [get (compact s) ?i] |- _ => rewrite (E i) in X by (constructor; assumption)
           end;
    rewrite ?E by (constructor; assumption); eauto.
Qed.

(* ------------------------------------------------------------------ every operation *)
Lemma addr_free_alloc s a kd a' r h ho : addr_free s a = true -> a' <> a ->
  addr_free (alloc s (fresh kd a' r h ho)) a = true.
Proof.
  unfold addr_free, ids. intros F N. rewrite next_alloc, seq_S, forallb_app. cbn [forallb].
  rewrite andb_true_iff. split.
  - rewrite forallb_forall in *. intros i I. rewrite get_alloc.
    apply in_seq in I. destruct (Nat.eqb_spec i (next s)); [lia | apply F; apply in_seq; lia].
  - rewrite get_alloc. cbn. rewrite Nat.eqb_refl. cbn.
    destruct (Nat.eqb_spec a' a); [contradiction | reflexivity].
Qed.

Lemma good_fresh_plain kd a r ho : match kd with KGcp _ _ => False | _ => True end ->
  gcp_good (fresh kd a r false ho).
Proof. unfold gcp_good. destruct kd as [| | | | ? [|] | |]; cbn; tauto. Qed.

Lemma good_fresh_gcp n hf a r : gcp_good (fresh (KGcp (Some n) (dtor_of hf)) a r hf None).
Proof.
  unfold gcp_good. destruct hf; cbn.
  - repeat split; auto; discriminate.
  - split; [left; auto | right; right; discriminate].
Qed.

Lemma neqb a b : negb (Nat.eqb a b) = true -> a <> b.
Proof. destruct (Nat.eqb_spec a b); [discriminate | auto]. Qed.

Lemma hold_inv s i : Inv s -> alive (get s i) = true -> Inv (hold s i).
Proof.
  intros H A. unfold hold. apply set_local; [exact H | eapply alive_lt; eassumption|].
  apply local_roots; auto.
Qed.

Lemma finalize_at_inv s i : Inv s -> alive (get s i) = true -> is_gcp (get s i) = true ->
  Inv (finalize_at s i).
Proof.
  intros H A Ig. unfold finalize_at. apply set_local; [exact H | eapply alive_lt; eassumption|].
  apply local_finalize; assumption.
Qed.

(* the table-driven release dispatch (Gen.gen_release_case / Gen.gen_exit_table), kind by kind *)
Lemma release_cases s i :
  release s i = match k (get s i) with
                | KStructPtr st => if is_gcp (get s st) then finalize_at s st else s
                | KFromBuf _ _ => let s1 := release_view s i in set_obj s1 i (mark_released (get s1 i))
                | KGcp _ _ => finalize_at s i
                | _ => s
                end.
Proof.
  unfold release, release_case, guard_holds, do_exit. destruct (k (get s i)); cbn; try reflexivity.
  destruct (own_is_struct s i); reflexivity.
Qed.

Lemma step_inv s o : Inv s -> Inv (step s o).
Proof.
  intros H. destruct o; cbn [step].
  - (* ONew *)
    destruct (addr_free s a) eqn:F; [|exact H].
    apply alloc_inv; auto; try (intros; discriminate); try (cbn; intros ? []).
    apply good_fresh_plain. exact I.
  - (* ONewStruct *)
    destruct (addr_free s a1 && addr_free s a2 && negb (a1 =? a2)) eqn:F; [|exact H].
    rewrite !andb_true_iff in F. destruct F as [[F1 F2] N]. apply neqb in N.
    assert (H1 : Inv (alloc s (fresh KOwn a1 0 false None))).
    { apply alloc_inv; auto; try (intros; discriminate); try (cbn; intros ? []).
      apply good_fresh_plain. exact I. }
    apply alloc_inv; auto; try (intros; discriminate).
    + apply addr_free_alloc; assumption.
    + intros x Hx. cbn in Hx. destruct Hx as [<- | []]. rewrite get_alloc, Nat.eqb_refl. reflexivity.
    + apply good_fresh_plain. exact I.
  - (* OAllocNew *)
    destruct (addr_free s a1 && addr_free s a2 && negb (a1 =? a2)) eqn:F; [|exact H].
    rewrite !andb_true_iff in F. destruct F as [[F1 F2] N]. apply neqb in N.
    assert (H1 : Inv (alloc s (fresh KRaw a1 0 false None))).
    { apply alloc_inv; auto; try (intros; discriminate); try (cbn; intros ? []).
      apply good_fresh_plain. exact I. }
    apply alloc_inv; auto; try (intros; discriminate).
    + apply addr_free_alloc; assumption.
    + intros x Hx. destruct has_free; cbn in Hx; destruct Hx as [<- | []]; rewrite get_alloc, Nat.eqb_refl; reflexivity.
    + apply good_fresh_gcp.
  - (* OAllocNewStruct *)
    match goal with |- Inv (if ?c then _ else _) => destruct c eqn:F; [|exact H] end.
    rewrite !andb_true_iff in F. destruct F as [[[[[F1 F2] F3] N12] N13] N23].
    apply neqb in N12, N13, N23.
    assert (H1 : Inv (alloc s (fresh KRaw a1 0 false None))).
    { apply alloc_inv; auto; try (intros; discriminate); try (cbn; intros ? []).
      apply good_fresh_plain. exact I. }
    assert (H2 : Inv (alloc (alloc s (fresh KRaw a1 0 false None))
                            (fresh (KGcp (Some (next s)) (dtor_of has_free)) a2 0 has_free None))).
    { apply alloc_inv; auto; try (intros; discriminate).
      - apply addr_free_alloc; assumption.
      - intros x Hx. destruct has_free; cbn in Hx; destruct Hx as [<- | []]; rewrite get_alloc, Nat.eqb_refl; reflexivity.
      - apply good_fresh_gcp. }
    apply alloc_inv; auto; try (intros; discriminate).
    + apply addr_free_alloc; [apply addr_free_alloc|]; assumption.
    + intros x Hx. cbn in Hx. destruct Hx as [<- | []]. rewrite get_alloc, Nat.eqb_refl. reflexivity.
    + apply good_fresh_plain. exact I.
  - (* ONewFail *) exact H.
  - (* OAllocNewFail *)
    change gen_newp_fail_decref with true. cbv iota.
    destruct (addr_free s a1 && addr_free s a2 && negb (a1 =? a2)) eqn:F; [|exact H].
    rewrite !andb_true_iff in F. destruct F as [[F1 F2] N]. apply neqb in N.
    assert (H1 : Inv (alloc s (fresh KRaw a1 0 false None))).
    { apply alloc_inv; auto; try (intros; discriminate); try (cbn; intros ? []).
      apply good_fresh_plain. exact I. }
    apply collect_inv. apply alloc_inv; auto; try (intros; discriminate).
    + apply addr_free_alloc; assumption.
    + intros x Hx. destruct has_free; cbn in Hx; destruct Hx as [<- | []]; rewrite get_alloc, Nat.eqb_refl; reflexivity.
    + apply good_fresh_gcp.
  - (* OAlias *)
    destruct (usable s p) eqn:U; [|exact H]. destruct (usable_spec s p U) as (L & A & R).
    destruct (k (get s p)) eqn:K; try exact H.
    apply hold_inv; [exact H|]. apply (i_refs s H p). unfold refs_of. rewrite A, K. left. reflexivity.
  - (* OGc *)
    match goal with |- Inv (if ?c then _ else _) => destruct c eqn:F; [|exact H] end.
    rewrite !andb_true_iff in F. destruct F as [[U F] Y]. destruct (usable_spec s p U) as (L & A & R).
    apply alloc_inv; auto; try (intros; discriminate).
    + cbn. intros x [<- | I]; [exact A|]. destruct y as [yy|]; [|destruct I].
      destruct I as [<- | []]. rewrite andb_true_iff in Y. destruct Y as [Y _].
      destruct (usable_spec s yy Y) as (_ & Ay & _). exact Ay.
    + unfold gcp_good. cbn. repeat split; auto; discriminate.
  - (* OGcNone *)
    destruct (usable s w) eqn:U; [|exact H]. destruct (usable_spec s w U) as (L & A & R).
    apply set_local; [exact H | exact L | apply local_cancel; exact H].
  - (* ORelease *)
    destruct (usable s o) eqn:U; [|exact H]. destruct (usable_spec s o U) as (L & A & R).
    rewrite release_cases.
    destruct (k (get s o)) eqn:K; try exact H.
    + destruct (is_gcp (get s s0)) eqn:G; [|exact H]. apply finalize_at_inv; [exact H| |exact G].
      apply (i_refs s H o). unfold refs_of. rewrite A, K. left. reflexivity.
    + apply finalize_at_inv; try assumption. unfold is_gcp. rewrite K. reflexivity.
    + pose proof (release_view_inv s o H) as H1.
      apply set_local; [exact H1 | rewrite release_view_next; exact L|].
      destruct (release_view_pointwise s _ o (Inv_WInv s H) o) as (_ & _ & _ & NV).
      apply local_released; [exact H1 | | exact (NV eq_refl)].
      unfold is_gcp. rewrite (release_view_get s o o H), Nat.eqb_refl.
      unfold unview. rewrite K. destruct view; cbn; [reflexivity | rewrite K; reflexivity].
  - (* OHold *)
    destruct (usable s o) eqn:U; [|exact H]. destruct (usable_spec s o U) as (L & A & R).
    apply hold_inv; assumption.
  - (* ODrop *)
    destruct (usable s o) eqn:U; [|exact H]. destruct (usable_spec s o U) as (L & A & R).
    apply set_local; [exact H | exact L | apply local_roots; auto].
  - (* ONewPy *)
    destruct (addr_free s a) eqn:F; [|exact H].
    apply alloc_inv; auto; try (intros; discriminate).
    + apply good_fresh_plain. exact I.
    + intros refs1 ex1 E. inversion E. reflexivity.
  - (* OSetRef *)
    destruct (usable s x && usable s y) eqn:U; [|exact H]. rewrite andb_true_iff in U.
    destruct U as [Ux Uy]. destruct (usable_spec s x Ux) as (L & A & R).
    destruct (usable_spec s y Uy) as (_ & Ay & _).
    destruct (k (get s x)) eqn:K; try exact H.
    apply set_local; [exact H | exact L | apply local_setref; assumption].
  - (* OFromBuffer *)
    destruct (usable s src && addr_free s a) eqn:U; [|exact H]. rewrite andb_true_iff in U.
    destruct U as [U F]. destruct (k (get s src)) eqn:K; try exact H.
    apply frombuf_inv; assumption.
  - (* OFromBufferFail *) rewrite no_leak, andb_false_r. exact H.
  - (* ONewHandle *)
    destruct (usable s x && addr_free s a) eqn:U; [|exact H]. rewrite andb_true_iff in U.
    destruct U as [U F]. destruct (usable_spec s x U) as (L & A & R).
    apply alloc_inv; auto; try (intros; discriminate).
    + cbn. intros z [<- | []]. exact A.
    + apply good_fresh_plain. exact I.
    + intros z E. inversion E. reflexivity.
  - (* OFromHandle *)
    destruct (usable s h) eqn:U; [|exact H]. destruct (usable_spec s h U) as (L & A & R).
    destruct (k (get s h)) eqn:K; try exact H.
    apply hold_inv; [exact H|]. apply (i_refs s H h). unfold refs_of. rewrite A, K. left. reflexivity.
  - apply collect_inv. exact H.
  - apply compact_inv, collect_inv. exact H.
Qed.

Lemma run_inv_from ops : forall s, Inv s -> Inv (fold_left step ops s).
Proof. induction ops as [| o ops IH]; intros s H; cbn; [exact H | apply IH, step_inv, H]. Qed.

Theorem run_inv ops : Inv (run ops).
Proof. apply run_inv_from, init_inv. Qed.

(* ------------------------------------------------------------------ monotone facts: along any
   history a destructor-call count never decreases, a cancellation and a release are never
   forgotten, the dead stay dead *)
Definition mono (o o' : obj) : Prop :=
  (cancelled o = true -> cancelled o' = true) /\ calls o <= calls o' /\
  (released o = true -> released o' = true) /\ (alive o' = true -> alive o = true).

Lemma mono_refl o : mono o o.
Proof. unfold mono. auto. Qed.
Lemma mono_trans a b c : mono a b -> mono b c -> mono a c.
Proof. unfold mono. intros (A1 & A2 & A3 & A4) (B1 & B2 & B3 & B4). repeat split; auto. lia. Qed.

Lemma mono_with_roots o n : mono o (with_roots o n).
Proof. unfold mono. cbn. auto. Qed.
Lemma mono_with_k o kd : mono o (with_k o kd).
Proof. unfold mono. cbn. auto. Qed.
Lemma mono_run_dtor o : mono o (run_dtor o).
Proof. unfold mono, run_dtor. destruct (k o) as [| | ? [?|] | | | |]; cbn; auto. Qed.
Lemma mono_mark_released o : mono o (mark_released o).
Proof. unfold mono. cbn. auto. Qed.
Lemma mono_cancel o : mono o (cancel o).
Proof. unfold mono, cancel. destruct (k o) as [| | ? [?|] | | | |]; cbn; auto. Qed.
Lemma mono_kill o : mono o (kill o).
Proof. unfold mono. cbn. repeat split; auto; discriminate. Qed.

Lemma mono_set s j o' i : mono (get s j) o' -> mono (get s i) (get (set_obj s j o') i).
Proof. intros M. rewrite get_set. destruct (Nat.eqb_spec i j); [subst; exact M | apply mono_refl]. Qed.

Lemma mono_alloc s o' i : i < next s -> mono (get s i) (get (alloc s o') i).
Proof. intros L. rewrite get_alloc. destruct (Nat.eqb_spec i (next s)); [lia | apply mono_refl]. Qed.

Lemma mono_release_view s f i : mono (get s i) (get (release_view s f) i).
Proof.
  unfold release_view. destruct (k (get s f)) as [| | | | src [|] | |]; try apply mono_refl.
  cbv zeta.
  match goal with |- context [match ?x with _ => _ end] => destruct x end;
    try (apply mono_set, mono_with_k).
  eapply mono_trans; [apply (mono_set s f), mono_with_k | apply mono_set, mono_with_k].
Qed.

Lemma mono_dealloc s g i : mono (get s i) (get (dealloc s g) i).
Proof.
  unfold dealloc. eapply mono_trans; [apply mono_release_view|].
  apply mono_set. eapply mono_trans; [apply mono_run_dtor | apply mono_kill].
Qed.

Lemma mono_fold G : forall s i, mono (get s i) (get (fold_left dealloc G s) i).
Proof.
  induction G as [| g G IH]; intros s i; cbn; [apply mono_refl|].
  eapply mono_trans; [apply mono_dealloc | apply IH].
Qed.

Lemma next_fold G : forall s, next (fold_left dealloc G s) = next s.
Proof.
  induction G as [| g G IH]; intros s; cbn; [reflexivity|]. rewrite IH. unfold dealloc.
  rewrite next_set, release_view_next. reflexivity.
Qed.

Lemma mono_collect s G i : mono (get s i) (get (collect s G) i).
Proof. unfold collect. destruct (garbage s G); [apply mono_fold | apply mono_refl]. Qed.

Lemma next_compact s : next (compact s) = next s.
Proof. reflexivity. Qed.
Lemma next_collect s G : next (collect s G) = next s.
Proof. unfold collect. destruct (garbage s G); [apply next_fold | reflexivity]. Qed.

Lemma next_step_le s o : next s <= next (step s o).
Proof.
  destruct o; cbn [step]; rewrite ?release_cases, ?no_leak, ?andb_false_r; change gen_newp_fail_decref with true; cbv iota;
    repeat match goal with
           | |- context [if ?c then _ else _] => destruct c
           | |- context [match k ?x with _ => _ end] => destruct (k x)
           | |- context [match ?y with Some _ => _ | None => _ end] => destruct y
           end;
    rewrite ?next_compact, ?next_collect, ?next_alloc, ?next_set, ?release_view_next; unfold hold, finalize_at, collect;
    rewrite ?next_alloc, ?next_set, ?release_view_next;
    repeat match goal with |- context [if ?c then _ else _] => destruct c end;
    rewrite ?next_fold; lia.
Qed.

Lemma step_mono s o i : i < next s -> mono (get s i) (get (step s o) i).
Proof.
  intros L. destruct o; cbn [step]; rewrite ?release_cases, ?no_leak, ?andb_false_r; change gen_newp_fail_decref with true; cbv iota;
    repeat match goal with
           | |- context [if ?c then _ else _] => destruct c
           | |- context [match k ?x with _ => _ end] => destruct (k x)
           end;
    try apply mono_refl; try apply mono_collect;
    try (rewrite compact_get_lt by (rewrite next_collect; exact L); apply mono_collect);
    unfold hold, finalize_at;
    try (apply mono_alloc; assumption);
    try (apply mono_set; first [apply mono_with_roots | apply mono_with_k | apply mono_cancel
                               | eapply mono_trans; [apply mono_run_dtor | apply mono_mark_released]]).
  - eapply mono_trans; [apply mono_alloc; assumption | apply mono_alloc; rewrite next_alloc; lia].
  - eapply mono_trans; [apply mono_alloc; assumption | apply mono_alloc; rewrite next_alloc; lia].
  - eapply mono_trans; [apply mono_alloc; assumption|].
    eapply mono_trans; apply mono_alloc; rewrite ?next_alloc; lia.
  - eapply mono_trans; [apply mono_alloc; assumption|].
    eapply mono_trans; [apply mono_alloc; rewrite next_alloc; lia | apply mono_collect].
  - eapply mono_trans; [apply mono_release_view | apply mono_set, mono_mark_released].
  - eapply mono_trans; [apply mono_set, mono_with_k | apply mono_alloc; rewrite next_set; lia].
Qed.

Lemma run_mono ops2 : forall s i, i < next s -> mono (get s i) (get (fold_left step ops2 s) i).
Proof.
  induction ops2 as [| o ops IH]; intros s i L; cbn; [apply mono_refl|].
  eapply mono_trans; [apply step_mono; exact L | apply IH]. pose proof (next_step_le s o). lia.
Qed.

(* ------------------------------------------------------------------ ffi.release is idempotent *)
Lemma run_dtor_twice o : mark_released (run_dtor (mark_released (run_dtor o))) = mark_released (run_dtor o).
Proof.
  unfold run_dtor, mark_released. destruct o as [kd al ro ad ca ha cn rl ho]; cbn.
  destruct kd as [| | ? [?|] | | | |]; reflexivity.
Qed.

Lemma usable_set s j o' i : alive o' = alive (get s j) -> roots o' = roots (get s j) ->
  usable (set_obj s j o') i = usable s i.
Proof.
  intros A R. unfold usable. rewrite next_set, get_set.
  destruct (Nat.eqb_spec i j); [subst; rewrite A, R; reflexivity | reflexivity].
Qed.

Lemma fin_facts o : alive (mark_released (run_dtor o)) = alive o /\
  roots (mark_released (run_dtor o)) = roots o.
Proof.
  unfold run_dtor, mark_released. destruct o as [kd al ro ad ca ha cn rl ho]; cbn.
  destruct kd as [| | ? [?|] | | | |]; split; reflexivity.
Qed.

Theorem release_idempotent s i : Inv s ->
  next (step (step s (ORelease i)) (ORelease i)) = next (step s (ORelease i)) /\
  forall j, get (step (step s (ORelease i)) (ORelease i)) j = get (step s (ORelease i)) j.
Proof.
  intros H. destruct (usable s i) eqn:U.
  2:{ assert (E : step s (ORelease i) = s) by (cbn [step]; rewrite U; reflexivity).
      rewrite !E. split; reflexivity. }
  destruct (usable_spec s i U) as (L & A & R).
  destruct (k (get s i)) as [| st | orig dtor | | src view | x | refs ex] eqn:K;
    try (assert (E : step s (ORelease i) = s) by (cbn [step]; rewrite U, release_cases, K; reflexivity);
         rewrite !E; split; reflexivity).
  - (* struct pointer *)
    destruct (is_gcp (get s st)) eqn:G.
    2:{ assert (E : step s (ORelease i) = s) by (cbn [step]; rewrite U, release_cases, K, G; reflexivity).
        rewrite !E; split; reflexivity. }
    assert (Ne : i <> st) by (intros ->; unfold is_gcp in G; rewrite K in G; discriminate).
    assert (E : step s (ORelease i) = finalize_at s st) by (cbn [step]; rewrite U, release_cases, K, G; reflexivity).
    rewrite E. set (s1 := finalize_at s st).
    assert (U1 : usable s1 i = true) by (unfold s1, finalize_at; rewrite usable_set by apply fin_facts; exact U).
    assert (K1 : k (get s1 i) = KStructPtr st).
    { unfold s1, finalize_at. rewrite get_set. destruct (Nat.eqb_spec i st); [contradiction | exact K]. }
    assert (G1 : is_gcp (get s1 st) = true).
    { unfold s1, finalize_at. rewrite get_set, Nat.eqb_refl. unfold is_gcp, run_dtor in *.
      destruct (k (get s st)) as [| | ? [?|] | | | |]; try discriminate; reflexivity. }
    assert (E1 : step s1 (ORelease i) = finalize_at s1 st) by (cbn [step]; rewrite U1, release_cases, K1, G1; reflexivity).
    rewrite E1. split; [reflexivity|]. intros j. unfold s1, finalize_at. rewrite !get_set.
    destruct (Nat.eqb_spec j st); [|reflexivity]. rewrite Nat.eqb_refl. apply run_dtor_twice.
  - (* ffi.gc wrapper *)
    assert (E : step s (ORelease i) = finalize_at s i) by (cbn [step]; rewrite U, release_cases, K; reflexivity).
    rewrite E. set (s1 := finalize_at s i).
    assert (U1 : usable s1 i = true) by (unfold s1, finalize_at; rewrite usable_set by apply fin_facts; exact U).
    assert (K1 : exists a b, k (get s1 i) = KGcp a b).
    { unfold s1, finalize_at. rewrite get_set, Nat.eqb_refl. unfold run_dtor. rewrite K.
      destruct dtor; cbn; eauto. }
    destruct K1 as (a & b & K1).
    assert (E1 : step s1 (ORelease i) = finalize_at s1 i) by (cbn [step]; rewrite U1, release_cases, K1; reflexivity).
    rewrite E1. split; [reflexivity|]. intros j. unfold s1, finalize_at. rewrite !get_set.
    destruct (Nat.eqb_spec j i); [|reflexivity]. rewrite Nat.eqb_refl. apply run_dtor_twice.
  - (* from_buffer *)
    set (s1 := release_view s i).
    assert (E : step s (ORelease i) = set_obj s1 i (mark_released (get s1 i)))
      by (cbn [step]; rewrite U, release_cases, K; reflexivity).
    rewrite E. set (s2 := set_obj s1 i (mark_released (get s1 i))).
    assert (G1 : get s1 i = unview (get s i))
      by (unfold s1; rewrite (release_view_get s i i H), Nat.eqb_refl; reflexivity).
    assert (K1 : k (get s1 i) = KFromBuf src false)
      by (rewrite G1; unfold unview; rewrite K; destruct view; [reflexivity | exact K]).
    assert (K2 : k (get s2 i) = KFromBuf src false)
      by (unfold s2; rewrite get_set, Nat.eqb_refl; exact K1).
    assert (U2 : usable s2 i = true).
    { unfold s2. rewrite usable_set by reflexivity. unfold usable, s1. rewrite release_view_next.
      fold s1. rewrite G1. pose proof (unview_facts (get s i)) as (U1 & U2 & _). rewrite U1, U2.
      exact U. }
    assert (RV : release_view s2 i = s2) by (unfold release_view; rewrite K2; reflexivity).
    assert (E2 : step s2 (ORelease i) = set_obj s2 i (mark_released (get s2 i)))
      by (cbn [step]; rewrite U2, release_cases, K2, RV; reflexivity).
    rewrite E2. split; [reflexivity|]. intros j. unfold s2. rewrite !get_set.
    destruct (Nat.eqb_spec j i); [|reflexivity]. rewrite Nat.eqb_refl. reflexivity.
Qed.

(* ------------------------------------------------------------------ the statements *)
Lemma run_app ops1 ops2 : run (ops1 ++ ops2) = fold_left step ops2 (run ops1).
Proof. unfold run. apply fold_left_app. Qed.

Theorem dtor_at_most_once ops i : calls (get (run ops) i) <= 1.
Proof.
  pose proof (i_gcp _ (run_inv ops) i) as G. unfold gcp_good in G.
  destruct (k (get (run ops) i)) as [| | ? [?|] | | ? [|] | |]; intuition lia.
Qed.

Theorem dtor_exactly_once ops i :
  is_gcp (get (run ops) i) = true -> had (get (run ops) i) = true ->
  cancelled (get (run ops) i) = false ->
  released (get (run ops) i) = true \/ alive (get (run ops) i) = false ->
  calls (get (run ops) i) = 1.
Proof.
  pose proof (i_gcp _ (run_inv ops) i) as G. unfold gcp_good, is_gcp in *.
  destruct (k (get (run ops) i)) as [| | ? [?|] | | ? [|] | |]; try discriminate; intros _ Hh Hc Hr.
  - destruct G as (_ & _ & _ & R & A & _). destruct Hr; congruence.
  - destruct G as ([G | [G | G]] & _); intuition congruence.
Qed.

Theorem dtor_not_early ops i :
  alive (get (run ops) i) = true -> released (get (run ops) i) = false ->
  calls (get (run ops) i) = 0.
Proof.
  pose proof (i_gcp _ (run_inv ops) i) as G. unfold gcp_good in *.
  destruct (k (get (run ops) i)) as [| | ? [?|] | | ? [|] | |]; intros A R; try tauto.
  destruct G as ([G | [G | G]] & _); intuition congruence.
Qed.

Lemma cancelled_lt s i : Inv s -> cancelled (get s i) = true -> i < next s.
Proof.
  intros H C. destruct (Nat.lt_ge_cases i (next s)) as [L | L]; [exact L|].
  rewrite (i_fresh s H i L) in C. discriminate.
Qed.

Theorem never_after_cancel ops1 ops2 i :
  cancelled (get (run ops1) i) = true -> calls (get (run (ops1 ++ ops2)) i) = 0.
Proof.
  intros C. pose proof (cancelled_lt _ i (run_inv ops1) C) as L.
  destruct (run_mono ops2 (run ops1) i L) as (M & _). rewrite <- run_app in M. specialize (M C).
  pose proof (i_gcp _ (run_inv (ops1 ++ ops2)) i) as G. unfold gcp_good in G.
  destruct (k (get (run (ops1 ++ ops2)) i)) as [| | ? [?|] | | ? [|] | |]; try (intuition congruence); try (destruct G as ([G | [G | G]] & _); intuition congruence).
Qed.

Theorem called_once_stays ops1 ops2 i :
  calls (get (run ops1) i) = 1 -> calls (get (run (ops1 ++ ops2)) i) = 1.
Proof.
  intros C.
  assert (L : i < next (run ops1)).
  { destruct (Nat.lt_ge_cases i (next (run ops1))) as [L | L]; [exact L|].
    rewrite (i_fresh _ (run_inv ops1) i L) in C. discriminate. }
  destruct (run_mono ops2 (run ops1) i L) as (_ & M & _). rewrite <- run_app in M.
  pose proof (dtor_at_most_once (ops1 ++ ops2) i). lia.
Qed.

(* release of the pointer returned by new_allocator()("struct *") frees the allocation *)
Theorem release_struct_ptr_frees ops p st :
  let s := run ops in
  usable s p = true -> k (get s p) = KStructPtr st -> is_gcp (get s st) = true ->
  had (get s st) = true -> cancelled (get s st) = false ->
  calls (get (step s (ORelease p)) st) = 1.
Proof.
  intros s U K G Hh Hc.
  assert (E : step s (ORelease p) = finalize_at s st) by (cbn [step]; rewrite U, release_cases, K, G; reflexivity).
  assert (R : run (ops ++ [ORelease p]) = finalize_at s st).
  { rewrite run_app. cbn [fold_left]. exact E. }
  rewrite E, <- R. apply dtor_exactly_once; rewrite R; unfold finalize_at; rewrite get_set, Nat.eqb_refl.
  - unfold is_gcp, run_dtor in *. destruct (k (get s st)) as [| | ? [?|] | | | |]; try discriminate; reflexivity.
  - unfold run_dtor. destruct (k (get s st)) as [| | ? [?|] | | | |]; exact Hh.
  - unfold run_dtor. destruct (k (get s st)) as [| | ? [?|] | | | |]; exact Hc.
  - left. reflexivity.
Qed.

Theorem frombuf_locks_source ops f src :
  let s := run ops in
  k (get s f) = KFromBuf src true ->
  alive (get s f) = true /\ released (get s f) = false /\
  alive (get s src) = true /\ resize_blocked (get s src) = true.
Proof.
  intros s K. pose proof (run_inv ops) as H. fold s in H.
  destruct (i_view s H f src K) as (A & refs & ex & K2 & I).
  split; [exact A|]. split.
  - pose proof (i_gcp s H f) as G. unfold gcp_good in G. rewrite K in G. tauto.
  - split.
    + apply (i_refs s H f). unfold refs_of. rewrite A, K. left. reflexivity.
    + unfold resize_blocked. rewrite K2. destruct ex; [destruct I | reflexivity].
Qed.

Theorem source_unlocked_when_no_view ops src :
  let s := run ops in
  resize_blocked (get s src) = true ->
  exists f, k (get s f) = KFromBuf src true /\ alive (get s f) = true /\ released (get s f) = false.
Proof.
  intros s B. pose proof (run_inv ops) as H. fold s in H. unfold resize_blocked in B.
  destruct (k (get s src)) as [| | | | | | refs [| f ex]] eqn:K; try discriminate.
  exists f. pose proof (i_exp s H src refs (f :: ex) f K (or_introl eq_refl)) as KF.
  destruct (frombuf_locks_source ops f src KF) as (A & R & _). auto.
Qed.

Theorem struct_memory_kept ops p st :
  let s := run ops in
  k (get s p) = KStructPtr st ->
  (alive (get s p) = true \/ 0 < roots (get s st)) ->
  alive (get s st) = true /\
  (is_gcp (get s st) = true -> released (get s st) = false ->
     calls (get s st) = 0 /\
     exists raw d, k (get s st) = KGcp (Some raw) d /\ alive (get s raw) = true).
Proof.
  intros s K L. pose proof (run_inv ops) as H. fold s in H.
  assert (A : alive (get s st) = true).
  { destruct L as [A | R]; [|apply (i_roots s H); exact R].
    apply (i_refs s H p). unfold refs_of. rewrite A, K. left. reflexivity. }
  split; [exact A|]. intros G R. split; [apply dtor_not_early; assumption|].
  pose proof (i_gcp s H st) as Gd. unfold gcp_good, is_gcp in *.
  destruct (k (get s st)) as [| | orig [y|] | | | |] eqn:Ks; try discriminate.
  - destruct Gd as (_ & _ & _ & _ & _ & O). destruct orig as [raw|]; [|congruence].
    exists raw, (Some y). split; [reflexivity|]. apply (i_refs s H st). unfold refs_of. rewrite A, Ks.
    left. reflexivity.
  - destruct Gd as (_ & [O | [O | O]]); try congruence. destruct orig as [raw|]; [|congruence].
    exists raw, None. split; [reflexivity|]. apply (i_refs s H st). unfold refs_of. rewrite A, Ks.
    left. reflexivity.
Qed.

Theorem from_handle_correct ops h x :
  let s := run ops in
  alive (get s h) = true -> k (get s h) = KHandle x ->
  horig (get s h) = Some x /\ alive (get s x) = true /\ from_handle_addr s (addr (get s h)) = Some x.
Proof.
  intros s A K. pose proof (run_inv ops) as H. fold s in H.
  split; [apply (i_handle s H); exact K|]. split.
  - apply (i_refs s H h). unfold refs_of. rewrite A, K. left. reflexivity.
  - unfold from_handle_addr.
    set (P := fun i => alive (get s i) && (addr (get s i) =? addr (get s h))).
    assert (Ih : In h (filter P (ids s))).
    { apply filter_In. split; [apply in_seq; pose proof (alive_lt s h H A); lia|].
      unfold P. rewrite A, Nat.eqb_refl. reflexivity. }
    destruct (filter P (ids s)) as [| i l] eqn:F; [destruct Ih|].
    assert (Ii : In i (filter P (ids s))) by (rewrite F; left; reflexivity).
    apply filter_In in Ii. destruct Ii as (_ & Pi). unfold P in Pi.
    rewrite andb_true_iff, Nat.eqb_eq in Pi. destruct Pi as (Ai & Ei).
    rewrite (i_addr s H i h Ai A Ei), K. reflexivity.
Qed.

Theorem live_objects_distinct_addresses ops i j :
  let s := run ops in
  alive (get s i) = true -> alive (get s j) = true -> i <> j -> addr (get s i) <> addr (get s j).
Proof. intros s A B N E. apply N. eapply (i_addr s (run_inv ops)); eassumption. Qed.

(* nothing dangles: whatever a live object refers to is alive *)
Theorem references_alive ops i r :
  In r (refs_of (get (run ops) i)) -> alive (get (run ops) r) = true.
Proof. apply (i_refs _ (run_inv ops)). Qed.

Theorem release_idempotent_run ops i :
  let s := run ops in
  next (step (step s (ORelease i)) (ORelease i)) = next (step s (ORelease i)) /\
  forall j, get (step (step s (ORelease i)) (ORelease i)) j = get (step s (ORelease i)) j.
Proof. intros s. apply release_idempotent, run_inv. Qed.

(* every ffi.new_handle call makes a NEW handle object (also for the same x), whose address is
   its own (newp_handle: c_data = (char * )cd): handles are never shared or reused while alive *)
Theorem new_handle_fresh ops x a :
  let s := run ops in
  usable s x = true -> addr_free s a = true ->
  let s' := step s (ONewHandle x a) in
  next s' = S (next s) /\ k (get s' (next s)) = KHandle x /\ alive (get s' (next s)) = true /\
  addr (get s' (next s)) = a /\ (forall j, j < next s -> get s' j = get s j).
Proof.
  intros s U F. cbn [step]. rewrite U, F. cbn [andb].
  rewrite next_alloc, get_alloc, Nat.eqb_refl. repeat split; try reflexivity.
  intros j L. rewrite get_alloc. destruct (Nat.eqb_spec j (next s)); [lia | reflexivity].
Qed.

(* the address table is a function on live objects: an address belongs to at most one live
   object, so from_handle can never be handed the address of one live handle and answer with
   another one's object.  For two handles alive at the same time this is hypothesis R2 (malloc
   does not return memory that is in use) carried along the history - named as such. *)
Theorem live_handles_distinct_addresses_under_R2 ops h1 h2 x1 x2 :
  let s := run ops in
  alive (get s h1) = true -> alive (get s h2) = true ->
  k (get s h1) = KHandle x1 -> k (get s h2) = KHandle x2 -> h1 <> h2 ->
  addr (get s h1) <> addr (get s h2).
Proof. intros s A B _ _ N E. apply N. eapply (i_addr s (run_inv ops)); eassumption. Qed.

(* the collector finalises what it frees: every member of a garbage set is dead afterwards, and
   if it is a wrapper created with a destructor that was not removed, the destructor has run
   exactly once by then *)
Lemma dealloc_kills s g : alive (get (dealloc s g) g) = false.
Proof. unfold dealloc. rewrite get_set, Nat.eqb_refl. reflexivity. Qed.

Lemma fold_dead G : forall s i, alive (get s i) = false -> alive (get (fold_left dealloc G s) i) = false.
Proof.
  intros s i D. destruct (mono_fold G s i) as (_ & _ & _ & M).
  destruct (alive (get (fold_left dealloc G s) i)); [rewrite M in D by reflexivity; discriminate | reflexivity].
Qed.

Lemma fold_kills G : forall s i, In i G -> alive (get (fold_left dealloc G s) i) = false.
Proof.
  induction G as [| g G IH]; intros s i I; [destruct I|]. cbn [fold_left]. destruct I as [-> | I].
  - apply fold_dead. apply dealloc_kills.
  - apply IH. exact I.
Qed.

Theorem collect_frees_members ops G i :
  let s := run ops in
  garbage s G = true -> In i G ->
  let s' := step s (OCollect G) in
  alive (get s' i) = false /\
  (is_gcp (get s' i) = true -> had (get s' i) = true -> cancelled (get s' i) = false -> calls (get s' i) = 1).
Proof.
  intros s Gb I s'.
  assert (E : s' = fold_left dealloc G s) by (unfold s'; cbn [step]; unfold collect; rewrite Gb; reflexivity).
  assert (D : alive (get s' i) = false) by (rewrite E; apply fold_kills; exact I).
  split; [exact D|]. intros Hg Hh Hc.
  assert (R : s' = run (ops ++ [OCollect G])) by (rewrite run_app; reflexivity).
  rewrite R in *. apply dtor_exactly_once; auto.
Qed.

(* a from_buffer call that fails leaves the whole object table unchanged: no export, no
   reference, nothing created (for every error path of direct_from_buffer, by the regenerated
   obligation [frombuf_paths_release]) *)
Theorem failed_from_buffer_is_pure s src tag : step s (OFromBufferFail src tag) = s.
Proof. cbn [step]. rewrite no_leak, andb_false_r. reflexivity. Qed.

(* ------------------------------------------------------------------ ffi.new with a rejected
   initializer through a custom allocator *)
Lemma pair_garbage s a1 a2 hf : Inv s ->
  let n := next s in
  let s2 := alloc (alloc s (fresh KRaw a1 0 false None))
                  (fresh (KGcp (Some n) (dtor_of hf)) a2 0 hf None) in
  garbage s2 [S n; n] = true.
Proof.
  intros H n s2.
  assert (Gn : get s2 n = fresh KRaw a1 0 false None).
  { unfold s2. rewrite get_alloc, next_alloc. destruct (Nat.eqb_spec n (S (next s))); [unfold n in *; lia|].
    rewrite get_alloc. fold n. rewrite Nat.eqb_refl. reflexivity. }
  assert (Gs : get s2 (S n) = fresh (KGcp (Some n) (dtor_of hf)) a2 0 hf None).
  { unfold s2. rewrite get_alloc, next_alloc. fold n. rewrite Nat.eqb_refl. reflexivity. }
  assert (Go : forall j, j < n -> get s2 j = get s j).
  { intros j L. unfold s2. rewrite get_alloc, next_alloc. fold n.
    destruct (Nat.eqb_spec j (S n)); [lia|]. rewrite get_alloc. fold n.
    destruct (Nat.eqb_spec j n); [lia | reflexivity]. }
  assert (Nx : next s2 = S (S n)) by reflexivity.
  unfold garbage. rewrite !andb_true_iff. repeat split.
  - unfold nodupb, mem. cbn [existsb]. assert (X : Nat.eqb (S n) n = false) by (apply Nat.eqb_neq; lia).
    rewrite X. reflexivity.
  - cbn [forallb]. rewrite Gn, Gs, Nx. unfold fresh. cbn [alive roots].
    assert (E1 : (S n <? S (S n)) = true) by (apply Nat.ltb_lt; lia).
    assert (E2 : (n <? S (S n)) = true) by (apply Nat.ltb_lt; lia). rewrite E1, E2. reflexivity.
  - apply forallb_forall. intros j Ij. unfold ids in Ij. rewrite Nx in Ij. apply in_seq in Ij.
    destruct (Nat.eq_dec j (S n)) as [-> | N1].
    + assert (M : mem (S n) [S n; n] = true) by (cbn; rewrite Nat.eqb_refl; reflexivity).
      rewrite M. apply implb_true_r || (destruct (existsb _ _); reflexivity).
    + destruct (Nat.eq_dec j n) as [-> | N2].
      * rewrite Gn. cbn. reflexivity.
      * assert (L : j < n) by lia. rewrite (Go j L).
        assert (E : existsb (fun r => mem r [S n; n]) (refs_of (get s j)) = false).
        { destruct (existsb (fun r => mem r [S n; n]) (refs_of (get s j))) eqn:X; [|reflexivity]. exfalso.
          apply existsb_exists in X. destruct X as (r & Ir & Mr).
          pose proof (alive_lt s r H (i_refs s H j r Ir)) as Lr. fold n in Lr.
          cbn in Mr. destruct (Nat.eqb_spec r (S n)); [lia|]. destruct (Nat.eqb_spec r n); [lia | discriminate]. }
        rewrite E. reflexivity.
Qed.

Theorem failed_alloc_new_frees ops a1 a2 :
  let s := run ops in
  addr_free s a1 = true -> addr_free s a2 = true -> a1 <> a2 ->
  let n := next s in
  let s' := step s (OAllocNewFail a1 a2 true) in
  next s' = S (S n) /\
  alive (get s' n) = false /\ alive (get s' (S n)) = false /\
  calls (get s' (S n)) = 1 /\ had (get s' (S n)) = true /\
  (forall j, j < n -> get s' j = get s j).
Proof.
  intros s F1 F2 N n s'. pose proof (run_inv ops) as H. fold s in H.
  set (s2 := alloc (alloc s (fresh KRaw a1 0 false None))
                   (fresh (KGcp (Some n) (dtor_of true)) a2 0 true None)).
  assert (E : s' = fold_left dealloc [S n; n] s2).
  { unfold s'. cbn [step]. change gen_newp_fail_decref with true. cbv iota. rewrite F1, F2.
    destruct (Nat.eqb_spec a1 a2); [contradiction|]. cbn [andb negb]. fold n. fold s2.
    unfold collect. unfold s2, n. rewrite (pair_garbage s a1 a2 true H). reflexivity. }
  assert (Gs : get s2 (S n) = fresh (KGcp (Some n) (dtor_of true)) a2 0 true None).
  { unfold s2. rewrite get_alloc, next_alloc. fold n. rewrite Nat.eqb_refl. reflexivity. }
  assert (Gn : get s2 n = fresh KRaw a1 0 false None).
  { unfold s2. rewrite get_alloc, next_alloc. destruct (Nat.eqb_spec n (S (next s))); [unfold n in *; lia|].
    rewrite get_alloc. fold n. rewrite Nat.eqb_refl. reflexivity. }
  (* the two deallocations, step by step *)
  assert (R1 : release_view s2 (S n) = s2) by (unfold release_view; rewrite Gs; reflexivity).
  set (s3 := dealloc s2 (S n)).
  assert (G3 : forall j, get s3 j = if Nat.eqb j (S n) then kill (run_dtor (get s2 (S n))) else get s2 j).
  { intros j. unfold s3, dealloc. rewrite R1, get_set. reflexivity. }
  assert (R2 : release_view s3 n = s3).
  { unfold release_view. rewrite G3. destruct (Nat.eqb_spec n (S n)); [lia|]. rewrite Gn. reflexivity. }
  assert (G4 : forall j, get s' j = if Nat.eqb j n then kill (run_dtor (get s3 n))
                                    else if Nat.eqb j (S n) then kill (run_dtor (get s2 (S n))) else get s2 j).
  { intros j. rewrite E. cbn [fold_left]. fold s3. unfold dealloc. rewrite R2, get_set.
    destruct (Nat.eqb_spec j n); [reflexivity | apply G3]. }
  repeat split.
  - rewrite E, next_fold. reflexivity.
  - rewrite G4, Nat.eqb_refl. reflexivity.
  - rewrite G4. destruct (Nat.eqb_spec (S n) n); [lia|]. rewrite Nat.eqb_refl. reflexivity.
  - rewrite G4. destruct (Nat.eqb_spec (S n) n); [lia|]. rewrite Nat.eqb_refl, Gs. reflexivity.
  - rewrite G4. destruct (Nat.eqb_spec (S n) n); [lia|]. rewrite Nat.eqb_refl, Gs. reflexivity.
  - intros j L. rewrite G4. destruct (Nat.eqb_spec j n); [lia|]. destruct (Nat.eqb_spec j (S n)); [lia|].
    unfold s2. rewrite get_alloc, next_alloc. fold n. destruct (Nat.eqb_spec j (S n)); [lia|].
    rewrite get_alloc. fold n. destruct (Nat.eqb_spec j n); [lia | reflexivity].
Qed.

Theorem failed_new_is_pure s : step s ONewFail = s.
Proof. reflexivity. Qed.
