(* C21 — Ownership, destructors and handles behave correctly over any history.
   Statements only; proofs in C21/Proofs.v.  [run ops] is the state after ANY list of operations
   (C21/Model.v: creation, aliasing, gc, gc(None), release / with, hold, drop, attribute
   references (cycles), from_buffer, handles, and deallocation of ANY garbage set at ANY moment).

   Runtime hypotheses, built into the guards of the model's runtime events (and named in the
   evidence): (R1) CPython deallocates only sets of objects that no variable and no object outside
   the set refers to, each object once ([garbage] guard of OCollect); (R2) an allocation never
   returns the address of a live object ([addr_free] guard); (R3) a destructor does not resurrect
   or touch the objects being freed (OCollect is atomic).
   R3 is weakened by the re-entrancy theorems at the end: a destructor MAY release, or remove the
   destructor of, the wrapper that is being finalised.
   The reference edges, what finalisation clears and calls, and the release dispatch of the model are
   defined from tables regenerated from the C source (C21/Gen.v); C21_model_edges_are_tp_traverse ..
   C21_release_dispatch_is_cdata_exit spell out what the tables must say for the theorems to hold.
   Operations whose guard fails (operand not held by a variable, address in use) leave the state
   unchanged; [get s i] for an index never created is a default dead object with no destructor,
   for which the statements below hold trivially. *)
From Coq Require Import Arith List Bool.
Import ListNotations.
From Cffi Require Import C21.Gen C21.Model C21.Proofs C21.Proofs2.

(* a destructor (ffi.gc callback or allocator free) runs at most once per wrapper *)
Theorem C21_destructor_at_most_once : forall ops i, calls (get (run ops) i) <= 1.
Proof. exact dtor_at_most_once. Qed.
Print Assumptions C21_destructor_at_most_once.

(* ... exactly once by the time the wrapper is released or dead (unless cancelled) *)
Theorem C21_destructor_exactly_once : forall ops i,
  is_gcp (get (run ops) i) = true -> had (get (run ops) i) = true ->
  cancelled (get (run ops) i) = false ->
  released (get (run ops) i) = true \/ alive (get (run ops) i) = false ->
  calls (get (run ops) i) = 1.
Proof. exact dtor_exactly_once. Qed.
Print Assumptions C21_destructor_exactly_once.

(* ... and not before: while the wrapper is alive and not released nothing has been called *)
Theorem C21_destructor_not_early : forall ops i,
  alive (get (run ops) i) = true -> released (get (run ops) i) = false ->
  calls (get (run ops) i) = 0.
Proof. exact dtor_not_early. Qed.
Print Assumptions C21_destructor_not_early.

(* never after ffi.gc(p, None): once a destructor has been removed, it is not called in any
   continuation of the history *)
Theorem C21_never_after_cancel : forall ops1 ops2 i,
  cancelled (get (run ops1) i) = true -> calls (get (run (ops1 ++ ops2)) i) = 0.
Proof. exact never_after_cancel. Qed.
Print Assumptions C21_never_after_cancel.

Theorem C21_called_once_stays : forall ops1 ops2 i,
  calls (get (run ops1) i) = 1 -> calls (get (run (ops1 ++ ops2)) i) = 1.
Proof. exact called_once_stays. Qed.
Print Assumptions C21_called_once_stays.

(* new_allocator(): the allocation is a KGcp wrapper whose destructor is free, so the four
   theorems above give "free exactly once per allocation"; releasing the POINTER of
   new_allocator()("struct *") frees the allocation behind it *)
Theorem C21_release_struct_ptr_frees : forall ops p st,
  let s := run ops in
  usable s p = true -> k (get s p) = KStructPtr st -> is_gcp (get s st) = true ->
  had (get s st) = true -> cancelled (get s st) = false ->
  calls (get (step s (ORelease p)) st) = 1.
Proof. exact release_struct_ptr_frees. Qed.
Print Assumptions C21_release_struct_ptr_frees.

(* ffi.release is idempotent: a second release changes nothing at all *)
Theorem C21_release_idempotent : forall ops i,
  let s := run ops in
  next (step (step s (ORelease i)) (ORelease i)) = next (step s (ORelease i)) /\
  forall j, get (step (step s (ORelease i)) (ORelease i)) j = get (step s (ORelease i)) j.
Proof. exact release_idempotent_run. Qed.
Print Assumptions C21_release_idempotent.

(* from_buffer: while the view is held the cdata is alive and unreleased, the source is alive and
   refuses to be resized; conversely a source that refuses has such a view — i.e. it is
   unlocked as soon as every from_buffer object on it is released or dead *)
Theorem C21_frombuf_locks_source : forall ops f src,
  let s := run ops in
  k (get s f) = KFromBuf src true ->
  alive (get s f) = true /\ released (get s f) = false /\
  alive (get s src) = true /\ resize_blocked (get s src) = true.
Proof. exact frombuf_locks_source. Qed.
Print Assumptions C21_frombuf_locks_source.

Theorem C21_source_unlocked_when_no_view : forall ops src,
  let s := run ops in
  resize_blocked (get s src) = true ->
  exists f, k (get s f) = KFromBuf src true /\ alive (get s f) = true /\ released (get s f) = false.
Proof. exact source_unlocked_when_no_view. Qed.
Print Assumptions C21_source_unlocked_when_no_view.

(* a from_buffer call that FAILS (buffer too small for a fixed-length array type, not a buffer,
   read-only buffer with require_writable, ...) leaves the object table unchanged: no export, no
   reference, nothing created.  [path_leaks] is computed from the regenerated table of the error
   paths of direct_from_buffer (C21/Gen.v): which `goto errorN` each failure takes, whether it is
   taken after PyObject_GetBuffer succeeded, and whether that label calls PyBuffer_Release.
   The first theorem is the regenerated obligation itself. *)
Theorem C21_frombuf_error_paths_release :
  forallb (fun p => implb (snd (fst p)) (snd p)) gen_frombuf_paths = true.
Proof. exact frombuf_paths_release. Qed.
Print Assumptions C21_frombuf_error_paths_release.

Theorem C21_failed_from_buffer_is_pure : forall s src tag, step s (OFromBufferFail src tag) = s.
Proof. exact failed_from_buffer_is_pure. Qed.
Print Assumptions C21_failed_from_buffer_is_pure.

(* ffi.new whose initializer is rejected AFTER the memory was obtained (too many items, wrong
   element type, unknown field, out-of-range integer): direct_newp releases the freshly made cdata
   on that error path (regenerated fact Gen.gen_newp_fail_decref).  Through a custom allocator
   this means: the block's free function runs exactly once, the wrapper and the block obtained
   from alloc() are dead afterwards, and nothing else in the table changes.  With the default
   allocator the table is not touched at all. *)
Theorem C21_failed_alloc_new_frees : forall ops a1 a2,
  let s := run ops in
  addr_free s a1 = true -> addr_free s a2 = true -> a1 <> a2 ->
  let n := next s in
  let s' := step s (OAllocNewFail a1 a2 true) in
  next s' = S (S n) /\
  alive (get s' n) = false /\ alive (get s' (S n)) = false /\
  calls (get s' (S n)) = 1 /\ had (get s' (S n)) = true /\
  (forall j, j < n -> get s' j = get s j).
Proof. exact failed_alloc_new_frees. Qed.
Print Assumptions C21_failed_alloc_new_frees.

Theorem C21_failed_new_is_pure : forall s, step s ONewFail = s.
Proof. exact failed_new_is_pure. Qed.
Print Assumptions C21_failed_new_is_pure.

(* ffi.new("struct *"): while p is alive or p[0] is held, the struct object is alive (its memory
   is part of it); with a custom allocator, as long as it was not explicitly released, free has
   not been called and the allocation is alive *)
Theorem C21_struct_memory_kept : forall ops p st,
  let s := run ops in
  k (get s p) = KStructPtr st ->
  (alive (get s p) = true \/ 0 < roots (get s st)) ->
  alive (get s st) = true /\
  (is_gcp (get s st) = true -> released (get s st) = false ->
     calls (get s st) = 0 /\
     exists raw d, k (get s st) = KGcp (Some raw) d /\ alive (get s raw) = true).
Proof. exact struct_memory_kept. Qed.
Print Assumptions C21_struct_memory_kept.

(* handles: from_handle on the address of a live handle returns the object given to the
   new_handle call that made it, and that object is alive *)
Theorem C21_from_handle_correct : forall ops h x,
  let s := run ops in
  alive (get s h) = true -> k (get s h) = KHandle x ->
  horig (get s h) = Some x /\ alive (get s x) = true /\ from_handle_addr s (addr (get s h)) = Some x.
Proof. exact from_handle_correct. Qed.
Print Assumptions C21_from_handle_correct.

(* "live handles have pairwise distinct addresses".  What cffi contributes is proved from the
   model's own bookkeeping: every new_handle call creates a new handle object (never a shared or
   recycled one), and a handle's address is the address of that object.  That two objects that
   are alive at the same time have different addresses is NOT a fact about cffi but runtime
   hypothesis R2 (the allocator never returns memory in use; the [addr_free] guard); the second
   theorem only carries R2 along the history and is named accordingly. *)
Theorem C21_new_handle_fresh : forall ops x a,
  let s := run ops in
  usable s x = true -> addr_free s a = true ->
  let s' := step s (ONewHandle x a) in
  next s' = S (next s) /\ k (get s' (next s)) = KHandle x /\ alive (get s' (next s)) = true /\
  addr (get s' (next s)) = a /\ (forall j, j < next s -> get s' j = get s j).
Proof. exact new_handle_fresh. Qed.
Print Assumptions C21_new_handle_fresh.

Theorem C21_live_handles_distinct_addresses_under_R2 : forall ops h1 h2 x1 x2,
  let s := run ops in
  alive (get s h1) = true -> alive (get s h2) = true ->
  k (get s h1) = KHandle x1 -> k (get s h2) = KHandle x2 -> h1 <> h2 ->
  addr (get s h1) <> addr (get s h2).
Proof. exact live_handles_distinct_addresses_under_R2. Qed.
Print Assumptions C21_live_handles_distinct_addresses_under_R2.

Theorem C21_references_alive : forall ops i r,
  In r (refs_of (get (run ops) i)) -> alive (get (run ops) r) = true.
Proof. exact references_alive. Qed.
Print Assumptions C21_references_alive.

(* whatever the collector frees is finalised: every member of a garbage set (a set closed under
   the reference edges of Model.refs_of, i.e. the edges tp_traverse reports; for a wrapper:
   destructor AND origobj, independently of each other) is dead afterwards and a remaining
   destructor has run exactly once.  That gc.collect() frees exactly the objects unreachable under
   these edges is runtime hypothesis R1; the correspondence run checks it on every history,
   directed cycle shapes through the origobj edge included. *)
Theorem C21_collect_frees_members : forall ops G i,
  let s := run ops in
  garbage s G = true -> In i G ->
  let s' := step s (OCollect G) in
  alive (get s' i) = false /\
  (is_gcp (get s' i) = true -> had (get s' i) = true -> cancelled (get s' i) = false -> calls (get s' i) = 1).
Proof. exact collect_frees_members. Qed.
Print Assumptions C21_collect_frees_members.

(* ---- the regenerated tables.  [refs_of], [run_dtor], [cancel] and the ORelease case of [step] are
   DEFINED from Gen.gen_traverse / gen_structptr_owns / gen_finalize_cleared / gen_gcp_finalize_calls /
   gen_gcnone_clears / gen_release_case / gen_exit_table (extracted from the C source on every run).
   The next five statements say what those definitions amount to for the current source; they are
   proved by computation on the tables, so an edited Py_VISIT list, a cdatagcp_finalize that clears
   after the call or not at all, a changed case of explicit_release_case or cdata_exit breaks them
   (and with them every theorem above, all of which are proved about the same definitions). *)
Theorem C21_model_edges_are_tp_traverse : forall o,
  refs_of o =
  if alive o then
    match k o with
    | KOwn | KRaw => []
    | KStructPtr s => [s]
    | KGcp orig dtor => opt_list orig ++ match dtor with Some y => opt_list y | None => [] end
    | KFromBuf src view => if view then [src] else []
    | KHandle x => [x]
    | KPy refs _ => refs
    end
  else [].
Proof. exact refs_of_edges. Qed.
Print Assumptions C21_model_edges_are_tp_traverse.

Theorem C21_finalize_clears_both_calls_once : forall o,
  run_dtor o =
  match k o with
  | KGcp _ (Some _) =>
      mkobj (KGcp None None) (alive o) (roots o) (addr o) (S (calls o)) (had o) (cancelled o)
            (released o) (horig o)
  | KGcp _ None => with_k o (KGcp None None)
  | _ => o
  end.
Proof. exact run_dtor_effect. Qed.
Print Assumptions C21_finalize_clears_both_calls_once.

Theorem C21_gc_none_clears_destructor_only : forall o,
  cancel o =
  match k o with
  | KGcp orig (Some _) =>
      mkobj (KGcp orig None) (alive o) (roots o) (addr o) (calls o) (had o) true (released o) (horig o)
  | _ => o
  end.
Proof. exact cancel_effect. Qed.
Print Assumptions C21_gc_none_clears_destructor_only.

Theorem C21_finalize_order_facts :
  gen_finalize_clears_first = true /\ fin_clears FDestructor = true /\ fin_clears FOrigobj = true /\
  gen_gcp_finalize_calls = 1 /\ gen_dealloc_finalizes = true /\ gen_structptr_owns = true.
Proof. exact finalize_order. Qed.
Print Assumptions C21_finalize_order_facts.

Theorem C21_release_dispatch_is_cdata_exit : forall s i,
  step s (ORelease i) =
  if usable s i then
    match k (get s i) with
    | KStructPtr st => if is_gcp (get s st) then finalize_at s st else s
    | KFromBuf _ _ => let s1 := release_view s i in set_obj s1 i (mark_released (get s1 i))
    | KGcp _ _ => finalize_at s i
    | _ => s
    end
  else s.
Proof. exact release_dispatch. Qed.
Print Assumptions C21_release_dispatch_is_cdata_exit.

(* ---- results of the operations ([stepr s o = (step s o, out s o)]).  ffi.release(x) / with x: on an
   object the program holds raises ValueError exactly for a handle and for the struct object p[0]
   behind ffi.new("struct *") (explicit_release_case falls through), TypeError exactly for a
   non-cdata (b_release), and whenever it does not succeed the state is unchanged.
   ffi.gc(x, None) raises TypeError exactly when x is not an ffi.gc()/allocator wrapper, and then
   changes no object. *)
Theorem C21_release_error_iff_kind : forall ops i,
  let s := run ops in
  usable s i = true ->
  (out s (ORelease i) = RValueError <->
     (exists y, k (get s i) = KHandle y) \/ (k (get s i) = KOwn /\ own_is_struct s i = true)) /\
  (out s (ORelease i) = RTypeError <-> is_py (get s i) = true) /\
  (out s (ORelease i) = ROk \/ step s (ORelease i) = s).
Proof. exact release_result_run. Qed.
Print Assumptions C21_release_error_iff_kind.

Theorem C21_gcnone_error_iff_kind : forall s w,
  usable s w = true ->
  (out s (OGcNone w) = RTypeError <-> is_gcp (get s w) = false) /\
  (out s (OGcNone w) = ROk <-> is_gcp (get s w) = true) /\
  (out s (OGcNone w) = ROk \/
   (next (step s (OGcNone w)) = next s /\ forall j, get (step s (OGcNone w)) j = get s j)).
Proof. exact gcnone_result. Qed.
Print Assumptions C21_gcnone_error_iff_kind.

(* ---- re-entrant destructors (weakens R3).  [OReleaseRe i r]: ffi.release(i) / with i: whose
   destructor, while it runs, calls ffi.release(w) (r = RReleaseSelf) or ffi.gc(w, None)
   (r = RGcNoneSelf) on the wrapper w being finalised.  [finalize_re] keeps the statement order of
   cdatagcp_finalize explicit (clear, call with the nested action inside, or call then clear,
   according to Gen.gen_finalize_clears_first).  Because the source clears first, the nested
   cdatagcp_finalize finds no destructor: every history with re-entrant releases reaches the same
   state as the history with plain releases, hence ALL theorems above hold for [run2] too; "at most
   once" is restated. *)
Theorem C21_reentrant_release_same : forall ops, run2 ops = run (map erase ops).
Proof. exact run2_erase. Qed.
Print Assumptions C21_reentrant_release_same.

Theorem C21_at_most_once_reentrant : forall ops i, calls (get (run2 ops) i) <= 1.
Proof. exact at_most_once_reentrant. Qed.
Print Assumptions C21_at_most_once_reentrant.

(* non-vacuity: a wrapper in a reference cycle with its own destructor's closure; a release
   followed by collection; a cancelled destructor; an allocator struct pointer released while
   aliased; two from_buffer views *)
Example C21_example_cycle :
  let s := run [ONewPy 1; ONew 2; OGc 1 3 (Some 0); OSetRef 0 2; ODrop 0; ODrop 1; ODrop 2; OCollectAuto] in
  observe s = [(false, 0, false); (false, 0, false); (false, 1, false)].
Proof. vm_compute. reflexivity. Qed.

Example C21_example_release_cancel :
  let s := run [ONew 1; OGc 0 2 None; OGc 0 3 None; ORelease 1; ORelease 1; OGcNone 2; ODrop 0; ODrop 1;
                ODrop 2; OCollectAuto] in
  observe s = [(false, 0, false); (false, 1, false); (false, 0, false)].
Proof. vm_compute. reflexivity. Qed.

Example C21_example_allocator_frombuf :
  let s := run [OAllocNewStruct 1 2 3 true; OAlias 2; ORelease 2; ODrop 2; OCollectAuto;
                ONewPy 4; OFromBuffer 3 5; OFromBuffer 3 6; ORelease 4; ODrop 5; OCollectAuto] in
  observe s = [(false, 0, false); (true, 1, false); (false, 0, false);
               (true, 0, false); (true, 0, false); (false, 0, false)].
Proof. vm_compute. reflexivity. Qed.

(* a cycle that closes only through the origobj edge of a wrapper whose destructor was removed:
   y -> W -> (origobj) handle -> y; everything is freed *)
Example C21_example_origobj_cycle :
  let s := run [ONewPy 1; ONewHandle 0 2; OGc 1 3 None; OGcNone 2; OSetRef 0 2; ODrop 1; ODrop 2; ODrop 0;
                OCollectAuto] in
  observe s = [(false, 0, false); (false, 0, false); (false, 0, false)].
Proof. vm_compute. reflexivity. Qed.

(* the struct object p[0] and a handle cannot be released (ValueError, nothing changes), a Python
   object gives TypeError; the array, the pointer and the wrapper can *)
Example C21_example_release_results :
  outs init [ONewStruct 1 2; OAlias 1; ORelease 0; ORelease 1; ONewPy 3; ONewHandle 2 4; ORelease 3;
             ORelease 2; OGcNone 1; ONew 5; ORelease 4; OGc 4 6 None; OGcNone 5; ORelease 5; ORelease 9]
  = [0; 0; 1; 0; 0; 0; 1; 2; 2; 0; 0; 0; 0; 0; 0].
Proof. vm_compute. reflexivity. Qed.

(* a re-entrant release: the destructor of wrapper 1 releases wrapper 1 while it runs; called once *)
Example C21_example_reentrant :
  let s := run2 [OBase (ONew 1); OBase (OGc 0 2 None); OReleaseRe 1 RReleaseSelf; OReleaseRe 1 RGcNoneSelf;
                 OBase (ODrop 1); OBase OCollectAuto] in
  observe s = [(true, 0, false); (false, 1, false)].
Proof. vm_compute. reflexivity. Qed.
