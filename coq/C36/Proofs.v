(* C36 — proofs: inductive invariant of the thread-state / canary / zombie-list system,
   for any number of threads and any order of events. *)
From Coq Require Import Arith List Bool Lia.
Import ListNotations.
From Cffi Require Import C36.Model C36.Gen.

Definition b2n (b : bool) : nat := if b then 1 else 0.
(* how many unreturned gil_ensure / PyGILState_Ensure calls the thread has on its thread state *)
Definition load (s : state) (t : nat) : nat := b2n (incb s t) + nest s t + b2n (ownb s t).

Record Inv (s : state) : Prop := mkInv {
  iA : fatal s = false;
  iB : NoDup (zombies s);
  iC : forall c, In c (zombies s) -> exists ts, cans s c = CAlive ts None true;
  iD1 : forall c ts tl z, cans s c = CAlive ts tl z -> c < nextc s;
  iD2 : forall c ts tl z, cans s c = CAlive ts tl z -> exists o k, tss s ts = TsLive o k (Some c);
  iD3 : forall c ts tl, cans s c = CAlive ts tl true -> In c (zombies s) /\ tl = None;
  iD4 : forall c ts u z, cans s c = CAlive ts (Some u) z ->
          tlsc s u = Some (Some c) /\ thr s u = Alive /\ gts s u = Some ts /\ z = false;
  iD5 : forall c ts z o k d, cans s c = CAlive ts None z -> tss s ts = TsLive o k d -> thr s o = Exited;
  iD6 : forall c ts, cans s c = CAlive ts None false -> exists t, reg s = Some (t, Clearing c ts);
  iE : forall t c, tlsc s t = Some (Some c) -> exists ts, cans s c = CAlive ts (Some t) false;
  iF1 : forall ts o k d, tss s ts = TsLive o k d -> ts < nextts s /\ ndel s ts = 0 /\ finalized s = false;
  iF2 : forall ts c o k, tss s ts = TsLive o k (Some c) -> exists tl z, cans s c = CAlive ts tl z;
  iF3 : forall ts, tss s ts = TsDeleted -> ndel s ts = 1;
  iF4 : forall ts, tss s ts = TsFree -> ndel s ts = 0;
  iF5 : forall ts, nextts s <= ts -> tss s ts = TsFree;
  iF6 : forall c, nextc s <= c -> cans s c = CFree;
  iH : forall t ts, gts s t = Some ts -> thr s t = Alive -> finalized s = false ->
         exists k d, tss s ts = TsLive t k d;
  iH2 : forall t ts, gts s t = Some ts -> ts < nextts s;
  iK1 : forall t ts, gts s t = Some ts -> tss s ts <> TsFree;
  iK3 : forall t ts o k d, gts s t = Some ts -> tss s ts = TsLive o k d -> o = t;
  iK2 : forall ts o k d, tss s ts = TsLive o k d -> gts s o = Some ts;
  iI : forall ts o k c, tss s ts = TsLive o k (Some c) ->
         1 <= k /\ (thr s o = Alive -> load s o + 1 <= k);
  iI2 : forall ts o k, tss s ts = TsLive o k None -> dropped s ts = false ->
         k = 1 /\ incb s o = false /\ gts s o = Some ts /\ thr s o = Alive /\ nest s o = 0 /\ ownb s o = false /\
         exists ph, reg s = Some (o, ph);
  iI3 : forall ts o k, tss s ts = TsLive o k None -> dropped s ts = true ->
         1 <= k /\ (thr s o = Alive -> load s o + 1 <= k) /\ gts s o = Some ts;
  iL : forall ts, nextts s <= ts -> dropped s ts = false;
  iN : forall t, gts s t = None -> nest s t = 0 /\ ownb s t = false;
  iJ : forall t ph, reg s = Some (t, ph) ->
         thr s t = Alive /\ incb s t = false /\ finalized s = false /\
         exists ts, gts s t = Some ts /\ tss s ts = TsLive t 1 None /\ dropped s ts = false;
  iJ2 : forall t c ts, reg s = Some (t, Clearing c ts) -> cans s c = CAlive ts None false
}.

Lemma inv_init : Inv init.
Proof.
  constructor; cbn; intros; try discriminate; try contradiction; auto; try constructor.
Qed.

Lemma upd_same {A} (f : nat -> A) k v : upd f k v k = v.
Proof. unfold upd. rewrite Nat.eqb_refl. reflexivity. Qed.
Lemma upd_other {A} (f : nat -> A) k v k' : k' <> k -> upd f k v k' = f k'.
Proof. intros H. unfold upd. destruct (Nat.eqb_spec k' k); congruence. Qed.

Ltac upd_split :=
  repeat match goal with
         | H : context [upd _ ?k _ ?k'] |- _ =>
             destruct (Nat.eq_dec k' k) as [?|?];
             [subst; rewrite ?upd_same in *|rewrite ?upd_other in * by assumption]
         | |- context [upd _ ?k _ ?k'] =>
             destruct (Nat.eq_dec k' k) as [?|?];
             [subst; rewrite ?upd_same in *|rewrite ?upd_other in * by assumption]
         end.

Ltac fields := cbn [thr gts tlsc incb tss cans zombies reg nextts nextc ndel finalized fatal dropped nest ownb] in *.

Ltac destr_ex :=
  repeat match goal with
         | H : _ /\ _ |- _ => destruct H
         | H : exists _, _ |- _ => destruct H
         end.

(* the regenerated facts of C36/Gen.v that step_fn consults are evaluated here: the proofs below are
   about the model instantiated with the CURRENT source's facts *)
Ltac gen_facts Hs :=
  cbv beta iota delta [bump negb gen_gil_ensure_incr_unlocked gen_gil_ensure_incr_locked gen_gil_release_plain
                       gen_register_sweeps_first gen_register_sets_local gen_register_incr] in Hs.

Ltac open_step Hs :=
  unfold step, step_fn in Hs; gen_facts Hs;
  repeat match type of Hs with
         | match ?x with _ => _ end = Some _ => destruct x eqn:?
         | (let '(_, _) := ?x in _) = Some _ => destruct x eqn:?
         | (if ?x then _ else _) = Some _ => destruct x eqn:?
         end; try discriminate; inversion Hs; subst; clear Hs.

Definition marker {T} (x : T) : Prop := True.
Ltac pose_once key H :=
  lazymatch goal with
  | _ : marker key |- _ => fail
  | _ => pose proof H; assert (marker key) by exact I
  end.

(* forward chaining with the invariant of the pre-state *)
Ltac sat1 HI :=
  repeat match goal with
         | H : gts ?s ?t = Some ?ts, H1 : thr ?s ?t = Alive, H2 : finalized ?s = false |- _ =>
             pose_once (1, t, ts) (iH s HI t ts H H1 H2)
         | H : gts ?s ?t = None |- _ => pose_once (23, t) (iN s HI t H)
         | H : gts ?s ?t = Some ?ts |- _ => pose_once (2, t, ts) (iH2 s HI t ts H)
         | H : gts ?s ?t = Some ?ts |- _ => pose_once (19, t, ts) (iK1 s HI t ts H)
         | H : gts ?s ?t = Some ?ts, H1 : tss ?s ?ts = TsLive ?o ?k ?d |- _ =>
             pose_once (20, t, ts, o, k, d) (iK3 s HI t ts o k d H H1)
         | H : reg ?s = Some (?t, ?ph) |- _ => pose_once (3, t, ph) (iJ s HI t ph H)
         | H : reg ?s = Some (?t, Clearing ?c ?ts) |- _ => pose_once (4, t, c, ts) (iJ2 s HI t c ts H)
         | H : cans ?s ?c = CAlive ?ts ?tl ?z |- _ => pose_once (5, c, ts, tl, z) (iD2 s HI c ts tl z H)
         | H : cans ?s ?c = CAlive ?ts ?tl ?z |- _ => pose_once (6, c, ts, tl, z) (iD1 s HI c ts tl z H)
         | H : cans ?s ?c = CAlive ?ts (Some ?u) ?z |- _ => pose_once (7, c, ts, u, z) (iD4 s HI c ts u z H)
         | H : cans ?s ?c = CAlive ?ts ?tl true |- _ => pose_once (8, c, ts, tl) (iD3 s HI c ts tl H)
         | H : cans ?s ?c = CAlive ?ts None false |- _ => pose_once (9, c, ts) (iD6 s HI c ts H)
         | H : cans ?s ?c = CAlive ?ts None ?z, H1 : tss ?s ?ts = TsLive ?o ?k ?d |- _ =>
             pose_once (10, c, ts, z, o, k, d) (iD5 s HI c ts z o k d H H1)
         | H : tss ?s ?ts = TsLive ?o ?k ?d |- _ => pose_once (11, ts, o, k, d) (iF1 s HI ts o k d H)
         | H : tss ?s ?ts = TsLive ?o ?k ?d |- _ => pose_once (22, ts, o, k, d) (iK2 s HI ts o k d H)
         | H : tss ?s ?ts = TsLive ?o ?k (Some ?c) |- _ => pose_once (12, ts, o, k, c) (iF2 s HI ts c o k H)
         | H : tss ?s ?ts = TsLive ?o ?k (Some ?c) |- _ => pose_once (13, ts, o, k, c) (iI s HI ts o k c H)
         | H : tss ?s ?ts = TsLive ?o ?k None, H1 : dropped ?s ?ts = false |- _ =>
             pose_once (14, ts, o, k) (iI2 s HI ts o k H H1)
         | H : tss ?s ?ts = TsLive ?o ?k None, H1 : dropped ?s ?ts = true |- _ =>
             pose_once (21, ts, o, k) (iI3 s HI ts o k H H1)
         | H : tss ?s ?ts = TsDeleted |- _ => pose_once (15, ts) (iF3 s HI ts H)
         | H : tss ?s ?ts = TsFree |- _ => pose_once (16, ts) (iF4 s HI ts H)
         | H : tlsc ?s ?t = Some (Some ?c) |- _ => pose_once (17, t, c) (iE s HI t c H)
         | H : In ?c (zombies ?s) |- _ => pose_once (18, c) (iC s HI c H)
         end.

Ltac norm :=
  repeat match goal with
         | H : Some _ = Some _ |- _ => inversion H; subst; clear H
         | H : TsLive _ _ _ = TsLive _ _ _ |- _ => inversion H; subst; clear H
         | H : CAlive _ _ _ = CAlive _ _ _ |- _ => inversion H; subst; clear H
         | H : (_, _) = (_, _) |- _ => inversion H; subst; clear H
         | H : Clearing _ _ = Clearing _ _ |- _ => inversion H; subst; clear H
         | H1 : ?a = ?b, H2 : ?a = ?c |- _ =>
             assert_fails (constr_eq b c); rewrite H1 in H2;
             first [discriminate H2 | inversion H2; subst; clear H2]
         end.

Ltac fwd :=
  repeat match goal with
         | H : ?P -> _, H' : ?P |- _ =>
             match type of P with Prop => specialize (H H') end
         | H : true = true -> _ |- _ => specialize (H eq_refl)
         end.

Ltac split_dropped :=
  repeat match goal with
         | H : tss ?s ?ts = TsLive _ _ None |- _ =>
             lazymatch goal with
             | _ : dropped s ts = _ |- _ => fail
             | _ => destruct (dropped s ts) eqn:?
             end
         end.

Ltac sat HI := sat1 HI; destr_ex; norm; split_dropped; sat1 HI; destr_ex; norm; fwd.

Ltac easy_goal :=
  try solve [ eauto | congruence | lia
            | repeat split; eauto; try congruence; try lia
            | repeat (eexists || split); eauto; upd_split; eauto; try congruence; try lia ].

Lemma busy_false s t : busy s t = false -> forall ph, reg s <> Some (t, ph).
Proof. unfold busy. intros H ph E. rewrite E in H. rewrite Nat.eqb_refl in H. discriminate. Qed.

Ltac use_busy :=
  repeat match goal with
         | H : busy ?s ?t = false |- _ => pose proof (busy_false s t H); clear H
         end.

Ltac split_tl HI :=
  repeat match goal with
         | H : cans _ _ = CAlive _ ?tl _ |- _ => is_var tl; destruct tl
         | H : cans _ _ = CAlive _ _ ?z |- _ => is_var z; destruct z
         end; sat HI.

Ltac fresh_goal HI :=
  match goal with
  | |- tss ?s ?ts = TsFree => apply (iF5 s HI); lia
  | |- cans ?s ?c = CFree => apply (iF6 s HI); lia
  | |- dropped ?s ?ts = false => apply (iL s HI); lia
  end.

Ltac load_tac :=
  unfold load, b2n in *; fields; upd_split;
  repeat match goal with
         | H : context [if ?b then _ else _] |- _ => destruct b eqn:?
         | |- context [if ?b then _ else _] => destruct b eqn:?
         end; try congruence; try lia;
  repeat split; try congruence; try lia; eauto.

Ltac dropped_fresh HI :=
  exfalso;
  match goal with
  | H : dropped ?s ?ts = true |- _ => rewrite (iL s HI ts) in H by lia; discriminate H
  end.

Ltac finish HI :=
  easy_goal; try (fresh_goal HI); try (dropped_fresh HI); try (load_tac; fail);
  try (split_tl HI; try discriminate; try congruence; easy_goal; try (exfalso; eauto; congruence)).

Ltac inv_tac :=
  match goal with
  | HI : Inv ?s, Hs : step ?s _ _ |- _ =>
      open_step Hs; use_busy; sat HI;
      repeat match goal with H : tss _ _ = TsLive _ _ ?d |- _ => is_var d; destruct d end; sat HI;
      try discriminate; try congruence; try lia;
      try (exfalso; eauto; fail); try (exfalso; load_tac; fail);
      pose proof HI as HI'; destruct HI';
      constructor; fields; intros; upd_split; sat HI; finish HI
  end.

Lemma inv_cb s t s' : Inv s -> step s (EvCb t) s' -> Inv s'.
Proof. intros HI Hs. inv_tac. Qed.

Lemma inv_cbend s t s' : Inv s -> step s (EvCbEnd t) s' -> Inv s'.
Proof. intros HI Hs. inv_tac. Qed.


(* facts about the head of the zombie list *)
Ltac zomb_head HI :=
  match goal with
  | H : zombies ?s = ?c :: ?l |- _ =>
      let HB := fresh "HB" in
      pose proof (iB s HI) as HB; rewrite H in HB; inversion HB; subst;
      assert (In c (zombies s)) by (rewrite H; left; reflexivity);
      assert (forall c', In c' l -> In c' (zombies s)) by (intros; rewrite H; right; assumption);
      assert (forall c', In c' (zombies s) -> c' = c \/ In c' l)
        by (intros c' Hc'; rewrite H in Hc'; destruct Hc'; auto)
  end.

Lemma inv_pop s s' : Inv s -> step s EvSweepPop s' -> Inv s'.
Proof.
  intros HI Hs.
  match goal with
  | HI : Inv ?s, Hs : step ?s _ _ |- _ =>
      open_step Hs; use_busy; try zomb_head HI; sat HI;
      try discriminate; try congruence; try lia;
      try (exfalso; eauto; fail); try (exfalso; load_tac; fail);
      pose proof HI as HI'; destruct HI';
      constructor; fields; intros; upd_split; sat HI; finish HI
  end.
  split; auto. destruct (H3 c); [assumption|congruence|assumption].
Qed.

Lemma inv_makecanary s s' : Inv s -> step s EvMakeCanary s' -> Inv s'.
Proof. intros HI Hs. inv_tac. Qed.

Lemma NoDup_snoc (z : list nat) c : NoDup z -> ~ In c z -> NoDup (z ++ [c]).
Proof.
  induction z as [|a z IH]; intros Hn Hc; cbn.
  - constructor; [intros []|constructor].
  - inversion Hn; subst. constructor.
    + rewrite in_app_iff. cbn. intros [Hin|[->|[]]]; [contradiction|apply Hc; left; reflexivity].
    + apply IH; auto. intros Hin; apply Hc; right; assumption.
Qed.

Lemma inv_exit s t s' : Inv s -> step s (EvExit t) s' -> Inv s'.
Proof.
  intros HI Hs. open_step Hs. use_busy. unfold do_exit.
  destruct (tlsc s t) as [[c|]|] eqn:Etl; [destruct (cans s c) as [|ts tl [|]|] eqn:Ec|..]; sat HI;
    try discriminate; try congruence.
  all: pose proof HI as HI'; destruct HI'.
  all: constructor; fields; intros; rewrite ?in_app_iff in *; cbn [In] in *; upd_split; sat HI; finish HI.
  - apply NoDup_snoc; auto. intros Hin. destruct (iC s HI c Hin) as [ts' E']. congruence.
  - match goal with H : In ?c0 (zombies s) \/ _ |- _ => destruct H as [Hin|[->|[]]]; [apply (iC s HI c0 Hin)|congruence] end.
Qed.

Lemma inv_clear s s' : Inv s -> step s EvSweepClear s' -> Inv s'.
Proof.
  intros HI Hs. unfold step, step_fn in Hs; gen_facts Hs.
  destruct (finalized s) eqn:Ef; try discriminate.
  destruct (reg s) as [[t [|c ts|]]|] eqn:Er; try discriminate.
  sat HI. rewrite H3 in Hs. unfold dealloc in Hs. rewrite H1 in Hs. inversion Hs; subst; clear Hs.
  pose proof HI as HI'; destruct HI'.
  constructor; fields; intros; upd_split; sat HI; finish HI.
Qed.


Lemma inv_finalize s s' : Inv s -> step s EvFinalize s' -> Inv s'.
Proof.
  intros HI Hs. open_step Hs.
  pose proof HI as HI'; destruct HI'.
  constructor; fields; intros; try discriminate; try contradiction; try constructor;
    repeat match goal with
           | H : match ?x with _ => _ end = _ |- _ => destruct x eqn:?; try discriminate
           | |- match ?x with _ => _ end = _ => destruct x eqn:?; try discriminate
           end; sat HI; easy_goal; try (fresh_goal HI).
  - rewrite (iF5 s HI ts H) in Heqt. discriminate.
  - match goal with H : nextc s <= ?c, E : cans s ?c = _ |- _ => rewrite (iF6 s HI c H) in E; discriminate end.
  - match goal with H : gts s ?t = Some ?ts |- _ => pose proof (iK1 s HI t ts H) end.
    destruct (tss s ts); congruence.
Qed.

Lemma inv_drop s t s' : Inv s -> step s (EvDictDrop t) s' -> Inv s'.
Proof.
  intros HI Hs. unfold step, step_fn in Hs; gen_facts Hs.
  destruct (finalized s) eqn:Ef; try discriminate.
  destruct (thr s t) eqn:Et; try discriminate.
  destruct (reg s) eqn:Er; try discriminate.
  destruct (gts s t) as [ts|] eqn:Eg; try discriminate.
  destruct (tss s ts) as [|o k [c|]|] eqn:Ets; try discriminate.
  sat HI. split_tl HI; try congruence.
  unfold dealloc in Hs.
  match goal with H : cans s c = CAlive _ _ _ |- _ => rewrite H in Hs end.
  inversion Hs; subst; clear Hs.
  pose proof HI as HI'; destruct HI'.
  constructor; fields; intros; upd_split; sat HI; finish HI.
Qed.

Lemma inv_nested s t s' : Inv s -> step s (EvCbNested t) s' -> Inv s'.
Proof. intros HI Hs. inv_tac. Qed.

Lemma inv_nested_end s t s' : Inv s -> step s (EvCbNestedEnd t) s' -> Inv s'.
Proof. intros HI Hs. inv_tac. Qed.

Lemma inv_own_ensure s t s' : Inv s -> step s (EvOwnEnsure t) s' -> Inv s'.
Proof. intros HI Hs. inv_tac. Qed.

Lemma inv_own_release s t s' : Inv s -> step s (EvOwnRelease t) s' -> Inv s'.
Proof. intros HI Hs. inv_tac. Qed.

Lemma inv_step s e s' : Inv s -> step s e s' -> Inv s'.
Proof.
  intros HI Hs. destruct e.
  - eapply inv_cb; eauto.
  - eapply inv_pop; eauto.
  - eapply inv_clear; eauto.
  - eapply inv_makecanary; eauto.
  - eapply inv_cbend; eauto.
  - eapply inv_exit; eauto.
  - eapply inv_finalize; eauto.
  - eapply inv_nested; eauto.
  - eapply inv_nested_end; eauto.
  - eapply inv_own_ensure; eauto.
  - eapply inv_own_release; eauto.
  - eapply inv_drop; eauto.
Qed.

Lemma reach_inv s : reach s -> Inv s.
Proof. induction 1; [apply inv_init | eapply inv_step; eauto]. Qed.

(* ---- consequences *)
Lemma ndel_le_1 s ts : Inv s -> ndel s ts <= 1.
Proof.
  intros HI. destruct (tss s ts) eqn:E.
  - rewrite (iF4 s HI ts E). lia.
  - destruct (iF1 s HI _ _ _ _ E) as (_ & -> & _). lia.
  - rewrite (iF3 s HI ts E). lia.
Qed.

Lemma zombie_facts s : Inv s ->
  NoDup (zombies s) /\ forall c, In c (zombies s) -> exists ts o k, cans s c = CAlive ts None true /\ tss s ts = TsLive o k (Some c) /\ thr s o = Exited.
Proof.
  intros HI. split; [apply (iB s HI)|]. intros c Hin.
  destruct (iC s HI c Hin) as [ts E]. destruct (iD2 s HI _ _ _ _ E) as (o & k & E2).
  exists ts, o, k. repeat split; auto. eapply (iD5 s HI); eauto.
Qed.

Lemma exited_not_leaked s t ts : Inv s -> thr s t = Exited -> gts s t = Some ts ->
  tss s ts = TsDeleted \/
  (exists c, In c (zombies s) /\ cans s c = CAlive ts None true) \/
  (exists t' c, reg s = Some (t', Clearing c ts)) \/
  dropped s ts = true.
Proof.
  intros HI Hx Hg. destruct (tss s ts) as [|o k d|] eqn:E; auto.
  - exfalso. eapply (iK1 s HI); eauto.
  - pose proof (iK3 s HI _ _ _ _ _ Hg E). subst o. destruct d as [c|].
    + destruct (iF2 s HI _ _ _ _ E) as (tl & z & Ec). destruct tl as [u|].
      * destruct (iD4 s HI _ _ _ _ Ec) as (_ & Ha & Hgu & _).
        destruct (iH s HI u ts Hgu Ha) as (k' & d' & E'). { eapply (iF1 s HI); eauto. }
        rewrite E in E'. inversion E'; subst. congruence.
      * destruct z.
        -- right; left. exists c. split; auto. apply (iD3 s HI _ _ _ Ec).
        -- right; right; left. destruct (iD6 s HI _ _ Ec) as [t' Hr]. eauto.
    + destruct (dropped s ts) eqn:Ed; [right; right; right; reflexivity|].
      destruct (iI2 s HI _ _ _ E Ed) as (_ & _ & _ & Ha & _). congruence.
Qed.

(* the thread state of a live foreign thread never changes *)
Lemma gts_stable s e s' t ts : Inv s -> step s e s' ->
  gts s t = Some ts -> thr s' t = Alive -> finalized s' = false -> gts s' t = Some ts.
Proof.
  intros HI Hs Hg Ha Hf.
  destruct e; try (unfold step, step_fn in Hs; fail).
  all: open_step Hs; use_busy; unfold do_exit in *; fields;
    repeat match goal with
           | H : context [match ?x with _ => _ end] |- _ => destruct x eqn:?
           | |- context [match ?x with _ => _ end] => destruct x eqn:?
           end; fields; upd_split; sat HI;
    repeat match goal with H : tss _ _ = TsLive _ _ ?d |- _ => is_var d; destruct d end; sat HI;
    try congruence; try lia; auto; try (exfalso; load_tac; fail).
Qed.

(* the macro runner used by the correspondence visits reachable states only *)
Lemma sweep_all_reach : forall fuel s s', reach s -> sweep_all fuel s = Some s' -> reach s'.
Proof.
  induction fuel as [|f IH]; intros s s' Hr H; cbn [sweep_all] in H; [discriminate|].
  destruct (reg s) as [[t [|c ts|]]|].
  - destruct (step_fn s EvSweepPop) eqn:E; [|discriminate]. eapply IH; [|eauto]. eapply r_step; eauto.
  - destruct (step_fn s EvSweepClear) eqn:E; [|discriminate]. eapply IH; [|eauto]. eapply r_step; eauto.
  - eapply r_step; eauto.
  - inversion H; subst; auto.
Qed.

Lemma mstep_reach s e s' : reach s -> mstep s e = Some s' -> reach s'.
Proof.
  intros Hr H. destruct e; cbn [mstep] in H.
  - destruct (step_fn s (EvCb t)) eqn:E; [|discriminate].
    eapply sweep_all_reach; [|eauto]. eapply r_step; eauto.
  - eapply r_step; eauto.
  - eapply r_step; eauto.
  - eapply r_step; eauto.
  - eapply r_step; eauto.
  - destruct (step_fn s (EvCbNested t)) as [s1|] eqn:E1; [|discriminate].
    eapply r_step; [eapply r_step; eauto|]; eauto.
  - destruct (step_fn s (EvOwnEnsure t)) as [s1|] eqn:E1; [|discriminate].
    destruct (step_fn s1 (EvCbNested t)) as [s2|] eqn:E2; [|discriminate].
    destruct (step_fn s2 (EvCbNestedEnd t)) as [s3|] eqn:E3; [|discriminate].
    eapply r_step; [eapply r_step; [eapply r_step; [eapply r_step; eauto|]|]|]; eauto.
Qed.

(* ---- statements of C36/Props.v *)
Lemma no_fatal s : reach s -> fatal s = false.
Proof. intros H. apply (iA s (reach_inv s H)). Qed.

Lemma deleted_at_most_once s ts : reach s -> ndel s ts <= 1.
Proof. intros H. apply ndel_le_1, reach_inv, H. Qed.

Lemma valid_thread_state s t ts : reach s -> thr s t = Alive -> finalized s = false ->
  gts s t = Some ts -> exists k d, tss s ts = TsLive t k d /\ ndel s ts = 0.
Proof.
  intros H Ha Hf Hg. pose proof (reach_inv s H) as HI.
  destruct (iH s HI t ts Hg Ha Hf) as (k & d & E). exists k, d. split; auto.
  apply (iF1 s HI _ _ _ _ E).
Qed.

Lemma persistent s e s' t ts : reach s -> step s e s' ->
  gts s t = Some ts -> thr s' t = Alive -> finalized s' = false -> gts s' t = Some ts.
Proof. intros H. apply gts_stable, reach_inv, H. Qed.

Lemma distinct_threads_distinct_states s t1 t2 ts : reach s -> finalized s = false ->
  thr s t1 = Alive -> thr s t2 = Alive -> gts s t1 = Some ts -> gts s t2 = Some ts -> t1 = t2.
Proof.
  intros H Hf A1 A2 G1 G2. pose proof (reach_inv s H) as HI.
  destruct (iH s HI t1 ts G1 A1 Hf) as (k & d & E).
  exact (iK3 s HI t2 ts t1 k d G2 E).
Qed.

Lemma zombies_ok s : reach s ->
  NoDup (zombies s) /\
  forall c, In c (zombies s) -> exists ts o k, cans s c = CAlive ts None true /\
                                               tss s ts = TsLive o k (Some c) /\ thr s o = Exited.
Proof. intros H. apply zombie_facts, reach_inv, H. Qed.

Lemma canary_pointers_valid s : reach s ->
  (forall t c, tlsc s t = Some (Some c) -> exists ts, cans s c = CAlive ts (Some t) false /\ thr s t = Alive) /\
  (forall ts o k c, tss s ts = TsLive o k (Some c) -> exists tl z, cans s c = CAlive ts tl z).
Proof.
  intros H. pose proof (reach_inv s H) as HI. split.
  - intros t c E. destruct (iE s HI t c E) as [ts Ec]. exists ts. split; auto. apply (iD4 s HI _ _ _ _ Ec).
  - intros. eapply (iF2 s HI); eauto.
Qed.

Lemma no_leak s t ts : reach s -> thr s t = Exited -> gts s t = Some ts ->
  tss s ts = TsDeleted \/
  (exists c, In c (zombies s) /\ cans s c = CAlive ts None true) \/
  (exists t' c, reg s = Some (t', Clearing c ts)) \/
  dropped s ts = true.
Proof. intros H. apply exited_not_leaked, reach_inv, H. Qed.

(* after a complete registration (macro first callback) the zombie list as seen at its start is
   gone: sweep_all only returns with reg = None, and it pops until the list is empty *)
Lemma counter_keeps_alive s t ts k d : reach s -> thr s t = Alive -> gts s t = Some ts ->
  tss s ts = TsLive t k d ->
  (reg s = None -> 1 + (if incb s t then 1 else 0) + nest s t + (if ownb s t then 1 else 0) <= k) /\
  (incb s t = true -> 2 <= k).
Proof.
  intros H Ha Hg E. pose proof (reach_inv s H) as HI.
  assert (Hl : (exists ph, reg s = Some (t, ph)) \/ load s t + 1 <= k).
  { destruct d as [c|].
    - right. apply (iI s HI _ _ _ _ E); auto.
    - destruct (dropped s ts) eqn:Ed.
      + right. apply (iI3 s HI _ _ _ E Ed); auto.
      + left. apply (iI2 s HI _ _ _ E Ed). }
  unfold load, b2n in Hl. split.
  - intros Hr. destruct Hl as [[ph Hp]|Hl]; [congruence|]. lia.
  - intros Hi. destruct Hl as [[ph Hp]|Hl].
    + destruct (iJ s HI _ _ Hp) as (_ & Hb & _). congruence.
    + rewrite Hi in Hl. lia.
Qed.

Lemma drop_clears_backpointer : forall s t s', reach s -> step s (EvDictDrop t) s' ->
  tlsc s' t = Some None /\ exists ts, gts s' t = Some ts /\ dropped s' ts = true /\
  exists k, tss s' ts = TsLive t k None.
Proof.
  intros s t s' Hr Hs. pose proof (reach_inv s Hr) as HI. unfold step, step_fn in Hs; gen_facts Hs.
  destruct (finalized s) eqn:Ef; try discriminate.
  destruct (thr s t) eqn:Et; try discriminate.
  destruct (reg s) eqn:Er; try discriminate.
  destruct (gts s t) as [ts|] eqn:Eg; try discriminate.
  destruct (tss s ts) as [|o k [c|]|] eqn:Ets; try discriminate.
  sat HI. split_tl HI; try congruence.
  unfold dealloc in Hs.
  match goal with H : cans s c = CAlive _ _ _ |- _ => rewrite H in Hs end.
  inversion Hs; subst; clear Hs. fields.
  split; [apply upd_same|]. eexists. split; [eassumption|]. rewrite !upd_same. split; eauto.
Qed.

(* ---- the zombie list is bounded by the exited-but-unswept threads and emptied by a registration *)
Lemma zombies_distinct_threads s c1 c2 ts1 ts2 o k1 k2 : reach s ->
  In c1 (zombies s) -> In c2 (zombies s) ->
  tss s ts1 = TsLive o k1 (Some c1) -> tss s ts2 = TsLive o k2 (Some c2) -> c1 = c2.
Proof.
  intros Hr _ _ E1 E2. pose proof (reach_inv s Hr) as HI.
  pose proof (iK2 s HI _ _ _ _ E1) as G1. pose proof (iK2 s HI _ _ _ _ E2) as G2.
  rewrite G1 in G2. inversion G2; subst. rewrite E1 in E2. inversion E2; reflexivity.
Qed.

Definition sweeping_ok (s : state) : Prop :=
  match reg s with
  | Some (_, MakeCanary) => zombies s = []
  | Some _ => True
  | None => False
  end.

Lemma sweep_all_empties : forall fuel s s', sweeping_ok s -> sweep_all fuel s = Some s' ->
  zombies s' = [] /\ reg s' = None.
Proof.
  induction fuel as [|f IH]; intros s s' Hok H; cbn [sweep_all] in H; [discriminate|].
  unfold sweeping_ok in Hok.
  destruct (reg s) as [[t [|c ts|]]|] eqn:Er; try contradiction.
  - destruct (step_fn s EvSweepPop) as [s1|] eqn:E; [|discriminate].
    apply (IH s1 s'); auto. unfold step_fn in E; gen_facts E. rewrite Er in E.
    destruct (finalized s); try discriminate.
    destruct (zombies s) as [|c l]; [|destruct (cans s c)]; inversion E; subst; unfold sweeping_ok; cbn;
      rewrite ?Er; auto.
  - destruct (step_fn s EvSweepClear) as [s1|] eqn:E; [|discriminate].
    apply (IH s1 s'); auto. unfold step_fn in E; gen_facts E. rewrite Er in E.
    destruct (finalized s); try discriminate.
    destruct (tss s ts) as [|o k d|]; try (inversion E; subst; unfold sweeping_ok; cbn; exact I).
    destruct (match d with Some c' => dealloc c' (cans s) (zombies s) (tlsc s) | None => (cans s, zombies s, tlsc s) end)
      as [[a b] c0]. inversion E; subst; unfold sweeping_ok; cbn; exact I.
  - unfold step_fn in H; gen_facts H. rewrite Er in H. destruct (finalized s); try discriminate.
    destruct (gts s t) as [ts|]; try discriminate. destruct (tss s ts); try discriminate.
    inversion H; subst; cbn. split; auto.
Qed.

(* the first callback of ANY thread (a complete thread_canary_register) leaves the zombie list empty *)
Lemma registration_empties s t s' : gts s t = None -> mstep s (MCb t) = Some s' ->
  zombies s' = [] /\ reg s' = None.
Proof.
  intros Hg H. cbn [mstep] in H. destruct (step_fn s (EvCb t)) as [s1|] eqn:E; [|discriminate].
  eapply sweep_all_empties; [|eauto].
  unfold step_fn in E; gen_facts E. destruct (finalized s); try discriminate.
  destruct (thr s t); try discriminate. destruct (incb s t); try discriminate.
  destruct (busy s t); try discriminate. destruct (ownb s t); try discriminate.
  rewrite Hg in E. destruct (reg s); try discriminate.
  inversion E; subst. unfold sweeping_ok; cbn. exact I.
Qed.

(* ... and when the list is empty and nobody is sweeping, every exited thread's state is destroyed
   (or had lost its canary while alive) *)
Lemma swept_means_destroyed s t ts : reach s -> zombies s = [] -> reg s = None ->
  thr s t = Exited -> gts s t = Some ts -> tss s ts = TsDeleted \/ dropped s ts = true.
Proof.
  intros Hr Hz Hreg Hx Hg. destruct (no_leak s t ts Hr Hx Hg) as [H|[(c & Hin & _)|[(t' & c & H)|H]]]; auto.
  - rewrite Hz in Hin. destruct Hin.
  - congruence.
Qed.
