(* C36 — statements over whole executions: persistence of the thread state along any trace, and the
   composition "a completed registration destroys the state of every thread that had exited before it". *)
From Coq Require Import Arith List Bool Lia.
Import ListNotations.
From Cffi Require Import C36.Model C36.Gen C36.Proofs C36.Proofs4.

Lemma exited_stable s e s' u ts : step s e s' -> thr s u = Exited -> gts s u = Some ts ->
  thr s' u = Exited /\ gts s' u = Some ts.
Proof.
  intros Hs Hx Hg. destruct e; open_step Hs; pend_open; fields; upd_split; split; congruence.
Qed.

Lemma alive_back s e s' t : step s e s' -> thr s' t = Alive -> thr s t = Alive.
Proof.
  intros Hs Ha. destruct e; open_step Hs; pend_open; fields; upd_split; congruence.
Qed.

Lemma notfinal_back s e s' : step s e s' -> finalized s' = false -> finalized s = false.
Proof.
  intros Hs Ha. destruct e; open_step Hs; pend_open; fields; congruence.
Qed.

Lemma steps_alive_back s es s' t : steps s es s' -> thr s' t = Alive -> thr s t = Alive.
Proof. induction 1; auto. intros. eapply alive_back; eauto. Qed.

Lemma steps_notfinal_back s es s' : steps s es s' -> finalized s' = false -> finalized s = false.
Proof. induction 1; auto. intros. eapply notfinal_back; eauto. Qed.

(* the thread state of a foreign thread that is still alive (and the interpreter not finalized) at the
   END of an execution is the one it had at the beginning: across any number of callbacks of any threads,
   sweeps, exits of other threads *)
Lemma persistent_trace s es s' t ts : reach s -> steps s es s' ->
  gts s t = Some ts -> thr s' t = Alive -> finalized s' = false -> gts s' t = Some ts.
Proof.
  intros Hr Hs. induction Hs as [|s e s1 es s2 H1 Hrest IH]; intros Hg Ha Hf; auto.
  apply IH; auto.
  - eapply r_step; eauto.
  - eapply (persistent s e s1); eauto.
    + eapply steps_alive_back; eauto.
    + eapply steps_notfinal_back; eauto.
Qed.

Lemma sweep_all_exited : forall fuel s s' u ts, sweep_all fuel s = Some s' ->
  thr s u = Exited -> gts s u = Some ts -> thr s' u = Exited /\ gts s' u = Some ts.
Proof.
  induction fuel as [|f IH]; intros s s' u ts H Hx Hg; cbn [sweep_all] in H; [discriminate|].
  destruct (reg s) as [[t [|c ts0|]]|].
  - destruct (step_fn s EvSweepPop) as [s1|] eqn:E; [|discriminate].
    destruct (exited_stable _ _ _ _ _ E Hx Hg). eapply IH; eauto.
  - destruct (step_fn s EvSweepClear) as [s1|] eqn:E; [|discriminate].
    destruct (exited_stable _ _ _ _ _ E Hx Hg). eapply IH; eauto.
  - eapply exited_stable; eauto.
  - inversion H; subst; auto.
Qed.

(* composition of registration_empties and swept_means_destroyed through the runner *)
Lemma registration_destroys s t s' u ts : reach s -> gts s t = None -> mstep s (MCb t) = Some s' ->
  thr s u = Exited -> gts s u = Some ts -> tss s' ts = TsDeleted \/ dropped s' ts = true.
Proof.
  intros Hr Hg Hm Hx Hgu.
  destruct (registration_empties s t s' Hg Hm) as [Hz Hreg].
  pose proof (mstep_reach _ _ _ Hr Hm) as Hr'.
  cbn [mstep] in Hm. destruct (step_fn s (EvCb t)) as [s1|] eqn:E; [|discriminate].
  destruct (exited_stable _ _ _ _ _ E Hx Hgu) as [Hx1 Hg1].
  destruct (sweep_all_exited _ _ _ _ _ Hm Hx1 Hg1) as [Hx2 Hg2].
  eapply swept_means_destroyed; eauto.
Qed.
