(* C36 — the pointer-level zombie ring: the regenerated straight-line code of
   thread_canary_make_zombie / _thread_canary_detach_with_lock implements append / removal on the
   sequence that C36/Model.v uses. *)
From Coq Require Import Arith List Bool Lia.
Import ListNotations.
From Cffi Require Import C36.Model C36.Gen.

Lemma upd_s {A} (f : nat -> A) k v : upd f k v k = v.
Proof. unfold upd. rewrite Nat.eqb_refl. reflexivity. Qed.
Lemma upd_o {A} (f : nat -> A) k v k' : k' <> k -> upd f k v k' = f k'.
Proof. intros H. unfold upd. destruct (Nat.eqb_spec k' k); congruence. Qed.

Lemma chain_frame : forall l f g a z,
  (forall x, In x (a :: l) -> g x = f x) -> chain f a l z -> chain g a l z.
Proof.
  induction l as [|x r IH]; intros f g a z Hfg H; cbn in *.
  - rewrite Hfg; auto.
  - destruct H as [H1 H2]. split; [rewrite Hfg; auto|]. apply (IH f); auto.
Qed.

Lemma last_cons (x : nat) r a : last (x :: r) a = last r x.
Proof. revert x. induction r as [|y r IH]; intros x; [reflexivity|]. cbn [last] in *. destruct r; auto. Qed.

Lemma last_in (r : list nat) x : In (last r x) (x :: r).
Proof. revert x. induction r as [|y r IH]; intros x; [left; reflexivity|]. rewrite last_cons. right. apply IH. Qed.

Lemma last_rev_hd (l : list nat) d : last l d = hd d (rev l).
Proof.
  destruct l as [|x l] using rev_ind; [reflexivity|]. rewrite last_last, rev_app_distr. reflexivity.
Qed.

(* forward direction: writing next[c] = z and next[last] = c appends c *)
Lemma chain_snoc : forall l f a c z,
  NoDup (a :: l) -> ~ In c (a :: l) -> chain f a l z ->
  chain (upd (upd f c (Some z)) (last l a) (Some c)) a (l ++ [c]) z.
Proof.
  induction l as [|x r IH]; intros f a c z Hnd Hc H.
  - cbn. split; [apply upd_s|]. rewrite upd_o, upd_s; auto. intros ->. apply Hc. left; reflexivity.
  - cbn [chain app] in *. destruct H as [H1 H2]. rewrite last_cons. split.
    + rewrite !upd_o; auto.
      * intros ->. apply Hc. left; reflexivity.
      * intros E. apply NoDup_cons_iff in Hnd. destruct Hnd as [Hnin _]. apply Hnin. rewrite E. apply last_in.
    + apply IH; auto.
      * apply NoDup_cons_iff in Hnd. tauto.
      * intros Hin. apply Hc. right. exact Hin.
Qed.

Lemma ring_prev_head h l : ring h l -> hprev h 0 = Some (last l 0).
Proof.
  intros (_ & _ & Hp & _). rewrite last_rev_hd. destruct (rev l); cbn in *; tauto.
Qed.

Lemma ring_next_head h l : ring h l -> hnext h 0 = Some (hd 0 l).
Proof. intros (_ & Hn & _). destruct l; cbn in *; tauto. Qed.

(* thread_canary_make_zombie appends *)
Lemma make_zombie_appends h l c : ring h l -> ~ In c (0 :: l) ->
  exists e' h', exec_p gen_make_zombie (env0 c) h = Some (e', h') /\ ring h' (l ++ [c]).
Proof.
  intros Hr Hc. pose proof (ring_prev_head h l Hr) as Hp0.
  destruct Hr as (Hnd & Hn & Hp & Hu).
  unfold gen_make_zombie. cbn [exec_p env0 setv pvar_eqb getf]. rewrite Hp0. cbn [exec_p setv pvar_eqb setf hnext hprev].
  eexists; eexists; split; [reflexivity|].
  assert (Hc0 : c <> 0) by (intros ->; apply Hc; left; reflexivity).
  assert (Hlast : In (last l 0) (0 :: l)) by apply last_in.
  split; [|split; [|split]].
  - (* NoDup *)
    apply NoDup_cons_iff in Hnd. destruct Hnd as [H0l Hl]. constructor.
    + rewrite in_app_iff. intros [H|[H|[]]]; [contradiction|congruence].
    + assert (Hcl : ~ In c l) by (intros H; apply Hc; right; exact H).
      clear - Hl Hcl. induction l as [|x l IH]; cbn.
      * constructor; [intros []|constructor].
      * apply NoDup_cons_iff in Hl. destruct Hl as [Hx Hl]. constructor.
        -- rewrite in_app_iff. intros [H|[H|[]]]; [contradiction|]. apply Hcl. left; auto.
        -- apply IH; auto. intros H; apply Hcl; right; auto.
  - (* next *) cbn [hnext]. apply chain_snoc; auto.
  - (* prev *) cbn [hprev]. rewrite rev_app_distr. cbn [rev app chain]. split; [apply upd_s|].
    rewrite last_rev_hd in *. destruct (rev l) as [|y r] eqn:Er; cbn [hd chain] in *.
    + rewrite upd_o, upd_s; auto.
    + destruct Hp as [Hp1 Hp2]. split; [rewrite upd_o, upd_s; auto|].
      apply (chain_frame r (hprev h)); auto. intros x Hx.
      assert (In x l) by (apply in_rev; rewrite Er; exact Hx).
      assert (x <> 0) by (intros E0; subst x; apply NoDup_cons_iff in Hnd; destruct Hnd as [Hn0 _]; apply Hn0; assumption).
      assert (x <> c) by (intros Ec; subst x; apply Hc; right; assumption).
      rewrite !upd_o; auto.
  - (* unlinked nodes keep NULL fields *)
    intros x Hx. cbn [hnext hprev].
    assert (x <> c) by (intros ->; apply Hx; right; rewrite in_app_iff; right; left; reflexivity).
    assert (~ In x (0 :: l)) by (intros [H0|H0]; apply Hx; [left; auto|right; rewrite in_app_iff; left; auto]).
    assert (x <> last l 0) by (intros ->; contradiction).
    assert (x <> 0) by (intros ->; apply Hx; left; reflexivity).
    rewrite !upd_o; auto.
Qed.

Lemma ring_empty : ring heap0 [].
Proof.
  unfold ring, heap0; cbn. repeat split.
  - constructor; [intros []|constructor].
  - rewrite upd_o; auto.
  - rewrite upd_o; auto.
Qed.

(* what thread_canary_free_zombies reads under the lock: head.next is the first element, or the
   head itself exactly when the list is empty (the fast-path test) *)
Lemma ring_head h l : ring h l -> hnext h 0 = Some (hd 0 l) /\ (hd 0 l = 0 <-> l = []).
Proof.
  intros Hr. split; [apply ring_next_head; auto|]. destruct Hr as (Hnd & _). destruct l as [|x l]; cbn.
  - tauto.
  - split; [|discriminate]. intros ->. inversion Hnd; subst. exfalso. apply H1. left; reflexivity.
Qed.

(* "is a zombie" test of thread_canary_dealloc / make_zombie: zombie_next != NULL iff linked *)
Lemma ring_linked_iff h l c : ring h l -> c <> 0 -> (hnext h c <> None <-> In c l).
Proof.
  intros (Hnd & Hn & Hp & Hu) Hc0. split.
  - intros Hne. destruct (in_dec Nat.eq_dec c l) as [|Hnin]; auto. exfalso. apply Hne.
    apply Hu. intros [H|H]; [congruence|contradiction].
  - intros Hin. clear Hp Hu Hnd. revert Hn. generalize 0 at 1. induction l as [|x r IH]; [destruct Hin|].
    intros a [H1 H2]. destruct Hin as [->|Hin].
    + destruct r; cbn in H2; [rewrite H2|destruct H2 as [H2 _]; rewrite H2]; discriminate.
    + eapply IH; eauto.
Qed.

(* ---- _thread_canary_detach_with_lock removes *)
Lemma chain_app : forall l1 f a c l2 z,
  chain f a (l1 ++ c :: l2) z -> chain f a l1 c /\ chain f c l2 z.
Proof.
  induction l1 as [|x r IH]; intros f a c l2 z H; cbn in *.
  - destruct H; auto.
  - destruct H as [H1 H2]. destruct (IH _ _ _ _ _ H2). auto.
Qed.

Lemma chain_head f a l z : chain f a l z -> f a = Some (hd z l).
Proof. destruct l; cbn; tauto. Qed.

Lemma hd_in (l : list nat) z : In (hd z l) (z :: l).
Proof. destruct l; cbn; auto. Qed.

(* bypass: a ... last(l1) -> c -> l2 ... z  becomes  a ... last(l1) -> l2 ... z *)
Lemma chain_bypass : forall l1 f a c l2 z,
  NoDup (a :: l1 ++ c :: l2) ->
  chain f a l1 c -> chain f c l2 z ->
  chain (upd f (last l1 a) (Some (hd z l2))) a (l1 ++ l2) z.
Proof.
  induction l1 as [|x r IH]; intros f a c l2 z Hnd H1 H2.
  - cbn [last app]. destruct l2 as [|y r2]; cbn [hd chain] in *.
    + apply upd_s.
    + destruct H2 as [H2 H3]. split; [apply upd_s|].
      apply (chain_frame r2 f); auto. intros u Hu. apply upd_o. intros ->.
      apply NoDup_cons_iff in Hnd. destruct Hnd as [Hn _]. apply Hn. cbn. right. exact Hu.
  - cbn [chain app] in *. destruct H1 as [H1 H1']. rewrite last_cons. split.
    + rewrite upd_o; auto. intros E.
      apply NoDup_cons_iff in Hnd. destruct Hnd as [Hn _]. apply Hn.
      pose proof (last_in r x) as Hl. rewrite <- E in Hl.
      destruct Hl as [->|Hl]; [left; reflexivity|right; rewrite in_app_iff; left; exact Hl].
    + apply (IH f x c l2 z); auto. apply NoDup_cons_iff in Hnd. tauto.
Qed.

Lemma remove_split (c : nat) l1 l2 : ~ In c l1 -> ~ In c l2 ->
  remove Nat.eq_dec c (l1 ++ c :: l2) = l1 ++ l2.
Proof.
  intros H1 H2. rewrite remove_app. cbn [remove]. destruct (Nat.eq_dec c c); [|congruence].
  rewrite !notin_remove; auto.
Qed.

Lemma detach_removes h l c : ring h l -> In c l ->
  exists e' h', exec_p gen_detach (env0 (c)) h = Some (e', h') /\ ring h' (remove Nat.eq_dec c l).
Proof.
  intros (Hnd & Hn & Hp & Hu) Hin.
  destruct (in_split _ _ Hin) as (l1 & l2 & ->).
  assert (Hc1 : ~ In c l1 /\ ~ In c l2 /\ c <> 0).
  { apply NoDup_cons_iff in Hnd. destruct Hnd as [H0 Hl]. apply NoDup_remove_2 in Hl.
    rewrite in_app_iff in Hl. repeat split; try tauto. intros ->. apply H0. rewrite in_app_iff. right; left; auto. }
  destruct Hc1 as (Hc1 & Hc2 & Hc0).
  rewrite remove_split by assumption.
  destruct (chain_app _ _ _ _ _ _ Hn) as [Hn1 Hn2].
  rewrite rev_app_distr in Hp. cbn [rev] in Hp. rewrite <- app_assoc in Hp. cbn [app] in Hp.
  destruct (chain_app _ _ _ _ _ _ Hp) as [Hp1 Hp2].
  pose proof (chain_head _ _ _ _ Hn2) as Hnc. pose proof (chain_head _ _ _ _ Hp2) as Hpc.
  unfold gen_detach. cbn [exec_p env0 setv pvar_eqb getf]. rewrite Hpc, Hnc.
  cbn [exec_p setv pvar_eqb setf hnext hprev].
  eexists; eexists; split; [reflexivity|].
  assert (Hnd' : NoDup (0 :: l1 ++ l2)).
  { apply NoDup_cons_iff in Hnd. destruct Hnd as [H0 Hl]. constructor.
    - intros H. apply H0. rewrite in_app_iff in *. destruct H; [left|right; right]; auto.
    - eapply NoDup_remove_1; eauto. }
  assert (Hp_in : In (hd 0 (rev l1)) (0 :: l1)).
  { destruct (hd_in (rev l1) 0) as [E|E]; [left; auto|right; apply in_rev; exact E]. }
  assert (Hn_in : In (hd 0 l2) (0 :: l2)) by apply hd_in.
  assert (Hpc' : hd 0 (rev l1) <> c).
  { intros E. rewrite E in Hp_in. destruct Hp_in; [congruence|contradiction]. }
  assert (Hnc' : hd 0 l2 <> c).
  { intros E. rewrite E in Hn_in. destruct Hn_in; [congruence|contradiction]. }
  split; [exact Hnd'|]. split; [|split].
  - (* next: p = last l1 0 *)
    cbn [hnext]. rewrite <- last_rev_hd.
    apply (chain_frame (l1 ++ l2) (upd (hnext h) (last l1 0) (Some (hd 0 l2)))).
    + intros x Hx. apply upd_o. intros ->. destruct Hx as [E|Hx]; [congruence|].
      rewrite in_app_iff in Hx. tauto.
    + apply (chain_bypass l1 (hnext h) 0 c l2 0); auto.
  - (* prev: the same bypass on the reversed list *)
    cbn [hprev]. rewrite rev_app_distr.
    apply (chain_frame (rev l2 ++ rev l1) (upd (hprev h) (hd 0 l2) (Some (hd 0 (rev l1))))).
    + intros x Hx. apply upd_o. intros ->. destruct Hx as [E|Hx]; [congruence|].
      rewrite in_app_iff, <- !in_rev in Hx. tauto.
    + replace (hd 0 l2) with (last (rev l2) 0) by (rewrite last_rev_hd, rev_involutive; reflexivity).
      apply (chain_bypass (rev l2) (hprev h) 0 c (rev l1) 0); auto.
      apply NoDup_cons_iff in Hnd. destruct Hnd as [H0 Hl]. constructor.
      * intros H. apply H0. rewrite in_app_iff in *. cbn in *. rewrite <- !in_rev in H. tauto.
      * replace (rev l2 ++ c :: rev l1) with (rev (l1 ++ c :: l2)).
        -- apply NoDup_rev. exact Hl.
        -- rewrite rev_app_distr. cbn [rev]. rewrite <- app_assoc. reflexivity.
  - intros x Hx. cbn [hnext hprev]. destruct (Nat.eq_dec x c) as [->|Hxc].
    + rewrite !upd_s. auto.
    + assert (Hx' : ~ In x (0 :: l1 ++ c :: l2)).
      { intros [E|E]; apply Hx; [left; auto|]. right. rewrite in_app_iff in *. cbn in E. destruct E as [E|[E|E]]; try tauto; congruence. }
      destruct (Hu x Hx') as [E1 E2].
      assert (x <> hd 0 (rev l1)).
      { intros ->. apply Hx. destruct Hp_in as [E|E]; [left; auto|right; rewrite in_app_iff; left; auto]. }
      assert (x <> hd 0 l2).
      { intros ->. apply Hx. destruct Hn_in as [E|E]; [left; auto|right; rewrite in_app_iff; right; auto]. }
      rewrite !upd_o; auto.
Qed.
