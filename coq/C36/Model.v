(* C36 — callbacks from threads not created by Python: thread states, canaries, zombie list.

   Code modelled (src/c/misc_thread_common.h, pinned commit):
     gil_ensure (340)              first callback of a thread: PyGILState_Ensure creates the thread
                                   state, thread_canary_register keeps it alive (gilstate_counter++);
                                   later callbacks: PyGILState_GetThisThreadState() != NULL, counter++
     gil_release (379)             PyGILState_Release: counter--, the state is destroyed at 0
     thread_canary_register (185)  free the zombies; new canary {tstate, tls}; stored in the thread
                                   state's dict (owning reference) and in tls->local_thread_canary
     thread_canary_free_zombies (146)  loop: [lock: pop the first zombie, read its tstate] then
                                   PyThreadState_Clear (-> thread_canary_dealloc) and PyThreadState_Delete
     thread_canary_dealloc (101)   [lock: detach from the zombie list if linked; tls->local_thread_canary
                                   = NULL if tls != NULL]; free
     thread_canary_make_zombie (128), cffi_thread_shutdown (266, the pthread key destructor of
                                   misc_thread_posix.h): [lock: if tls->local_thread_canary != NULL:
                                   canary->tls = NULL; append to the zombie list]; free(tls)
   Atomicity: the bracketed regions hold cffi_zombie_lock; everything except cffi_thread_shutdown
   also holds the GIL.  So a thread shutdown may fall between any two steps of a registration
   (steps EvSweepPop / EvSweepClear / EvMakeCanary below); callbacks bodies may release the GIL,
   so callbacks of different threads overlap.

   Tie: C36/Gen.v (regenerated) is imported here; step_fn consults its gen_gil_* / gen_register_* facts.
   Pointer level (ring code, locked regions): C36/Ptr.v.

   Not modelled (hypotheses about CPython): what PyGILState_Ensure/Release, PyThreadState_Clear/
   Delete do internally beyond counter / dict / deletion; allocation failures (the ignore_error
   paths of thread_canary_register); sub-interpreters. *)
From Coq Require Import Arith NArith List Bool Lia.
Import ListNotations.
From Cffi Require Export C36.Ptr.
From Cffi Require Import C36.Gen.

Inductive thst := Alive | Exited.
Inductive tsst :=
| TsFree                                                (* id not allocated yet *)
| TsLive (owner : nat) (counter : nat) (dict : option nat)  (* owner thread (ghost), gilstate_counter, canary in its dict *)
| TsDeleted.
Inductive cast :=
| CFree
| CAlive (ts : nat) (tls : option nat) (zombie : bool)  (* ->tstate, ->tls (thread whose cffi_tls_s it is), linked in the zombie list *)
| CFreed.
Inductive phase :=
| Registering                 (* in thread_canary_free_zombies, about to take the lock *)
| Clearing (c ts : nat)       (* popped zombie c with tstate ts; about to Clear + Delete ts *)
| MakeCanary.                 (* zombie list seen empty; about to create the canary *)

Record state := mkSt {
  thr : nat -> thst;                 (* foreign threads *)
  gts : nat -> option nat;           (* PyGILState_GetThisThreadState() of each thread *)
  tlsc : nat -> option (option nat); (* cffi_tls_s of the thread (None = not allocated) and its local_thread_canary *)
  incb : nat -> bool;                (* the thread is inside a callback *)
  tss : nat -> tsst;
  cans : nat -> cast;
  zombies : list nat;
  reg : option (nat * phase);        (* the thread currently inside gil_ensure's slow path (holds the GIL) *)
  nextts : nat; nextc : nat;
  ndel : nat -> nat;                 (* ghost: how many times PyThreadState_Delete was applied to the id *)
  finalized : bool;
  fatal : bool;                      (* a Py_FatalError of the code would have fired *)
  dropped : nat -> bool;             (* ghost: the canary of this thread state was deallocated while its thread was alive *)
  nest : nat -> nat;                 (* per thread: callbacks entered while the thread ALREADY held the GIL (gil_ensure returned
                                        PyGILState_LOCKED) and not yet returned *)
  ownb : nat -> bool                 (* per thread: inside its own PyGILState_Ensure()/Release() bracket *)
}.

Definition init : state :=
  mkSt (fun _ => Alive) (fun _ => None) (fun _ => None) (fun _ => false) (fun _ => TsFree) (fun _ => CFree)
       [] None 0 0 (fun _ => 0) false false (fun _ => false) (fun _ => 0) (fun _ => false).

(* upd: C36/Ptr.v *)

Inductive event :=
| EvCb (t : nat)        (* thread t enters a callback (gil_ensure) *)
| EvSweepPop            (* the registering thread: one locked region of thread_canary_free_zombies *)
| EvSweepClear          (* ... PyThreadState_Clear + PyThreadState_Delete of the popped zombie *)
| EvMakeCanary          (* ... rest of thread_canary_register; the callback body starts *)
| EvCbEnd (t : nat)     (* the callback returns (gil_release) *)
| EvExit (t : nat)      (* thread t terminates: cffi_thread_shutdown *)
| EvFinalize            (* the interpreter clears and deletes every thread state (Py_Finalize) *)
| EvCbNested (t : nat) | EvCbNestedEnd (t : nat)   (* a callback entered / left with the GIL already held *)
| EvOwnEnsure (t : nat) | EvOwnRelease (t : nat)    (* the thread's own PyGILState_Ensure / Release bracket *)
| EvDictDrop (t : nat). (* the canary of live thread t is deallocated under cffi's feet: some code holding the GIL
                           clears t's thread-state dict / removes the "cffi.thread.canary" entry (what the header
                           comment of misc_thread_common.h calls "other pieces of code which clear PyThreadStates
                           under our feet": PyThreadState_Clear by Py_EndInterpreter / embedding code, or C-API users
                           of PyThreadState_GetDict) while the thread lives on *)


(* thread_canary_dealloc of canary c (must be CAlive): unlink, clear the tls back-pointer, free *)
Definition dealloc (c : nat) (cansf : nat -> cast) (z : list nat) (tl : nat -> option (option nat))
  : (nat -> cast) * list nat * (nat -> option (option nat)) :=
  match cansf c with
  | CAlive _ tls zomb =>
      (upd cansf c CFreed,
       if zomb then remove Nat.eq_dec c z else z,
       match tls with Some u => upd tl u (Some None) | None => tl end)
  | _ => (cansf, z, tl)
  end.

(* the thread is inside the slow path of gil_ensure *)
Definition busy (s : state) (t : nat) : bool :=
  match reg s with Some (t', _) => Nat.eqb t' t | None => false end.

(* cffi_thread_shutdown for thread t, then the thread is gone *)
Definition do_exit (s : state) (t : nat) : state :=
  match tlsc s t with
  | Some (Some c) =>
      match cans s c with
      | CAlive ts _ false =>
          mkSt (upd (thr s) t Exited) (gts s) (upd (tlsc s) t None) (incb s) (tss s)
               (upd (cans s) c (CAlive ts None true)) (zombies s ++ [c]) (reg s)
               (nextts s) (nextc s) (ndel s) (finalized s) (fatal s) (dropped s) (nest s) (ownb s)
      | _ =>       (* "ThreadCanaryObj is already a zombie" / dangling local_thread_canary *)
          mkSt (upd (thr s) t Exited) (gts s) (upd (tlsc s) t None) (incb s) (tss s)
               (cans s) (zombies s) (reg s) (nextts s) (nextc s) (ndel s) (finalized s) true (dropped s) (nest s) (ownb s)
      end
  | _ => mkSt (upd (thr s) t Exited) (gts s) (upd (tlsc s) t None) (incb s) (tss s)
              (cans s) (zombies s) (reg s) (nextts s) (nextc s) (ndel s) (finalized s) (fatal s) (dropped s) (nest s) (ownb s)
  end.

(* Regenerated facts consulted by step_fn (C36/Gen.v, rewritten from src/c/misc_thread_common.h on every
   run): whether gil_ensure increments gilstate_counter exactly once on the path that takes the GIL / on
   the path entered with the GIL held; whether gil_release is exactly PyGILState_Release(oldstate) (if
   not, what it does is unknown to the model: the event sets `fatal`); whether thread_canary_register
   sweeps the zombies first, stores the canary in tls->local_thread_canary and takes its extra
   gilstate_counter reference on the success path.  With a fact false the model changes and the proofs
   of C36/Proofs.v are no longer about the code's behaviour: they break (not just a `= true` lemma). *)
Definition bump (b : bool) (k : nat) : nat := if b then S k else k.
Definition set_fatal (s : state) : state :=
  mkSt (thr s) (gts s) (tlsc s) (incb s) (tss s) (cans s) (zombies s) (reg s)
       (nextts s) (nextc s) (ndel s) false true (dropped s) (nest s) (ownb s).

Definition step_fn (s : state) (e : event) : option state :=
  match e with
  | EvExit t =>          (* needs no GIL; threads may also terminate after Py_Finalize *)
      match thr s t, incb s t, busy s t, nest s t, ownb s t with
      | Alive, false, false, 0, false => Some (do_exit s t)
      | _, _, _, _, _ => None
      end
  | _ =>
  if finalized s then None else
  match e with
  | EvExit _ => None
  | EvCb t =>            (* the thread does not hold the GIL: gil_ensure returns PyGILState_UNLOCKED *)
      match thr s t, incb s t, busy s t, ownb s t with
      | Alive, false, false, false =>
          match gts s t with
          | Some ts =>
              match tss s ts with
              | TsLive o k d =>
                  Some (mkSt (thr s) (gts s) (tlsc s) (upd (incb s) t true)
                             (upd (tss s) ts (TsLive o (bump gen_gil_ensure_incr_unlocked k) d))
                             (cans s) (zombies s) (reg s) (nextts s) (nextc s) (ndel s) false (fatal s) (dropped s) (nest s) (ownb s))
              | _ =>      (* the thread would run on a destroyed thread state *)
                  Some (mkSt (thr s) (gts s) (tlsc s) (incb s) (tss s) (cans s) (zombies s) (reg s)
                             (nextts s) (nextc s) (ndel s) false true (dropped s) (nest s) (ownb s))
              end
          | None =>
              match reg s with
              | Some _ => None            (* the GIL is held by another registering thread *)
              | None =>
                  let ts := nextts s in
                  Some (mkSt (thr s) (upd (gts s) t (Some ts)) (tlsc s) (incb s) (upd (tss s) ts (TsLive t 1 None))
                             (cans s) (zombies s)
                             (Some (t, if gen_register_sweeps_first then Registering else MakeCanary)) (S ts) (nextc s) (ndel s) false (fatal s) (dropped s) (nest s) (ownb s))
              end
          end
      | _, _, _, _ => None
      end
  | EvSweepPop =>
      match reg s with
      | Some (t, Registering) =>
          match zombies s with
          | [] => Some (mkSt (thr s) (gts s) (tlsc s) (incb s) (tss s) (cans s) [] (Some (t, MakeCanary))
                             (nextts s) (nextc s) (ndel s) false (fatal s) (dropped s) (nest s) (ownb s))
          | c :: rest =>
              match cans s c with
              | CAlive ts tls _ =>
                  Some (mkSt (thr s) (gts s) (tlsc s) (incb s) (tss s) (upd (cans s) c (CAlive ts tls false)) rest
                             (Some (t, Clearing c ts)) (nextts s) (nextc s) (ndel s) false (fatal s) (dropped s) (nest s) (ownb s))
              | _ =>    (* the list links a freed canary *)
                  Some (mkSt (thr s) (gts s) (tlsc s) (incb s) (tss s) (cans s) rest (reg s)
                             (nextts s) (nextc s) (ndel s) false true (dropped s) (nest s) (ownb s))
              end
          end
      | _ => None
      end
  | EvSweepClear =>
      match reg s with
      | Some (t, Clearing c ts) =>
          match tss s ts with
          | TsLive o k d =>
              let '(cans', z', tl') := match d with Some c' => dealloc c' (cans s) (zombies s) (tlsc s)
                                                  | None => (cans s, zombies s, tlsc s) end in
              Some (mkSt (thr s) (gts s) tl' (incb s) (upd (tss s) ts TsDeleted) cans' z' (Some (t, Registering))
                         (nextts s) (nextc s) (upd (ndel s) ts (S (ndel s ts))) false (fatal s) (dropped s) (nest s) (ownb s))
          | _ =>        (* Clear/Delete of a destroyed thread state *)
              Some (mkSt (thr s) (gts s) (tlsc s) (incb s) (tss s) (cans s) (zombies s) (Some (t, Registering))
                         (nextts s) (nextc s) (upd (ndel s) ts (S (ndel s ts))) false true (dropped s) (nest s) (ownb s))
          end
      | _ => None
      end
  | EvMakeCanary =>
      match reg s with
      | Some (t, MakeCanary) =>
          match gts s t with
          | Some ts =>
              match tss s ts with
              | TsLive o k _ =>
                  let c := nextc s in
                  Some (mkSt (thr s) (gts s)
                             (upd (tlsc s) t (Some (if gen_register_sets_local then Some c else None)))
                             (upd (incb s) t true)
                             (upd (tss s) ts (TsLive o (bump gen_register_incr k) (Some c)))
                             (upd (cans s) c (CAlive ts (Some t) false)) (zombies s) None
                             (nextts s) (S c) (ndel s) false (fatal s) (dropped s) (nest s) (ownb s))
              | _ => None
              end
          | None => None
          end
      | _ => None
      end
  | EvCbEnd t =>
      match thr s t, incb s t, gts s t, nest s t with
      | Alive, true, Some ts, 0 =>
          if negb gen_gil_release_plain then Some (set_fatal s) else
          match tss s ts with
          | TsLive o (S (S k)) d =>
              Some (mkSt (thr s) (gts s) (tlsc s) (upd (incb s) t false) (upd (tss s) ts (TsLive o (S k) d))
                         (cans s) (zombies s) (reg s) (nextts s) (nextc s) (ndel s) false (fatal s) (dropped s) (nest s) (ownb s))
          | TsLive o _ d =>      (* counter reaches 0: PyGILState_Release destroys the thread state *)
              let '(cans', z', tl') := match d with Some c' => dealloc c' (cans s) (zombies s) (tlsc s)
                                                  | None => (cans s, zombies s, tlsc s) end in
              Some (mkSt (thr s) (upd (gts s) t None) tl' (upd (incb s) t false) (upd (tss s) ts TsDeleted)
                         cans' z' (reg s) (nextts s) (nextc s) (upd (ndel s) ts (S (ndel s ts))) false (fatal s) (dropped s) (nest s) (ownb s))
          | _ => None
          end
      | _, _, _, _ => None
      end
  | EvCbNested t =>
      (* a callback entered by a thread that already holds the GIL (from inside an outer callback of the
         same thread, e.g. through a ctypes PYFUNCTYPE pointer or a C extension, or inside the thread's own
         PyGILState_Ensure bracket): gil_ensure finds ts == current, counter++, returns PyGILState_LOCKED *)
      match thr s t, busy s t, orb (incb s t) (ownb s t), gts s t with
      | Alive, false, true, Some ts =>
          match tss s ts with
          | TsLive o k d =>
              Some (mkSt (thr s) (gts s) (tlsc s) (incb s)
                         (upd (tss s) ts (TsLive o (bump gen_gil_ensure_incr_locked k) d)) (cans s) (zombies s)
                         (reg s) (nextts s) (nextc s) (ndel s) false (fatal s) (dropped s)
                         (upd (nest s) t (S (nest s t))) (ownb s))
          | _ => Some (mkSt (thr s) (gts s) (tlsc s) (incb s) (tss s) (cans s) (zombies s) (reg s)
                            (nextts s) (nextc s) (ndel s) false true (dropped s) (nest s) (ownb s))
          end
      | _, _, _, _ => None
      end
  | EvCbNestedEnd t =>
      (* gil_release(PyGILState_LOCKED): PyGILState_Release decrements; reaching 0 here is a fatal error of
         CPython ("auto-releasing thread-state" with oldstate LOCKED) *)
      match thr s t, nest s t, gts s t with
      | Alive, S n, Some ts =>
          if negb gen_gil_release_plain then Some (set_fatal s) else
          match tss s ts with
          | TsLive o (S (S k)) d =>
              Some (mkSt (thr s) (gts s) (tlsc s) (incb s) (upd (tss s) ts (TsLive o (S k) d)) (cans s) (zombies s)
                         (reg s) (nextts s) (nextc s) (ndel s) false (fatal s) (dropped s) (upd (nest s) t n) (ownb s))
          | _ => Some (mkSt (thr s) (gts s) (tlsc s) (incb s) (tss s) (cans s) (zombies s) (reg s)
                            (nextts s) (nextc s) (ndel s) false true (dropped s) (nest s) (ownb s))
          end
      | _, _, _ => None
      end
  | EvOwnEnsure t =>
      (* the foreign thread calls PyGILState_Ensure() itself on its existing (cffi-kept) thread state *)
      match thr s t, incb s t, busy s t, ownb s t, gts s t with
      | Alive, false, false, false, Some ts =>
          match tss s ts with
          | TsLive o k d =>
              Some (mkSt (thr s) (gts s) (tlsc s) (incb s) (upd (tss s) ts (TsLive o (S k) d)) (cans s) (zombies s)
                         (reg s) (nextts s) (nextc s) (ndel s) false (fatal s) (dropped s) (nest s) (upd (ownb s) t true))
          | _ => None
          end
      | _, _, _, _, _ => None
      end
  | EvOwnRelease t =>
      (* ... and its PyGILState_Release(): counter--, the thread state is destroyed if it reaches 0 *)
      match thr s t, ownb s t, nest s t, gts s t with
      | Alive, true, 0, Some ts =>
          match tss s ts with
          | TsLive o (S (S k)) d =>
              Some (mkSt (thr s) (gts s) (tlsc s) (incb s) (upd (tss s) ts (TsLive o (S k) d)) (cans s) (zombies s)
                         (reg s) (nextts s) (nextc s) (ndel s) false (fatal s) (dropped s) (nest s) (upd (ownb s) t false))
          | TsLive o _ d =>
              let '(cans', z', tl') := match d with Some c' => dealloc c' (cans s) (zombies s) (tlsc s)
                                                  | None => (cans s, zombies s, tlsc s) end in
              Some (mkSt (thr s) (upd (gts s) t None) tl' (incb s) (upd (tss s) ts TsDeleted)
                         cans' z' (reg s) (nextts s) (nextc s) (upd (ndel s) ts (S (ndel s ts))) false (fatal s)
                         (dropped s) (nest s) (upd (ownb s) t false))
          | _ => None
          end
      | _, _, _, _ => None
      end
  | EvDictDrop t =>
      match thr s t, reg s, gts s t with
      | Alive, None, Some ts =>
          match tss s ts with
          | TsLive o k (Some c) =>
              (* thread_canary_dealloc(c): unlink if zombie, clear tls->local_thread_canary, free.
                 gilstate_counter keeps its extra +1: the thread state stays valid for t's later
                 callbacks and is never destroyed by gil_release (it is leaked at thread exit). *)
              let '(cans', z', tl') := dealloc c (cans s) (zombies s) (tlsc s) in
              Some (mkSt (thr s) (gts s) tl' (incb s) (upd (tss s) ts (TsLive o k None)) cans' z' (reg s)
                         (nextts s) (nextc s) (ndel s) false (fatal s) (upd (dropped s) ts true) (nest s) (ownb s))
          | _ => None
          end
      | _, _, _ => None
      end
  | EvFinalize =>
      match reg s with
      | Some _ => None
      | None =>
          (* every live thread state is cleared (its canary deallocated: unlinked, back-pointer
             cleared, freed) and deleted; no callback happens afterwards *)
          Some (mkSt (thr s) (gts s)
                     (fun t => match tlsc s t with Some _ => Some None | None => None end)
                     (incb s)
                     (fun ts => match tss s ts with TsLive _ _ _ => TsDeleted | x => x end)
                     (fun c => match cans s c with CAlive _ _ _ => CFreed | x => x end)
                     [] None (nextts s) (nextc s)
                     (fun ts => match tss s ts with TsLive _ _ _ => S (ndel s ts) | _ => ndel s ts end)
                     true (fatal s) (dropped s) (nest s) (ownb s))
      end
  end
  end.

Definition step (s : state) (e : event) (s' : state) : Prop := step_fn s e = Some s'.
Inductive reach : state -> Prop :=
| r_init : reach init
| r_step : forall s e s', reach s -> step s e s' -> reach s'.

(* ---- macro events for the correspondence harness: a first callback runs the whole
   registration (sweep until the zombie list is empty, then the canary) *)
Fixpoint sweep_all (fuel : nat) (s : state) : option state :=
  match fuel with
  | O => None
  | S f =>
      match reg s with
      | Some (_, Registering) => match step_fn s EvSweepPop with Some s1 => sweep_all f s1 | None => None end
      | Some (_, Clearing _ _) => match step_fn s EvSweepClear with Some s1 => sweep_all f s1 | None => None end
      | Some (_, MakeCanary) => step_fn s EvMakeCanary
      | None => Some s
      end
  end.

Inductive mevent := MCb (t : nat) | MCbEnd (t : nat) | MExit (t : nat) | MFinalize | MDrop (t : nat)
  | MNest (t : nat)      (* a nested GIL-held callback, entered and left *)
  | MOwn (t : nat).      (* own PyGILState_Ensure; a cffi callback; own PyGILState_Release *)

Definition mstep (s : state) (e : mevent) : option state :=
  match e with
  | MCb t => match step_fn s (EvCb t) with
             | Some s1 => sweep_all (2 * length (zombies s1) + 3) s1
             | None => None
             end
  | MCbEnd t => step_fn s (EvCbEnd t)
  | MExit t => step_fn s (EvExit t)
  | MFinalize => step_fn s EvFinalize
  | MDrop t => step_fn s (EvDictDrop t)
  | MNest t => match step_fn s (EvCbNested t) with Some s1 => step_fn s1 (EvCbNestedEnd t) | None => None end
  | MOwn t =>
      match step_fn s (EvOwnEnsure t) with
      | Some s1 => match step_fn s1 (EvCbNested t) with
                   | Some s2 => match step_fn s2 (EvCbNestedEnd t) with
                                | Some s3 => step_fn s3 (EvOwnRelease t)
                                | None => None
                                end
                   | None => None
                   end
      | None => None
      end
  end.

(* observation after a macro event, for threads < n:
   [thread state id + 1 of the callback (0 if not a callback)] ++ [1 if thread i's state has been destroyed] *)
Definition destroyed (s : state) (t : nat) : nat :=
  match gts s t with
  | Some ts => match tss s ts with TsDeleted => 1 | _ => 0 end
  | None => 0
  end.
Definition observe (n : nat) (s : state) (e : mevent) : list nat :=
  (match e with MCb t | MNest t | MOwn t => match gts s t with Some ts => S ts | None => 0 end | _ => 0 end)
  :: map (destroyed s) (seq 0 n) ++ [if fatal s then 1 else 0].

Fixpoint mrun (n : nat) (s : state) (es : list mevent) : option (list (list nat)) :=
  match es with
  | [] => Some []
  | e :: rest =>
      match mstep s e with
      | None => None
      | Some s1 => match mrun n s1 rest with Some l => Some (observe n s1 e :: l) | None => None end
      end
  end.

(* compact encoding for the harness: macro event = 16 * kind + thread, kind 0 MCb / 1 MCbEnd /
   2 MExit / 3 MFinalize / 4 MDrop / 5 MNest / 6 MOwn; observations compared through two fingerprints computed here *)
Definition decode_mev (x : nat) : mevent :=
  match Nat.div x 16 with
  | 0 => MCb (Nat.modulo x 16)
  | 1 => MCbEnd (Nat.modulo x 16)
  | 2 => MExit (Nat.modulo x 16)
  | 4 => MDrop (Nat.modulo x 16)
  | 5 => MNest (Nat.modulo x 16)
  | 6 => MOwn (Nat.modulo x 16)
  | _ => MFinalize
  end.
Definition fpn (m b : N) (l : list nat) : N :=
  fold_left (fun acc z => ((acc * b + N.of_nat z + 1) mod m)%N) l 7%N.
Definition mrun_code (n : nat) (es : list nat) : option (N * N) :=
  match mrun n init (map decode_mev es) with
  | Some obs => let flat := concat obs in
                Some (fpn 2305843009213693951 1000003 flat, fpn 2147483647 48271 flat)
  | None => None
  end.


(* finite executions of the fine-grained system (used by C36_sweep_frees_initial_zombies) *)
Inductive steps : state -> list event -> state -> Prop :=
| steps_nil : forall s, steps s [] s
| steps_cons : forall s e s1 es s2, step s e s1 -> steps s1 es s2 -> steps s (e :: es) s2.
