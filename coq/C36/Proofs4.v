(* C36 — progress of the zombie sweep.
   1. a registration (first callback of a thread, run without interruption) always completes: the
      fuel of Model.sweep_all is sufficient in every reachable state (registration_total);
   2. fine-grained: whatever the other threads do meanwhile (exits fall between any two sweep steps,
      callbacks of threads that already have a thread state overlap), every canary that is in the zombie
      list when a registration starts has been freed when that registration's sweep loop has ended
      (sweep_frees_initial_zombies).  Zombies appended DURING the sweep after the loop saw the list empty
      are the residual (they wait for the next registration). *)
From Coq Require Import Arith List Bool Lia.
Import ListNotations.
From Cffi Require Import C36.Model C36.Gen C36.Proofs.

Ltac gen_facts_goal :=
  cbv beta iota delta [bump negb gen_gil_ensure_incr_unlocked gen_gil_ensure_incr_locked gen_gil_release_plain
                       gen_register_sweeps_first gen_register_sets_local gen_register_incr].

(* ---- 1. the macro registration is total *)
Definition meas (s : state) : nat :=
  match reg s with
  | Some (_, Registering) => 2 * length (zombies s) + 2
  | Some (_, Clearing _ _) => 2 * length (zombies s) + 3
  | Some (_, MakeCanary) => 1
  | None => 1
  end.

Lemma dealloc_len c cf z tl : length (snd (fst (dealloc c cf z tl))) <= length z.
Proof.
  unfold dealloc. destruct (cf c) as [|ts tls zb|]; cbn; auto. destruct zb; auto. apply remove_length_le.
Qed.

Lemma sweep_all_total : forall fuel s, reach s -> meas s <= fuel -> exists s', sweep_all fuel s = Some s'.
Proof.
  induction fuel as [|f IH]; intros s Hr Hm.
  - unfold meas in Hm. destruct (reg s) as [[? [| |]]|]; lia.
  - pose proof (reach_inv s Hr) as HI. cbn [sweep_all]. unfold meas in Hm.
    destruct (reg s) as [[t [|c ts|]]|] eqn:Er.
    + destruct (iJ s HI _ _ Er) as (_ & _ & Hf & _).
      assert (exists s1, step_fn s EvSweepPop = Some s1 /\ meas s1 <= f) as (s1 & E1 & M1).
      { unfold step_fn. rewrite Hf, Er.
        destruct (zombies s) as [|c rest] eqn:Ez.
        - eexists; split; [reflexivity|]. unfold meas; cbn [reg zombies]. cbn [length] in Hm. lia.
        - cbn [length] in Hm.
          destruct (cans s c); (eexists; split; [reflexivity|]); unfold meas; cbn [reg zombies]; rewrite ?Er; lia. }
      rewrite E1. apply IH; auto. eapply r_step; eauto.
    + destruct (iJ s HI _ _ Er) as (_ & _ & Hf & _).
      assert (exists s1, step_fn s EvSweepClear = Some s1 /\ meas s1 <= f) as (s1 & E1 & M1).
      { unfold step_fn. rewrite Hf, Er.
        destruct (tss s ts) as [|o k d|].
        - eexists; split; [reflexivity|]. unfold meas; cbn [reg zombies]. lia.
        - destruct d as [c'|].
          + pose proof (dealloc_len c' (cans s) (zombies s) (tlsc s)) as Hl.
            destruct (dealloc c' (cans s) (zombies s) (tlsc s)) as [[a b] c0]. cbn [fst snd] in Hl.
            eexists; split; [reflexivity|]. unfold meas; cbn [reg zombies]. lia.
          + eexists; split; [reflexivity|]. unfold meas; cbn [reg zombies]. lia.
        - eexists; split; [reflexivity|]. unfold meas; cbn [reg zombies]. lia. }
      rewrite E1. apply IH; auto. eapply r_step; eauto.
    + destruct (iJ s HI _ _ Er) as (_ & _ & Hf & ts & Hg & Hts & _).
      unfold step_fn. rewrite Hf, Er, Hg, Hts. eexists; reflexivity.
    + eexists; reflexivity.
Qed.

Lemma registration_total s t : reach s -> finalized s = false -> thr s t = Alive -> gts s t = None ->
  reg s = None -> incb s t = false ->
  exists s', mstep s (MCb t) = Some s' /\ fatal s' = false /\ zombies s' = [] /\ reg s' = None.
Proof.
  intros Hr Hf Ha Hg Hreg Hi. pose proof (reach_inv s Hr) as HI.
  destruct (iN s HI t Hg) as [_ Ho].
  assert (exists s', mstep s (MCb t) = Some s') as (s' & E).
  { cbn [mstep]. destruct (step_fn s (EvCb t)) as [s1|] eqn:E1.
    - apply sweep_all_total; [eapply r_step; eauto|].
      unfold meas. destruct (reg s1) as [[? [| |]]|]; lia.
    - exfalso. unfold step_fn in E1. rewrite Hf, Ha, Hi in E1. unfold busy in E1.
      rewrite Hreg, Ho, Hg in E1. discriminate. }
  exists s'. split; [exact E|]. split.
  - apply no_fatal. eapply mstep_reach; eauto.
  - eapply registration_empties; eauto.
Qed.

(* ---- 2. the fine-grained sweep frees what was queued when it started *)
Definition sweeping (s : state) : Prop := exists t ph, reg s = Some (t, ph) /\ ph <> MakeCanary.
(* canary c is freed, or a sweep loop is running that still has it in front of it *)
Definition pending (s : state) (c : nat) : Prop :=
  cans s c = CFreed \/
  (sweeping s /\ (In c (zombies s) \/ exists t ts, reg s = Some (t, Clearing c ts))).

Lemma in_remove_or (c c' : nat) z : In c z -> c = c' \/ In c (remove Nat.eq_dec c' z).
Proof. intros H. destruct (Nat.eq_dec c c'); [left; auto|right; apply in_in_remove; auto]. Qed.

Ltac pend_open :=
  unfold do_exit, dealloc in *;
  repeat match goal with
         | H : context [match ?x with _ => _ end] |- _ =>
             lazymatch x with
             | Nat.eq_dec _ _ => fail
             | _ => destruct x eqn:?
             end; try discriminate
         | |- context [match ?x with _ => _ end] =>
             lazymatch x with
             | Nat.eq_dec _ _ => fail
             | _ => destruct x eqn:?
             end
         end;
  norm; fields.

Ltac pend_freed := left; fields; upd_split; congruence.
Ltac pend_sw := right; split; [do 2 eexists; fields; split; [first [eassumption|reflexivity]|congruence]|].

Lemma pending_step s e s' c : Inv s -> step s e s' -> pending s c -> pending s' c.
Proof.
  intros HI Hs Hp. unfold pending, sweeping in *.
  destruct Hp as [Hfr|[(t0 & ph & Hr0 & Hph) Hq]].
  - (* freed canaries stay freed: ids are never reused *)
    left.
    assert (Hlt : c < nextc s).
    { destruct (le_lt_dec (nextc s) c) as [Hle|]; auto. rewrite (iF6 s HI c Hle) in Hfr. discriminate. }
    destruct e; open_step Hs; pend_open; fields; upd_split; try congruence; try lia;
      try (destruct (cans s c); congruence).
  - destruct Hq as [Hin|(t1 & ts1 & Hr1)].
    + (* c is linked *)
      destruct (iC s HI c Hin) as [tsc Hc].
      destruct (iD2 s HI _ _ _ _ Hc) as (oc & kc & Htsc).
      pose proof (iD5 s HI _ _ _ _ _ _ Hc Htsc) as Hex.
      destruct e; open_step Hs; use_busy; pend_open; try congruence;
        try (exfalso; eauto; congruence).
      all: try (pend_sw; left; fields; rewrite ?in_app_iff; auto; fail).
      all: fields.
      all: try match goal with
               | Hin : In _ (_ :: _) |- _ => destruct Hin as [->|Hin]
               | H : zombies _ = _ :: _, Hin : In _ (zombies _) |- _ => rewrite H in Hin; destruct Hin as [->|Hin]
               | H : zombies _ = [], Hin : In _ (zombies _) |- _ => rewrite H in Hin; destruct Hin
               end.
      all: try (pend_sw; first [left; assumption | right; do 2 eexists; reflexivity]; fail).
      all: try (pend_sw; left; assumption).
      all: try match goal with
               | Hin : In ?c (zombies _) |- context [remove Nat.eq_dec ?c' (zombies _)] =>
                   let Hin' := fresh "Hin'" in
                   destruct (in_remove_or c c' _ Hin) as [->|Hin'];
                   [left; fields; rewrite upd_same; reflexivity | pend_sw; left; exact Hin']
               end.
      all: try congruence.
    + (* c has been popped and is about to be cleared: the next sweep step frees it *)
      pose proof (iJ2 s HI _ _ _ Hr1) as Hc.
      destruct (iD2 s HI _ _ _ _ Hc) as (oc & kc & Htsc).
      destruct e; open_step Hs; use_busy; pend_open; try congruence;
        try (exfalso; eauto; congruence).
      all: try (pend_sw; right; do 2 eexists; first [eassumption|reflexivity]; fail).
      all: try (left; fields; upd_split; congruence).
Qed.

Lemma pending_steps s es s' : reach s -> steps s es s' -> forall c, pending s c -> pending s' c.
Proof.
  intros Hr Hs. induction Hs; intros c Hp; auto.
  apply IHHs; [eapply r_step; eauto|]. eapply pending_step; eauto. apply reach_inv; auto.
Qed.

Lemma sweep_frees_initial_zombies s0 t es s1 c :
  reach s0 -> reg s0 = Some (t, Registering) -> steps s0 es s1 -> In c (zombies s0) ->
  (reg s1 = None \/ exists t', reg s1 = Some (t', MakeCanary)) ->
  cans s1 c = CFreed.
Proof.
  intros Hr Hreg Hs Hin Hend.
  assert (Hp : pending s0 c).
  { right. split; [exists t, Registering; split; [auto|discriminate]|left; auto]. }
  destruct (pending_steps _ _ _ Hr Hs c Hp) as [Hf|[(t0 & ph & Hr0 & Hph) _]]; auto.
  exfalso. destruct Hend as [E|[t' E]]; rewrite E in Hr0; [discriminate|].
  inversion Hr0; subst. congruence.
Qed.

(* executable fine-grained runner, for the Examples of C36/Props.v *)
Fixpoint frun (s : state) (es : list event) : option state :=
  match es with
  | [] => Some s
  | e :: rest => match step_fn s e with Some s1 => frun s1 rest | None => None end
  end.

Lemma frun_steps : forall es s s', frun s es = Some s' -> steps s es s'.
Proof.
  induction es as [|e es IH]; intros s s' H; cbn [frun] in H.
  - inversion H; subst. constructor.
  - destruct (step_fn s e) as [s1|] eqn:E; [|discriminate]. econstructor; [exact E|]. apply IH; auto.
Qed.

Lemma frun_reach : forall es s s', reach s -> frun s es = Some s' -> reach s'.
Proof.
  induction es as [|e es IH]; intros s s' Hr H; cbn [frun] in H.
  - inversion H; subst; auto.
  - destruct (step_fn s e) as [s1|] eqn:E; [|discriminate]. eapply IH; [|eauto]. eapply r_step; eauto.
Qed.
