(* C36 — callbacks from non-Python threads get a valid, persistent thread state.
   Statements only; proofs in C36/Proofs.v.  `reach` is closed under every event of every
   thread in any order (C36/Model.v): callbacks (first and later ones, overlapping), the steps of
   the zombie sweep, thread exits (which need no GIL and fall anywhere), interpreter finalization.
   Partial: CPython's PyGILState / PyThreadState internals appear only through counter, dict and
   deletion; allocation failures are not modelled. *)
From Coq Require Import Arith List Bool.
Import ListNotations.
From Cffi Require Import C36.Model C36.Gen C36.Proofs C36.Proofs2.

(* none of the code's Py_FatalError conditions fires, no callback runs on a destroyed thread state,
   no Clear/Delete is applied to a destroyed one, the zombie list never links a freed canary *)
Theorem C36_no_fatal : forall s, reach s -> fatal s = false.
Proof. exact no_fatal. Qed.
Print Assumptions C36_no_fatal.

(* a thread state is deleted at most once ... *)
Theorem C36_deleted_at_most_once : forall s ts, reach s -> ndel s ts <= 1.
Proof. exact deleted_at_most_once. Qed.
Print Assumptions C36_deleted_at_most_once.

(* ... and never while its thread can still call back: a live thread's state is live, owned by it *)
Theorem C36_valid_thread_state : forall s t ts, reach s -> thr s t = Alive -> finalized s = false ->
  gts s t = Some ts -> exists k d, tss s ts = TsLive t k d /\ ndel s ts = 0.
Proof. exact valid_thread_state. Qed.
Print Assumptions C36_valid_thread_state.

(* the thread state (hence threading.local data) of a live foreign thread is the same across its callbacks *)
Theorem C36_persistent : forall s e s' t ts, reach s -> step s e s' ->
  gts s t = Some ts -> thr s' t = Alive -> finalized s' = false -> gts s' t = Some ts.
Proof. exact persistent. Qed.
Print Assumptions C36_persistent.

(* the counter accounts for every unreturned entry: the keep-alive reference of
   thread_canary_register, the outer callback, every callback entered with the GIL already held
   (gil_ensure's PyGILState_LOCKED branch) and the thread's own PyGILState_Ensure; in particular it is
   at least 2 inside a callback, so no gil_release / PyGILState_Release destroys the state *)
Theorem C36_counter_keeps_alive : forall s t ts k d, reach s -> thr s t = Alive -> gts s t = Some ts ->
  tss s ts = TsLive t k d ->
  (reg s = None -> 1 + (if incb s t then 1 else 0) + nest s t + (if ownb s t then 1 else 0) <= k) /\
  (incb s t = true -> 2 <= k).
Proof. exact counter_keeps_alive. Qed.
Print Assumptions C36_counter_keeps_alive.

(* different live threads never share a thread state *)
Theorem C36_distinct : forall s t1 t2 ts, reach s -> finalized s = false ->
  thr s t1 = Alive -> thr s t2 = Alive -> gts s t1 = Some ts -> gts s t2 = Some ts -> t1 = t2.
Proof. exact distinct_threads_distinct_states. Qed.
Print Assumptions C36_distinct.

(* a canary is in the zombie list at most once; every linked canary is allocated, marked, holds a
   live thread state whose thread has exited *)
Theorem C36_zombies_ok : forall s, reach s ->
  NoDup (zombies s) /\
  forall c, In c (zombies s) -> exists ts o k, cans s c = CAlive ts None true /\
                                               tss s ts = TsLive o k (Some c) /\ thr s o = Exited.
Proof. exact zombies_ok. Qed.
Print Assumptions C36_zombies_ok.

(* no pointer to a freed canary: tls->local_thread_canary and the thread-state dict entries are allocated canaries *)
Theorem C36_canary_pointers_valid : forall s, reach s ->
  (forall t c, tlsc s t = Some (Some c) -> exists ts, cans s c = CAlive ts (Some t) false /\ thr s t = Alive) /\
  (forall ts o k c, tss s ts = TsLive o k (Some c) -> exists tl z, cans s c = CAlive ts tl z).
Proof. exact canary_pointers_valid. Qed.
Print Assumptions C36_canary_pointers_valid.

(* thread exits do not leak thread states: the state of an exited thread is destroyed, or queued
   in the zombie list (destroyed by the next registration), or being destroyed right now — unless
   its canary had been deallocated under cffi's feet while the thread was alive (EvDictDrop: then
   the extra gilstate_counter reference is never given back and the state lives until Py_Finalize;
   it stays valid and private to its thread, see C36_valid_thread_state / C36_distinct) *)
Theorem C36_no_leak : forall s t ts, reach s -> thr s t = Exited -> gts s t = Some ts ->
  tss s ts = TsDeleted \/
  (exists c, In c (zombies s) /\ cans s c = CAlive ts None true) \/
  (exists t' c, reg s = Some (t', Clearing c ts)) \/
  dropped s ts = true.
Proof. exact no_leak. Qed.
Print Assumptions C36_no_leak.

(* the zombie list is bounded by the exited-but-unswept threads: two linked canaries never belong
   to the same thread (each zombie is the canary of a distinct exited thread, by C36_zombies_ok) *)
Theorem C36_zombies_distinct_threads : forall s c1 c2 ts1 ts2 o k1 k2, reach s ->
  In c1 (zombies s) -> In c2 (zombies s) ->
  tss s ts1 = TsLive o k1 (Some c1) -> tss s ts2 = TsLive o k2 (Some c2) -> c1 = c2.
Proof. exact zombies_distinct_threads. Qed.
Print Assumptions C36_zombies_distinct_threads.

(* the next thread_canary_register of ANY thread (a first callback run to completion) empties it *)
Theorem C36_registration_empties : forall s t s', gts s t = None -> mstep s (MCb t) = Some s' ->
  zombies s' = [] /\ reg s' = None.
Proof. exact registration_empties. Qed.
Print Assumptions C36_registration_empties.

(* ... and with an empty list and no sweep in progress every exited thread's state is destroyed
   (or had lost its canary while alive).  Residual leak, stated explicitly: the states of threads that
   exited after the LAST registration stay queued (C36_no_leak, second disjunct) until another
   foreign thread registers or the interpreter finalizes; nothing else frees them. *)
Theorem C36_swept_means_destroyed : forall s t ts, reach s -> zombies s = [] -> reg s = None ->
  thr s t = Exited -> gts s t = Some ts -> tss s ts = TsDeleted \/ dropped s ts = true.
Proof. exact swept_means_destroyed. Qed.
Print Assumptions C36_swept_means_destroyed.

(* ---- the list at pointer level: the regenerated code of thread_canary_make_zombie and
   _thread_canary_detach_with_lock (C36/Gen.v) on a doubly linked ring through cffi_zombie_head
   (`ring h l`: following zombie_next from the head visits exactly l and returns, zombie_prev visits
   rev l, unlinked canaries have NULL fields) implements the sequence operations of the model *)
Theorem C36_ring_empty : ring heap0 [].
Proof. exact ring_empty. Qed.
Theorem C36_make_zombie_appends : forall h l c, ring h l -> ~ In c (0 :: l) ->
  exists e' h', exec_p gen_make_zombie (env0 c) h = Some (e', h') /\ ring h' (l ++ [c]).
Proof. exact make_zombie_appends. Qed.
Print Assumptions C36_make_zombie_appends.
Theorem C36_detach_removes : forall h l c, ring h l -> In c l ->
  exists e' h', exec_p gen_detach (env0 c) h = Some (e', h') /\ ring h' (remove Nat.eq_dec c l).
Proof. exact detach_removes. Qed.
Print Assumptions C36_detach_removes.
(* what the sweep reads: head.next is the first element; it is the head itself iff the list is empty *)
Theorem C36_ring_head : forall h l, ring h l -> hnext h 0 = Some (hd 0 l) /\ (hd 0 l = 0 <-> l = []).
Proof. exact ring_head. Qed.
Print Assumptions C36_ring_head.
(* the test `ob->zombie_next != NULL` of dealloc / make_zombie means "linked" *)
Theorem C36_ring_linked_iff : forall h l c, ring h l -> c <> 0 -> (hnext h c <> None <-> In c l).
Proof. exact ring_linked_iff. Qed.
Print Assumptions C36_ring_linked_iff.
Theorem C36_make_zombie_guarded : gen_make_zombie_guarded = true.
Proof. reflexivity. Qed.

(* regenerated from gil_ensure / gil_release: with an existing thread state the counter is incremented
   exactly once on BOTH paths — the one that takes the GIL (model event EvCb, returns PyGILState_UNLOCKED)
   and the one entered with the GIL already held (EvCbNested, returns PyGILState_LOCKED) — and gil_release
   is PyGILState_Release(oldstate), which decrements on both (EvCbEnd / EvCbNestedEnd).  The model's events
   assume exactly this; an increment missing on one path makes the corresponding fact false. *)
Theorem C36_gen_gil_ensure_counts :
  gen_gil_ensure_incr_unlocked = true /\ gen_gil_ensure_incr_locked = true /\ gen_gil_release_plain = true.
Proof. repeat split; reflexivity. Qed.
Print Assumptions C36_gen_gil_ensure_counts.

Theorem C36_runner_sound : forall s e s', reach s -> mstep s e = Some s' -> reach s'.
Proof. exact mstep_reach. Qed.
Print Assumptions C36_runner_sound.

(* the line `ob->tls->local_thread_canary = NULL` of thread_canary_dealloc is what keeps
   C36_canary_pointers_valid true across EvDictDrop / EvFinalize: after the canary of a live thread
   has been deallocated, the thread's tls points to no canary, so its later exit links nothing *)
Theorem C36_drop_clears_backpointer : forall s t s', reach s -> step s (EvDictDrop t) s' ->
  tlsc s' t = Some None /\ exists ts, gts s' t = Some ts /\ dropped s' ts = true /\
  exists k, tss s' ts = TsLive t k None.
Proof. exact drop_clears_backpointer. Qed.
Print Assumptions C36_drop_clears_backpointer.

Example C36_example_drop :
  mrun 2 init [MCb 0; MDrop 0; MCbEnd 0; MCb 0; MCbEnd 0; MExit 0; MCb 1; MCbEnd 1; MExit 1]
  = Some [[1;0;0;0]; [0;0;0;0]; [0;0;0;0]; [1;0;0;0]; [0;0;0;0]; [0;0;0;0]; [2;0;0;0]; [0;0;0;0]; [0;0;0;0]].
Proof. vm_compute. reflexivity. Qed.

(* callbacks entered with the GIL held (nested in an outer callback; inside the thread's own
   PyGILState_Ensure bracket) keep the same thread state, before and after *)
Example C36_example_gil_held :
  mrun 2 init [MCb 0; MNest 0; MNest 0; MCbEnd 0; MOwn 0; MCb 0; MCbEnd 0; MOwn 0; MExit 0; MCb 1; MCbEnd 1]
  = Some [[1;0;0;0]; [1;0;0;0]; [1;0;0;0]; [0;0;0;0]; [1;0;0;0]; [1;0;0;0]; [0;0;0;0]; [1;0;0;0]; [0;0;0;0];
          [2;1;0;0]; [0;1;0;0]].
Proof. vm_compute. reflexivity. Qed.

(* non-vacuity: two threads call back, overlap, thread 0 exits, a third thread's first callback
   sweeps its state; then finalization *)
Example C36_example :
  mrun 3 init [MCb 0; MCb 1; MCbEnd 0; MCb 0; MCbEnd 0; MExit 0; MCbEnd 1; MCb 2; MCbEnd 2; MCb 1; MCbEnd 1; MFinalize]
  = Some [[1;0;0;0;0]; [2;0;0;0;0]; [0;0;0;0;0]; [1;0;0;0;0]; [0;0;0;0;0]; [0;0;0;0;0]; [0;0;0;0;0];
          [3;1;0;0;0]; [0;1;0;0;0]; [2;1;0;0;0]; [0;1;0;0;0]; [0;1;1;1;0]].
Proof. vm_compute. reflexivity. Qed.
